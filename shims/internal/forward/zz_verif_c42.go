//go:build verif

package forward

// VerifC42ResolveDest exposes resolveDest to the verification harness.
func VerifC42ResolveDest(dest string, pathName string, matches []string) string {
	return resolveDest(dest, pathName, matches)
}
