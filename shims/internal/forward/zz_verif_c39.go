//go:build verif

package forward

import (
	"context"

	"github.com/bluenviron/mediamtx/internal/stream"
)

// VerifC39Probe is a point-in-time observation of one DestHandler, taken by the goroutine that
// drives the Manager (start/stop write these fields on that same goroutine, so no lock is needed).
type VerifC39Probe struct {
	H    *DestHandler
	Done <-chan struct{} // nil: never started; open: the run goroutine exists; closed: it has ended
	Ctx  context.Context // nil: never started
}

// VerifC39Handlers returns the handlers currently held by the manager, in list order.
func VerifC39Handlers(m *Manager) []*DestHandler {
	m.mutex.RLock()
	defer m.mutex.RUnlock()
	return append([]*DestHandler(nil), m.destHandlers...)
}

// VerifC39ProbeHandler observes the run state of a handler.
func VerifC39ProbeHandler(h *DestHandler) VerifC39Probe {
	p := VerifC39Probe{H: h, Ctx: h.ctx}
	if h.done != nil {
		p.Done = h.done
	}
	return p
}

// VerifC39ManagerState returns the manager's started flag and the stream it holds.
func VerifC39ManagerState(m *Manager) (bool, *stream.Stream) {
	return m.started, m.stream
}
