//go:build verif

package forward

import (
	"context"
	"fmt"
	"reflect"
	"strings"
	"unsafe"

	"github.com/bluenviron/mediamtx/internal/stream"
)

// This shim observes Manager / DestHandler WITHOUT naming any private field or method, so that a
// refactor of the manager's private bookkeeping (renamed, dropped or added fields) neither breaks
// the build of the check nor changes what is judged. Private fields are located by TYPE through
// reflection and read through unsafe; the field name is only a tie-breaker when several fields
// have the wanted type. Only two facts are indispensable:
//   - the list of handlers the manager holds (a field of type []*DestHandler),
//   - per handler, a channel that is open exactly while its run goroutine lives (a field of type
//     chan struct{}; fallback: the Done() channel of a context.Context field).
// Everything else (started flag, stream pointer, ...) is optional and only feeds the state key or
// an optional consistency check.

// VerifC39Probe is a point-in-time observation of one DestHandler, taken by the goroutine that
// drives the Manager (start/stop write these fields on that same goroutine, so no lock is needed).
type VerifC39Probe struct {
	H    *DestHandler
	Done <-chan struct{} // nil: never started; open: the run goroutine exists; closed: it has ended
}

// verifC39Field finds the field of the struct pointed to by obj whose type is want. With several
// candidates the one called prefer wins; otherwise the lookup is ambiguous and fails.
func verifC39Field(obj any, want reflect.Type, prefer string) (unsafe.Pointer, string, bool) {
	v := reflect.ValueOf(obj).Elem()
	t := v.Type()
	var found []int
	for i := 0; i < t.NumField(); i++ {
		if t.Field(i).Type == want {
			found = append(found, i)
		}
	}
	pick := -1
	switch {
	case len(found) == 1:
		pick = found[0]
	case len(found) > 1:
		for _, i := range found {
			if t.Field(i).Name == prefer {
				pick = i
			}
		}
	}
	if pick < 0 {
		return nil, "", false
	}
	return unsafe.Pointer(v.Field(pick).UnsafeAddr()), t.Field(pick).Name, true
}

// VerifC39Handlers returns the handlers currently held by the manager, in list order.
// ok=false: the manager has no (unambiguous) field of type []*DestHandler.
func VerifC39Handlers(m *Manager) ([]*DestHandler, bool) {
	p, _, ok := verifC39Field(m, reflect.TypeOf([]*DestHandler(nil)), "destHandlers")
	if !ok {
		return nil, false
	}
	return append([]*DestHandler(nil), *(*[]*DestHandler)(p)...), true
}

// VerifC39ProbeHandler observes the run state of a handler. ok=false: the handler exposes neither
// a chan struct{} field nor a context.Context field.
func VerifC39ProbeHandler(h *DestHandler) (VerifC39Probe, bool) {
	pr := VerifC39Probe{H: h}
	if p, _, ok := verifC39Field(h, reflect.TypeOf((chan struct{})(nil)), "done"); ok {
		if c := *(*chan struct{})(p); c != nil {
			pr.Done = c
		}
		return pr, true
	}
	if p, _, ok := verifC39Field(h, reflect.TypeOf((*context.Context)(nil)).Elem(), "ctx"); ok {
		if c := *(*context.Context)(p); c != nil {
			pr.Done = c.Done()
		}
		return pr, true
	}
	return pr, false
}

// VerifC39ManagerStream returns the stream the manager remembers, if it remembers one at all
// (optional private bookkeeping: ok=false when there is no unambiguous *stream.Stream field).
func VerifC39ManagerStream(m *Manager) (*stream.Stream, bool) {
	p, _, ok := verifC39Field(m, reflect.TypeOf((*stream.Stream)(nil)), "stream")
	if !ok {
		return nil, false
	}
	return *(**stream.Stream)(p), true
}

// VerifC39ManagerFingerprint abstracts whatever private control state the manager keeps, without
// knowing its names: every unexported bool field with its value, every unexported pointer /
// interface / func / chan / map field with its nil-ness. It only feeds the state key of the search
// (states that differ in private bookkeeping are not merged); it is never judged.
func VerifC39ManagerFingerprint(m *Manager) string {
	v := reflect.ValueOf(m).Elem()
	t := v.Type()
	var b strings.Builder
	for i := 0; i < t.NumField(); i++ {
		f := t.Field(i)
		if f.IsExported() {
			continue
		}
		switch f.Type.Kind() {
		case reflect.Bool:
			fmt.Fprintf(&b, "%s=%v ", f.Name, *(*bool)(unsafe.Pointer(v.Field(i).UnsafeAddr())))
		case reflect.Pointer, reflect.Interface, reflect.Func, reflect.Chan, reflect.Map:
			if v.Field(i).IsNil() {
				fmt.Fprintf(&b, "%s=nil ", f.Name)
			} else {
				fmt.Fprintf(&b, "%s=set ", f.Name)
			}
		}
	}
	return strings.TrimSpace(b.String())
}
