//go:build verif

package rtmp

import "time"

// VerifC24MultiplyAndDivide exposes multiplyAndDivide (to_stream.go).
func VerifC24MultiplyAndDivide(v, m, d int64) int64 { return multiplyAndDivide(v, m, d) }

// VerifC24DurationToTimestamp exposes durationToTimestamp (to_stream.go).
func VerifC24DurationToTimestamp(d time.Duration, clockRate int) int64 {
	return durationToTimestamp(d, clockRate)
}

// VerifC24MultiplyAndDivide2 exposes multiplyAndDivide2 (from_stream.go).
func VerifC24MultiplyAndDivide2(v, m, d time.Duration) time.Duration {
	return multiplyAndDivide2(v, m, d)
}

// VerifC24TimestampToDuration exposes timestampToDuration (from_stream.go).
func VerifC24TimestampToDuration(t int64, clockRate int) time.Duration {
	return timestampToDuration(t, clockRate)
}
