//go:build verif

package hls

// VerifC24MultiplyAndDivide exposes multiplyAndDivide.
func VerifC24MultiplyAndDivide(v, m, d int64) int64 { return multiplyAndDivide(v, m, d) }
