//go:build verif

package httpp

import "net"

// VerifC05IsOriginAllowed exposes isOriginAllowed.
func VerifC05IsOriginAllowed(origin string, allowOrigins []string) (string, bool) {
	return isOriginAllowed(origin, allowOrigins)
}

// VerifC05Addr returns the address of the server's listener.
func (s *Server) VerifC05Addr() net.Addr {
	return s.ln.Addr()
}
