//go:build verif

package httpp

import (
	"net"
	"sort"
)

// VerifC07Addr returns the address of the server's listener.
func (s *Server) VerifC07Addr() net.Addr {
	return s.ln.Addr()
}

// VerifC07HeadersToRedact returns the names in requestHeadersToRedact (so that names added later are enumerated too).
func VerifC07HeadersToRedact() []string {
	var out []string
	for k := range requestHeadersToRedact {
		out = append(out, k)
	}
	sort.Strings(out)
	return out
}
