//go:build verif

package httpp

import (
	"net"
	"net/http"
	"sort"

	"github.com/bluenviron/mediamtx/internal/logger"
)

// VerifC07Addr returns the address of the server's listener.
func (s *Server) VerifC07Addr() net.Addr {
	return s.ln.Addr()
}

// VerifC07HeadersToRedact returns the names in requestHeadersToRedact (so that names added later are enumerated too).
func VerifC07HeadersToRedact() []string {
	var out []string
	for k := range requestHeadersToRedact {
		out = append(out, k)
	}
	sort.Strings(out)
	return out
}

// VerifC07DumpRequest calls the request dumper of the logging handler.
func VerifC07DumpRequest(req *http.Request) []byte {
	return dumpRequest(req)
}

// VerifC07HandlerLogger returns the logging handler (the one Server.Initialize installs) around h.
func VerifC07HandlerLogger(h http.Handler, log logger.Writer) http.Handler {
	return &handlerLogger{h: h, log: log}
}

// VerifC07MaxRequestBodySizeToLog returns the number of request body bytes the logger peeks at.
func VerifC07MaxRequestBodySizeToLog() int {
	return maxRequestBodySizeToLog
}
