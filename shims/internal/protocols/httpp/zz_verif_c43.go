//go:build verif

package httpp

import "net"

// VerifC43ListenAddr returns the address the server listens on (needed with port 0).
func VerifC43ListenAddr(s *Server) net.Addr {
	return s.ln.Addr()
}
