//go:build verif

package httpp

import "net"

// VerifC04Addr returns the address of the server's listener (servers are started on port 0).
func (s *Server) VerifC04Addr() net.Addr {
	return s.ln.Addr()
}
