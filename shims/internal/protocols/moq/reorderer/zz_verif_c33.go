//go:build verif

package reorderer

import (
	"reflect"

	"github.com/bluenviron/mediamtx/internal/protocols/moq/subgroup"
)

// VerifC33Held is one entry of the pending map.
type VerifC33Held struct {
	ID uint64
	SG *subgroup.SubGroup
}

// VerifC33State returns a read-only snapshot of every mutable field of the Reorderer
// (the entries of the pending map are appended to buf, in map order). It takes the mutex like Push does.
func VerifC33State(r *Reorderer, buf []VerifC33Held) (initialized bool, cur uint64, pendingBytes int, pending []VerifC33Held) {
	r.mu.Lock()
	defer r.mu.Unlock()
	for k, v := range r.pending {
		buf = append(buf, VerifC33Held{k, v})
	}
	return r.initialized, r.curGroupID, r.pendingBytes, buf
}

// VerifC33Fields returns the field names of Reorderer, so that the harness notices
// when a field is added that its state key does not cover.
func VerifC33Fields() []string {
	t := reflect.TypeOf(Reorderer{})
	out := make([]string, t.NumField())
	for i := range out {
		out[i] = t.Field(i).Name
	}
	return out
}
