//go:build verif

package reorderer

import (
	"reflect"

	"github.com/bluenviron/mediamtx/internal/protocols/moq/subgroup"
)

// VerifC33State returns a read-only snapshot of every mutable field of the Reorderer
// (the pending map is copied). It takes the mutex like Push does.
func VerifC33State(r *Reorderer) (initialized bool, cur uint64, pendingBytes int, pending map[uint64]*subgroup.SubGroup) {
	r.mu.Lock()
	defer r.mu.Unlock()
	pending = make(map[uint64]*subgroup.SubGroup, len(r.pending))
	for k, v := range r.pending {
		pending[k] = v
	}
	return r.initialized, r.curGroupID, r.pendingBytes, pending
}

// VerifC33Fields returns the field names of Reorderer, so that the harness notices
// when a field is added that its state key does not cover.
func VerifC33Fields() []string {
	t := reflect.TypeOf(Reorderer{})
	out := make([]string, t.NumField())
	for i := range out {
		out[i] = t.Field(i).Name
	}
	return out
}
