//go:build verif

package webrtc

import (
	"time"

	"github.com/bluenviron/gortsplib/v5/pkg/description"
	"github.com/bluenviron/gortsplib/v5/pkg/rtpsender"
	"github.com/pion/rtcp"
	"github.com/pion/webrtc/v4"

	"github.com/bluenviron/mediamtx/internal/stream"
)

// VerifC24MultiplyAndDivide2 exposes multiplyAndDivide2.
func VerifC24MultiplyAndDivide2(v, m, d time.Duration) time.Duration {
	return multiplyAndDivide2(v, m, d)
}

// VerifC24TimestampToDuration exposes timestampToDuration.
func VerifC24TimestampToDuration(t int64, clockRate int) time.Duration {
	return timestampToDuration(t, clockRate)
}

// VerifC24PayloadMaxSize is the packet payload limit the audio branches give to their RTP encoders.
const VerifC24PayloadMaxSize = webrtcPayloadMaxSize

// VerifC24SetupAudioTrack exposes setupAudioTrack (the audio half of FromStream): it registers the real per-unit
// callback on r.
func VerifC24SetupAudioTrack(desc *description.Session, r *stream.Reader) (*OutboundTrack, error) {
	return setupAudioTrack(desc, r)
}

// VerifC24ProbeTrack gives the track what OutboundTrack.setup would give it, without a peer connection: a local
// track without bindings (WriteRTP has no receiver) and a RTCP sender that never reports (ClockRate 0) but
// records the (RTP time, NTP time) pair of the last packet handed to WriteRTPWithNTP.
func VerifC24ProbeTrack(t *OutboundTrack) error {
	var err error
	t.track, err = webrtc.NewTrackLocalStaticRTP(t.Caps, "audio", webrtcStreamID)
	if err != nil {
		return err
	}
	t.rtcpSender = &rtpsender.Sender{
		ClockRate:       0,
		Period:          time.Hour,
		TimeNow:         func() time.Time { return time.Unix(0, 0) },
		WritePacketRTCP: func(rtcp.Packet) {},
	}
	t.rtcpSender.Initialize()
	return nil
}

// VerifC24TrackLast returns the RTP and NTP time of the last packet written to the track and the packet count.
func VerifC24TrackLast(t *OutboundTrack) (uint32, time.Time, uint64, bool) {
	st := t.rtcpSender.Stats()
	if st == nil {
		return 0, time.Time{}, 0, false
	}
	return st.LastRTP, st.LastNTP, st.Sent, true
}

// VerifC24CloseTrack exposes OutboundTrack.close.
func VerifC24CloseTrack(t *OutboundTrack) { t.close() }
