//go:build verif

package webrtc

import "time"

// VerifC24MultiplyAndDivide2 exposes multiplyAndDivide2.
func VerifC24MultiplyAndDivide2(v, m, d time.Duration) time.Duration {
	return multiplyAndDivide2(v, m, d)
}

// VerifC24TimestampToDuration exposes timestampToDuration.
func VerifC24TimestampToDuration(t int64, clockRate int) time.Duration {
	return timestampToDuration(t, clockRate)
}
