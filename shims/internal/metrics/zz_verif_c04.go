//go:build verif

package metrics

import (
	"net"

	"github.com/gin-gonic/gin"
)

// VerifC04Routes returns the routes registered on the metrics gin router.
func VerifC04Routes(m *Metrics) gin.RoutesInfo {
	return m.httpServer.Handler.(*gin.Engine).Routes()
}

// VerifC04Addr returns the listener address.
func VerifC04Addr(m *Metrics) net.Addr {
	return m.httpServer.VerifC04Addr()
}
