//go:build verif

package metrics //nolint:revive

import (
	"net/http"

	"github.com/gin-gonic/gin"
)

// VerifC36Serve runs the real /metrics handler (onMetrics) on a request, without the
// listener and the authentication middleware.
func (m *Metrics) VerifC36Serve(w http.ResponseWriter, r *http.Request) {
	ctx, _ := gin.CreateTestContext(w)
	ctx.Request = r
	m.onMetrics(ctx)
}
