//go:build verif

package ntpestimator

import "time"

// VerifC25SetClock replaces the package clock (the timeNow seam used by the package's own test).
func VerifC25SetClock(f func() time.Time) {
	timeNow = f
}

// VerifC25Anchor exposes the estimator's reference point (for the canonical state key only).
func (e *Estimator) VerifC25Anchor() (time.Time, int64) {
	return e.refNTP, e.refPTS
}
