//go:build verif

package ntpestimator

import "time"

// VerifC24MultiplyAndDivide exposes multiplyAndDivide.
func VerifC24MultiplyAndDivide(v, m, d time.Duration) time.Duration {
	return multiplyAndDivide(v, m, d)
}
