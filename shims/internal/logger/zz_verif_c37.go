//go:build verif

package logger

import (
	"io"
	"time"
)

// VerifC37New returns an initialized Logger whose clock and standard output are
// replaced through the package's own test seams (timeNow, stdout).
func VerifC37New(dests []Destination, structured bool, file string, level Level,
	now func() time.Time, stdout io.Writer,
) (*Logger, error) {
	l := &Logger{
		Level:        level,
		Destinations: dests,
		Structured:   structured,
		File:         file,
		timeNow:      now,
		stdout:       stdout,
	}
	err := l.Initialize()
	if err != nil {
		return nil, err
	}
	return l, nil
}

// VerifC37NewStdoutColor returns a Logger with one stdout destination whose answer to "is the
// process' standard output a terminal" is given by the caller (the value newDestionationStdout
// obtains from term.IsTerminal), for hosts on which no pseudo-terminal can be opened. Records go
// through the real Logger.Log and the real destinationStdout.log.
func VerifC37NewStdoutColor(structured bool, level Level, now func() time.Time, stdout io.Writer, useColor bool) *Logger {
	return &Logger{
		Level:        level,
		Destinations: []Destination{DestinationStdout},
		Structured:   structured,
		timeNow:      now,
		stdout:       stdout,
		destinations: []destination{&destinationStdout{structured: structured, stdout: stdout, useColor: useColor}},
	}
}

// VerifC37StdoutIsTerminal reports what the stdout destination of an initialized Logger detected
// about the process' standard output (ok is false when the Logger has no stdout destination).
func VerifC37StdoutIsTerminal(l *Logger) (isTerminal bool, ok bool) {
	for _, d := range l.destinations {
		if sd, is := d.(*destinationStdout); is {
			return sd.useColor, true
		}
	}
	return false, false
}
