//go:build verif

package logger

import (
	"io"
	"time"
)

// VerifC37New returns an initialized Logger whose clock and standard output are
// replaced through the package's own test seams (timeNow, stdout).
func VerifC37New(dests []Destination, structured bool, file string, level Level,
	now func() time.Time, stdout io.Writer,
) (*Logger, error) {
	l := &Logger{
		Level:        level,
		Destinations: dests,
		Structured:   structured,
		File:         file,
		timeNow:      now,
		stdout:       stdout,
	}
	err := l.Initialize()
	if err != nil {
		return nil, err
	}
	return l, nil
}
