//go:build verif

package api

import (
	"net"

	"github.com/gin-gonic/gin"
)

// VerifC04Routes returns the routes registered on the API's gin router.
func VerifC04Routes(a *API) gin.RoutesInfo {
	return a.httpServer.Handler.(*gin.Engine).Routes()
}

// VerifC04Addr returns the address the API listens on (useful with port 0).
func VerifC04Addr(a *API) net.Addr {
	return a.httpServer.VerifC04Addr()
}
