//go:build verif

package api

import (
	"net"

	"github.com/gin-gonic/gin"
)

// VerifC07Routes returns the routes registered on the API's gin router.
func VerifC07Routes(a *API) gin.RoutesInfo {
	return a.httpServer.Handler.(*gin.Engine).Routes()
}

// VerifC07Addr returns the address the API listens on.
func VerifC07Addr(a *API) net.Addr {
	return a.httpServer.VerifC07Addr()
}
