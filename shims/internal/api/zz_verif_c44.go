//go:build verif

package api

// VerifPaginate exposes paginate to the verification harness.
func VerifPaginate(itemsPtr any, itemsPerPageStr string, pageStr string) (int, error) {
	return paginate(itemsPtr, itemsPerPageStr, pageStr)
}

// VerifPaginate2 exposes paginate2 to the verification harness.
func VerifPaginate2(itemsPtr any, itemsPerPage int, page int) int {
	return paginate2(itemsPtr, itemsPerPage, page)
}
