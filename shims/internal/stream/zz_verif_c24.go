//go:build verif

package stream

import (
	"time"

	"github.com/bluenviron/gortsplib/v5/pkg/description"
	"github.com/bluenviron/gortsplib/v5/pkg/format"
)

// VerifC24MultiplyAndDivide exposes multiplyAndDivide (stream_format.go).
func VerifC24MultiplyAndDivide(v, m, d int64) int64 { return multiplyAndDivide(v, m, d) }

// VerifC24MultiplyAndDivide2 exposes multiplyAndDivide2 (offline_sub_stream.go).
func VerifC24MultiplyAndDivide2(v, m, d time.Duration) time.Duration {
	return multiplyAndDivide2(v, m, d)
}

// VerifC24ReaderCallback returns the callback a protocol mapper (mpegts/rtmp/moq/webrtc FromStream, the recorder
// formats) registered on r with OnData for (media, forma), or nil. The C24 call-site family invokes the real
// closure synchronously with hand-made units instead of going through the reader's queue goroutine.
func VerifC24ReaderCallback(r *Reader, media *description.Media, forma format.Format) OnDataFunc {
	return r.onDatas[media][forma]
}
