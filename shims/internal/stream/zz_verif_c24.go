//go:build verif

package stream

import "time"

// VerifC24MultiplyAndDivide exposes multiplyAndDivide (stream_format.go).
func VerifC24MultiplyAndDivide(v, m, d int64) int64 { return multiplyAndDivide(v, m, d) }

// VerifC24MultiplyAndDivide2 exposes multiplyAndDivide2 (offline_sub_stream.go).
func VerifC24MultiplyAndDivide2(v, m, d time.Duration) time.Duration {
	return multiplyAndDivide2(v, m, d)
}
