//go:build verif

package stream

// VerifC27Barrier blocks until the reader goroutine has executed every callback
// that was pushed into its queue before this call (a fence pushed through the real queue).
// It returns false when the reader has stopped (the fence can never run).
func VerifC27Barrier(r *Reader, stopped <-chan struct{}) bool {
	ch := make(chan struct{})
	r.push(func() error {
		close(ch)
		return nil
	})
	select {
	case <-ch:
		return true
	case <-stopped:
		return false
	}
}
