//go:build verif

package stream

import (
	"github.com/bluenviron/gortsplib/v5/pkg/format"
	"github.com/pion/rtp"

	"github.com/bluenviron/mediamtx/internal/unit"
)

// VerifC23NewRTPEncoder exposes newRTPEncoder (used by the harness only to build the packets of a simulated
// RTP publisher with a payload size larger than the stream's maximum).
func VerifC23NewRTPEncoder(forma format.Format, rtpMaxPayloadSize int, ssrc uint32, seq uint16,
) (func(unit.Payload) ([]*rtp.Packet, error), error) {
	e, err := newRTPEncoder(forma, rtpMaxPayloadSize, &ssrc, &seq)
	if err != nil {
		return nil, err
	}
	return e.encode, nil
}

// VerifC23NewRTPDecoder exposes newRTPDecoder. It returns nil when no decoder exists for the format.
func VerifC23NewRTPDecoder(forma format.Format) (func(*rtp.Packet) (unit.Payload, error), error) {
	d, err := newRTPDecoder(forma)
	if err != nil {
		return nil, err
	}
	if d == nil {
		return nil, nil
	}
	return d.decode, nil
}
