//go:build verif

package hls

import (
	"fmt"
	"net"
	"net/http"

	"github.com/google/uuid"

	"github.com/bluenviron/mediamtx/internal/protocols/httpp"
)

// VerifC43ListenAddr returns the TCP address of the HLS HTTP listener.
func VerifC43ListenAddr(s *Server) net.Addr {
	return httpp.VerifC43ListenAddr(s.httpServer.inner)
}

// VerifC43DirectHandle hands a request directly to the gohlslib muxer of a path, bypassing the
// session / CDN check of httpServer.onRequest. The harness uses it only to learn, out of band and
// without changing the server state, which file names exist and what their bodies are.
func VerifC43DirectHandle(s *Server, pathName string, w http.ResponseWriter, r *http.Request) error {
	m, err := s.getMuxer(serverGetMuxerReq{path: pathName, create: false})
	if err != nil {
		return err
	}
	m.mutex.RLock()
	instance := m.instance
	m.mutex.RUnlock()
	if instance == nil {
		return fmt.Errorf("muxer instance not available")
	}
	instance.hmuxer.Handle(w, r)
	return nil
}

// VerifC43Session is the property-relevant part of a session record.
type VerifC43Session struct {
	ID     uuid.UUID
	Secret uuid.UUID
	IP     string
	Path   string
	IsCDN  bool
}

// VerifC43Sessions lists the session records a path's muxer currently holds.
func VerifC43Sessions(s *Server, pathName string) []VerifC43Session {
	m, err := s.getMuxer(serverGetMuxerReq{path: pathName, create: false})
	if err != nil {
		return nil
	}
	m.mutex.RLock()
	defer m.mutex.RUnlock()
	var out []VerifC43Session
	for _, sx := range m.sessionsBySecret {
		out = append(out, VerifC43Session{ID: sx.uuid, Secret: sx.secret, IP: sx.ip, Path: sx.pathName})
	}
	if m.cdnSession != nil {
		sx := m.cdnSession
		out = append(out, VerifC43Session{ID: sx.uuid, Secret: sx.secret, IP: sx.ip, Path: sx.pathName, IsCDN: true})
	}
	return out
}
