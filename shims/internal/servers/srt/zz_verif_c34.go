//go:build verif

package srt

// VerifC34StreamID is the exported image of a decoded stream id.
type VerifC34StreamID struct {
	Publish bool
	Path    string
	Query   string
	User    string
	Pass    string
}

// VerifC34StreamIDUnmarshal exposes streamID.unmarshal to the verification harness.
func VerifC34StreamIDUnmarshal(raw string) (VerifC34StreamID, error) {
	var s streamID
	err := s.unmarshal(raw)
	return VerifC34StreamID{
		Publish: s.mode == streamIDModePublish,
		Path:    s.path,
		Query:   s.query,
		User:    s.user,
		Pass:    s.pass,
	}, err
}
