//go:build verif

package moq

import (
	"sync"

	"github.com/bluenviron/mediamtx/internal/defs"
	"github.com/bluenviron/mediamtx/internal/logger"
)

// VerifC35SConn exports the transport seam of a session.
type VerifC35SConn = conn

// VerifC35SPathManager exports the path manager seam of a session.
type VerifC35SPathManager = serverPathManager

type verifC35SParent struct {
	onClosed func()
	onLog    func(string)
}

func (p *verifC35SParent) closeSession(_ *session) { p.onClosed() }

func (p *verifC35SParent) Log(_ logger.Level, _ string, _ ...any) {}

// VerifC35SSession is a session created the way Server.run creates it.
type VerifC35SSession struct {
	sx *session
	wg *sync.WaitGroup
}

// VerifC35SNewSession is the body of the chNewSession case of Server.run with the server replaced by a stub parent.
func VerifC35SNewSession(c conn, pathName string, version defs.APIMoQVersion, pm serverPathManager, onClosed func()) *VerifC35SSession {
	wg := &sync.WaitGroup{}
	sx := &session{
		conn:        c,
		wg:          wg,
		pathName:    pathName,
		transport:   c.Transport(),
		version:     version,
		pathManager: pm,
		parent:      &verifC35SParent{onClosed: onClosed},
	}
	sx.initialize()
	return &VerifC35SSession{sx: sx, wg: wg}
}

// Kick is what the API kick and the server shutdown do.
func (v *VerifC35SSession) Kick() { v.sx.Close() }

// Wait waits for the session goroutine.
func (v *VerifC35SSession) Wait() { v.wg.Wait() }

// APIItem is what the API list does.
func (v *VerifC35SSession) APIItem() defs.APIMoQSession { return v.sx.apiItem() }
