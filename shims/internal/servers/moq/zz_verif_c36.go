//go:build verif

package moq

import (
	"bytes"
	"context"
	"io"
	"net"

	"github.com/google/uuid"

	"github.com/bluenviron/mediamtx/internal/defs"
	"github.com/bluenviron/mediamtx/internal/protocols/moq/controlmessage"
)

type verifC36Conn struct{}

func (verifC36Conn) RemoteAddr() net.Addr {
	return &net.UDPAddr{IP: net.IPv4(127, 0, 0, 1), Port: 4242}
}
func (verifC36Conn) OpenUniStreamSync(context.Context) (io.WriteCloser, error)  { return nil, io.EOF }
func (verifC36Conn) AcceptUniStream(context.Context) (io.Reader, error)         { return nil, io.EOF }
func (verifC36Conn) OpenStreamSync(context.Context) (io.ReadWriteCloser, error) { return nil, io.EOF }
func (verifC36Conn) AcceptStream(context.Context) (io.ReadWriteCloser, error)   { return nil, io.EOF }
func (verifC36Conn) CloseWithError(uint64, string) error                       { return nil }
func (verifC36Conn) Transport() defs.APIMoQSessionTransport {
	return defs.APIMoQSessionTransportQUIC
}

type verifC36Stream struct {
	in  *bytes.Reader
	out bytes.Buffer
}

func (s *verifC36Stream) Read(p []byte) (int, error)  { return s.in.Read(p) }
func (s *verifC36Stream) Write(p []byte) (int, error) { return s.out.Write(p) }
func (s *verifC36Stream) Close() error                { return nil }

// VerifC36QUICSetup feeds the wire bytes of a draft-16 CLIENT_SETUP carrying the given PATH
// option to the real bidirectional-stream handler of a native-QUIC session (runBidiStream ->
// processSetupMessage) and returns what the session then reports through apiItem(), i.e. what
// the API and the metrics see for a session that has only completed its SETUP.
func VerifC36QUICSetup(setupPath string) (defs.APIMoQSession, error) {
	ctx, cancel := context.WithCancel(context.Background())
	defer cancel()
	s := &session{
		conn:          verifC36Conn{},
		transport:     defs.APIMoQSessionTransportQUIC,
		version:       defs.APIMoQVersionDraft16,
		ctx:           ctx,
		ctxCancel:     cancel,
		uuid:          uuid.MustParse("0c360000-0000-4000-8000-000000000001"),
		state:         defs.APIMoQSessionStateIdle,
		setupReceived: make(chan struct{}),
		done:          make(chan struct{}),
	}
	wire := controlmessage.ClientSetup(controlmessage.Setup{Path: setupPath}).Marshal()
	err := s.runBidiStream(&verifC36Stream{in: bytes.NewReader(wire)})
	return s.apiItem(), err
}
