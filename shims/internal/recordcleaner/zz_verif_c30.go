//go:build verif

package recordcleaner

import "time"

// VerifC30SetNow fixes the cleaner's clock (the timeNow seam used by the package's own tests).
func VerifC30SetNow(t time.Time) {
	timeNow = func() time.Time { return t }
}

// VerifC30Pass runs exactly one cleaning pass (what run() does at start and on every timer tick).
func VerifC30Pass(c *Cleaner) {
	c.doRun()
}
