//go:build verif

package conf

import "reflect"

// VerifC10DefaultUsers gives the check access to the package-level default user list that setDefaults()
// installs by reference in every Conf: env.Load patches list items in place, so a harness process that loads
// configurations under many different environments restores it between cases.
func VerifC10DefaultUsers() (snapshot func() []AuthInternalUser, restore func([]AuthInternalUser), equal func([]AuthInternalUser) bool) {
	clone := func(in []AuthInternalUser) []AuthInternalUser {
		out := make([]AuthInternalUser, len(in))
		for i, u := range in {
			out[i] = u
			if u.IPs != nil {
				out[i].IPs = append(IPNetworks{}, u.IPs...)
			}
			if u.Permissions != nil {
				out[i].Permissions = append([]AuthInternalUserPermission{}, u.Permissions...)
			}
		}
		return out
	}
	snapshot = func() []AuthInternalUser { return clone(defaultAuthInternalUsers) }
	restore = func(saved []AuthInternalUser) { copy(defaultAuthInternalUsers, clone(saved)) }
	equal = func(saved []AuthInternalUser) bool { return reflect.DeepEqual(defaultAuthInternalUsers, saved) }
	return
}
