//go:build verif

package conf

import "reflect"

// VerifC09DefaultUsers gives the check access to the package-level default user list that setDefaults()
// installs by reference in every Conf (env.Load patches list items in place, so a process that loads
// configurations under different environments - which only a test harness does - must restore it).
func VerifC09DefaultUsers() (snapshot func() []AuthInternalUser, restore func(saved []AuthInternalUser)) {
	snapshot = func() []AuthInternalUser {
		return deepCloneC09(defaultAuthInternalUsers)
	}
	restore = func(saved []AuthInternalUser) {
		copy(defaultAuthInternalUsers, deepCloneC09(saved))
	}
	return
}

// VerifC09DefaultUsersEqual compares the package-level default user list with a snapshot.
func VerifC09DefaultUsersEqual(saved []AuthInternalUser) bool {
	return reflect.DeepEqual(defaultAuthInternalUsers, saved)
}

func deepCloneC09(in []AuthInternalUser) []AuthInternalUser {
	out := make([]AuthInternalUser, len(in))
	for i, u := range in {
		out[i] = u
		if u.IPs != nil {
			out[i].IPs = append(IPNetworks{}, u.IPs...)
		}
		if u.Permissions != nil {
			out[i].Permissions = append([]AuthInternalUserPermission{}, u.Permissions...)
		}
	}
	return out
}
