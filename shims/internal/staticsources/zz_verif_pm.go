//go:build verif

package staticsources

import (
	"github.com/bluenviron/mediamtx/internal/defs"
	"github.com/bluenviron/mediamtx/internal/logger"
)

// VerifStarted reports whether the handler has ever been started (its context exists).
func VerifStarted(s *Handler) bool { return s.ctx != nil }

// VerifSetInstance replaces the protocol client of a handler that has not been started yet (the harness plays
// a source whose Run, like every real one, blocks until its context is cancelled).
func VerifSetInstance(s *Handler, inst interface {
	Log(logger.Level, string, ...any)
	Run(defs.StaticSourceRunParams) error
	APISourceDescribe() *defs.APIPathSource
}) {
	s.instance = inst
}
