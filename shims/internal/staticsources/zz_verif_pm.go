//go:build verif

package staticsources

// VerifStarted reports whether the handler has ever been started (its context exists).
func VerifStarted(s *Handler) bool { return s.ctx != nil }
