//go:build verif

package staticsources

// VerifC42ResolveSource exposes resolveSource to the verification harness.
func VerifC42ResolveSource(s string, matches []string, query string) string {
	return resolveSource(s, matches, query)
}

// VerifC42SetInstance replaces the protocol client of a handler that has been initialized but not
// started yet by a recording one (history dimension of C42: the handler's own Start/Stop/run code
// and resolveSource stay the real ones).
func VerifC42SetInstance(s *Handler, inst staticSource) {
	s.instance = inst
}
