//go:build verif

package staticsources

// VerifC42ResolveSource exposes resolveSource to the verification harness.
func VerifC42ResolveSource(s string, matches []string, query string) string {
	return resolveSource(s, matches, query)
}
