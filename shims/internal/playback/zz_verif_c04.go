//go:build verif

package playback

import (
	"net"

	"github.com/gin-gonic/gin"
)

// VerifC04Routes returns the routes registered on the playback gin router.
func VerifC04Routes(s *Server) gin.RoutesInfo {
	return s.httpServer.Handler.(*gin.Engine).Routes()
}

// VerifC04Addr returns the listener address.
func VerifC04Addr(s *Server) net.Addr {
	return s.httpServer.VerifC04Addr()
}
