//go:build verif

package playback

import "time"

// VerifC24DurationGoToMp4 exposes durationGoToMp4.
func VerifC24DurationGoToMp4(v time.Duration, timeScale uint32) int64 {
	return durationGoToMp4(v, timeScale)
}

// VerifC24DurationMp4ToGo exposes durationMp4ToGo.
func VerifC24DurationMp4ToGo(v int64, timeScale uint32) time.Duration {
	return durationMp4ToGo(v, timeScale)
}
