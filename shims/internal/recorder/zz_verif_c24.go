//go:build verif

package recorder

import (
	"time"

	"github.com/bluenviron/mediamtx/internal/stream"
)

// VerifC24MultiplyAndDivide exposes multiplyAndDivide.
func VerifC24MultiplyAndDivide(v, m, d int64) int64 { return multiplyAndDivide(v, m, d) }

// VerifC24MultiplyAndDivide2 exposes multiplyAndDivide2.
func VerifC24MultiplyAndDivide2(v, m, d time.Duration) time.Duration {
	return multiplyAndDivide2(v, m, d)
}

// VerifC24TimestampToDuration exposes timestampToDuration.
func VerifC24TimestampToDuration(t int64, clockRate int) time.Duration {
	return timestampToDuration(t, clockRate)
}

// VerifC24Reader returns the stream reader of the running recorder instance: the recorder formats
// (format_fmp4.go, format_mpegts.go) registered their per-format callbacks on it.
func VerifC24Reader(r *Recorder) *stream.Reader {
	return r.currentInstance.reader
}

// VerifC24FMP4State is what the fMP4 format holds for its first track after some units were handed to its callback.
type VerifC24FMP4State struct {
	HasSegment      bool
	SegmentStartDTS time.Duration // timestampToDuration(dts of the first written sample)
	SegmentStartNTP time.Time
	BaseTime        uint64   // of the track in the current part
	Durations       []uint32 // of the samples written to the current part (track time scale)
	TimeScale       uint32
	HasLast         bool
	LastDTS         int64 // the pending (last handed) sample
	LastNTP         time.Time
}

// VerifC24FMP4 reads the state of the first track of the running fMP4 format (no copy of any logic: fields only).
func VerifC24FMP4(r *Recorder) (VerifC24FMP4State, bool) {
	var st VerifC24FMP4State
	f, ok := r.currentInstance.format2.(*formatFMP4)
	if !ok || len(f.tracks) == 0 {
		return st, false
	}
	t := f.tracks[0]
	st.TimeScale = t.initTrack.TimeScale
	if t.nextSample != nil {
		st.HasLast = true
		st.LastDTS = t.nextSample.dts
		st.LastNTP = t.nextSample.ntp
	}
	if s := f.currentSegment; s != nil {
		st.HasSegment = true
		st.SegmentStartDTS = s.startDTS
		st.SegmentStartNTP = s.startNTP
		if s.curPart != nil {
			if pt := s.curPart.partTracks[t]; pt != nil {
				st.BaseTime = pt.BaseTime
				for _, sa := range pt.Samples {
					st.Durations = append(st.Durations, sa.Duration)
				}
			}
		}
	}
	return st, true
}
