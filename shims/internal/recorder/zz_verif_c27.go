//go:build verif

package recorder

import "github.com/bluenviron/mediamtx/internal/stream"

// VerifC27Reader returns the stream reader of the current recorder instance
// and a channel that is closed when that instance has terminated.
func (r *Recorder) VerifC27Reader() (*stream.Reader, <-chan struct{}) {
	return r.currentInstance.reader, r.currentInstance.done
}
