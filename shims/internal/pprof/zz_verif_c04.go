//go:build verif

package pprof

import (
	"net"

	"github.com/gin-gonic/gin"
)

// VerifC04Routes returns the routes registered on the pprof gin router.
func VerifC04Routes(pp *PPROF) gin.RoutesInfo {
	return pp.httpServer.Handler.(*gin.Engine).Routes()
}

// VerifC04Addr returns the listener address.
func VerifC04Addr(pp *PPROF) net.Addr {
	return pp.httpServer.VerifC04Addr()
}
