//go:build verif

package core

import "sort"

// VerifC38ConfPaths returns the path names of the configuration the Core currently runs with.
func VerifC38ConfPaths(p *Core) []string {
	var out []string
	for name := range p.conf.Load().Paths {
		out = append(out, name)
	}
	sort.Strings(out)
	return out
}

// VerifC38Done reports whether the Core's main loop has returned.
func VerifC38Done(p *Core) bool {
	select {
	case <-p.done:
		return true
	default:
		return false
	}
}

// VerifC38DoneCh is closed when the Core's main loop has returned.
func VerifC38DoneCh(p *Core) <-chan struct{} { return p.done }
