//go:build verif

package core

import (
	"context"
	"fmt"

	"github.com/bluenviron/mediamtx/internal/conf"
	"github.com/bluenviron/mediamtx/internal/logger"
)

// VerifC35New is New() for a configuration file given by path, minus command line parsing and minus the
// configuration file watcher: the watcher needs one inotify instance per Core, a per-user resource (128 on the
// check host) that 32 concurrent workers plus the other checks exhaust. Everything else (createResources, run) is
// the repository's code. The watcher is not reachable from the network.
func VerifC35New(confPath string) (*Core, bool) {
	ctx, ctxCancel := context.WithCancel(context.Background())

	p := &Core{
		ctx:                          ctx,
		ctxCancel:                    ctxCancel,
		chAPIConfigGlobalPatch:       make(chan configGlobalPatchReq),
		chAPIConfigPathDefaultsPatch: make(chan configPathDefaultsPatchReq),
		chAPIConfigPathAdd:           make(chan configPathAddReq),
		chAPIConfigPathPatch:         make(chan configPathPatchReq),
		chAPIConfigPathReplace:       make(chan configPathReplaceReq),
		chAPIConfigPathDelete:        make(chan configPathDeleteReq),
		done:                         make(chan struct{}),
	}

	tempLogger := &logger.Logger{
		Level:        logger.Warn,
		Destinations: []logger.Destination{logger.DestinationStdout},
	}
	tempLogger.Initialize() //nolint:errcheck

	loadedConf, _, err := conf.Load(confPath, nil, tempLogger)
	if err != nil {
		fmt.Printf("ERR: %s\n", err)
		return nil, false
	}

	p.confPath = "" // => createResources does not create the ConfWatcher
	p.conf.Store(loadedConf)

	err = p.createResources(true)
	if err != nil {
		if p.logger != nil {
			p.Log(logger.Error, "%s", err)
		} else {
			fmt.Printf("ERR: %s\n", err)
		}
		p.closeResources(nil)
		return nil, false
	}

	go p.run()

	return p, true
}
