//go:build verif

package core

import (
	"sync"

	"github.com/bluenviron/mediamtx/internal/auth"
)

// Verification shim of the end-to-end layer of check C03 (harness c03e2e).
// It only OBSERVES: the path manager reaches the authentication manager through an interface field; the shim
// puts a recording pass-through in front of the real auth.Manager, so that the harness can see with which
// (action, path, credentials, IP, id) every authentication was requested by a protocol server and how it ended.

// VerifC03EAuthRec is one call of Authenticate made by the path manager on behalf of a protocol server.
type VerifC03EAuthRec struct {
	Seq      int    `json:"seq"`
	Action   string `json:"action"`
	Path     string `json:"path"`
	Protocol string `json:"protocol"`
	ID       string `json:"id"` // id of the session / connection the request was made for ("" if none)
	User     string `json:"user"`
	Pass     string `json:"pass"`
	IP       string `json:"ip"`
	Custom   bool   `json:"custom"`   // a custom (digest) verifier was supplied
	Admitted bool   `json:"admitted"` // Authenticate returned no error
}

type verifC03EAuth struct {
	inner pathManagerAuthManager
	mu    sync.Mutex
	recs  []VerifC03EAuthRec
}

func (w *verifC03EAuth) Authenticate(req *auth.Request) (string, *auth.Error) {
	user, err := w.inner.Authenticate(req)
	rec := VerifC03EAuthRec{
		Action:   string(req.Action),
		Path:     req.Path,
		Protocol: string(req.Protocol),
		IP:       req.IP.String(),
		Custom:   req.CustomVerifyFunc != nil,
		Admitted: err == nil,
	}
	if req.ID != nil {
		rec.ID = req.ID.String()
	}
	if req.Credentials != nil {
		rec.User = req.Credentials.User
		rec.Pass = req.Credentials.Pass
	}
	w.mu.Lock()
	rec.Seq = len(w.recs)
	w.recs = append(w.recs, rec)
	w.mu.Unlock()
	return user, err
}

// VerifC03ERecordAuth installs the recorder on a Core that has just been started (no client connected yet)
// and returns a function that reports the records made so far.
func VerifC03ERecordAuth(p *Core) func() []VerifC03EAuthRec {
	w := &verifC03EAuth{inner: p.pathManager.authManager}
	p.pathManager.authManager = w
	return func() []VerifC03EAuthRec {
		w.mu.Lock()
		defer w.mu.Unlock()
		return append([]VerifC03EAuthRec(nil), w.recs...)
	}
}
