//go:build verif

package core

import (
	"sort"

	"github.com/bluenviron/mediamtx/internal/conf"
	"github.com/bluenviron/mediamtx/internal/defs"
	"github.com/bluenviron/mediamtx/internal/externalcmd"
	"github.com/bluenviron/mediamtx/internal/logger"
	"github.com/bluenviron/mediamtx/internal/staticsources"
)

// VerifPM is a handle on a real pathManager, built the way Core.createResources builds it.
type VerifPM struct {
	PM   *pathManager
	Pool *externalcmd.Pool
}

type verifParent struct{ l logger.Writer }

func (p verifParent) Log(level logger.Level, format string, args ...any) {
	p.l.Log(level, format, args...)
}

// VerifNewPM creates and starts a path manager.
func VerifNewPM(pathConfs map[string]*conf.Path, am pathManagerAuthManager, l logger.Writer, writeQueueSize int) *VerifPM {
	pool := &externalcmd.Pool{}
	pool.Initialize()
	pm := &pathManager{
		logLevel:          conf.LogLevel(logger.Debug),
		rtspAddress:       ":8554",
		readTimeout:       conf.Duration(10e9),
		writeTimeout:      conf.Duration(10e9),
		writeQueueSize:    writeQueueSize,
		udpMaxPayloadSize: 1452,
		rtpMaxPayloadSize: 1440,
		pathConfs:         pathConfs,
		authManager:       am,
		externalCmdPool:   pool,
		parent:            verifParent{l},
	}
	pm.initialize()
	return &VerifPM{PM: pm, Pool: pool}
}

// Close shuts the manager down as Core.closeResources does.
func (v *VerifPM) Close() { v.PM.close() }

// FindPathConf forwards to the manager.
func (v *VerifPM) FindPathConf(req defs.PathFindPathConfReq) (*defs.PathFindPathConfRes, error) {
	return v.PM.FindPathConf(req)
}

// Describe forwards to the manager.
func (v *VerifPM) Describe(req defs.PathDescribeReq) (*defs.PathDescribeRes, error) {
	return v.PM.Describe(req)
}

// AddPublisher forwards to the manager.
func (v *VerifPM) AddPublisher(req defs.PathAddPublisherReq) (*defs.PathAddPublisherRes, error) {
	return v.PM.AddPublisher(req)
}

// AddReader forwards to the manager.
func (v *VerifPM) AddReader(req defs.PathAddReaderReq) (*defs.PathAddReaderRes, error) {
	return v.PM.AddReader(req)
}

// ReloadPathConfs forwards to the manager.
func (v *VerifPM) ReloadPathConfs(c map[string]*conf.Path) { v.PM.ReloadPathConfs(c) }

// APIPathsList forwards to the manager.
func (v *VerifPM) APIPathsList() (*defs.APIPathList, error) { return v.PM.APIPathsList() }

// APIPathsGet forwards to the manager.
func (v *VerifPM) APIPathsGet(name string) (*defs.APIPath, error) { return v.PM.APIPathsGet(name) }

// VerifPathSnap is a snapshot of one live path's private state. It is taken by the scheduler
// while every task is parked (or by sequential harnesses at quiescence), so no lock is needed.
type VerifPathSnap struct {
	Ptr          any // *path, for identity comparison only
	Name         string
	ConfName     string
	Matches      []string
	Conf         *conf.Path
	Source       string // "" | "static" | "redirect" | publisher id
	HasStream    bool
	Ready        bool
	Readers      []string
	DescribeHold int
	ReaderHold   int
	ODStatic     int
	ODPublisher  int
	Recording    bool
	Terminated   bool
}

func verifSnap(pa *path) VerifPathSnap {
	s := VerifPathSnap{
		Ptr: pa, Name: pa.name, ConfName: pa.confName, Matches: pa.matches, Conf: pa.conf,
		HasStream: pa.stream != nil, Ready: pa.ready, DescribeHold: len(pa.describeRequestsOnHold),
		ReaderHold: len(pa.readerAddRequestsOnHold), ODStatic: int(pa.onDemandStaticSourceState),
		ODPublisher: int(pa.onDemandPublisherState), Recording: pa.recorder != nil,
	}
	// no channel operation here: this file is rewritten by goinstr like the rest of the package
	s.Terminated = pa.ctx.Err() != nil
	switch src := pa.source.(type) {
	case nil:
	case *sourceRedirect:
		s.Source = "redirect"
	case defs.Publisher:
		s.Source = src.APISourceDescribe().ID
	default:
		s.Source = "static"
	}
	for r := range pa.readers {
		s.Readers = append(s.Readers, r.APIReaderDescribe().ID)
	}
	sort.Strings(s.Readers)
	return s
}

// Snap returns the snapshots of the paths registered in the manager, by name.
func (v *VerifPM) Snap() []VerifPathSnap {
	names := make([]string, 0, len(v.PM.paths))
	for n := range v.PM.paths {
		names = append(names, n)
	}
	sort.Strings(names)
	out := make([]VerifPathSnap, 0, len(names))
	for _, n := range names {
		out = append(out, verifSnap(v.PM.paths[n]))
	}
	return out
}

// VerifSnapPath snapshots a path obtained from a response (it may no longer be registered).
func VerifSnapPath(p defs.Path) VerifPathSnap { return verifSnap(p.(*path)) }

// VerifStaticHandler returns the static source handler of a path (nil if its source is not static).
func VerifStaticHandler(p defs.Path) *staticsources.Handler {
	h, _ := p.(*path).source.(*staticsources.Handler)
	return h
}

// PathByName returns the registered path with that name (nil if none); for sequencing harness phases only.
func (v *VerifPM) PathByName(name string) defs.Path {
	if pa, ok := v.PM.paths[name]; ok {
		return pa
	}
	return nil
}

// PathConfs returns the configuration map in force in the manager.
func (v *VerifPM) PathConfs() map[string]*conf.Path { return v.PM.pathConfs }

// VerifPathConfCanBeUpdated exposes pathConfCanBeUpdated.
func VerifPathConfCanBeUpdated(o, n *conf.Path) bool { return pathConfCanBeUpdated(o, n) }
