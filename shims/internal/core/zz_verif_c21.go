//go:build verif

package core

import (
	"time"

	"github.com/bluenviron/mediamtx/internal/defs"
)

// VerifC21SegmentHooks returns the OnSegmentCreate / OnSegmentComplete closures that
// path.startRecording installed in the recorder of a real path (nil, nil when the path has no
// recorder). Call it after AddPublisher has returned (the recorder is created in setAvailable,
// before the response is sent) and before the publisher is removed.
func VerifC21SegmentHooks(p defs.Path) (func(string), func(string, time.Duration)) {
	pa, ok := p.(*path)
	if !ok || pa.recorder == nil {
		return nil, nil
	}
	return pa.recorder.OnSegmentCreate, pa.recorder.OnSegmentComplete
}
