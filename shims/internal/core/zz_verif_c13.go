//go:build verif

package core

import (
	"crypto/sha1"
	"encoding/hex"
	"fmt"
	"reflect"
	"regexp"
	"sort"
	"strings"
	"unsafe"

	"github.com/bluenviron/mediamtx/internal/conf"
)

// Verification shim of check C13 (hot reload applies every changed parameter).
// It only OBSERVES a Core by reflection: which components are alive (the pointer-typed fields of Core),
// their identity, the plain-data fields they were constructed with, and which other component every
// pointer/interface field refers to. Nothing here knows the names of the components or of their fields.

// VerifC13Comp is the observation of one component (one pointer field of Core).
type VerifC13Comp struct {
	Name    string            `json:"name"`           // name of the Core field
	Present bool              `json:"present"`        // non-nil
	Ptr     uint64            `json:"ptr,omitempty"`  // identity (meaningful inside one process only)
	Fields  map[string]string `json:"fields,omitempty"` // data fields -> rendered value
	Refs    map[string]string `json:"refs,omitempty"`   // pointer/interface fields -> name of the component referred to
	Sig     string            `json:"sig,omitempty"`    // hash of Fields and Refs
	Skipped map[string]string `json:"skipped,omitempty"` // fields that are neither data nor references: name -> type
}

var verifC13RegexpType = reflect.TypeOf(regexp.Regexp{})

func verifC13IsData(t reflect.Type, seen map[reflect.Type]bool) bool {
	switch t.Kind() {
	case reflect.Bool, reflect.Int, reflect.Int8, reflect.Int16, reflect.Int32, reflect.Int64,
		reflect.Uint, reflect.Uint8, reflect.Uint16, reflect.Uint32, reflect.Uint64, reflect.Uintptr,
		reflect.Float32, reflect.Float64, reflect.String:
		return true
	case reflect.Slice, reflect.Array, reflect.Pointer:
		return verifC13IsData(t.Elem(), seen)
	case reflect.Map:
		return verifC13IsData(t.Key(), seen) && verifC13IsData(t.Elem(), seen)
	case reflect.Struct:
		if t == verifC13RegexpType || t.NumField() == 0 {
			return true // struct{} as the element of a set
		}
		// only configuration structs are rendered field by field
		if !strings.HasSuffix(t.PkgPath(), "/internal/conf") {
			return false
		}
		if v, ok := seen[t]; ok {
			return v
		}
		seen[t] = true
		for i := 0; i < t.NumField(); i++ {
			if !verifC13IsData(t.Field(i).Type, seen) {
				seen[t] = false
				return false
			}
		}
		return true
	}
	return false
}

func verifC13Unseal(v reflect.Value) reflect.Value {
	if v.CanInterface() || !v.CanAddr() {
		return v
	}
	return reflect.NewAt(v.Type(), unsafe.Pointer(v.UnsafeAddr())).Elem()
}

func verifC13Render(sb *strings.Builder, v reflect.Value, depth int) {
	if depth > 12 {
		sb.WriteString("<deep>")
		return
	}
	switch v.Kind() {
	case reflect.Bool:
		fmt.Fprintf(sb, "%v", v.Bool())
	case reflect.Int, reflect.Int8, reflect.Int16, reflect.Int32, reflect.Int64:
		fmt.Fprintf(sb, "%d", v.Int())
	case reflect.Uint, reflect.Uint8, reflect.Uint16, reflect.Uint32, reflect.Uint64, reflect.Uintptr:
		fmt.Fprintf(sb, "%d", v.Uint())
	case reflect.Float32, reflect.Float64:
		fmt.Fprintf(sb, "%v", v.Float())
	case reflect.String:
		fmt.Fprintf(sb, "%q", v.String())
	case reflect.Pointer:
		if v.IsNil() {
			sb.WriteString("nil")
			return
		}
		if v.Type().Elem() == verifC13RegexpType {
			re := (*regexp.Regexp)(v.UnsafePointer())
			fmt.Fprintf(sb, "re(%q)", re.String())
			return
		}
		sb.WriteString("&")
		verifC13Render(sb, v.Elem(), depth+1)
	case reflect.Slice, reflect.Array:
		// nil and empty slices are the same configuration
		sb.WriteString("[")
		for i := 0; i < v.Len(); i++ {
			if i > 0 {
				sb.WriteString(",")
			}
			verifC13Render(sb, v.Index(i), depth+1)
		}
		sb.WriteString("]")
	case reflect.Map:
		keys := v.MapKeys()
		strs := make([]string, len(keys))
		for i, k := range keys {
			var kb, vb strings.Builder
			verifC13Render(&kb, k, depth+1)
			verifC13Render(&vb, v.MapIndex(k), depth+1)
			strs[i] = kb.String() + ":" + vb.String()
		}
		sort.Strings(strs)
		sb.WriteString("{" + strings.Join(strs, ",") + "}")
	case reflect.Struct:
		if v.Type() == verifC13RegexpType {
			sb.WriteString("re")
			return
		}
		sb.WriteString("{")
		for i := 0; i < v.NumField(); i++ {
			f := v.Field(i)
			if !f.CanInterface() && f.CanAddr() {
				f = verifC13Unseal(f)
			}
			sb.WriteString(v.Type().Field(i).Name + "=")
			verifC13Render(sb, f, depth+1)
			sb.WriteString(";")
		}
		sb.WriteString("}")
	default:
		sb.WriteString("<?>")
	}
}

// verifC13Components lists the pointer-to-struct fields of Core.
func verifC13Components(p *Core) (names []string, vals []reflect.Value) {
	cv := reflect.ValueOf(p).Elem()
	ct := cv.Type()
	for i := 0; i < ct.NumField(); i++ {
		f := ct.Field(i)
		if f.Type.Kind() == reflect.Pointer && f.Type.Elem().Kind() == reflect.Struct {
			names = append(names, f.Name)
			vals = append(vals, verifC13Unseal(cv.Field(i)))
		}
	}
	return
}

// VerifC13Quiesce waits until the asynchronous part of a reload is over: the path manager processes
// ReloadPathConfs in its own goroutine, a synchronous request through the same loop is a barrier.
func VerifC13Quiesce(p *Core) {
	if p.hlsServer != nil {
		// the HLS server registers itself with the path manager at the beginning of its own goroutine:
		// a synchronous request through its loop returns after that
		p.hlsServer.APIMuxersList() //nolint:errcheck
	}
	if p.pathManager != nil {
		p.pathManager.APIPathsList() //nolint:errcheck
	}
}

// VerifC13Snapshot observes every component of a Core.
// It must be called while no reload is in progress (after a barrier through Core.run).
// The second result pins the observed component objects: the caller keeps it until it has compared
// identities, so that a closed component's address cannot be reused by a new one in between.
func VerifC13Snapshot(p *Core) ([]VerifC13Comp, []any) {
	names, vals := verifC13Components(p)
	current := map[uintptr]string{uintptr(unsafe.Pointer(p)): "core"}
	compTypes := map[reflect.Type]bool{}
	for i, v := range vals {
		compTypes[v.Type()] = true
		if !v.IsNil() {
			current[v.Pointer()] = names[i]
		}
	}
	seen := map[reflect.Type]bool{}
	var pins []any
	for _, v := range vals {
		if !v.IsNil() {
			pins = append(pins, v.Interface())
		}
	}
	out := make([]VerifC13Comp, 0, len(names))
	for i, v := range vals {
		c := VerifC13Comp{Name: names[i]}
		if v.IsNil() {
			out = append(out, c)
			continue
		}
		c.Present = true
		c.Ptr = uint64(v.Pointer())
		c.Fields = map[string]string{}
		c.Refs = map[string]string{}
		c.Skipped = map[string]string{}
		sv := v.Elem()
		st := sv.Type()
		for j := 0; j < st.NumField(); j++ {
			sf := st.Field(j)
			fv := verifC13Unseal(sv.Field(j))
			switch fv.Kind() {
			case reflect.Func, reflect.Chan, reflect.UnsafePointer:
				continue
			case reflect.Interface, reflect.Pointer:
				tv := fv
				if tv.Kind() == reflect.Interface {
					if tv.IsNil() {
						// an interface field that may hold a component: record that it holds nothing
						may := reflect.TypeOf(p).Implements(tv.Type())
						for ct := range compTypes {
							may = may || ct.Implements(tv.Type())
						}
						if may {
							c.Refs[sf.Name] = "nil"
						}
						continue
					}
					tv = tv.Elem()
				}
				if tv.Kind() == reflect.Pointer {
					if tv.Type() == reflect.TypeOf(p) || compTypes[tv.Type()] {
						switch {
						case tv.IsNil():
							c.Refs[sf.Name] = "nil"
						case current[tv.Pointer()] != "":
							c.Refs[sf.Name] = current[tv.Pointer()]
						default:
							c.Refs[sf.Name] = "STALE(" + tv.Type().String() + ")"
						}
						continue
					}
					if fv.Kind() == reflect.Pointer && verifC13IsData(fv.Type(), seen) {
						var sb strings.Builder
						verifC13Render(&sb, fv, 0)
						c.Fields[sf.Name] = sb.String()
					}
				}
				if fv.Kind() == reflect.Interface {
					// an interface holding something that is not a component: not configuration
					delete(c.Refs, sf.Name)
				}
				continue
			}
			if verifC13IsData(sf.Type, seen) {
				var sb strings.Builder
				verifC13Render(&sb, fv, 0)
				c.Fields[sf.Name] = sb.String()
			}
		}
		for j := 0; j < st.NumField(); j++ {
			n := st.Field(j).Name
			if _, ok := c.Fields[n]; ok {
				continue
			}
			if _, ok := c.Refs[n]; ok {
				continue
			}
			c.Skipped[n] = st.Field(j).Type.String()
		}
		c.Sig = verifC13Sig(c.Fields, c.Refs)
		out = append(out, c)
	}
	return out, pins
}

func verifC13Sig(fields, refs map[string]string) string {
	var keys []string
	for k, v := range fields {
		keys = append(keys, "F "+k+"="+v)
	}
	for k, v := range refs {
		keys = append(keys, "R "+k+"="+v)
	}
	sort.Strings(keys)
	h := sha1.Sum([]byte(strings.Join(keys, "\n")))
	return hex.EncodeToString(h[:8])
}

// VerifC13ReloadFromFile is the "configuration file changed" branch of Core.run (conf.Load + reloadConf)
// with the file given explicitly, so that it can be driven without the 1 s debounce of the file watcher.
// The caller guarantees that Core.run is idle (no API edit in flight).
func VerifC13ReloadFromFile(p *Core, path string) error {
	newConf, _, err := conf.Load(path, nil, p.logger)
	if err != nil {
		return err
	}
	return p.reloadConf(newConf)
}
