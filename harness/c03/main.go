// C03 (layer b): authorization -> configuration reload -> attachment, over all schedules.
// A publisher authorizes with FindPathConf and attaches with SkipAuth+ConfToCompare exactly as
// rtsp/session.go, rtmp/conn.go, srt/conn.go and webrtc/session.go do, while the path configurations
// and the user list are reloaded; a reader authenticates through AddReader without SkipAuth.
// Engine S over the real pathManager + path + auth.Manager.
package main

import (
	"github.com/bluenviron/mediamtx/internal/zzverif/pmlib"
	"github.com/bluenviron/mediamtx/internal/zzverif/vexplore"
)

const users = "authInternalUsers:\n" +
	"- user: pub\n  pass: pw\n  permissions:\n  - action: publish\n    path: p\n" +
	"- user: rd\n  pass: pw\n  permissions:\n  - action: read\n    path: p\n"

const usersNoPub = "authInternalUsers:\n" +
	"- user: rd\n  pass: pw\n  permissions:\n  - action: read\n    path: p\n"

func main() {
	base := users + "paths:\n  p:\n"
	variants := []struct{ name, next, expect string }{
		{"same", users + "paths:\n  p:\n", "attached"},
		{"shadowed-by-new-entry", "", "rejected"}, // special: see below
		{"hot-reloadable", users + "paths:\n  p:\n    recordPath: /tmp/verif-never/%path/%Y-%m-%d_%H-%M-%S-%f\n", "rejected"},
		{"recreating", users + "paths:\n  p:\n    overridePublisher: no\n    maxReaders: 3\n", "rejected"},
		{"not-publisher", users + "paths:\n  p:\n    source: redirect\n    sourceRedirect: rtsp://127.0.0.1:1/x\n", "rejected"},
		{"moved-to-regexp", users + "paths:\n  \"~^p\":\n    maxReaders: 5\n", "rejected"},
		{"users-only", usersNoPub + "paths:\n  p:\n", "attached"},
	}
	bg := []string{"dumper.go"}
	var scn []*vexplore.Scenario
	for _, v := range variants {
		sp := pmlib.AuthSpec{Base: base, Next: v.next, Sequential: true, PubUser: "pub", Path: "p", WithReader: true}
		if v.name == "shadowed-by-new-entry" {
			// the authorizing entry (all_others) is untouched by the reload, but a new static entry now rules the name
			sp.Base = users + "paths:\n  all_others:\n"
			sp.Next = users + "paths:\n  all_others:\n  p:\n    maxReaders: 5\n"
		}
		scn = append(scn, &vexplore.Scenario{
			Name: "seq-" + v.name, Desc: "authorize; reload to '" + v.name + "' fully applied; attach; reader concurrently",
			Body: pmlib.AuthBody(sp), Check: pmlib.CheckAuth(sp, v.expect), QuickBound: 1, ThoroughBound: 2, Horizon: 20000, Bg: bg,
		})
		sp2 := sp
		sp2.Sequential = false
		scn = append(scn, &vexplore.Scenario{
			Name: "conc-" + v.name, Desc: "authorize+attach concurrently with the reload to '" + v.name + "' and a reader",
			Body: pmlib.AuthBody(sp2), Check: pmlib.CheckAuth(sp2, ""), QuickBound: 2, ThoroughBound: 3, Horizon: 20000, Bg: bg,
		})
	}
	// a user who may only read tries to publish: never authorized, never attached
	sp := pmlib.AuthSpec{Base: base, PubUser: "rd", Path: "p", WithReader: true}
	scn = append(scn, &vexplore.Scenario{
		Name: "wrong-action", Desc: "user 'rd' (read permission only) tries to publish; reader concurrently",
		Body: pmlib.AuthBody(sp), Check: pmlib.CheckAuth(sp, ""), QuickBound: 2, ThoroughBound: 3, Horizon: 20000, Bg: bg,
	})
	vexplore.Main("C03", scn, []string{
		"layer b only: the call shapes of the protocol servers are replayed by fake sessions against the real pathManager, path and auth.Manager (internal method)",
		"layer a (every protocol server end to end: RTSP/RTMP/SRT/WebRTC/HLS/MoQ clients against a real Core) is NOT covered by this check",
		"'in force at attachment' is judged at the manager's admission step: a hot-reloadable change that races the attach after admission is accepted",
	})
}
