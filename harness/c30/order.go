package main

// Order scenarios: record path layouts whose lexical order (the order in which filepath.WalkDir visits a
// tree) differs from the chronological order of the segments, with pools of instants chosen so that, in walk
// order, fresh (not expired) and expired segments of one path alternate. Every subset of a pool is a tree, so
// every walk-order pattern of fresh/expired up to the subset size occurs (fresh first, expired first,
// alternating). The oracle is the common one.

import (
	"fmt"
	"io/fs"
	"os"
	"path/filepath"
	"sort"
	"strings"
	"time"

	"github.com/bluenviron/mediamtx/internal/conf"
)

// nowAbs is the fixed clock value (2026-09-21 12:00 in Europe/Rome).
var nowAbs = mustTime("2026-09-21T10:00:00Z")

func mustTime(s string) time.Time {
	t, err := time.Parse(time.RFC3339, s)
	if err != nil {
		panic(err)
	}
	return t
}

// since is the age at the fixed clock of an absolute instant (also: the delay whose limit is that instant).
func since(s string) time.Duration { return nowAbs.Sub(mustTime(s)) }

// at is a segment of path p started at instant ts; zone != nil: named under that zone offset.
func at(p, ts string, zone *time.Location) entry {
	id := p + "@" + strings.TrimSuffix(ts, ":00Z")
	if zone != nil {
		id += "(" + mustTime(ts).In(zone).Format("-0700") + ")"
	}
	return entry{id: id, path: p, age: since(ts), zone: zone}
}

// aged is a segment of path p started d before the clock value.
func aged(p string, d time.Duration) entry {
	return entry{id: p + "@" + d.String(), path: p, age: d}
}

const (
	day = 24 * time.Hour

	fDayFirst     = "%R/rec/%path/%d-%m-%Y_%H-%M-%S-%f"
	fMonthFirst   = "%R/rec/%path/%m-%d-%Y_%H-%M-%S-%f"
	fDayFirstDirs = "%R/rec/%d-%m-%Y/%path/%H-%M-%S-%f"
	fZoneFirst    = "%R/rec/%path/%z_%Y-%m-%d_%H-%M-%S-%f"
	fZoneLast     = "%R/rec/%path/%Y-%m-%d_%H-%M-%S-%f_%z"
)

var (
	zMinus5   = time.FixedZone("", -5*3600)
	zPlus0530 = time.FixedZone("", 5*3600+30*60)
)

// day-first names: a 30 d -> 10 d, a/b 0 -> 10 d, ^r 10 d -> 5 d.
// walk order of a, pass 1: 05-08 E, 12-09 F, 14-07 E, 19-09 F, 20-08 E, 28-08 F; pass 2 (survivors): 12-09 F, 19-09 F, 28-08 E.
var poolDayFirst = []entry{
	at("a", "2026-08-05T08:00:00Z", nil),
	at("a", "2026-09-12T08:00:00Z", nil),
	at("a", "2026-07-14T08:00:00Z", nil),
	at("a", "2026-09-19T08:00:00Z", nil),
	at("a", "2026-08-20T08:00:00Z", nil),
	at("a", "2026-08-28T08:00:00Z", nil),
	at("a/b", "2026-09-12T08:00:00Z", nil),
	at("a/b", "2026-08-28T08:00:00Z", nil),
	at("r1", "2026-09-12T08:00:00Z", nil),
	at("r1", "2026-09-19T08:00:00Z", nil),
	at("r1", "2026-08-28T08:00:00Z", nil),
}

func confsDayFirst(f string) []pc {
	return []pc{
		{"a", "", f, 30 * day, 10 * day},
		{"a/b", "", f, 0, 10 * day},
		{"~^r", "^r", f, 10 * day, 5 * day},
	}
}

// month-first names differ from chronological order across years: a 300 d -> 200 d, a/b 0 -> 200 d, ^r 300 d -> 0.
// walk order of a, pass 1: 01-15-2026 F, 06-01-2025 E, 08-01-2026 F, 10-01-2025 E, 12-25-2025 F, 12-30-2024 E;
// pass 2: 01-15-2026 E, 08-01-2026 F, 12-25-2025 E.
var poolMonthFirst = []entry{
	at("a", "2026-01-15T08:00:00Z", nil),
	at("a", "2025-06-01T08:00:00Z", nil),
	at("a", "2026-08-01T08:00:00Z", nil),
	at("a", "2025-10-01T08:00:00Z", nil),
	at("a", "2025-12-25T08:00:00Z", nil),
	at("a", "2024-12-30T08:00:00Z", nil),
	at("a/b", "2026-08-01T08:00:00Z", nil),
	at("a/b", "2025-12-25T08:00:00Z", nil),
	at("r1", "2026-01-15T08:00:00Z", nil),
	at("r1", "2025-10-01T08:00:00Z", nil),
}

// %s names of different digit counts: a 1 h -> 30 min (the realistic case: decades-old segments of a camera
// whose clock was not set), a/b 0 -> 1 h, ^r 30 y -> 26 y (limits at 9-digit instants).
// walk order of a, pass 1: 1000000000 E, now-45min F, now-10min F, 200000000 E, 999999999 E;
// of r1: 1000000000 F, now-30min F, 200000000 E, 900000000 F, 99999999 E, 999999999 F; pass 2: F, F, 900000000 E, F.
var poolUnix = []entry{
	at("a", "2001-09-09T01:46:40Z", nil),
	aged("a", 45*time.Minute),
	aged("a", 10*time.Minute),
	at("a", "1976-05-03T19:33:20Z", nil),
	at("a", "2001-09-09T01:46:39Z", nil),
	aged("a/b", 10*time.Minute),
	at("a/b", "2001-09-09T01:46:39Z", nil),
	at("r1", "2001-09-09T01:46:40Z", nil),
	aged("r1", 30*time.Minute),
	at("r1", "1976-05-03T19:33:20Z", nil),
	at("r1", "1998-07-09T16:00:00Z", nil),
	at("r1", "1973-03-03T09:46:39Z", nil),
	at("r1", "2001-09-09T01:46:39Z", nil),
}

// %z before the date: winter names (+0100) sort before summer names (+0200), then other offsets the server
// once had ('+' < '-' < 'Z'): a 300 d -> 200 d, a/b 0 -> 200 d, ^r 300 d -> 0.
// walk order of a, pass 1: +0100_2025-11-20 E, +0100_2026-01-15 F, +0200_2025-09-01 E, +0200_2026-09-01 F,
// +0530_2026-02-01 F, -0500_2025-10-01 E, Z_2026-09-20 F; pass 2: E, F, E, F.
var poolZoneFirst = []entry{
	at("a", "2025-11-20T08:00:00Z", nil),
	at("a", "2026-01-15T08:00:00Z", nil),
	at("a", "2025-09-01T08:00:00Z", nil),
	at("a", "2026-09-01T08:00:00Z", nil),
	at("a", "2026-02-01T08:00:00Z", zPlus0530),
	at("a", "2025-10-01T08:00:00Z", zMinus5),
	at("a", "2026-09-20T08:00:00Z", time.UTC),
	at("a/b", "2026-09-01T08:00:00Z", nil),
	at("a/b", "2025-10-01T08:00:00Z", zMinus5),
	at("r1", "2026-01-15T08:00:00Z", nil),
	at("r1", "2025-09-01T08:00:00Z", nil),
}

// %z after the time, across the end of daylight saving time in the server zone (2025-10-26 01:00Z): the local
// hour 02:xx occurs twice, first with +0200 then with +0100. a and ^r: limit 01:00Z -> 01:20Z resp. 0; a/b 0 -> limit 01:20Z.
// walk order of a, pass 1: 02-10_+0100 F, 02-10_+0200 E, 02-30_+0100 F, 02-30_+0200 E, 02-50_+0100 F, 02-50_+0200 E.
var poolZoneLast = []entry{
	at("a", "2025-10-26T00:10:00Z", nil),
	at("a", "2025-10-26T00:30:00Z", nil),
	at("a", "2025-10-26T00:50:00Z", nil),
	at("a", "2025-10-26T01:10:00Z", nil),
	at("a", "2025-10-26T01:30:00Z", nil),
	at("a", "2025-10-26T01:50:00Z", nil),
	at("a/b", "2025-10-26T01:30:00Z", nil),
	at("a/b", "2025-10-26T00:50:00Z", nil),
	at("r1", "2025-10-26T01:10:00Z", nil),
	at("r1", "2025-10-26T00:10:00Z", nil),
}

const (
	ownQuick    = 3
	ownThorough = 13
)

var orderScenarios = []scenario{
	{"day-first", confsDayFirst(fDayFirst), fDayFirst, poolDayFirst, ownQuick, ownThorough},
	{"month-first", []pc{
		{"a", "", fMonthFirst, 300 * day, 200 * day},
		{"a/b", "", fMonthFirst, 0, 200 * day},
		{"~^r", "^r", fMonthFirst, 300 * day, 0},
	}, fMonthFirst, poolMonthFirst, ownQuick, ownThorough},
	{"day-first-dirs", confsDayFirst(fDayFirstDirs), fDayFirstDirs, poolDayFirst, ownQuick, ownThorough},
	{"unix-digit-counts", []pc{
		{"a", "", fUnix, 1 * h, h / 2},
		{"a/b", "", fUnix, 0, 1 * h},
		{"~^r", "^r", fUnix, 30 * 365 * day, 26 * 365 * day},
	}, fUnix, poolUnix, ownQuick, ownThorough},
	{"zone-first", []pc{
		{"a", "", fZoneFirst, 300 * day, 200 * day},
		{"a/b", "", fZoneFirst, 0, 200 * day},
		{"~^r", "^r", fZoneFirst, 300 * day, 0},
	}, fZoneFirst, poolZoneFirst, ownQuick, ownThorough},
	{"zone-last-dst-overlap", []pc{
		{"a", "", fZoneLast, since("2025-10-26T01:00:00Z"), since("2025-10-26T01:20:00Z")},
		{"a/b", "", fZoneLast, 0, since("2025-10-26T01:20:00Z")},
		{"~^r", "^r", fZoneLast, since("2025-10-26T01:00:00Z"), 0},
	}, fZoneLast, poolZoneLast, ownQuick, ownThorough},
}

// orderSelfCheck lays the whole pool of an order scenario out, walks it as the repository does
// (filepath.WalkDir) and records, per pass and path, the walk-order string of F(resh)/E(xpired) under the
// pass's configuration (pass 2: of the files that are not expired in pass 1). It demands what makes the
// scenario non-trivial: in pass 1 some path whose string changes at least 3 times and has a fresh segment
// directly before an expired one; in pass 2 some path with a fresh segment before an expired one. The
// classification must agree with the model.
func orderSelfCheck(sc scenario, root string, now time.Time, out map[string]string) error {
	if err := os.MkdirAll(filepath.Join(root, "rec"), 0o755); err != nil {
		return err
	}
	confs := [2]map[string]*conf.Path{buildConfs(sc, root, false), buildConfs(sc, root, true)}
	all := make([]int, len(sc.own))
	for i := range all {
		all[i] = i
	}
	files, _, err := layout(sc, root, confs[0], now, all)
	if err != nil {
		return err
	}
	byName := map[string]entry{}
	for _, f := range files {
		byName[f.fpath] = f.e
	}
	var walk []string
	filepath.WalkDir(root, func(p string, d fs.DirEntry, err error) error { //nolint:errcheck
		if err == nil && d.Type().IsRegular() {
			walk = append(walk, p)
		}
		return nil
	})
	if len(walk) != len(files) {
		return fmt.Errorf("order scenario %s: %d files laid out, %d walked", sc.name, len(files), len(walk))
	}
	gone := map[string]bool{}
	for pass := 0; pass < 2; pass++ {
		pat := map[string]string{}
		for _, p := range walk {
			if gone[p] {
				continue
			}
			e := byName[p]
			c, _, err := conf.FindPathConf(confs[pass], e.path)
			if err != nil {
				return fmt.Errorf("order scenario %s: path %q has no configuration", sc.name, e.path)
			}
			ft, why := model(confs[pass], p, now)
			switch {
			case c.RecordDeleteAfter == 0:
				if ft != mustStay {
					return fmt.Errorf("order scenario %s: %s: delay 0 but the model says %s (%s)", sc.name, e.id, ft, why)
				}
			case e.age > time.Duration(c.RecordDeleteAfter):
				if ft != mustGo {
					return fmt.Errorf("order scenario %s: %s: expired but the model says %s (%s)", sc.name, e.id, ft, why)
				}
				pat[e.path] += "E"
				if pass == 0 {
					gone[p] = true
				}
			case e.age < time.Duration(c.RecordDeleteAfter):
				if ft != mustStay {
					return fmt.Errorf("order scenario %s: %s: fresh but the model says %s (%s)", sc.name, e.id, ft, why)
				}
				pat[e.path] += "F"
			default:
				return fmt.Errorf("order scenario %s: %s starts exactly at the limit", sc.name, e.id)
			}
		}
		alternating, freshFirst := false, false
		var names []string
		for n := range pat {
			names = append(names, n)
		}
		sort.Strings(names)
		for _, n := range names {
			s := pat[n]
			out[fmt.Sprintf("%s|pass%d|%s", sc.name, pass+1, n)] = s
			changes := 0
			for i := 1; i < len(s); i++ {
				if s[i] != s[i-1] {
					changes++
				}
			}
			if changes >= 3 && strings.Contains(s, "FE") {
				alternating = true
			}
			if i := strings.Index(s, "F"); i >= 0 && strings.Contains(s[i:], "E") {
				freshFirst = true
			}
		}
		if pass == 0 && !alternating {
			return fmt.Errorf("order scenario %s: no path alternates fresh/expired in walk order in pass 1: %v", sc.name, pat)
		}
		if !freshFirst {
			return fmt.Errorf("order scenario %s: no fresh segment before an expired one in walk order in pass %d: %v", sc.name, pass+1, pat)
		}
	}
	return nil
}
