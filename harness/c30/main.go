// C30: retention deletes only expired segments of the right path.
//
// Engine X (explicit histories of depth 2 over real objects): for every configuration of a small set and
// every tree built from at most k files of a pool (segments of several paths at ages around the delays,
// look-alike names, foreign files), a real recordcleaner.Cleaner is started (its own first pass runs under
// the fixed clock), reloaded through the real ReloadPathConfs with a second configuration, closed, and one
// more pass is run through the export shim. After each pass the set of deleted regular files is compared
// with the reference model: {files that are, as a whole name, the segment of a path P whose configuration
// (conf.FindPathConf) has recordDeleteAfter != 0 and whose start < now - recordDeleteAfter}.
//
// Two families of scenarios: the "common" ones share a pool of files around the delays, with look-alikes and
// foreign files, under layouts whose lexical order is chronological; the "order" ones (order.go) have layouts
// whose lexical (directory walk) order is NOT chronological and pools of instants chosen so that fresh and
// expired segments of one path alternate in walk order.
package main

import (
	"fmt"
	"io/fs"
	"os"
	"path/filepath"
	"regexp"
	"sort"
	"strings"
	"sync"
	"time"

	"github.com/bluenviron/mediamtx/internal/conf"
	"github.com/bluenviron/mediamtx/internal/logger"
	"github.com/bluenviron/mediamtx/internal/recordcleaner"
	"github.com/bluenviron/mediamtx/internal/recordstore"
	"github.com/bluenviron/mediamtx/internal/zzverif/c26lib"
	"github.com/bluenviron/mediamtx/internal/zzverif/vcommon"
)

type nilLogger struct{}

func (nilLogger) Log(logger.Level, string, ...any) {}

// pc is one path configuration of a scenario; %R in recordPath is the case's private root.
type pc struct {
	name   string
	re     string // regexp source for regexp confs
	rp     string
	delay  time.Duration
	delay2 time.Duration // after the reload
}

type scenario struct {
	name    string
	confs   []pc
	primary string // layout format for paths that resolve to no configuration
	// order scenarios (order.go): an own pool, enumerated up to ownQuick / ownThorough files per tree
	own         []entry
	ownQuick    int
	ownThorough int
}

const (
	fDefault    = "%R/rec/%path/%Y-%m-%d_%H-%M-%S-%f"
	fUnderscore = "%R/rec/%path_%Y-%m-%d_%H-%M-%S-%f"
	fDateDirs   = "%R/rec/%Y/%m/%d/%path/%H-%M-%S-%f"
	fUnix       = "%R/rec/%path/%s-%f"
	h           = time.Hour
)

var scenarios = []scenario{
	{"default-dirs", []pc{
		{"a", "", fDefault, 1 * h, 0},
		{"a/b", "", fDefault, 0, 1 * h},
		{"~^r", "^r", fDefault, 2 * h, 1 * h},
	}, fDefault, nil, 0, 0},
	{"underscore", []pc{
		{"a", "", fUnderscore, 1 * h, 0},
		{"a/b", "", fUnderscore, 0, 1 * h},
		{"~^r", "^r", fUnderscore, 2 * h, 1 * h},
	}, fUnderscore, nil, 0, 0},
	{"shared-prefix", []pc{
		{"a", "", fDefault, 1 * h, 2 * h},
		{"a/b", "", "%R/rec2/%path/%Y-%m-%d_%H-%M-%S-%f", 0, 1 * h},
		{"~^r", "^r", "%R/rec/a/%path/%Y-%m-%d_%H-%M-%S-%f", 2 * h, 0},
	}, fDefault, nil, 0, 0},
	{"catch-all", []pc{
		{"all_others", "^.*$", fDefault, h / 2, 2 * h},
		{"a", "", fDefault, 0, 1 * h},
	}, fDefault, nil, 0, 0},
	{"date-dirs", []pc{
		{"a", "", fDateDirs, 1 * h, 0},
		{"a/b", "", fDateDirs, 0, 1 * h},
		{"~^r", "^r", fDateDirs, 2 * h, 1 * h},
	}, fDateDirs, nil, 0, 0},
	{"unix", []pc{
		{"a", "", fUnix, 1 * h, 0},
		{"a/b", "", fUnix, 0, 1 * h},
		{"~^r", "^r", fUnix, 2 * h, 1 * h},
	}, fUnix, nil, 0, 0},
}

// pool entry: a file of the tree.
type entry struct {
	id   string
	path string         // path name ("" for foreign files); %X = the root-repeating path name
	age  time.Duration  // start = now - age
	dev  string         // "", "suffix:.bak", "child", "digit-dropped", "foreign:<relative name>"
	zone *time.Location // zone the recorder's clock carried at that instant (nil: the server zone, time.Local)
}

const us = time.Microsecond

var pool = []entry{
	{"a@1h+1us", "a", 1*h + us, "", nil},
	{"a@1h", "a", 1 * h, "", nil},
	{"a@1h-1us", "a", 1*h - us, "", nil},
	{"a@400d", "a", 400 * 24 * h, "", nil},
	{"a/b@400d", "a/b", 400 * 24 * h, "", nil},
	{"a/b@1h-1us", "a/b", 1*h - us, "", nil},
	{"r1@3h", "r1", 3 * h, "", nil},
	{"r1@90m", "r1", 90 * time.Minute, "", nil},
	{"r1@2h", "r1", 2 * h, "", nil},
	{"r2@400d", "r2", 400 * 24 * h, "", nil},
	{"zz@400d", "zz", 400 * 24 * h, "", nil},
	{"xRa@400d", "%X", 400 * 24 * h, "", nil},
	{"a@401d.bak", "a", 401 * 24 * h, "suffix:.bak", nil},
	{"a@402d/child", "a", 402 * 24 * h, "child", nil},
	{"r1@400d.tmp", "r1", 400 * 24 * h, "suffix:.tmp", nil},
	{"a@10m.bak", "a", 10 * time.Minute, "suffix:.bak", nil},
	{"a@403d-digit", "a", 403 * 24 * h, "digit-dropped", nil},
	{"foreign-in-a", "", 0, "foreign:rec/a/notes.txt", nil},
	{"foreign-root", "", 0, "foreign:rec/readme.txt", nil},
}

func buildConfs(sc scenario, root string, second bool) map[string]*conf.Path {
	out := map[string]*conf.Path{}
	for _, c := range sc.confs {
		d := c.delay
		if second {
			d = c.delay2
		}
		p := &conf.Path{
			Name:              c.name,
			RecordPath:        strings.ReplaceAll(c.rp, "%R", root),
			RecordFormat:      conf.RecordFormatFMP4,
			RecordDeleteAfter: conf.Duration(d),
		}
		if c.re != "" {
			p.Regexp = regexp.MustCompile(c.re)
		}
		out[c.name] = p
	}
	return out
}

// fate of a file according to the statement.
type fate int

const (
	mustStay fate = iota
	mustGo
	dontCare
)

func (f fate) String() string { return [...]string{"must-stay", "must-go", "dont-care"}[f] }

// model: is file fpath an expired segment under confs at now?
func model(confs map[string]*conf.Path, fpath string, now time.Time) (fate, string) {
	res := mustStay
	why := "not a segment of any configured path"
	names := make([]string, 0, len(confs))
	for n := range confs {
		names = append(names, n)
	}
	sort.Strings(names)
	for _, n := range names {
		c := confs[n]
		abs, _ := filepath.Abs(recordstore.PathAddExtension(c.RecordPath, c.RecordFormat))
		toks := c26lib.Tokenize(abs)
		fixed := ""
		if c.Regexp == nil {
			fixed = c.Name
		}
		for _, cand := range c26lib.Parse(toks, fpath, fixed, time.Local) {
			// the path's configuration
			pconf, _, err := conf.FindPathConf(confs, cand.Path)
			if err != nil || pconf != c {
				continue
			}
			if c.RecordDeleteAfter == 0 {
				if res == mustStay {
					why = fmt.Sprintf("segment of %q whose recordDeleteAfter is 0", cand.Path)
				}
				continue
			}
			end := now.Add(-time.Duration(c.RecordDeleteAfter))
			switch {
			case cand.Any || cand.T.Equal(end):
				if res == mustStay {
					res, why = dontCare, fmt.Sprintf("segment of %q starting exactly at now-recordDeleteAfter", cand.Path)
				}
			case cand.T.Before(end):
				return mustGo, fmt.Sprintf("segment of %q (conf %q) started %s, older than now-%s", cand.Path, c.Name, cand.T.Format(time.RFC3339Nano), time.Duration(c.RecordDeleteAfter))
			default:
				if res == mustStay {
					why = fmt.Sprintf("segment of %q started %s, not older than now-%s", cand.Path, cand.T.Format(time.RFC3339Nano), time.Duration(c.RecordDeleteAfter))
				}
			}
		}
	}
	return res, why
}

func snapshot(root string) map[string]string {
	out := map[string]string{}
	filepath.WalkDir(root, func(p string, d fs.DirEntry, err error) error { //nolint:errcheck
		if err == nil && d.Type().IsRegular() {
			b, _ := os.ReadFile(p)
			out[p] = string(b)
		}
		return nil
	})
	return out
}

// placed is a pool entry laid out in a tree.
type placed struct {
	e     entry
	fpath string
}

// layout writes the files idxs of the scenario's pool below root, named as the recorders would have named them.
func layout(sc scenario, root string, confs1 map[string]*conf.Path, now time.Time, idxs []int) ([]placed, []string, error) {
	pl := pool
	if sc.own != nil {
		pl = sc.own
	}
	xPath := "x/" + strings.TrimPrefix(filepath.Join(root, "rec"), "/") + "/a"
	c26lib.CheckPathNameRule(xPath)
	var files []placed
	var ids []string
	for _, pi := range idxs {
		e := pl[pi]
		ids = append(ids, e.id)
		var fpath string
		if strings.HasPrefix(e.dev, "foreign:") {
			fpath = filepath.Join(root, strings.TrimPrefix(e.dev, "foreign:"))
		} else {
			pn := e.path
			if pn == "%X" {
				pn = xPath
			}
			rp := strings.ReplaceAll(sc.primary, "%R", root)
			if c, _, err := conf.FindPathConf(confs1, pn); err == nil {
				rp = c.RecordPath
			}
			start := now.Add(-e.age)
			if e.zone != nil {
				start = start.In(e.zone)
			}
			fpath = recordstore.Path{Start: start}.Encode(
				recordstore.PathAddExtension(strings.ReplaceAll(rp, "%path", pn), conf.RecordFormatFMP4))
			if m := c26lib.ModelEncode(c26lib.Tokenize(recordstore.PathAddExtension(rp, conf.RecordFormatFMP4)), pn, start); m != fpath {
				return nil, nil, fmt.Errorf("model encoding %q != recorder's %q", m, fpath)
			}
			switch {
			case strings.HasPrefix(e.dev, "suffix:"):
				fpath += strings.TrimPrefix(e.dev, "suffix:")
			case e.dev == "child":
				fpath = filepath.Join(fpath, "child.txt")
			case e.dev == "digit-dropped":
				// drop the last digit of the name (microseconds get 5 digits)
				ext := filepath.Ext(fpath)
				fpath = fpath[:len(fpath)-len(ext)-1] + ext
			}
		}
		if err := os.MkdirAll(filepath.Dir(fpath), 0o755); err != nil {
			return nil, nil, err
		}
		if _, err := os.Stat(fpath); err == nil {
			return nil, nil, fmt.Errorf("two pool entries have the name %q", fpath)
		}
		if err := os.WriteFile(fpath, []byte("content of "+e.id), 0o644); err != nil {
			return nil, nil, err
		}
		files = append(files, placed{e, fpath})
	}
	return files, ids, nil
}

func main() {
	r := vcommon.Start("C30", "model_checking")
	maxFiles := 3
	if r.Thorough() {
		maxFiles = 5
	}
	rome, err := time.LoadLocation("Europe/Rome")
	if err != nil {
		vcommon.Harness("%v", err)
	}
	time.Local = rome
	now := time.Date(2026, 9, 21, 12, 0, 0, 0, time.Local)
	recordcleaner.VerifC30SetNow(now)

	base, err := os.MkdirTemp("", "c30-")
	if err != nil {
		vcommon.Harness("%v", err)
	}
	defer os.RemoveAll(base)
	fail := func(format string, a ...any) {
		os.RemoveAll(base)
		vcommon.Harness(format, a...)
	}

	if !now.Equal(nowAbs) {
		fail("clock constants disagree: %s != %s", now, nowAbs)
	}
	scenarios = append(scenarios, orderScenarios...)

	// all subsets of {0..n-1} of size <= max, smallest first
	subsetsOf := func(n, max int) [][]int {
		var subsets [][]int
		var gen func(start int, cur []int)
		gen = func(start int, cur []int) {
			subsets = append(subsets, append([]int(nil), cur...))
			if len(cur) == max {
				return
			}
			for i := start; i < n; i++ {
				gen(i+1, append(cur, i))
			}
		}
		gen(0, nil)
		sort.SliceStable(subsets, func(i, j int) bool { return len(subsets[i]) < len(subsets[j]) })
		return subsets
	}
	subsets := subsetsOf(len(pool), maxFiles)

	nOrder, ownQ, ownT := 0, 0, 0
	for _, sc := range scenarios {
		if sc.own != nil {
			nOrder++
			ownQ, ownT = sc.ownQuick, sc.ownThorough
		}
	}
	ownMax := ownQ
	if r.Thorough() {
		ownMax = ownT
	}
	r.Rule = fmt.Sprintf("all (common scenario of %d) x (subsets of size < %[2]d of a pool of %[3]d files; size %[2]d for the first scenario, in thorough also for catch-all) "+
		"+ all (order scenario of %[4]d: layouts whose walk order is not chronological) x (subsets of size <= %[5]d of the scenario's own pool of 10-13 segments alternating fresh/expired in walk order); "+
		"history = start (pass 1) -> ReloadPathConfs -> pass 2; "+
		"state = (configuration, set of regular files); distinct = (scenario, pass, pool entry, fate by the model, observed)", len(scenarios)-nOrder, maxFiles, len(pool), nOrder, ownMax)

	type vrec struct {
		order int
		what  string
		rep   any
		count int
	}
	var mu sync.Mutex
	viols := map[string]*vrec{}
	states := map[string]bool{}
	transitions := 0
	fates := map[string]int{}
	samples := map[int]any{}

	type job struct {
		si     int
		subset []int
		sample bool
	}
	var jobs []job
	for si, sc := range scenarios {
		if sc.own != nil {
			max := sc.ownQuick
			if r.Thorough() {
				max = sc.ownThorough
			}
			for _, ss := range subsetsOf(len(sc.own), max) {
				jobs = append(jobs, job{si, ss, len(ss) == 3 && ss[0] == 0 && ss[1] == 1 && ss[2] == 2})
			}
			continue
		}
		for _, ss := range subsets {
			// the largest trees only for the first scenario (quick) / the first and the catch-all one (thorough)
			if len(ss) == maxFiles && si != 0 && !(r.Thorough() && sc.name == "catch-all") {
				continue
			}
			jobs = append(jobs, job{si, ss, si == 0 && len(ss) == 3 && ss[0] == 0 && ss[1] == 7})
		}
	}

	// non-vacuity of the order scenarios: walk order of the whole pool, fresh/expired per path and pass
	patterns := map[string]string{}
	for _, sc := range scenarios {
		if sc.own == nil {
			continue
		}
		root := filepath.Join(base, "order-"+sc.name)
		if err := orderSelfCheck(sc, root, now, patterns); err != nil {
			fail("%v", err)
		}
		os.RemoveAll(root)
	}

	vcommon.Parallel(len(jobs), func(k int) {
		j := jobs[k]
		sc := scenarios[j.si]
		root := filepath.Join(base, fmt.Sprintf("%d", k))
		if err := os.MkdirAll(filepath.Join(root, "rec"), 0o755); err != nil {
			fail("%v", err)
		}
		defer os.RemoveAll(root)
		confs1 := buildConfs(sc, root, false)
		confs2 := buildConfs(sc, root, true)

		files, ids, err := layout(sc, root, confs1, now, j.subset)
		if err != nil {
			fail("%v", err)
		}

		report := func(order int, key, what string) {
			mu.Lock()
			defer mu.Unlock()
			v := viols[key]
			if v == nil {
				v = &vrec{order: order + 1}
				viols[key] = v
			}
			v.count++
			if order < v.order {
				v.order, v.what = order, what
				v.rep = map[string]any{"scenario": sc.name, "files": ids, "now": now.Format(time.RFC3339Nano)}
			}
		}

		judge := func(pass int, confs map[string]*conf.Path, before, after map[string]string) {
			for _, pl := range files {
				content, was := before[pl.fpath]
				if !was {
					continue // deleted by an earlier pass
				}
				ft, why := model(confs, pl.fpath, now)
				got, still := after[pl.fpath]
				obs := "kept"
				if !still {
					obs = "deleted"
				} else if got != content {
					obs = "modified"
				}
				rel := strings.ReplaceAll(pl.fpath, root, "<root>")
				r.Eval(1)
				mu.Lock()
				fates[ft.String()+"/"+obs]++
				mu.Unlock()
				r.Distinct(fmt.Sprintf("%s|pass%d|%s|%s|%s", sc.name, pass, pl.e.id, ft, obs))
				kind := pl.e.dev
				if kind == "" {
					kind = "segment"
					if pl.e.path == "%X" {
						kind = "segment-of-path-repeating-the-record-root"
					}
				}
				switch {
				case strings.HasPrefix(kind, "foreign"):
					kind = "foreign-file"
				case strings.HasPrefix(kind, "suffix"):
					kind = "segment-name-plus-suffix"
				case kind == "child":
					kind = "child-of-directory-named-like-segment"
				}
				if sc.own != nil {
					kind += ":layout-not-chronological:" + sc.name
				}
				switch {
				case obs == "modified":
					report(k*10+pass, "file-modified:"+kind, fmt.Sprintf("[%s pass %d] %s was modified", sc.name, pass, rel))
				case ft == mustStay && obs == "deleted":
					report(k*10+pass, "deleted-but-must-stay:"+kind,
						fmt.Sprintf("[%s pass %d, files %v] %s was deleted: %s", sc.name, pass, ids, rel, why))
				case ft == mustGo && obs != "deleted":
					report(k*10+pass, "kept-but-expired:"+kind,
						fmt.Sprintf("[%s pass %d, files %v] %s was kept: %s", sc.name, pass, ids, rel, why))
				}
			}
			for p := range after {
				if _, ok := before[p]; !ok {
					report(k*10+pass, "file-created", fmt.Sprintf("[%s pass %d] %s appeared", sc.name, pass, strings.ReplaceAll(p, root, "<root>")))
				}
			}
		}
		stateKey := func(tag string, snap map[string]string) string {
			var ks []string
			for p := range snap {
				ks = append(ks, strings.ReplaceAll(p, root, ""))
			}
			sort.Strings(ks)
			return sc.name + "|" + tag + "|" + strings.Join(ks, ",")
		}

		s0 := snapshot(root)
		cl := &recordcleaner.Cleaner{PathConfs: confs1, Parent: nilLogger{}}
		cl.Initialize()            // run(): first pass, asynchronously
		cl.ReloadPathConfs(confs2) // received by run() only after the first pass has returned
		s1 := snapshot(root)       // no pass is running: the next timer is >= 15 minutes away
		cl.Close()                 // run() has returned: PathConfs == confs2
		judge(1, confs1, s0, s1)
		recordcleaner.VerifC30Pass(cl)
		s2 := snapshot(root)
		judge(2, confs2, s1, s2)

		mu.Lock()
		states[stateKey("conf1", s0)] = true
		states[stateKey("conf1", s1)] = true
		states[stateKey("conf2", s1)] = true
		states[stateKey("conf2", s2)] = true
		transitions += 3
		mu.Unlock()
		if j.sample {
			mu.Lock()
			samples[k] = map[string]any{"scenario": sc.name, "files": ids, "after_pass1": len(s1), "after_pass2": len(s2)}
			mu.Unlock()
		}
	})
	// samples in job order (deterministic), alternating the two families
	var sk [2][]int
	for k := range samples {
		f := 0
		if scenarios[jobs[k].si].own != nil {
			f = 1
		}
		sk[f] = append(sk[f], k)
	}
	sort.Ints(sk[0])
	sort.Ints(sk[1])
	for i := 0; i < 4; i++ {
		for f := 0; f < 2; f++ {
			if i < len(sk[f]) {
				r.Sample(samples[sk[f][i]])
			}
		}
	}

	for key, v := range viols {
		r.Violation(key, v.what, v.rep)
		for i := 1; i < v.count; i++ {
			r.Violation(key, "", nil)
		}
	}
	r.Set("states", len(states))
	r.Set("transitions", transitions)
	r.Set("traces_validated_against_impl", len(jobs))
	r.Set("histories", len(jobs))
	r.Set("max_depth", 2)
	r.Set("fate_by_model/observed", fates)
	r.Set("order_scenarios_walk_order_fresh_expired", patterns)
	r.Exhaustive = true
	r.Assumptions = []string{
		"a file is a segment of path P iff its whole absolute name is the encoding (c26lib reference parser) of (P, instant) under the record path of the configuration P resolves to (conf.FindPathConf, trusted here; C14 judges it)",
		"a segment starting exactly at now-recordDeleteAfter may be kept or deleted; removal of directories is not judged (the statement is about regular files)",
		"one server zone (Europe/Rome), one clock value; common scenarios: ages around the delays (+-1 microsecond, between two delays, 400 days); order scenarios: instants days to decades old, " +
			"some named under another zone offset (zone-first layout); fMP4 extension only",
		"order scenarios: the layouts are day-first, month-first, day-first date directories, %s with 8/9/10-digit instants, %z before the date, %z after the time across the 2025-10-26 DST overlap; " +
			"the walk order is the one filepath.WalkDir yields on the real tree (self-checked to alternate fresh/expired)",
		"the first pass is the one Cleaner.run() performs at start, the second runs through the shim after the real ReloadPathConfs and Close; timer-driven passes (>= 15 min) never fire",
	}
	os.RemoveAll(base)
	r.Finish()
}
