// C14: path configuration resolution is deterministic and precedence-correct.
// Engine B: all sets of <=K configuration names over an alphabet (validated by the real
// conf.Load) x all requested names over an alphabet, resolved by the real conf.FindPathConf on
// maps built in every insertion order, compared with a resolver written from the statement.
package main

import (
	"fmt"
	"os"
	"path/filepath"
	"reflect"
	"regexp"
	"sort"
	"strings"
	"sync/atomic"

	"github.com/bluenviron/mediamtx/internal/conf"
	"github.com/bluenviron/mediamtx/internal/zzverif/vcommon"
)

// validName is the validity rule as written in the statement of C06 (the only definition of a
// "valid" name in the property list): non-empty, only letters, digits, '_', '-', '.', '/', no
// leading/trailing slash, no '.' or '..' segment.
func validName(s string) bool {
	if s == "" || s[0] == '/' || s[len(s)-1] == '/' {
		return false
	}
	for i := 0; i < len(s); i++ {
		c := s[i]
		ok := c >= 'a' && c <= 'z' || c >= 'A' && c <= 'Z' || c >= '0' && c <= '9' || c == '_' || c == '-' || c == '.' || c == '/'
		if !ok {
			return false
		}
	}
	for _, seg := range strings.Split(s, "/") {
		if seg == "." || seg == ".." {
			return false
		}
	}
	return true
}

func isAlias(n string) bool { return n == "all" || n == "all_others" }

// refRegexp: the regular expression a configuration name stands for, nil for static names.
func refRegexp(name string) *regexp.Regexp {
	if isAlias(name) {
		return regexp.MustCompile(`^.*$`)
	}
	if strings.HasPrefix(name, "~") {
		return regexp.MustCompile(name[1:])
	}
	return nil
}

type refOut struct {
	kind   string // exact | regexp | rejected
	conf   string
	groups []string
	nmatch int // number of regexp confs matching (collision degree)
	pos    int // position of the chosen conf in the ordered regexp list
}

// reference resolver, from the statement.
func resolve(names []string, req string) refOut {
	for _, n := range names {
		if n == req {
			return refOut{kind: "exact", conf: n}
		}
	}
	if !validName(req) {
		return refOut{kind: "rejected"}
	}
	var res []string
	for _, n := range names {
		if refRegexp(n) != nil {
			res = append(res, n)
		}
	}
	// name order, all/all_others last
	sort.Slice(res, func(i, j int) bool {
		ai, aj := isAlias(res[i]), isAlias(res[j])
		if ai != aj {
			return aj
		}
		return res[i] < res[j]
	})
	out := refOut{kind: "rejected", pos: -1}
	for i, n := range res {
		m := refRegexp(n).FindStringSubmatch(req)
		if m != nil {
			out.nmatch++
			if out.kind == "rejected" {
				out = refOut{kind: "regexp", conf: n, groups: m, nmatch: out.nmatch, pos: i}
			}
		}
	}
	return out
}

func permutations(n int) [][]int {
	var out [][]int
	p := make([]int, n)
	for i := range p {
		p[i] = i
	}
	var rec func(k int)
	rec = func(k int) {
		if k == n {
			out = append(out, append([]int(nil), p...))
			return
		}
		for i := k; i < n; i++ {
			p[k], p[i] = p[i], p[k]
			rec(k + 1)
			p[k], p[i] = p[i], p[k]
		}
	}
	rec(0)
	return out
}

func loadConf(dir string, idx int, names []string) (*conf.Conf, error) {
	var sb strings.Builder
	sb.WriteString("paths:\n")
	for _, n := range names {
		sb.WriteString("  '" + strings.ReplaceAll(n, "'", "''") + "':\n")
	}
	if len(names) == 0 {
		sb.Reset()
		sb.WriteString("paths: {}\n")
	}
	fp := filepath.Join(dir, fmt.Sprintf("c%d.yml", idx))
	if err := os.WriteFile(fp, []byte(sb.String()), 0o644); err != nil {
		vcommon.Harness("write conf: %v", err)
	}
	defer os.Remove(fp)
	c, _, err := conf.Load(fp, nil, nil)
	return c, err
}

func main() {
	r := vcommon.Start("C14", "exploration")

	for _, e := range os.Environ() {
		if strings.HasPrefix(e, "MTX_") || strings.HasPrefix(e, "RTSP_") {
			vcommon.Harness("environment variable %s would alter the loaded configuration", strings.SplitN(e, "=", 2)[0])
		}
	}

	// configuration names: static, regexps that overlap in what they match and that sort on both
	// sides of each other in byte order ('(' < '.' < '^' < 'a' < 'b'), the three aliases.
	confNames := []string{
		"a", "ab", "a/b", "all", "all_others", "~^.*$",
		"~^a", "~^(a)(b)?$", "~b$", "~a", "~(a)/(b)", "~^(a|b)+$",
	}
	maxSet := 4
	reqLen := 3
	repeats := 3
	if r.Thorough() {
		confNames = append(confNames, "b", "~.", "~^(?P<x>[ab/]*)$", "~^zz$")
		maxSet = 5
		reqLen = 4
		repeats = 4
	}

	// requested names: all strings <= reqLen over {a,b,/}, the configuration names, invalid names
	reqSet := map[string]struct{}{}
	var gen func(p string)
	gen = func(p string) {
		reqSet[p] = struct{}{}
		if len(p) == reqLen {
			return
		}
		for _, c := range []string{"a", "b", "/"} {
			gen(p + c)
		}
	}
	gen("")
	for _, n := range confNames {
		reqSet[n] = struct{}{}
	}
	for _, n := range []string{".", "..", "a/..", "../a", "a/./b", "a b", "a\n", "ä", "a%2fb", "~", "~a$", "a.b", "A_-.9", "...", "a//b"} {
		reqSet[n] = struct{}{}
	}
	var reqs []string
	for n := range reqSet {
		reqs = append(reqs, n)
	}
	sort.Slice(reqs, func(i, j int) bool {
		if len(reqs[i]) != len(reqs[j]) {
			return len(reqs[i]) < len(reqs[j])
		}
		return reqs[i] < reqs[j]
	})

	// all subsets of size <= maxSet
	var sets [][]string
	var sub func(start int, cur []string)
	sub = func(start int, cur []string) {
		sets = append(sets, append([]string(nil), cur...))
		if len(cur) == maxSet {
			return
		}
		for i := start; i < len(confNames); i++ {
			sub(i+1, append(cur, confNames[i]))
		}
	}
	sub(0, nil)
	sort.SliceStable(sets, func(i, j int) bool { return len(sets[i]) < len(sets[j]) })

	r.Rule = fmt.Sprintf("all %d subsets of size <=%d of %d configuration names (each loaded and validated by conf.Load; sets with two of all/all_others/~^.*$ must be refused) "+
		"x %d requested names (all strings <=%d over {a,b,/}, the configuration names, 15 invalid/edge names), each resolved on maps built in every insertion order x %d repeats; "+
		"distinct = (kind, chosen configuration, number of matching regexp configurations, position of the chosen one, group count)",
		len(sets), maxSet, len(confNames), len(reqs), reqLen, repeats)

	dir, err := os.MkdirTemp("", "verif-c14-")
	if err != nil {
		vcommon.Harness("tmp: %v", err)
	}
	defer os.RemoveAll(dir)

	perms := map[int][][]int{}
	for n := 0; n <= maxSet; n++ {
		perms[n] = permutations(n)
	}

	type pending struct {
		key, what string
		replay    any
		count     int
	}
	pend := make([][]pending, len(sets))
	var refused, multiMatch, literalRegexpReq, calls atomic.Int64
	kindCount := map[string]*atomic.Int64{"exact": {}, "regexp": {}, "rejected-invalid": {}, "rejected-unconfigured": {}}
	sampleSlots := make([]any, len(sets))

	vcommon.Parallel(len(sets), func(si int) {
		names := sets[si]
		add := func(key, what string, replay any) {
			for i := range pend[si] {
				if pend[si][i].key == key {
					pend[si][i].count++
					return
				}
			}
			pend[si] = append(pend[si], pending{key, what, replay, 1})
		}
		aliases := 0
		for _, n := range names {
			if isAlias(n) || n == "~^.*$" {
				aliases++
			}
		}
		c, err := loadConf(dir, si, names)
		r.Eval(1)
		if aliases >= 2 {
			// not part of the property (a configuration the server refuses to run with); but the
			// reference ordering is only defined for at most one of all/all_others, so it matters
			// that such sets cannot reach FindPathConf.
			if err == nil {
				add("two-aliases-accepted", fmt.Sprintf("configuration %q was accepted although all/all_others/~^.*$ are aliases", names),
					map[string]any{"confNames": names})
			}
			refused.Add(1)
			return
		}
		if err != nil {
			vcommon.Harness("configuration %q refused: %v", names, err)
		}
		if len(c.Paths) != len(names) {
			vcommon.Harness("configuration %q has %d paths", names, len(c.Paths))
		}
		local := map[string]struct{}{}
		var evals int
		for _, req := range reqs {
			want := resolve(names, req)
			rep := map[string]any{"confNames": names, "request": req}
			var first struct {
				set    bool
				conf   *conf.Path
				groups []string
				err    bool
			}
			for _, perm := range perms[len(names)] {
				m := make(map[string]*conf.Path, len(names))
				for _, pi := range perm {
					m[names[pi]] = c.Paths[names[pi]]
				}
				for rp := 0; rp < repeats; rp++ {
					pc, groups, err := conf.FindPathConf(m, req)
					evals++
					if (pc == nil) == (err == nil) {
						add("nil-conf-without-error", fmt.Sprintf("confs %q request %q: conf=%v err=%v", names, req, pc, err), rep)
						continue
					}
					if !first.set {
						first.set, first.conf, first.groups, first.err = true, pc, groups, err != nil
					} else if first.conf != pc || !reflect.DeepEqual(first.groups, groups) || first.err != (err != nil) {
						add("order-dependent", fmt.Sprintf("confs %q request %q: result differs between map insertion orders / repeated calls (%v %q vs %v %q)",
							names, req, confName(first.conf), first.groups, confName(pc), groups), rep)
					}
					got := "rejected"
					if err == nil {
						got = pc.Name
						if c.Paths[pc.Name] != pc {
							add("foreign-conf", fmt.Sprintf("confs %q request %q: returned a configuration that is not the map entry of its name", names, req), rep)
						}
					}
					switch want.kind {
					case "exact":
						literal := strings.HasPrefix(req, "~")
						if literal && err != nil {
							// a regexp configuration addressed by its literal name: C14 says exact-first, C06 says
							// such a name is never accepted; the two statements conflict, either outcome is accepted.
							break
						}
						if got != want.conf {
							add("exact-not-preferred", fmt.Sprintf("confs %q request %q: got %s, the configuration with exactly that name exists", names, req, got), rep)
						}
					case "regexp":
						if err != nil {
							add("match-rejected", fmt.Sprintf("confs %q request %q rejected (%v) although regexp configuration %q matches", names, req, err, want.conf), rep)
						} else if got != want.conf {
							add("wrong-precedence", fmt.Sprintf("confs %q request %q: got %q, first matching regexp configuration in name order (all/all_others last) is %q",
								names, req, got, want.conf), rep)
						} else if !reflect.DeepEqual(groups, want.groups) {
							add("groups-mismatch", fmt.Sprintf("confs %q request %q conf %q: groups %q, FindStringSubmatch gives %q", names, req, got, groups, want.groups), rep)
						}
					case "rejected":
						if err == nil {
							k := "unconfigured-accepted"
							if !validName(req) {
								k = "invalid-accepted"
							}
							add(k, fmt.Sprintf("confs %q request %q: resolved to %q, must be rejected", names, req, got), rep)
						}
					}
				}
			}
			// coverage classes
			switch want.kind {
			case "exact":
				kindCount["exact"].Add(1)
				if strings.HasPrefix(req, "~") {
					literalRegexpReq.Add(1)
				}
				local["exact|"+want.conf] = struct{}{}
			case "regexp":
				kindCount["regexp"].Add(1)
				if want.nmatch >= 2 {
					multiMatch.Add(1)
				}
				local[fmt.Sprintf("regexp|%s|matching=%d|pos=%d|groups=%d", want.conf, want.nmatch, want.pos, len(want.groups))] = struct{}{}
				if want.nmatch >= 3 && sampleSlots[si] == nil {
					sampleSlots[si] = map[string]any{"confNames": names, "request": req, "resolved": want.conf, "groups": want.groups, "matching_regexp_confs": want.nmatch}
				}
			default:
				if validName(req) {
					kindCount["rejected-unconfigured"].Add(1)
				} else {
					kindCount["rejected-invalid"].Add(1)
					local["rejected-invalid|"+req] = struct{}{}
				}
			}
		}
		r.Eval(len(reqs))
		calls.Add(int64(evals))
		for k := range local {
			r.Distinct(k)
		}
	})

	for _, ps := range pend {
		for _, p := range ps {
			for range p.count {
				r.Violation(p.key, p.what, p.replay)
			}
		}
	}
	n := 0
	for _, s := range sampleSlots {
		if s != nil && n%37 == 0 {
			r.Sample(s)
		}
		if s != nil {
			n++
		}
	}
	r.Set("configuration_sets", len(sets))
	r.Set("configuration_sets_refused_two_aliases", refused.Load())
	r.Set("findpathconf_calls", calls.Load())
	r.Set("cases_exact", kindCount["exact"].Load())
	r.Set("cases_regexp", kindCount["regexp"].Load())
	r.Set("cases_regexp_with_2plus_matching_confs", multiMatch.Load())
	r.Set("cases_rejected_invalid_name", kindCount["rejected-invalid"].Load())
	r.Set("cases_rejected_not_configured", kindCount["rejected-unconfigured"].Load())
	r.Set("cases_regexp_conf_addressed_by_literal_name_dont_care", literalRegexpReq.Load())
	if multiMatch.Load() == 0 || kindCount["exact"].Load() == 0 {
		os.RemoveAll(dir)
		vcommon.Harness("vacuous: no multi-match or no exact case")
	}
	os.RemoveAll(dir)
	r.Exhaustive = true
	r.Assumptions = []string{
		"'valid' is the rule spelled out in the statement of C06 (re-implemented in the harness, not conf.IsValidPathName)",
		"'name order' is byte-wise string order; the regular expression of a configuration is the name without '~' ('^.*$' for all/all_others), recompiled by the harness",
		"capture groups are judged only for regexp resolutions (the statement says nothing about groups of an exact hit)",
		"DON'T-CARE: a request equal to the literal name of a regexp configuration (e.g. '~^a'): C14 demands the exact hit, C06 demands rejection; both outcomes are accepted, any other outcome is a violation",
		"configurations come from conf.Load on a YAML file with empty path entries; sets holding two of all/all_others/~^.*$ are refused by Validate and never reach FindPathConf",
		"independence of map iteration order is probed by every insertion order x repeats with Go's randomised iteration, i.e. exhaustively over insertion orders but only statistically over the runtime's iteration start",
	}
	r.Finish()
}

func confName(p *conf.Path) string {
	if p == nil {
		return "<rejected>"
	}
	return p.Name
}
