package main

// Reference model of the metrics exposition, written from the property statement and the
// documented metric list (docs/2-features/22-metrics.md): every entity a provider lists is
// exposed as <type>{labels} 1 plus one sample per numeric counter field of the entity, named
// <type>_<field in snake case>, carrying the entity's label values.

import (
	"fmt"
	"math"
	"math/big"
	"reflect"
	"strconv"
	"strings"
	"unicode/utf8"

	"github.com/google/uuid"

	"github.com/bluenviron/mediamtx/internal/defs"
)

// metric type names = metric name prefixes = values of the `type` query parameter
var typeNames = []string{
	"paths", "forward_dests", "hls_sessions", "hls_muxers",
	"rtsp_conns", "rtsp_sessions", "rtsps_conns", "rtsps_sessions",
	"rtmp_conns", "rtmps_conns", "srt_conns", "webrtc_sessions", "moq_sessions",
}

// filter query parameter of each type (docs: "Metrics can be filtered by using HTTP query parameters")
var filterParam = map[string]string{
	"paths": "path", "forward_dests": "forward_dest", "hls_sessions": "hls_session", "hls_muxers": "hls_muxer",
	"rtsp_conns": "rtsp_conn", "rtsp_sessions": "rtsp_session", "rtsps_conns": "rtsps_conn", "rtsps_sessions": "rtsps_session",
	"rtmp_conns": "rtmp_conn", "rtmps_conns": "rtmps_conn", "srt_conns": "srt_conn", "webrtc_sessions": "webrtc_session",
	"moq_sessions": "moq_session",
}

// metric suffixes whose spelling does not normalise to the field name
var suffixExceptions = map[string]string{
	"bytesmss": "bytemss", // srt_conns_bytes_mss <-> APISRTConn.ByteMSS
}

type numv struct {
	isFloat bool
	u       uint64
	f       float64
}

func (n numv) String() string {
	if n.isFloat {
		return strconv.FormatFloat(n.f, 'g', -1, 64)
	}
	return strconv.FormatUint(n.u, 10)
}

// ent is one entity as the model sees it.
type ent struct {
	typ      string
	id       string // what the type's filter parameter selects
	ownerKey string // forward destinations: name of the owning path
	labels   map[string]string
	nums     map[string]numv // normalised field name -> counter
	readers  map[string]int  // paths only: readers by type
	desc     string
}

type world struct {
	paths    []defs.APIPath
	forwards map[string][]defs.APIForwardDest
	lists    map[string][]any // the other types, concrete defs.API* values
	disabled map[string]bool  // provider not configured (nil server)
}

func newWorld() *world {
	return &world{forwards: map[string][]defs.APIForwardDest{}, lists: map[string][]any{}, disabled: map[string]bool{}}
}

func numsOf(v any) map[string]numv {
	out := map[string]numv{}
	rv := reflect.ValueOf(v)
	rt := rv.Type()
	for i := 0; i < rt.NumField(); i++ {
		f := rt.Field(i)
		switch f.Type.Kind() {
		case reflect.Uint64:
			out[strings.ToLower(f.Name)] = numv{u: rv.Field(i).Uint()}
		case reflect.Float64:
			out[strings.ToLower(f.Name)] = numv{isFloat: true, f: rv.Field(i).Float()}
		}
	}
	return out
}

// fill gives every counter of *ptr a value that identifies the field (so that a swapped field is
// visible), at one of four magnitudes.
func fill(ptr any, seed int, mag int) {
	rv := reflect.ValueOf(ptr).Elem()
	rt := rv.Type()
	floatSpecials := []float64{math.NaN(), math.Inf(1), math.Inf(-1), 1e21, 1e-7, math.MaxFloat64, math.SmallestNonzeroFloat64, -1.5}
	for i := 0; i < rt.NumField(); i++ {
		f := rv.Field(i)
		switch f.Kind() {
		case reflect.Uint64:
			switch mag {
			case 0:
				f.SetUint(uint64(seed*1000 + i + 1))
			case 1:
				f.SetUint(0)
			case 2:
				f.SetUint(uint64(math.MaxInt64) - uint64(seed*1000+i))
			case 3:
				f.SetUint(1<<53 + 1 + uint64(seed*1000+i)*2)
			}
		case reflect.Float64:
			switch mag {
			case 0:
				f.SetFloat(float64(seed*1000+i) + 0.5)
			case 1:
				f.SetFloat(0)
			case 2:
				f.SetFloat(floatSpecials[(i+seed)%len(floatSpecials)])
			case 3:
				f.SetFloat(float64(seed*1000+i) + 1.0/3.0)
			}
		}
	}
}

func mkID(typ string, idx int) uuid.UUID {
	ti := 0
	for i, t := range typeNames {
		if t == typ {
			ti = i
		}
	}
	return uuid.MustParse(fmt.Sprintf("0c36%04x-0000-4000-8000-%012x", ti, idx+1))
}

var remoteAddrs = []string{"192.168.1.7:53200", "[2001:db8::1]:443"}

// mkEntity builds the idx-th entity of a type; str is the client-chosen string (path / name).
func mkEntity(typ string, idx int, str string, mag int, stateIdx int) any {
	id := mkID(typ, idx)
	ra := remoteAddrs[idx%len(remoteAddrs)]
	seed := idx + 1
	switch typ {
	case "hls_sessions":
		e := defs.APIHLSSession{ID: id, RemoteAddr: ra, Path: str}
		fill(&e, seed, mag)
		return e
	case "hls_muxers":
		e := defs.APIHLSMuxer{Path: str}
		fill(&e, seed, mag)
		return e
	case "rtsp_conns", "rtsps_conns":
		e := defs.APIRTSPConn{ID: id, RemoteAddr: ra}
		fill(&e, seed, mag)
		return e
	case "rtsp_sessions", "rtsps_sessions":
		st := []defs.APIRTSPSessionState{defs.APIRTSPSessionStateIdle, defs.APIRTSPSessionStateRead, defs.APIRTSPSessionStatePublish}
		e := defs.APIRTSPSession{ID: id, RemoteAddr: ra, Path: str, State: st[stateIdx%len(st)]}
		fill(&e, seed, mag)
		return e
	case "rtmp_conns", "rtmps_conns":
		st := []defs.APIRTMPConnState{defs.APIRTMPConnStateIdle, defs.APIRTMPConnStateRead, defs.APIRTMPConnStatePublish}
		e := defs.APIRTMPConn{ID: id, RemoteAddr: ra, Path: str, State: st[stateIdx%len(st)]}
		fill(&e, seed, mag)
		return e
	case "srt_conns":
		st := []defs.APISRTConnState{defs.APISRTConnStateIdle, defs.APISRTConnStateRead, defs.APISRTConnStatePublish}
		e := defs.APISRTConn{ID: id, RemoteAddr: ra, Path: str, State: st[stateIdx%len(st)]}
		fill(&e, seed, mag)
		return e
	case "webrtc_sessions":
		st := []defs.APIWebRTCSessionState{defs.APIWebRTCSessionStateRead, defs.APIWebRTCSessionStatePublish}
		e := defs.APIWebRTCSession{ID: id, RemoteAddr: ra, Path: str, State: st[stateIdx%len(st)]}
		fill(&e, seed, mag)
		return e
	case "moq_sessions":
		st := []defs.APIMoQSessionState{defs.APIMoQSessionStateIdle, defs.APIMoQSessionStateRead, defs.APIMoQSessionStatePublish}
		e := defs.APIMoQSession{ID: id, RemoteAddr: ra, Path: str, State: st[stateIdx%len(st)]}
		fill(&e, seed, mag)
		return e
	}
	panic("mkEntity: " + typ)
}

func mkPath(idx int, name string, mag int, ready bool, readers []defs.APIPathReaderType) defs.APIPath {
	p := defs.APIPath{Name: name, ConfName: "all_others", Ready: ready}
	fill(&p, idx+1, mag)
	for i, rt := range readers {
		p.Readers = append(p.Readers, defs.APIPathReader{Type: rt, ID: fmt.Sprintf("r%d", i)})
	}
	return p
}

func mkForward(idx int, mag int, variant int) defs.APIForwardDest {
	protos := []defs.APIForwardDestProtocol{defs.APIForwardDestProtocolRTSP, defs.APIForwardDestProtocolRTMP}
	states := []defs.APIForwardDestState{defs.APIForwardDestStateForwarding, defs.APIForwardDestStateError}
	f := defs.APIForwardDest{ID: mkID("forward_dests", idx), Pos: idx, Protocol: protos[variant%len(protos)], State: states[(variant/2)%len(states)]}
	fill(&f, idx+50, mag)
	return f
}

// ents lists the entities of a world as the model sees them.
func (w *world) ents() []*ent {
	var out []*ent
	for _, p := range w.paths {
		st := "notReady"
		if p.Ready {
			st = "ready"
		}
		e := &ent{typ: "paths", id: p.Name, labels: map[string]string{"name": p.Name, "state": st}, nums: numsOf(p), readers: map[string]int{},
			desc: fmt.Sprintf("path %q", p.Name)}
		for _, r := range p.Readers {
			e.readers[string(r.Type)]++
		}
		out = append(out, e)
		for _, f := range w.forwards[p.Name] {
			out = append(out, &ent{typ: "forward_dests", id: f.ID.String(), ownerKey: p.Name,
				labels: map[string]string{"id": f.ID.String(), "path": p.Name, "protocol": string(f.Protocol), "state": string(f.State)},
				nums:   numsOf(f), desc: fmt.Sprintf("forward destination %s of path %q", f.ID, p.Name)})
		}
	}
	for _, typ := range typeNames {
		if w.disabled[typ] {
			continue
		}
		for _, it := range w.lists[typ] {
			e := &ent{typ: typ, nums: numsOf(it)}
			switch v := it.(type) {
			case defs.APIHLSSession:
				e.id = v.ID.String()
				e.labels = map[string]string{"id": v.ID.String(), "path": v.Path, "remoteAddr": v.RemoteAddr}
			case defs.APIHLSMuxer:
				e.id = v.Path
				e.labels = map[string]string{"name": v.Path}
			case defs.APIRTSPConn:
				e.id = v.ID.String()
				e.labels = map[string]string{"id": v.ID.String()}
			case defs.APIRTSPSession:
				e.id = v.ID.String()
				e.labels = map[string]string{"id": v.ID.String(), "path": v.Path, "remoteAddr": v.RemoteAddr, "state": string(v.State)}
			case defs.APIRTMPConn:
				e.id = v.ID.String()
				e.labels = map[string]string{"id": v.ID.String(), "path": v.Path, "remoteAddr": v.RemoteAddr, "state": string(v.State)}
			case defs.APISRTConn:
				e.id = v.ID.String()
				e.labels = map[string]string{"id": v.ID.String(), "path": v.Path, "remoteAddr": v.RemoteAddr, "state": string(v.State)}
			case defs.APIWebRTCSession:
				e.id = v.ID.String()
				e.labels = map[string]string{"id": v.ID.String(), "path": v.Path, "remoteAddr": v.RemoteAddr, "state": string(v.State)}
			case defs.APIMoQSession:
				e.id = v.ID.String()
				e.labels = map[string]string{"id": v.ID.String(), "path": v.Path, "remoteAddr": v.RemoteAddr, "state": string(v.State)}
			default:
				panic(fmt.Sprintf("ents: %T", it))
			}
			e.desc = fmt.Sprintf("%s %s", typ, e.id)
			out = append(out, e)
		}
	}
	return out
}

const fffd = "\uFFFD"

func perByteFFFD(s string) string {
	var b strings.Builder
	for i := 0; i < len(s); {
		r, w := utf8.DecodeRuneInString(s[i:])
		if r == utf8.RuneError && w == 1 {
			b.WriteString(fffd)
		} else {
			b.WriteString(s[i : i+w])
		}
		i += w
	}
	return b.String()
}

// labelValueEqual: the exposed value equals the entity's; an entity value that is not UTF-8
// cannot be exposed verbatim, U+FFFD replacement (per byte or per run) is accepted.
func labelValueEqual(got, want string) bool {
	if got == want {
		return true
	}
	if utf8.ValidString(want) {
		return false
	}
	return got == perByteFFFD(want) || got == strings.ToValidUTF8(want, fffd)
}

func labelsEqual(got, want map[string]string) bool {
	if len(got) != len(want) {
		return false
	}
	for k, v := range want {
		g, ok := got[k]
		if !ok || !labelValueEqual(g, v) {
			return false
		}
	}
	return true
}

func typeOfMetric(name string) (typ, suffix string, ok bool) {
	best := ""
	for _, t := range typeNames {
		if (name == t || strings.HasPrefix(name, t+"_")) && len(t) > len(best) {
			best = t
		}
	}
	if best == "" {
		return "", "", false
	}
	return best, strings.TrimPrefix(strings.TrimPrefix(name, best), "_"), true
}

func valueEquals(tok string, n numv) bool {
	if n.isFloat {
		var f float64
		switch tok {
		case "NaN":
			f = math.NaN()
		default:
			var err error
			f, err = strconv.ParseFloat(tok, 64)
			if err != nil {
				return false
			}
		}
		return f == n.f || (math.IsNaN(f) && math.IsNaN(n.f))
	}
	r, ok := new(big.Rat).SetString(tok)
	if !ok {
		return false
	}
	return r.Cmp(new(big.Rat).SetInt(new(big.Int).SetUint64(n.u))) == 0
}

type finding struct {
	symptom string
	what    string
}

type query struct {
	typ    string // value of type=, "" if absent
	fparam string // a filter parameter, "" if absent
	fvalue string
}

func (q query) String() string {
	s := ""
	if q.typ != "" {
		s += "type=" + q.typ
	}
	if q.fparam != "" {
		if s != "" {
			s += "&"
		}
		s += q.fparam + "=" + strconv.Quote(q.fvalue)
	}
	if s == "" {
		return "(none)"
	}
	return s
}

// judge is the oracle for one response body.
func judge(body string, w *world, q query) *finding {
	samples, serr := parseExposition(body)
	if serr != nil {
		return &finding{"syntax:" + serr.kind, "not valid Prometheus text: " + serr.Error()}
	}
	ents := w.ents()
	type seenKey struct {
		e *ent
		f string
	}
	seen := map[seenKey]int{}
	for _, s := range samples {
		if len(s.labels) == 0 {
			continue // aggregate/placeholder sample without labels: no entity corresponds, syntax only
		}
		typ, suffix, ok := typeOfMetric(s.name)
		if !ok {
			return &finding{"sample-unexpected", fmt.Sprintf("line %d: labelled sample %s belongs to no entity type", s.line, s.name)}
		}
		var target *ent
		fieldKey := ""
		if typ == "paths" && suffix == "readers" {
			rt, has := s.labels["readerType"]
			if !has {
				return &finding{"sample-unexpected", fmt.Sprintf("line %d: paths_readers without readerType", s.line)}
			}
			rest := map[string]string{}
			for k, v := range s.labels {
				if k != "readerType" {
					rest[k] = v
				}
			}
			for _, e := range ents {
				if e.typ == "paths" && labelsEqual(rest, e.labels) {
					target = e
					break
				}
			}
			if target == nil {
				return &finding{"sample-unexpected", fmt.Sprintf("line %d: labels of %s %v equal no path's values", s.line, s.name, s.labels)}
			}
			want := target.readers[rt] // 0 for a type without readers (incl. the readerType="" placeholder)
			if !valueEquals(s.value, numv{u: uint64(want)}) {
				return &finding{"value-mismatch", fmt.Sprintf("line %d: %s %v = %s, %s has %d readers of that type", s.line, s.name, s.labels, s.value, target.desc, want)}
			}
			fieldKey = "readers:" + rt
		} else {
			for _, e := range ents {
				if e.typ == typ && labelsEqual(s.labels, e.labels) {
					target = e
					break
				}
			}
			if target == nil {
				return &finding{"sample-unexpected", fmt.Sprintf("line %d: labels of %s %v equal no %s entity's values", s.line, s.name, s.labels, typ)}
			}
			if suffix == "" {
				if !valueEquals(s.value, numv{u: 1}) {
					return &finding{"value-mismatch", fmt.Sprintf("line %d: %s %v = %s, want 1", s.line, s.name, s.labels, s.value)}
				}
				fieldKey = "#"
			} else {
				norm := strings.ToLower(strings.ReplaceAll(suffix, "_", ""))
				if ex, ok := suffixExceptions[norm]; ok {
					norm = ex
				}
				n, ok := target.nums[norm]
				if !ok {
					// a labelled series of an entity type whose name designates no counter of that
					// entity: nothing of the entity can equal its value
					return &finding{"sample-designates-no-counter:" + s.name, fmt.Sprintf("line %d: %s %v = %s, but a %s entity has no counter field that this name designates", s.line, s.name, s.labels, s.value, typ)}
				}
				if !valueEquals(s.value, n) {
					return &finding{"value-mismatch", fmt.Sprintf("line %d: %s %v = %s, the entity's counter is %s", s.line, s.name, s.labels, s.value, n)}
				}
				fieldKey = norm
			}
		}
		seen[seenKey{target, fieldKey}]++
	}
	// completeness
	for _, e := range ents {
		must := false
		switch {
		case q.fparam == "" && q.typ == "":
			must = true
		case q.fparam == "":
			must = q.typ == e.typ
		default:
			sel := filterParam[e.typ] == q.fparam && e.id == q.fvalue
			if q.fparam == "path" && e.typ == "forward_dests" && e.ownerKey == q.fvalue {
				sel = true
			}
			must = sel && (q.typ == "" || q.typ == e.typ)
		}
		if !must {
			continue
		}
		key := "sample-missing"
		if q.fparam != "" {
			key = "filter-drops-entity"
		}
		if seen[seenKey{e, "#"}] != 1 {
			return &finding{key, fmt.Sprintf("%s: %d samples %s{...} (query %s)", e.desc, seen[seenKey{e, "#"}], e.typ, q)}
		}
		for f := range e.nums {
			if seen[seenKey{e, f}] != 1 {
				return &finding{key, fmt.Sprintf("%s: counter %s exposed %d times (query %s)", e.desc, f, seen[seenKey{e, f}], q)}
			}
		}
		for rt := range e.readers {
			if seen[seenKey{e, "readers:" + rt}] != 1 {
				return &finding{key, fmt.Sprintf("%s: readers of type %s exposed %d times", e.desc, rt, seen[seenKey{e, "readers:" + rt}])}
			}
		}
	}
	return nil
}
