package main

// A strict parser of the Prometheus text exposition format 0.0.4
// (https://prometheus.io/docs/instrumenting/exposition_formats/#text-based-format), written
// from the format description only:
//
//	lines are separated by '\n', the last line must end with '\n'; empty lines are ignored;
//	'#' lines are comments unless the first token is HELP or TYPE;
//	sample   = metric_name [ '{' [ label { ',' label } [ ',' ] ] '}' ] value [ timestamp ]
//	label    = label_name '=' '"' label_value '"'
//	metric_name = [a-zA-Z_:][a-zA-Z0-9_:]* ; label_name = [a-zA-Z_][a-zA-Z0-9_]*
//	label_value = any UTF-8 text in which backslash, double quote and line feed are written
//	              \\ , \" and \n (no other escape exists)
//	value = Go ParseFloat syntax, NaN, +Inf, -Inf ; tokens separated by blanks (space / tab)
//	a (metric name, label set) pair may appear only once; label names are unique in a sample.

import (
	"fmt"
	"sort"
	"strconv"
	"strings"
	"unicode/utf8"
)

type sample struct {
	name   string
	labels map[string]string
	value  string // the value token, verbatim
	line   int
}

type syntaxError struct {
	kind string // stable kind
	line int
	msg  string
}

func (e *syntaxError) Error() string { return fmt.Sprintf("line %d: %s: %s", e.line, e.kind, e.msg) }

func isNameStart(c byte, colon bool) bool {
	return c >= 'a' && c <= 'z' || c >= 'A' && c <= 'Z' || c == '_' || (colon && c == ':')
}

func isNameChar(c byte, colon bool) bool {
	return isNameStart(c, colon) || c >= '0' && c <= '9'
}

func isBlank(c byte) bool { return c == ' ' || c == '\t' }

func labelKey(name string, labels map[string]string) string {
	ks := make([]string, 0, len(labels))
	for k := range labels {
		ks = append(ks, k)
	}
	sort.Strings(ks)
	var b strings.Builder
	b.WriteString(name)
	for _, k := range ks {
		b.WriteByte(0)
		b.WriteString(k)
		b.WriteByte(1)
		b.WriteString(labels[k])
	}
	return b.String()
}

// parseExposition returns the samples of a body or the first syntax error.
func parseExposition(body string) ([]sample, *syntaxError) {
	if body == "" {
		return nil, nil
	}
	if !strings.HasSuffix(body, "\n") {
		return nil, &syntaxError{"no-final-newline", strings.Count(body, "\n") + 1, "last line does not end with a line feed"}
	}
	var out []sample
	seen := map[string]int{}
	lines := strings.Split(body[:len(body)-1], "\n")
	for li, ln := range lines {
		n := li + 1
		if !utf8.ValidString(ln) {
			return nil, &syntaxError{"invalid-utf8", n, fmt.Sprintf("%q", ln)}
		}
		i := 0
		for i < len(ln) && isBlank(ln[i]) {
			i++
		}
		if i == len(ln) {
			continue
		}
		if ln[i] == '#' {
			f := strings.Fields(ln[i+1:])
			if len(f) > 0 && (f[0] == "HELP" || f[0] == "TYPE") {
				if len(f) < 2 {
					return nil, &syntaxError{"bad-help-type", n, ln}
				}
				if f[0] == "TYPE" {
					if len(f) != 3 {
						return nil, &syntaxError{"bad-help-type", n, ln}
					}
					switch f[2] {
					case "counter", "gauge", "histogram", "summary", "untyped":
					default:
						return nil, &syntaxError{"bad-help-type", n, ln}
					}
				}
			}
			continue
		}
		// metric name
		st := i
		if !isNameStart(ln[i], true) {
			return nil, &syntaxError{"bad-metric-name", n, fmt.Sprintf("%q", ln)}
		}
		for i < len(ln) && isNameChar(ln[i], true) {
			i++
		}
		s := sample{name: ln[st:i], labels: map[string]string{}, line: n}
		for i < len(ln) && isBlank(ln[i]) {
			i++
		}
		if i < len(ln) && ln[i] == '{' {
			i++
			for {
				for i < len(ln) && isBlank(ln[i]) {
					i++
				}
				if i < len(ln) && ln[i] == '}' {
					i++
					break
				}
				ls := i
				if i >= len(ln) || !isNameStart(ln[i], false) {
					return nil, &syntaxError{"bad-label-name", n, fmt.Sprintf("at column %d of %q", i, ln)}
				}
				for i < len(ln) && isNameChar(ln[i], false) {
					i++
				}
				lname := ln[ls:i]
				for i < len(ln) && isBlank(ln[i]) {
					i++
				}
				if i >= len(ln) || ln[i] != '=' {
					return nil, &syntaxError{"missing-equals", n, fmt.Sprintf("at column %d of %q", i, ln)}
				}
				i++
				for i < len(ln) && isBlank(ln[i]) {
					i++
				}
				if i >= len(ln) || ln[i] != '"' {
					return nil, &syntaxError{"missing-open-quote", n, fmt.Sprintf("at column %d of %q", i, ln)}
				}
				i++
				var v strings.Builder
				closed := false
				for i < len(ln) {
					c := ln[i]
					if c == '"' {
						closed = true
						i++
						break
					}
					if c == '\\' {
						if i+1 >= len(ln) {
							return nil, &syntaxError{"unterminated-label-value", n, fmt.Sprintf("%q", ln)}
						}
						switch ln[i+1] {
						case '\\':
							v.WriteByte('\\')
						case '"':
							v.WriteByte('"')
						case 'n':
							v.WriteByte('\n')
						default:
							return nil, &syntaxError{"bad-escape", n, fmt.Sprintf("\\%c in %q", ln[i+1], ln)}
						}
						i += 2
						continue
					}
					v.WriteByte(c)
					i++
				}
				if !closed {
					return nil, &syntaxError{"unterminated-label-value", n, fmt.Sprintf("%q", ln)}
				}
				if _, dup := s.labels[lname]; dup {
					return nil, &syntaxError{"duplicate-label-name", n, fmt.Sprintf("%q", ln)}
				}
				s.labels[lname] = v.String()
				for i < len(ln) && isBlank(ln[i]) {
					i++
				}
				if i < len(ln) && ln[i] == ',' {
					i++
					continue
				}
				if i < len(ln) && ln[i] == '}' {
					i++
					break
				}
				return nil, &syntaxError{"garbage-after-label-value", n, fmt.Sprintf("at column %d of %q", i, ln)}
			}
			if i >= len(ln) || !isBlank(ln[i]) {
				return nil, &syntaxError{"missing-value", n, fmt.Sprintf("%q", ln)}
			}
		}
		rest := strings.Fields(ln[i:])
		if len(rest) < 1 || len(rest) > 2 {
			return nil, &syntaxError{"bad-value-tokens", n, fmt.Sprintf("%q", ln)}
		}
		switch rest[0] {
		case "NaN", "+Inf", "-Inf", "Inf":
		default:
			if _, err := strconv.ParseFloat(rest[0], 64); err != nil {
				return nil, &syntaxError{"bad-value", n, fmt.Sprintf("%q", ln)}
			}
		}
		if len(rest) == 2 {
			if _, err := strconv.ParseInt(rest[1], 10, 64); err != nil {
				return nil, &syntaxError{"bad-timestamp", n, fmt.Sprintf("%q", ln)}
			}
		}
		s.value = rest[0]
		k := labelKey(s.name, s.labels)
		if prev, dup := seen[k]; dup {
			return nil, &syntaxError{"duplicate-sample", n, fmt.Sprintf("%q repeats the series of line %d", ln, prev)}
		}
		seen[k] = n
		out = append(out, s)
	}
	return out, nil
}
