// C36: the metrics exposition is always valid and faithful.
//
// Engine B: bounded-exhaustive enumeration of provider states ("worlds": sets of paths, forward
// destinations, sessions and connections with client-chosen strings and counters) x query
// parameters through the real metrics.Metrics /metrics handler with stub defs.API* providers,
// judged by a strict parser of the Prometheus text format and a reference model derived from
// the entities (see promtext.go, model.go).
package main

import (
	"errors"
	"fmt"
	"io"
	"net"
	"net/http"
	"net/http/httptest"
	"net/url"
	"os"
	"sort"
	"strings"
	"sync"
	"time"
	"unicode/utf8"

	"github.com/gin-gonic/gin"
	"github.com/google/uuid"

	"github.com/bluenviron/mediamtx/internal/conf"
	"github.com/bluenviron/mediamtx/internal/defs"
	"github.com/bluenviron/mediamtx/internal/metrics"
	"github.com/bluenviron/mediamtx/internal/servers/moq"
	"github.com/bluenviron/mediamtx/internal/test"
	"github.com/bluenviron/mediamtx/internal/zzverif/vcommon"
)

// ---------------------------------------------------------------------------------------------
// stub providers reading a world

type pmStub struct{ w **world }

func (s *pmStub) APIPathsList() (*defs.APIPathList, error) {
	w := *s.w
	return &defs.APIPathList{ItemCount: len(w.paths), PageCount: 1, Items: append([]defs.APIPath(nil), w.paths...)}, nil
}
func (s *pmStub) APIPathsGet(string) (*defs.APIPath, error) { panic("unused") }
func (s *pmStub) APIForwardDestList(name string) (*defs.APIForwardDestList, error) {
	f := (*s.w).forwards[name]
	return &defs.APIForwardDestList{ItemCount: len(f), PageCount: 1, Items: append([]defs.APIForwardDest(nil), f...)}, nil
}
func (s *pmStub) APIForwardDestGet(string, uuid.UUID) (*defs.APIForwardDest, error) { panic("unused") }

func list[T any](w *world, typ string) []T {
	out := []T{}
	for _, it := range w.lists[typ] {
		out = append(out, it.(T))
	}
	return out
}

type hlsStub struct{ w **world }

func (s *hlsStub) APISessionsList() (*defs.APIHLSSessionList, error) {
	l := list[defs.APIHLSSession](*s.w, "hls_sessions")
	return &defs.APIHLSSessionList{ItemCount: len(l), PageCount: 1, Items: l}, nil
}
func (s *hlsStub) APISessionsGet(uuid.UUID) (*defs.APIHLSSession, error) { panic("unused") }
func (s *hlsStub) APISessionsKick(uuid.UUID) error                       { panic("unused") }
func (s *hlsStub) APIMuxersList() (*defs.APIHLSMuxerList, error) {
	l := list[defs.APIHLSMuxer](*s.w, "hls_muxers")
	return &defs.APIHLSMuxerList{ItemCount: len(l), PageCount: 1, Items: l}, nil
}
func (s *hlsStub) APIMuxersGet(string) (*defs.APIHLSMuxer, error) { panic("unused") }

type rtspStub struct {
	w         **world
	conns, ss string
}

func (s *rtspStub) APIConnsList() (*defs.APIRTSPConnsList, error) {
	l := list[defs.APIRTSPConn](*s.w, s.conns)
	return &defs.APIRTSPConnsList{ItemCount: len(l), PageCount: 1, Items: l}, nil
}
func (s *rtspStub) APIConnsGet(uuid.UUID) (*defs.APIRTSPConn, error) { panic("unused") }
func (s *rtspStub) APISessionsList() (*defs.APIRTSPSessionList, error) {
	l := list[defs.APIRTSPSession](*s.w, s.ss)
	return &defs.APIRTSPSessionList{ItemCount: len(l), PageCount: 1, Items: l}, nil
}
func (s *rtspStub) APISessionsGet(uuid.UUID) (*defs.APIRTSPSession, error) { panic("unused") }
func (s *rtspStub) APISessionsKick(uuid.UUID) error                        { panic("unused") }

type rtmpStub struct {
	w   **world
	typ string
}

func (s *rtmpStub) APIConnsList() (*defs.APIRTMPConnList, error) {
	l := list[defs.APIRTMPConn](*s.w, s.typ)
	return &defs.APIRTMPConnList{ItemCount: len(l), PageCount: 1, Items: l}, nil
}
func (s *rtmpStub) APIConnsGet(uuid.UUID) (*defs.APIRTMPConn, error) { panic("unused") }
func (s *rtmpStub) APIConnsKick(uuid.UUID) error                     { panic("unused") }

type srtStub struct{ w **world }

func (s *srtStub) APIConnsList() (*defs.APISRTConnList, error) {
	l := list[defs.APISRTConn](*s.w, "srt_conns")
	return &defs.APISRTConnList{ItemCount: len(l), PageCount: 1, Items: l}, nil
}
func (s *srtStub) APIConnsGet(uuid.UUID) (*defs.APISRTConn, error) { panic("unused") }
func (s *srtStub) APIConnsKick(uuid.UUID) error                    { panic("unused") }

type webrtcStub struct{ w **world }

func (s *webrtcStub) APISessionsList() (*defs.APIWebRTCSessionList, error) {
	l := list[defs.APIWebRTCSession](*s.w, "webrtc_sessions")
	return &defs.APIWebRTCSessionList{ItemCount: len(l), PageCount: 1, Items: l}, nil
}
func (s *webrtcStub) APISessionsGet(uuid.UUID) (*defs.APIWebRTCSession, error) { panic("unused") }
func (s *webrtcStub) APISessionsKick(uuid.UUID) error                          { panic("unused") }

type moqStub struct{ w **world }

func (s *moqStub) APISessionsList() (*defs.APIMoQSessionList, error) {
	l := list[defs.APIMoQSession](*s.w, "moq_sessions")
	return &defs.APIMoQSessionList{ItemCount: len(l), PageCount: 1, Items: l}, nil
}
func (s *moqStub) APISessionsGet(uuid.UUID) (*defs.APIMoQSession, error) { panic("unused") }
func (s *moqStub) APISessionsKick(uuid.UUID) error                       { panic("unused") }

// server is one real Metrics instance wired to a replaceable world.
type server struct {
	m *metrics.Metrics
	w *world
}

func newServer(address string) *server {
	s := &server{w: newWorld()}
	s.m = &metrics.Metrics{
		Address:      address,
		AllowOrigins: []string{"*"},
		ReadTimeout:  conf.Duration(10 * time.Second),
		WriteTimeout: conf.Duration(10 * time.Second),
		AuthManager:  test.NilAuthManager,
		Parent:       test.NilLogger,
	}
	if address != "" {
		if err := s.m.Initialize(); err != nil {
			vcommon.Harness("metrics initialize: %v", err)
		}
	}
	return s
}

// install wires the providers for world w (a disabled type gets a nil server).
func (s *server) install(w *world) {
	s.w = w
	s.m.SetPathManager(&pmStub{&s.w})
	dis := func(a, b string) bool { return w.disabled[a] && (b == "" || w.disabled[b]) }
	if dis("hls_sessions", "hls_muxers") {
		s.m.SetHLSServer(nil)
	} else {
		s.m.SetHLSServer(&hlsStub{&s.w})
	}
	if dis("rtsp_conns", "rtsp_sessions") {
		s.m.SetRTSPServer(nil)
	} else {
		s.m.SetRTSPServer(&rtspStub{&s.w, "rtsp_conns", "rtsp_sessions"})
	}
	if dis("rtsps_conns", "rtsps_sessions") {
		s.m.SetRTSPSServer(nil)
	} else {
		s.m.SetRTSPSServer(&rtspStub{&s.w, "rtsps_conns", "rtsps_sessions"})
	}
	if dis("rtmp_conns", "") {
		s.m.SetRTMPServer(nil)
	} else {
		s.m.SetRTMPServer(&rtmpStub{&s.w, "rtmp_conns"})
	}
	if dis("rtmps_conns", "") {
		s.m.SetRTMPSServer(nil)
	} else {
		s.m.SetRTMPSServer(&rtmpStub{&s.w, "rtmps_conns"})
	}
	if dis("srt_conns", "") {
		s.m.SetSRTServer(nil)
	} else {
		s.m.SetSRTServer(&srtStub{&s.w})
	}
	if dis("webrtc_sessions", "") {
		s.m.SetWebRTCServer(nil)
	} else {
		s.m.SetWebRTCServer(&webrtcStub{&s.w})
	}
	if dis("moq_sessions", "") {
		s.m.SetMoQServer(nil)
	} else {
		s.m.SetMoQServer(&moqStub{&s.w})
	}
}

func (q query) values() url.Values {
	v := url.Values{}
	if q.typ != "" {
		v.Set("type", q.typ)
	}
	if q.fparam != "" {
		v.Set(q.fparam, q.fvalue)
	}
	return v
}

// get runs one scrape through the real handler. A handler that panics or answers with another
// status than 200 is the code under test misbehaving: it is returned as a finding (violation),
// never raised as a harness error.
func (s *server) get(q query) (string, *finding) { return s.serve(q.request()) }

func (q query) request() *http.Request {
	target := "/metrics"
	if enc := q.values().Encode(); enc != "" {
		target += "?" + enc
	}
	return httptest.NewRequest(http.MethodGet, target, nil)
}

func (s *server) serve(req *http.Request) (string, *finding) {
	rec := httptest.NewRecorder()
	if p, stack := vcommon.Recover(func() { s.m.VerifC36Serve(rec, req) }); p != nil {
		return rec.Body.String(), &finding{"handler-panics", fmt.Sprintf("the /metrics handler panics: %v\n%s", p, vcommon.Short(stack, 1200))}
	}
	if rec.Code != http.StatusOK {
		return rec.Body.String(), &finding{fmt.Sprintf("handler-status-%d", rec.Code),
			fmt.Sprintf("the /metrics handler answers a valid scrape with status %d: %s", rec.Code, vcommon.Short(rec.Body.String(), 200))}
	}
	return rec.Body.String(), nil
}

// scrape = get + the per-scrape oracle.
func (s *server) scrape(w *world, q query) (string, *finding) {
	s.install(w)
	body, f := s.get(q)
	if f == nil {
		f = judge(body, w, q)
	}
	return body, f
}

// ---------------------------------------------------------------------------------------------
// alphabet of client-chosen strings

type cstr struct {
	s     string
	class string // "" = needs no escaping; otherwise the one thing in it that does
	pair  bool   // used for two-entity sets in the quick tier (thorough: all)
}

var strs = []cstr{
	{"a", "", true}, {"a/b", "", true}, {"~^x$", "", false}, {"", "", true}, {"a}b", "", false}, {"a{b", "", false}, {"a,b=c", "", true}, {"\u00e9\u4e2d", "", true},
	{"a b", "", false}, {"#x 1", "", false}, {"a'b", "", false}, {"a\tb", "", false}, {"a\rb", "", false}, {"live/cam-1_2.~:x", "", false},
	{`a"b`, "quote", true}, {`"`, "quote", false}, {`a",b="c`, "quote", true}, {`a,b="c"`, "quote", false}, {`x"} 7`, "quote", false},
	{`a\b`, "backslash", true}, {`a\nb`, "backslash", true}, {`a\`, "backslash", false}, {`a\\b`, "backslash", false},
	{"a\nb", "newline", true}, {"\n", "newline", false}, {"a\n# HELP x y", "newline", false}, {"a\npaths 9", "newline", true},
	{"a\xffb", "invalid-utf8", true}, {"\xc3", "invalid-utf8", false},
	{`\"`, "mixed", true}, {"\"\n\\", "mixed", false},
}

// types whose entity carries a client-chosen string and under which label
var stringTypes = []string{"paths", "hls_sessions", "hls_muxers", "rtsp_sessions", "rtsps_sessions", "rtmp_conns", "rtmps_conns",
	"srt_conns", "webrtc_sessions", "moq_sessions"}

// ---------------------------------------------------------------------------------------------
// cases

// a recipe builds the world and the query from the client-chosen strings, so that the same case
// can be rebuilt with placeholders (attribution of a failure to "value pasted raw").
type kase struct {
	typ    string
	desc   string
	strs   []cstr
	build  func(ss []string) (*world, query)
	bucket string
}

func addBaseline(w *world, baseline int, except string) {
	switch baseline {
	case 0: // every other provider configured and empty
	case 1: // every other type holds one well-behaved entity
		for _, t := range typeNames {
			if t == except || t == "forward_dests" || (except == "forward_dests" && t == "paths") {
				continue
			}
			if t == "paths" {
				w.paths = append(w.paths, mkPath(7, "base/path", 0, true, []defs.APIPathReaderType{defs.APIPathReaderTypeHLSSession}))
				w.forwards["base/path"] = []defs.APIForwardDest{mkForward(7, 0, 1)}
				continue
			}
			w.lists[t] = append(w.lists[t], mkEntity(t, 7, "base/path", 0, 1))
		}
	case 2: // every other provider not configured
		for _, t := range typeNames {
			if t != except && t != "paths" && t != "forward_dests" {
				w.disabled[t] = true
			}
		}
		// conns and sessions share a server: keep the pair of the type under test enabled
		pairs := map[string]string{"rtsp_conns": "rtsp_sessions", "rtsp_sessions": "rtsp_conns", "rtsps_conns": "rtsps_sessions",
			"rtsps_sessions": "rtsps_conns", "hls_sessions": "hls_muxers", "hls_muxers": "hls_sessions"}
		if p, ok := pairs[except]; ok {
			delete(w.disabled, p)
		}
	}
}

var readerSets = [][]defs.APIPathReaderType{
	nil,
	{defs.APIPathReaderTypeRTSPSession},
	{defs.APIPathReaderTypeRTSPSession, defs.APIPathReaderTypeRTMPConn, defs.APIPathReaderTypeRTSPSession, defs.APIPathReaderTypeMoQSession},
}

// queriesFor lists the query variants for a world whose entities of type typ have the given ids.
func queriesFor(typ string, ids []string) []query {
	other := "rtmp_conns"
	if typ == "rtmp_conns" {
		other = "paths"
	}
	qs := []query{{}, {typ: typ}, {typ: other}, {typ: "nonsense"}}
	fp := filterParam[typ]
	for _, id := range ids {
		if id != "" {
			qs = append(qs, query{fparam: fp, fvalue: id}, query{typ: typ, fparam: fp, fvalue: id})
		}
	}
	qs = append(qs, query{fparam: fp, fvalue: "nonexistent"})
	if typ == "forward_dests" {
		qs = append(qs, query{fparam: "path", fvalue: "fw/owner"}, query{typ: typ, fparam: "path", fvalue: "fw/owner"})
	}
	return qs
}

func compatible(a, b cstr) bool { return a.class == "" || b.class == "" || a.class == b.class }

func genCases(thorough bool) []kase {
	var out []kase
	mags := []int{0, 1, 2, 3}
	for _, typ := range typeNames {
		typ := typ
		hasStr := false
		for _, t := range stringTypes {
			if t == typ {
				hasStr = true
			}
		}
		keyedByStr := typ == "paths" || typ == "hls_muxers"
		// the string choices for n entities
		var choices [][]cstr
		choices = append(choices, nil)
		if hasStr {
			for _, a := range strs {
				choices = append(choices, []cstr{a})
			}
			pairStrs := strs
			if !thorough {
				pairStrs = nil
				for _, c := range strs {
					if c.pair {
						pairStrs = append(pairStrs, c)
					}
				}
			}
			for _, a := range pairStrs {
				for _, b := range pairStrs {
					if !compatible(a, b) || (keyedByStr && a.s == b.s) {
						continue
					}
					choices = append(choices, []cstr{a, b})
				}
			}
		} else {
			choices = append(choices, []cstr{{s: ""}}, []cstr{{s: ""}, {s: ""}})
		}
		for _, ch := range choices {
			ch := ch
			n := len(ch)
			type variant struct{ mag, baseline, extra int }
			var variants []variant
			if n <= 1 || thorough {
				for _, m := range mags {
					for b := 0; b < 3; b++ {
						variants = append(variants, variant{m, b, 0})
					}
				}
				if typ == "paths" && n == 1 { // ready x readers x forward destinations
					for ex := 1; ex < 2*len(readerSets)*3; ex++ {
						variants = append(variants, variant{0, 0, ex})
					}
				}
				if typ == "forward_dests" {
					for ex := 1; ex < 4; ex++ {
						variants = append(variants, variant{0, 0, ex})
					}
				}
			} else {
				variants = []variant{{0, 0, 0}}
			}
			for _, v := range variants {
				v := v
				// ids are known only after building; build once with the real strings to list queries
				mk := func(ss []string) (*world, []string) {
					w := newWorld()
					var ids []string
					switch typ {
					case "paths":
						for i, s := range ss {
							ready := (v.extra+i)%2 == 0
							rs := readerSets[(v.extra/2+i)%len(readerSets)]
							w.paths = append(w.paths, mkPath(i, s, v.mag, ready, rs))
							nf := (v.extra / (2 * len(readerSets))) % 3
							for k := 0; k < nf; k++ {
								w.forwards[s] = append(w.forwards[s], mkForward(i*4+k, v.mag, k+i))
							}
							ids = append(ids, s)
						}
					case "forward_dests":
						w.paths = append(w.paths, mkPath(0, "fw/owner", 0, true, nil))
						for i := range ss {
							f := mkForward(i, v.mag, v.extra+i)
							w.forwards["fw/owner"] = append(w.forwards["fw/owner"], f)
							ids = append(ids, f.ID.String())
						}
					default:
						for i, s := range ss {
							e := mkEntity(typ, i, s, v.mag, v.extra+i+v.mag)
							w.lists[typ] = append(w.lists[typ], e)
						}
						for _, e := range w.ents() {
							if e.typ == typ {
								ids = append(ids, e.id)
							}
						}
					}
					addBaseline(w, v.baseline, typ)
					return w, ids
				}
				real := make([]string, n)
				for i, c := range ch {
					real[i] = c.s
				}
				_, ids := mk(real)
				nq := len(queriesFor(typ, ids))
				for qi := 0; qi < nq; qi++ {
					qi := qi
					cls := ""
					for _, c := range ch {
						if c.class != "" {
							cls = c.class
						}
					}
					out = append(out, kase{
						typ:  typ,
						strs: ch,
						desc: fmt.Sprintf("%s x%d strings=%q mag=%d baseline=%d extra=%d", typ, n, real, v.mag, v.baseline, v.extra),
						build: func(ss []string) (*world, query) {
							w, ids := mk(ss)
							return w, queriesFor(typ, ids)[qi]
						},
						bucket: fmt.Sprintf("%s|n=%d|class=%s|mag=%d|base=%d|q=%d", typ, n, cls, v.mag, v.baseline, qi),
					})
				}
			}
		}
	}
	return out
}

// ---------------------------------------------------------------------------------------------

type result struct {
	key    string
	what   string
	replay map[string]any
}

// runCase executes one case on the real handler and judges it; a failure in a case with strings
// that need escaping is attributed to "label value pasted raw" iff the same case built with
// harmless placeholder tokens is fully correct and the failing body is exactly that body with
// the tokens textually replaced by the strings.
func runCase(srv *server, k kase) (res *result, body string) {
	real := make([]string, len(k.strs))
	for i, c := range k.strs {
		real[i] = c.s
	}
	w, q := k.build(real)
	body, f := srv.scrape(w, q)
	if f == nil {
		return nil, body
	}
	rep := map[string]any{"case": k.desc, "query": q.String(), "strings_go": fmt.Sprintf("%q", real), "body_go": vcommon.Short(fmt.Sprintf("%q", body), 1500)}
	// srv has served the earlier cases of its chunk. The same state on a Metrics instance that has
	// served nothing: if that one is right, the exposition depends on what was scraped before.
	if fb, ff := newServer("").scrape(w, q); ff == nil {
		fam, detail := diffFamily(body, fb, k.typ)
		rep["fresh_instance_body_go"] = vcommon.Short(fmt.Sprintf("%q", fb), 1500)
		return &result{"exposition-not-a-function-of-state:" + fam,
			fmt.Sprintf("%s, query %s: a Metrics instance that has served nothing before exposes this state correctly, the instance that served the preceding cases of the enumeration does not (%s): %s",
				k.desc, q, detail, f.what), rep}, body
	}
	class := ""
	for _, c := range k.strs {
		if c.class != "" {
			class = c.class
		}
	}
	if class != "" {
		tokens := make([]string, len(real))
		var pairs []string
		for i, c := range k.strs {
			tokens[i] = c.s
			if c.class != "" {
				tokens[i] = fmt.Sprintf("ZZTOKEN%dZZ", i)
				pairs = append(pairs, tokens[i], c.s)
			}
		}
		w2, q2 := k.build(tokens)
		body2, f2 := newServer("").scrape(w2, q2)
		if f2 == nil && strings.NewReplacer(pairs...).Replace(body2) == body {
			return &result{"label-value-raw-" + class,
				fmt.Sprintf("a label value containing a %s is written without escaping (%s, query %s): %s", className(class), k.desc, q, f.what), rep}, body
		}
	}
	return &result{f.symptom, fmt.Sprintf("%s, query %s: %s", k.desc, q, f.what), rep}, body
}

func className(c string) string {
	switch c {
	case "quote":
		return "double quote"
	case "backslash":
		return "backslash"
	case "newline":
		return "line feed"
	case "invalid-utf8":
		return "byte sequence that is not UTF-8"
	}
	return "mix of quote/backslash/line feed"
}

func freePort() string {
	l, err := net.Listen("tcp", "127.0.0.1:0")
	if err != nil {
		vcommon.Harness("listen: %v", err)
	}
	defer l.Close()
	return l.Addr().String()
}

func main() {
	gin.SetMode(gin.ReleaseMode)
	t0 := time.Now()
	r := vcommon.Start("C36", "exploration")
	cases := genCases(r.Thorough())
	nSingle := len(cases)
	cases = append(cases, genInterferenceCases(r.Thorough())...)
	r.Rule = fmt.Sprintf("for each of the 13 entity types: every set of 0, 1 or 2 entities whose client-chosen string (path / name) ranges over a %d-string alphabet "+
		"(14 harmless incl. empty, regexp name, braces, comma/equals, non-ASCII, TAB, CR; 17 needing escaping: quote, backslash, line feed, invalid UTF-8, mixed; "+
		"pairs combine at most one escaping class; quick tier: pairs over a 13-string sub-alphabet with every class) x counter magnitudes {distinct small, 0, near 2^63-1, >2^53; floats incl. NaN/Inf/1e21} x baseline "+
		"{others empty, others populated, others not configured} (all crossed for <=1 entity [thorough: also for 2]) x paths: ready x reader sets x 0-2 forward destinations "+
		"x every query variant {none, type=T, type=other, type=unknown, filter=id of each entity (with and without type), filter=nonexistent, path= for forward destinations}; "+
		"plus CROSS-ENTITY INTERFERENCE worlds (harmless strings, prefix-related names): paths as every ORDERED pair over {ready,notReady} x 5 reader sets (none, one type, repeated+mixed, disjoint, overlapping; thorough: 6, all 11 reader types) x 0-2 forward destinations "+
		"(different ids/protocols/states per path) and every ordered triple over ready x reader sets (thorough: also quadruples), paths and every list type as ordered pairs/triples of counter magnitudes and of states "+
		"(two sessions on one path included), and worlds with all 13 types populated at once, each under no query, type=T, every path=/id filter with and without type, forward_dest= of every destination, path= prefixes; "+
		"plus the MoQ reachability corpus (CLIENT_SETUP PATH strings through the real session code) and an HTTP-listener equivalence corpus (1/97 of the cases through the real listener on ONE instance; "+
		"a listener-level exposition that differs from the handler-level one of the same state is a violation exposition-not-a-function-of-state:<family>). "+
		"HISTORY dimension (one Metrics instance, state changes between scrapes; every scrape must equal the scrape of a FRESH instance given the same state, which itself must pass the per-scrape oracle): "+
		"per entity kind the full product of identity {#0,#1} x state label (all values) x path {\"\",live/a,live/b} x counters {all zero, set A, set B} (paths: name x ready x 3 reader sets x 3 counter sets x forward destinations "+
		"{none, one, the same one with other protocol/state/counter, two}) + entity absent + 3 two-entity worlds (order and attributes exchanged); all state sequences of length 2 [thorough 3] with a type= and an id-filtered scrape per step, "+
		"all sequences of length 2 [thorough 3] over (reduced alphabet: base, each single-field change, all fields changed, absent, two entities) x every query variant with one scrape per step, and all ordered pairs [triples] of worlds with all 13 types populated. "+
		"The main enumeration itself runs in chunks of 256 consecutive cases per Metrics instance; a case that fails there but passes on a fresh instance is reported under the same key. "+
		"distinct = (type, #entities, escaping class, magnitude, baseline, query variant, verdict)", len(strs))

	type vrep struct {
		idx    int
		what   string
		replay any
	}
	var mu sync.Mutex
	vreps := map[string]*vrep{}
	counts := map[string]int{}
	affected := map[string]bool{}
	record := func(idx int, res *result, typ string) {
		mu.Lock()
		defer mu.Unlock()
		counts[res.key]++
		affected[res.key+" <- "+typ] = true
		if cur := vreps[res.key]; cur == nil || idx < cur.idx {
			vreps[res.key] = &vrep{idx, res.what, res.replay}
		}
	}

	// every chunk of consecutive cases is served by ONE Metrics instance created for it (so each
	// case but the first of a chunk also has a deterministic history: the cases before it; a case
	// that fails there and passes on a fresh instance is reported as depending on the history)
	chunk := 256
	nchunks := (len(cases) + chunk - 1) / chunk
	var bodies sync.Map // index -> body of selected cases for the HTTP equivalence corpus
	vcommon.Parallel(nchunks, func(ci int) {
		srv := newServer("")
		for i := ci * chunk; i < min((ci+1)*chunk, len(cases)); i++ {
			k := cases[i]
			res, body := runCase(srv, k)
			r.Eval(1)
			verdict := "ok"
			if res != nil {
				verdict = res.key
				record(i, res, k.typ)
			}
			r.Distinct(k.bucket + "|" + verdict)
			if i%97 == 0 {
				bodies.Store(i, body)
			}
			if i == 40 || i == 2000 {
				_, q := k.build(func() []string {
					ss := make([]string, len(k.strs))
					for j, c := range k.strs {
						ss[j] = c.s
					}
					return ss
				}())
				r.Sample(map[string]any{"case": k.desc, "query": q.String(), "verdict": verdict, "body_head": vcommon.Short(body, 300)})
			}
		}
	})

	// ---- HTTP equivalence corpus: the same cases through the real listener + middlewares, all on
	// ONE listening instance. Handler-level and listener-level scrape of the same state must give
	// the same exposition; a difference is the code under test answering two scrapes of one state
	// differently (a violation), not a harness error.
	addr := freePort()
	hs := newServer(addr)
	tr := &http.Transport{}
	hc := &http.Client{Transport: tr, Timeout: 10 * time.Second}
	nhttp := 0
	var httpIdx []int
	bodies.Range(func(k, _ any) bool { httpIdx = append(httpIdx, k.(int)); return true })
	sort.Ints(httpIdx)
	for _, i := range httpIdx {
		k := cases[i]
		real := make([]string, len(k.strs))
		for j, c := range k.strs {
			real[j] = c.s
		}
		w, q := k.build(real)
		hs.install(w)
		u := "http://" + addr + "/metrics"
		if enc := q.values().Encode(); enc != "" {
			u += "?" + enc
		}
		var resp *http.Response
		var err error
		for attempt := 0; attempt < 3; attempt++ {
			resp, err = hc.Get(u)
			var oe *net.OpError
			if err == nil || !(errors.As(err, &oe) && oe.Op == "dial") {
				break
			}
			time.Sleep(200 * time.Millisecond) // could not even connect: environment (loopback ports), retry
		}
		nhttp++
		r.Eval(1)
		var oe *net.OpError
		if err != nil && errors.As(err, &oe) && oe.Op == "dial" {
			vcommon.Harness("cannot connect to the metrics listener on %s: %v", addr, err)
		}
		rep := map[string]any{"case": k.desc, "query": q.String(), "level": "real listener"}
		if err != nil {
			record(len(cases)+i, &result{"listener-request-fails", fmt.Sprintf("%s, query %s: a scrape through the real listener gets no response (%v); the handler-level scrape of the same state succeeds", k.desc, q, err), rep}, k.typ)
			tr.CloseIdleConnections()
			continue
		}
		b, rerr := io.ReadAll(resp.Body)
		resp.Body.Close()
		want, _ := bodies.Load(i)
		rep["body_go"] = vcommon.Short(fmt.Sprintf("%q", b), 1500)
		rep["handler_level_body_go"] = vcommon.Short(fmt.Sprintf("%q", want), 1500)
		switch {
		case resp.StatusCode != 200:
			record(len(cases)+i, &result{fmt.Sprintf("listener-status-%d", resp.StatusCode),
				fmt.Sprintf("%s, query %s: a scrape through the real listener is answered with status %d", k.desc, q, resp.StatusCode), rep}, k.typ)
		case rerr != nil:
			record(len(cases)+i, &result{"listener-request-fails", fmt.Sprintf("%s, query %s: the response body of the real listener cannot be read completely (%v)", k.desc, q, rerr), rep}, k.typ)
		case !sameExposition(string(b), want.(string)):
			// which of the two is wrong (if any) is decided by a fresh instance and the per-scrape oracle
			fb, _ := newServer("").scrape(w, q)
			var fam, detail, other string
			if !sameExposition(string(b), fb) {
				fam, detail = diffFamily(string(b), fb, k.typ)
				other = "listener-level"
				if !sameExposition(want.(string), fb) {
					other = "listener-level one and the handler-level"
				}
			} else {
				fam, detail = diffFamily(want.(string), fb, k.typ)
				other = "handler-level"
			}
			what := "the per-scrape oracle accepts the listener-level body"
			if jf := judge(string(b), w, q); jf != nil {
				what = "per-scrape oracle on the listener-level body: " + jf.what
			}
			record(len(cases)+i, &result{"exposition-not-a-function-of-state:" + fam,
				fmt.Sprintf("%s, query %s: the scrape through the real listener and the handler-level scrape of the SAME state differ; deviating from a fresh instance: the %s one (%s); %s",
					k.desc, q, other, detail, what), rep}, k.typ)
		}
	}
	tr.CloseIdleConnections()
	hs.m.Close()

	// ---- HISTORY dimension (history.go)
	tH := time.Now()
	hrep := runHistories(r, r.Thorough(), -(1 << 40), record) // negative indexes: a minimal explicit history is the preferred representative of a class
	if os.Getenv("C36_TIMING") != "" {
		fmt.Fprintf(os.Stderr, "C36 timing: history phase %.1fs, everything before it %.1fs\n", time.Since(tH).Seconds(), tH.Sub(t0).Seconds())
	}

	// ---- MoQ reachability corpus: the Path a real native-QUIC MoQ session reports after nothing
	// but a CLIENT_SETUP with a client-chosen PATH option, exposed by the real Metrics.
	moqPaths := []string{"/live/cam1", "/a%22b", `/a"b`, "/a%5Cb", `/a\b`, "/a%0Ab", "/a%FFb", "/a%22%7D%201%0Apaths%209", "/x?token=1", "/%22"}
	reach := []string{}
	for i, p := range moqPaths {
		srv := newServer("")
		item, err := moq.VerifC36QUICSetup(p)
		r.Eval(1)
		if err != nil {
			reach = append(reach, fmt.Sprintf("%q -> rejected (%v)", p, err))
			continue
		}
		reach = append(reach, fmt.Sprintf("%q -> session path %q", p, item.Path))
		w := newWorld()
		w.lists["moq_sessions"] = []any{item}
		body, f := srv.scrape(w, query{})
		verdict := "ok"
		if f != nil {
			class := "mixed"
			switch {
			case !utf8.ValidString(item.Path):
				class = "invalid-utf8"
			case strings.ContainsAny(item.Path, "\"") && !strings.ContainsAny(item.Path, "\\\n"):
				class = "quote"
			case strings.ContainsAny(item.Path, "\\") && !strings.ContainsAny(item.Path, "\"\n"):
				class = "backslash"
			case strings.ContainsAny(item.Path, "\n") && !strings.ContainsAny(item.Path, "\"\\"):
				class = "newline"
			}
			// same attribution rule as above
			tok := item
			tok.Path = "ZZTOKEN0ZZ"
			w2 := newWorld()
			w2.lists["moq_sessions"] = []any{tok}
			body2, f2 := newServer("").scrape(w2, query{})
			key := f.symptom
			if f2 == nil && strings.ReplaceAll(body2, "ZZTOKEN0ZZ", item.Path) == body {
				key = "label-value-raw-" + class
			}
			verdict = key
			record(len(cases)+i, &result{key, fmt.Sprintf("MoQ session opened with CLIENT_SETUP PATH %q reports path %q; metrics: %s", p, item.Path, f.what),
				map[string]any{"moq_setup_path": p, "session_path_go": fmt.Sprintf("%q", item.Path), "body_go": vcommon.Short(fmt.Sprintf("%q", body), 800)}}, "moq_sessions(real session code)")
		}
		r.Distinct("moq-reach|" + p + "|" + verdict)
	}

	keys := make([]string, 0, len(vreps))
	for k := range vreps {
		keys = append(keys, k)
	}
	sort.Strings(keys)
	for _, k := range keys {
		r.Violation(k, fmt.Sprintf("%s (%d failing cases in this class)", vreps[k].what, counts[k]), vreps[k].replay)
	}
	aff := make([]string, 0, len(affected))
	for k := range affected {
		aff = append(aff, k)
	}
	sort.Strings(aff)
	r.Set("cases", len(cases))
	r.Set("cases_single_type_alphabet", nSingle)
	r.Set("cases_cross_entity_interference", len(cases)-nSingle)
	r.Set("http_listener_equivalence_cases", nhttp)
	r.Set("history_family_states", hrep.familyStates)
	r.Set("histories", hrep.histories)
	r.Set("histories_by_family", hrep.perFamily)
	r.Set("moq_client_paths", reach)
	r.Set("failing_cases_by_class", counts)
	r.Set("classes_by_entity_type", aff)
	r.Exhaustive = true
	r.Assumptions = []string{
		"providers are stubs returning the enumerated entities; how servers fill them is outside, except the MoQ corpus which runs the real session SETUP handling on wire bytes",
		"the bulk of the cases calls the real onMetrics handler directly (no listener, no auth middleware); a 1/97 sample is replayed through the real listener and must give the same exposition",
		"two expositions are 'the same' if byte-identical or, failing that, if both parse and hold the same multiset of (metric, labels, value): the order of lines is not part of the statement",
		"histories change entity state only between scrapes (no scrape concurrent with a state change); the state alphabet of a history holds at most 2 entities of the kind under test (all-types worlds: 3 per type)",
		"client-chosen strings are varied only in name/path (states, protocols, reader types, remote addresses and UUIDs take their real well-formed values); counters stay <= 2^63-1",
		"reference: Prometheus text format 0.0.4 as described in the Prometheus documentation; an entity string that is not UTF-8 may be exposed with U+FFFD replacement",
		"completeness (each listed entity exposes its count sample and every uint64/float64 counter field exactly once) is required for unfiltered and type-only queries; with a filter, for the selected entity",
	}
	r.Finish()
}
