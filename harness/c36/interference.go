package main

// Cross-entity interference: worlds in which SEVERAL entities of one type each carry their own
// non-trivial and DIFFERENT sub-collections / attributes / counters (paths: reader sets by type,
// readiness, forward destinations; sessions and connections: state, counters), enumerated as
// ORDERED tuples (the handler walks the provider's list in order: what an earlier entity leaves
// behind - an aggregation map, a state variable, a label set, a running sum - shows only in a
// later one, and only if the later one differs), scraped unfiltered and with every filter.
// The oracle is the same as for the single-entity cases (judge): every labelled sample carries
// the labels of exactly one entity and the value that entity's counter / reader count has, every
// selected entity exposes each of its series exactly once, no series appears twice.

import (
	"fmt"
	"strings"

	"github.com/bluenviron/mediamtx/internal/defs"
)

// reader sets of a path: empty, one type, one type several times, several types (overlapping
// with and disjoint from the others), so that any carry-over between two paths changes either a
// value or the set of series.
var ifReaderSets = [][]defs.APIPathReaderType{
	nil,
	{defs.APIPathReaderTypeRTSPSession},
	{defs.APIPathReaderTypeRTSPSession, defs.APIPathReaderTypeRTMPConn, defs.APIPathReaderTypeRTSPSession, defs.APIPathReaderTypeMoQSession},
	{defs.APIPathReaderTypeHLSSession, defs.APIPathReaderTypeWebRTCSession, defs.APIPathReaderTypeWebRTCSession},
	{defs.APIPathReaderTypeRTMPConn},
}

// thorough only: the remaining reader types
var ifReaderSetsThorough = [][]defs.APIPathReaderType{
	{defs.APIPathReaderTypeSRTConn, defs.APIPathReaderTypeRTSPSSession, defs.APIPathReaderTypeRTSPConn, defs.APIPathReaderTypeRTSPSConn,
		defs.APIPathReaderTypeRTMPSConn, defs.APIPathReaderTypeHidden, defs.APIPathReaderTypeSRTConn},
}

// path names of the interference worlds: distinct, each a prefix / an extension of another one
// (a filter that matches by prefix or substring selects the wrong neighbour).
var ifPathNames = []string{"cam", "cam/1", "ca", "cam/10"}

// client-chosen strings of the other types: the second equals the first (two sessions on one
// path) or differs.
var ifStrings = []string{"live/a", "live/b", "live"}

type pathAttr struct {
	ready    bool
	readers  int // index into the reader sets
	nforward int
}

func (a pathAttr) String() string {
	return fmt.Sprintf("{ready=%v readers=%v fwd=%d}", a.ready, ifAllReaderSets()[a.readers], a.nforward)
}

func ifAllReaderSets() [][]defs.APIPathReaderType {
	return append(append([][]defs.APIPathReaderType(nil), ifReaderSets...), ifReaderSetsThorough...)
}

func pathAttrs(readerSets [][]defs.APIPathReaderType, forwards []int) []pathAttr {
	var out []pathAttr
	for _, ready := range []bool{true, false} {
		for ri := range readerSets {
			for _, nf := range forwards {
				out = append(out, pathAttr{ready, ri, nf})
			}
		}
	}
	return out
}

// tuples enumerates all ordered n-tuples over 0..k-1.
func tuples(k, n int) [][]int {
	out := [][]int{{}}
	for i := 0; i < n; i++ {
		var next [][]int
		for _, t := range out {
			for v := 0; v < k; v++ {
				next = append(next, append(append([]int(nil), t...), v))
			}
		}
		out = next
	}
	return out
}

// buildPathsWorld builds the world of one paths tuple. Forward destinations get ids, positions,
// protocols and states that differ between the paths and between the destinations of one path.
func buildPathsWorld(readerSets [][]defs.APIPathReaderType, attrs []pathAttr, mags []int) (*world, []string, []string) {
	w := newWorld()
	var names, fids []string
	for i, a := range attrs {
		name := ifPathNames[i]
		w.paths = append(w.paths, mkPath(i, name, mags[i], a.ready, readerSets[a.readers]))
		for k := 0; k < a.nforward; k++ {
			f := mkForward(i*4+k, mags[i], i+k+1)
			w.forwards[name] = append(w.forwards[name], f)
			fids = append(fids, f.ID.String())
		}
		names = append(names, name)
	}
	return w, names, fids
}

func pathsQueries(names, fids []string, full bool) []query {
	qs := []query{{}, {typ: "paths"}, {typ: "forward_dests"}}
	for _, n := range names {
		qs = append(qs, query{fparam: "path", fvalue: n}, query{typ: "paths", fparam: "path", fvalue: n})
		if full {
			qs = append(qs, query{typ: "forward_dests", fparam: "path", fvalue: n})
		}
	}
	if full {
		for _, id := range fids {
			qs = append(qs, query{fparam: "forward_dest", fvalue: id})
		}
		qs = append(qs, query{fparam: "path", fvalue: "cam/"}, query{fparam: "path", fvalue: "c"})
	}
	return qs
}

// maximum number of queries pathsQueries can return for n paths (used to enumerate query slots
// before the world is built; slots beyond the actual number are skipped)
func pathsQuerySlots(attrs []pathAttr, full bool) int {
	n := 3 + 2*len(attrs)
	if full {
		n += len(attrs) + 2
		for _, a := range attrs {
			n += a.nforward
		}
	}
	return n
}

func statesOf(typ string) int {
	switch typ {
	case "rtsp_sessions", "rtsps_sessions", "rtmp_conns", "rtmps_conns", "srt_conns", "moq_sessions":
		return 3
	case "webrtc_sessions":
		return 2
	}
	return 1 // hls sessions / muxers, rtsp(s) conns: no state label
}

func hasString(typ string) bool {
	for _, t := range stringTypes {
		if t == typ {
			return true
		}
	}
	return false
}

// buildListWorld builds a world with len(states) entities of a list type.
func buildListWorld(typ string, states, mags, strIdx []int) (*world, []string) {
	w := newWorld()
	for i := range states {
		s := ""
		if hasString(typ) {
			s = ifStrings[strIdx[i]]
		}
		w.lists[typ] = append(w.lists[typ], mkEntity(typ, i, s, mags[i], states[i]))
	}
	var ids []string
	for _, e := range w.ents() {
		if e.typ == typ {
			ids = append(ids, e.id)
		}
	}
	return w, ids
}

func listQueries(typ string, ids []string) []query {
	other := "rtmp_conns"
	if typ == "rtmp_conns" {
		other = "paths"
	}
	qs := []query{{}, {typ: typ}, {typ: other}}
	fp := filterParam[typ]
	for _, id := range ids {
		qs = append(qs, query{fparam: fp, fvalue: id}, query{typ: typ, fparam: fp, fvalue: id})
	}
	return qs
}

// fullWorld populates EVERY type at once with k entities each, all different.
func fullWorld(k, rot int) (*world, []query) {
	w := newWorld()
	qs := []query{{}}
	var attrs []pathAttr
	for i := 0; i < k; i++ {
		attrs = append(attrs, pathAttr{(i+rot)%2 == 0, (i + rot + 1) % len(ifReaderSets), (i + rot) % 3})
	}
	mags := make([]int, k)
	for i := range mags {
		mags[i] = []int{0, 2, 1, 3}[(i+rot)%4]
	}
	pw, names, fids := buildPathsWorld(ifReaderSets, attrs, mags)
	w.paths, w.forwards = pw.paths, pw.forwards
	qs = append(qs, pathsQueries(names, fids, true)[1:]...)
	for _, typ := range typeNames {
		if typ == "paths" || typ == "forward_dests" {
			continue
		}
		states, strIdx := make([]int, k), make([]int, k)
		for i := 0; i < k; i++ {
			states[i] = i + rot
			strIdx[i] = (i + rot) % len(ifStrings)
			if typ == "hls_muxers" { // keyed by the string
				strIdx[i] = i
			}
		}
		lw, ids := buildListWorld(typ, states, mags, strIdx)
		w.lists[typ] = lw.lists[typ]
		qs = append(qs, listQueries(typ, ids)[1:]...)
	}
	return w, qs
}

func genInterferenceCases(thorough bool) []kase {
	var out []kase
	add := func(typ, desc, bucket string, build func() (*world, query)) {
		out = append(out, kase{typ: typ, desc: desc, bucket: bucket, build: func([]string) (*world, query) { return build() }})
	}

	// ---- paths: ordered tuples of (ready, reader set, #forward destinations) ----
	readerSets := ifReaderSets
	if thorough {
		readerSets = ifAllReaderSets()
	}
	type pathDim struct {
		n     int
		attrs []pathAttr
		full  bool // all query variants
	}
	dims := []pathDim{
		{2, pathAttrs(readerSets, []int{0, 1, 2}), true},
	}
	if thorough {
		// triples and quadruples: the number of forward destinations follows the position (0,1,2 rotated by the first attribute)
		dims = append(dims, pathDim{3, pathAttrs(readerSets, []int{-1}), true},
			pathDim{4, pathAttrs(ifReaderSets[:4], []int{-1}), false})
	} else {
		dims = append(dims, pathDim{3, pathAttrs(readerSets, []int{-1}), false})
	}
	for _, d := range dims {
		for _, t := range tuples(len(d.attrs), d.n) {
			attrs := make([]pathAttr, d.n)
			for i, ai := range t {
				attrs[i] = d.attrs[ai]
				if attrs[i].nforward < 0 {
					attrs[i].nforward = (i + t[0]) % 3
				}
			}
			mags := make([]int, d.n) // distinct small counters (fill: seed*1000+field)
			for qi := 0; qi < pathsQuerySlots(attrs, d.full); qi++ {
				qi, full := qi, d.full
				add("paths", fmt.Sprintf("interference paths x%d names=%q attrs=%v", d.n, ifPathNames[:d.n], attrs),
					fmt.Sprintf("if-paths|n=%d|ready=%s|q=%d", d.n, readyKey(attrs), qi),
					func() (*world, query) {
						w, names, fids := buildPathsWorld(readerSets, attrs, mags)
						return w, pathsQueries(names, fids, full)[qi]
					})
			}
		}
	}
	// ---- paths: ordered tuples of counter magnitudes, attributes fixed and different ----
	nm := 3
	if thorough {
		nm = 4
	}
	for _, n := range []int{2, 3} {
		for _, mt := range tuples(nm, n) {
			mags := mt
			attrs := make([]pathAttr, n)
			for i := range attrs {
				attrs[i] = pathAttr{i%2 == 0, 1 + i, 2 - i}
			}
			for qi := 0; qi < pathsQuerySlots(attrs, false); qi++ {
				qi := qi
				add("paths", fmt.Sprintf("interference paths x%d names=%q attrs=%v mags=%v", n, ifPathNames[:n], attrs, mags),
					fmt.Sprintf("if-paths-mags|n=%d|mags=%v|q=%d", n, mags, qi),
					func() (*world, query) {
						w, names, fids := buildPathsWorld(ifReaderSets, attrs, mags)
						return w, pathsQueries(names, fids, false)[qi]
					})
			}
		}
	}

	// ---- the list types: ordered tuples of states x ordered tuples of magnitudes ----
	for _, typ := range typeNames {
		if typ == "paths" || typ == "forward_dests" {
			continue
		}
		typ := typ
		ns := statesOf(typ)
		for _, n := range []int{2, 3} {
			magTuples := tuples(nm, n)
			if n == 3 && !thorough {
				magTuples = [][]int{{0, 1, 2}, {1, 2, 0}, {2, 0, 1}, {0, 0, 0}}
			}
			strTuples := [][]int{[]int{0, 1, 2}[:n]}
			if hasString(typ) && typ != "hls_muxers" {
				strTuples = append(strTuples, []int{0, 0, 1}[:n], []int{1, 0, 0}[:n])
			}
			for _, st := range tuples(ns, n) {
				for _, mt := range magTuples {
					for si, strIdx := range strTuples {
						if si > 0 && !(mt[0] == 0 && mt[1] == 0 && mt[n-1] == 0) {
							continue // equal strings: with distinct small counters only
						}
						st, mt, strIdx := st, mt, strIdx
						for qi := 0; qi < 3+2*n; qi++ {
							qi := qi
							add(typ, fmt.Sprintf("interference %s x%d states=%v mags=%v strings=%v", typ, n, st, mt, strIdx),
								fmt.Sprintf("if-%s|n=%d|mags=%v|str=%d|q=%d", typ, n, mt, si, qi),
								func() (*world, query) {
									w, ids := buildListWorld(typ, st, mt, strIdx)
									return w, listQueries(typ, ids)[qi]
								})
						}
					}
				}
			}
		}
	}

	// ---- every type populated at once ----
	for _, k := range []int{2, 3} {
		for rot := 0; rot < 4; rot++ {
			_, qs := fullWorld(k, rot)
			for qi := range qs {
				k, rot, qi := k, rot, qi
				add("all", fmt.Sprintf("interference all types x%d rotation=%d", k, rot),
					fmt.Sprintf("if-all|k=%d|rot=%d|q=%s", k, rot, strings.SplitN(qs[qi].String(), "=", 2)[0]),
					func() (*world, query) {
						w, qs := fullWorld(k, rot)
						return w, qs[qi]
					})
			}
		}
	}
	return out
}

func readyKey(attrs []pathAttr) string {
	var b strings.Builder
	for _, a := range attrs {
		if a.ready {
			b.WriteByte('r')
		} else {
			b.WriteByte('n')
		}
		fmt.Fprintf(&b, "%d", a.readers)
	}
	return b.String()
}
