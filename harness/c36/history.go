package main

// HISTORY dimension: the exposition must be a function of the CURRENT state of the entities, not
// of what the same Metrics instance was asked before.
//
// For every entity kind a small alphabet of states of ONE entity identity (and a few two-entity
// worlds) is built as the full product of the values of every field the providers expose and a
// client or the server can change while the entity lives - session state, path, counters; path
// readiness, reader set, counters, forward destinations (presence, protocol, state, counter) -
// plus "the entity does not exist" and "another entity (other id / name) stands in its place".
// On ONE Metrics instance the states of a history are installed one after the other, each
// followed by scrapes. Every scrape is compared with the scrape of a FRESH Metrics instance that
// is given the same state and query (differential oracle, no model involved), and the fresh
// scrape itself is judged by the per-scrape oracle (judge), so an accepted history scrape
// satisfies the per-scrape oracle too. Enumerated exhaustively:
//   H1  all state sequences of length 2 (thorough 3) over the full alphabet, two scrapes at every
//       step (type=<kind> and filter=<id of identity #0>; paths: type=paths and type=forward_dests);
//   H2  all sequences of length 2 (thorough 3) over (state of a reduced alphabet x EVERY query
//       variant), one scrape per step (a scrape with one query must not influence one with another);
//   H3  all ordered pairs (thorough triples) of worlds with all 13 types populated.
// Two expositions are the same if they are byte-identical or, failing that, if both parse and
// hold the same multiset of (metric, labels, value) - the order of lines is not part of the
// statement.

import (
	"fmt"
	"net/http"
	"reflect"
	"sort"
	"strings"
	"sync"

	"github.com/bluenviron/mediamtx/internal/defs"
	"github.com/bluenviron/mediamtx/internal/zzverif/vcommon"
)

// canonical form of an exposition: sorted samples; ok=false if it does not parse
func canonical(body string) (string, bool) {
	samples, serr := parseExposition(body)
	if serr != nil {
		return "", false
	}
	lines := make([]string, len(samples))
	for i, s := range samples {
		lines[i] = labelKey(s.name, s.labels) + "\x02" + s.value
	}
	sort.Strings(lines)
	return strings.Join(lines, "\n"), true
}

func sameExposition(a, b string) bool {
	if a == b {
		return true
	}
	ca, oka := canonical(a)
	cb, okb := canonical(b)
	return oka && okb && ca == cb
}

// diffFamily names the entity type of the first sample that one exposition has and the other has
// not, and describes the difference.
func diffFamily(got, want, fallback string) (family, detail string) {
	gs, gerr := parseExposition(got)
	ws, werr := parseExposition(want)
	if gerr != nil || werr != nil {
		return fallback, "one of the two bodies does not parse"
	}
	count := func(ss []sample) map[string]int {
		m := map[string]int{}
		for _, s := range ss {
			m[labelKey(s.name, s.labels)+"\x02"+s.value]++
		}
		return m
	}
	gm, wm := count(gs), count(ws)
	show := func(s sample) string {
		ks := make([]string, 0, len(s.labels))
		for k := range s.labels {
			ks = append(ks, k)
		}
		sort.Strings(ks)
		var b strings.Builder
		for _, k := range ks {
			fmt.Fprintf(&b, "%s=%q,", k, s.labels[k])
		}
		return fmt.Sprintf("%s{%s} %s", s.name, strings.TrimSuffix(b.String(), ","), s.value)
	}
	for _, s := range gs {
		k := labelKey(s.name, s.labels) + "\x02" + s.value
		if gm[k] > wm[k] {
			fam, _, ok := typeOfMetric(s.name)
			if !ok {
				fam = fallback
			}
			return fam, "exposed: " + show(s) + ", which the exposition of the same state by a fresh instance does not contain"
		}
	}
	for _, s := range ws {
		k := labelKey(s.name, s.labels) + "\x02" + s.value
		if wm[k] > gm[k] {
			fam, _, ok := typeOfMetric(s.name)
			if !ok {
				fam = fallback
			}
			return fam, "missing: " + show(s) + ", which the exposition of the same state by a fresh instance contains"
		}
	}
	return fallback, "the bodies differ outside the samples"
}

// ---------------------------------------------------------------------------------------------
// state alphabets

type hstate struct {
	desc    string
	w       *world
	feat    map[string]string // field -> value class; the fields that differ between two states name the transition class
	reduced bool              // member of the reduced alphabet of H2
}

type hfamily struct {
	typ     string
	states  []hstate
	queries []query
	h1      []int // indexes of the queries scraped at every step of H1
}

// refill returns a copy of entity e whose counters are rewritten: ctr 0 = all zero (an entity that
// has not moved a byte yet), 1 and 2 = two different sets of small distinct values.
func refill(e any, ctr int) any {
	p := reflect.New(reflect.TypeOf(e))
	p.Elem().Set(reflect.ValueOf(e))
	switch ctr {
	case 0:
		fill(p.Interface(), 0, 1)
	case 1:
		fill(p.Interface(), 11, 0)
	default:
		fill(p.Interface(), 23, 0)
	}
	return p.Elem().Interface()
}

var hStrings = []string{"", "live/a", "live/b"}

func hEntity(typ string, idx, st, str, ctr int) any {
	s := ""
	if hasString(typ) {
		s = hStrings[str]
		if typ == "hls_muxers" { // keyed by the string: the identity picks the name
			s = hStrings[1+idx]
		}
	}
	return refill(mkEntity(typ, idx, s, 0, st), ctr)
}

func listFamily(typ string) hfamily {
	fam := hfamily{typ: typ}
	ns := statesOf(typ)
	nstr := len(hStrings)
	if !hasString(typ) || typ == "hls_muxers" {
		nstr = 1
	}
	navail := 2 // identity, counters
	if ns > 1 {
		navail++
	}
	if nstr > 1 {
		navail++
	}
	one := func(items ...any) *world {
		w := newWorld()
		w.lists[typ] = items
		return w
	}
	fam.states = append(fam.states, hstate{desc: "no " + typ + " entity", w: newWorld(), feat: map[string]string{"present": "no"}, reduced: true})
	for idx := 0; idx < 2; idx++ {
		for st := 0; st < ns; st++ {
			for str := 0; str < nstr; str++ {
				for ctr := 0; ctr < 3; ctr++ {
					changed := 0
					for _, v := range []int{idx, st, str, ctr} {
						if v != 0 {
							changed++
						}
					}
					fam.states = append(fam.states, hstate{
						desc: fmt.Sprintf("one %s: identity #%d, state #%d, path/name %q, counters set %d", typ, idx, st, hStrings[str], ctr),
						w:    one(hEntity(typ, idx, st, str, ctr)),
						feat: map[string]string{"present": "yes", "identity": fmt.Sprint(idx), "state": fmt.Sprint(st), "path": fmt.Sprint(str), "counters": fmt.Sprint(ctr)},
						// reduced: the base state, every single-field change of it (first alternative value) and all fields changed
						reduced: idx <= 1 && st <= 1 && str <= 1 && ctr <= 1 && (changed <= 1 || changed == navail),
					})
				}
			}
		}
	}
	// two entities: A and B with different attributes, the same in the other order, the attributes exchanged
	x := func(idx int) any { return hEntity(typ, idx, 1%ns, 1%nstr, 1) }
	y := func(idx int) any { return hEntity(typ, idx, 2%ns, 2%nstr, 2) }
	fam.states = append(fam.states,
		hstate{desc: "two " + typ + ": #0 with attributes x, #1 with attributes y", w: one(x(0), y(1)), feat: map[string]string{"present": "two", "order": "01", "attrs": "xy"}, reduced: true},
		hstate{desc: "two " + typ + ": #1 with attributes y, #0 with attributes x", w: one(y(1), x(0)), feat: map[string]string{"present": "two", "order": "10", "attrs": "xy"}},
		hstate{desc: "two " + typ + ": #0 with attributes y, #1 with attributes x", w: one(y(0), x(1)), feat: map[string]string{"present": "two", "order": "01", "attrs": "yx"}},
	)
	id0 := ""
	for _, e := range one(hEntity(typ, 0, 0, 0, 0)).ents() {
		id0 = e.id
	}
	id1 := ""
	for _, e := range one(hEntity(typ, 1, 0, 0, 0)).ents() {
		id1 = e.id
	}
	fp := filterParam[typ]
	fam.queries = []query{{}, {typ: typ}, {fparam: fp, fvalue: id0}, {typ: typ, fparam: fp, fvalue: id1}}
	fam.h1 = []int{1, 2} // the unfiltered scrape (every other type's placeholder block) is left to H2 and H3
	return fam
}

// hForward: the forward destinations of a path. 0 none; 1 one destination; 2 the SAME destination
// (id, position) with another protocol, state and counter; 3 two destinations.
func hForwards(pidx, v int) []defs.APIForwardDest {
	f := func(k, variant, ctr int) defs.APIForwardDest {
		return refill(mkForward(pidx*4+k, 0, variant), ctr).(defs.APIForwardDest)
	}
	switch v {
	case 1:
		return []defs.APIForwardDest{f(0, 0, 1)}
	case 2:
		return []defs.APIForwardDest{f(0, 3, 2)}
	case 3:
		return []defs.APIForwardDest{f(0, 0, 1), f(1, 3, 0)}
	}
	return nil
}

func hPath(idx int, ready bool, readers, ctr int) defs.APIPath {
	return refill(mkPath(idx, ifPathNames[idx], 0, ready, readerSets[readers]), ctr).(defs.APIPath)
}

func pathsFamily() hfamily {
	fam := hfamily{typ: "paths"}
	fam.states = append(fam.states, hstate{desc: "no path", w: newWorld(), feat: map[string]string{"present": "no"}, reduced: true})
	for idx := 0; idx < 2; idx++ {
		for _, ready := range []bool{false, true} {
			for rs := range readerSets {
				for ctr := 0; ctr < 3; ctr++ {
					for fw := 0; fw < 4; fw++ {
						w := newWorld()
						w.paths = []defs.APIPath{hPath(idx, ready, rs, ctr)}
						if f := hForwards(idx, fw); f != nil {
							w.forwards[ifPathNames[idx]] = f
						}
						changed := 0
						for _, v := range []int{idx, rs, ctr, fw} {
							if v != 0 {
								changed++
							}
						}
						if ready {
							changed++
						}
						small := idx <= 1 && rs <= 1 && ctr <= 1 && fw <= 2
						fam.states = append(fam.states, hstate{
							desc: fmt.Sprintf("one path %q: ready=%v, readers %v, counters set %d, forward destinations variant %d", ifPathNames[idx], ready, readerSets[rs], ctr, fw),
							w:    w,
							feat: map[string]string{"present": "yes", "identity": fmt.Sprint(idx), "ready": fmt.Sprint(ready), "readers": fmt.Sprint(rs),
								"counters": fmt.Sprint(ctr), "forwards": fmt.Sprint(fw)},
							reduced: small && (changed <= 1 || (changed == 5 && fw == 2)),
						})
					}
				}
			}
		}
	}
	two := func(a, b defs.APIPath, fa, fb int) *world {
		w := newWorld()
		w.paths = []defs.APIPath{a, b}
		for i, p := range w.paths {
			idx := 0
			if p.Name == ifPathNames[1] {
				idx = 1
			}
			if f := hForwards(idx, []int{fa, fb}[i]); f != nil {
				w.forwards[p.Name] = f
			}
		}
		return w
	}
	fam.states = append(fam.states,
		hstate{desc: "two paths: #0 ready with readers and one forward destination, #1 not ready with other readers and two destinations",
			w: two(hPath(0, true, 1, 1), hPath(1, false, 2, 2), 1, 3), feat: map[string]string{"present": "two", "order": "01", "attrs": "xy"}, reduced: true},
		hstate{desc: "the same two paths listed in the other order",
			w: two(hPath(1, false, 2, 2), hPath(0, true, 1, 1), 3, 1), feat: map[string]string{"present": "two", "order": "10", "attrs": "xy"}},
		hstate{desc: "the same two paths with their attributes exchanged",
			w: two(hPath(0, false, 2, 2), hPath(1, true, 1, 1), 3, 1), feat: map[string]string{"present": "two", "order": "01", "attrs": "yx"}},
	)
	fid := hForwards(0, 1)[0].ID.String()
	fam.queries = []query{{}, {typ: "paths"}, {fparam: "path", fvalue: ifPathNames[0]}, {typ: "forward_dests"}, {fparam: "forward_dest", fvalue: fid},
		{typ: "paths", fparam: "path", fvalue: ifPathNames[1]}}
	fam.h1 = []int{1, 3}
	return fam
}

func tc2(tclass [][]string, steps []hstep, i int) string {
	return tclass[steps[i-1].state][steps[i].state]
}

func transitionClass(a, b hstate) string {
	keys := map[string]bool{}
	for k := range a.feat {
		keys[k] = true
	}
	for k := range b.feat {
		keys[k] = true
	}
	var ch []string
	for k := range keys {
		if a.feat[k] != b.feat[k] {
			ch = append(ch, k)
		}
	}
	if len(ch) == 0 {
		return "same-state"
	}
	sort.Strings(ch)
	return strings.Join(ch, "+")
}

// ---------------------------------------------------------------------------------------------

type hstep struct{ state, query int }

type hreport struct {
	histories, scrapes, familyStates int
	perFamily                        map[string]any
}

// runHistories enumerates the histories; record receives the violations (ordered by idx so that
// the reported representative is the first one of the enumeration).
func runHistories(r *vcommon.Run, thorough bool, baseIdx int, record func(idx int, res *result, typ string)) hreport {
	depth := 2
	if thorough {
		depth = 3
	}
	rep := hreport{perFamily: map[string]any{}}
	var fams []hfamily
	fams = append(fams, pathsFamily())
	for _, typ := range typeNames {
		if typ != "paths" && typ != "forward_dests" {
			fams = append(fams, listFamily(typ))
		}
	}
	// H3 as a family of its own: worlds with every type populated, unfiltered and per type
	all := hfamily{typ: "all", queries: []query{{}}, h1: []int{0}}
	for _, k := range []int{2, 3} {
		for rot := 0; rot < 4; rot++ {
			w, _ := fullWorld(k, rot)
			all.states = append(all.states, hstate{desc: fmt.Sprintf("all 13 types populated, %d entities each, rotation %d", k, rot), w: w,
				feat: map[string]string{"k": fmt.Sprint(k), "rot": fmt.Sprint(rot)}})
		}
	}
	fams = append(fams, all)

	idx := baseIdx
	for _, fam := range fams {
		fam := fam
		ns, nq := len(fam.states), len(fam.queries)
		// the fresh-instance exposition of every (state, query), judged by the per-scrape oracle
		fresh := make([][]string, ns)
		freshBad := make([][]bool, ns)
		vcommon.Parallel(ns, func(si int) {
			fresh[si] = make([]string, nq)
			freshBad[si] = make([]bool, nq)
			for qi, q := range fam.queries {
				body, f := newServer("").scrape(fam.states[si].w, q)
				fresh[si][qi] = body
				r.Eval(1)
				verdict := "ok"
				if f != nil {
					freshBad[si][qi] = true
					verdict = f.symptom
					record(idx+si*nq+qi+(1<<41), &result{f.symptom, fmt.Sprintf("history alphabet, %s, query %s (fresh instance): %s", fam.states[si].desc, q, f.what),
						map[string]any{"state": fam.states[si].desc, "query": q.String(), "body_go": vcommon.Short(fmt.Sprintf("%q", body), 1500)}}, fam.typ)
				}
				r.Distinct(fmt.Sprintf("hist-fresh|%s|q=%d|%s", fam.typ, qi, verdict))
			}
		})
		idx += ns * nq

		reqs := make([]*http.Request, nq) // read-only for the handler, shared by all histories
		for qi, q := range fam.queries {
			reqs[qi] = q.request()
		}
		tclass := make([][]string, ns)
		for a := range fam.states {
			tclass[a] = make([]string, ns)
			for b := range fam.states {
				tclass[a][b] = transitionClass(fam.states[a], fam.states[b])
			}
		}
		var dmu sync.Mutex
		dseen := map[string]bool{}
		distinct := func(kind, tc, verdict string) {
			k := "hist|" + fam.typ + "|" + kind + "|" + tc + "|" + verdict
			dmu.Lock()
			if !dseen[k] {
				dseen[k] = true
				r.Distinct(k)
			}
			dmu.Unlock()
		}
		// one history: steps on one instance; the first deviating scrape is reported
		run := func(hidx int, kind string, steps []hstep, allQueries bool) {
			srv := newServer("")
			for i, st := range steps {
				qis := []int{st.query}
				if allQueries {
					qis = fam.h1
				}
				srv.install(fam.states[st.state].w)
				for _, qi := range qis {
					body, gf := srv.serve(reqs[qi])
					r.Eval(1)
					if gf == nil && (body == fresh[st.state][qi] || sameExposition(body, fresh[st.state][qi])) {
						continue
					}
					if freshBad[st.state][qi] && gf == nil {
						continue // reported for the fresh instance already; no reference to compare with
					}
					var hist []string
					for j := 0; j <= i; j++ {
						d := fmt.Sprintf("[%d] %s", j+1, fam.states[steps[j].state].desc)
						if allQueries {
							d += ", scraped"
							for x, qi := range fam.h1 {
								d += []string{" with query ", " and "}[min(x, 1)] + fam.queries[qi].String()
							}
						} else {
							d += ", scraped with query " + fam.queries[steps[j].query].String()
						}
						hist = append(hist, d)
					}
					family, detail := fam.typ, ""
					what := ""
					if gf != nil {
						what = gf.what
						family, detail = fam.typ, gf.symptom
					} else {
						family, detail = diffFamily(body, fresh[st.state][qi], fam.typ)
						if jf := judge(body, fam.states[st.state].w, fam.queries[qi]); jf != nil {
							what = "per-scrape oracle: " + jf.what
						} else {
							what = "the per-scrape oracle accepts both"
						}
					}
					tc := "first-scrape"
					if i > 0 {
						tc = tclass[steps[i-1].state][st.state]
					}
					key := "exposition-not-a-function-of-state:" + family
					if gf != nil {
						key = gf.symptom
					}
					record(hidx, &result{key,
						fmt.Sprintf("history on one Metrics instance: %s; scrape %d with query %s differs from the scrape of a fresh instance in the same state (%s; transition %s): %s",
							strings.Join(hist, " -> "), i+1, fam.queries[qi], detail, tc, what),
						map[string]any{"family": fam.typ, "kind": kind, "history": hist, "query": fam.queries[qi].String(), "transition": tc,
							"body_go":                vcommon.Short(fmt.Sprintf("%q", body), 1500),
							"fresh_instance_body_go": vcommon.Short(fmt.Sprintf("%q", fresh[st.state][qi]), 1500)}}, fam.typ)
					distinct(kind, tc, "deviates")
					return
				}
				if i > 0 {
					distinct(kind, tc2(tclass, steps, i), "ok")
				}
			}
		}

		// H1: all state sequences, every query at every step (the first state is the parallel unit)
		nH1 := 1
		for i := 0; i < depth; i++ {
			nH1 *= ns
		}
		perFirst := nH1 / ns
		h1Base := idx
		vcommon.Parallel(ns, func(first int) {
			for rest := 0; rest < perFirst; rest++ {
				steps := []hstep{{state: first}}
				for x, i := rest, 1; i < depth; i++ {
					steps = append(steps, hstep{state: x % ns})
					x /= ns
				}
				run(h1Base+first*perFirst+rest, "H1", steps, true)
			}
		})
		idx += nH1
		// H2: all sequences over (reduced state x query), one scrape per step
		var alpha []hstep
		for si, s := range fam.states {
			if s.reduced || fam.typ == "all" {
				for qi := range fam.queries {
					alpha = append(alpha, hstep{si, qi})
				}
			}
		}
		na := len(alpha)
		nH2 := 1
		for i := 0; i < depth; i++ {
			nH2 *= na
		}
		if fam.typ == "all" {
			nH2 = 0 // one query only: H1 is H2
		}
		h2Base := idx
		if nH2 > 0 {
			perFirst2 := nH2 / na
			vcommon.Parallel(na, func(first int) {
				for rest := 0; rest < perFirst2; rest++ {
					steps := []hstep{alpha[first]}
					for x, i := rest, 1; i < depth; i++ {
						steps = append(steps, alpha[x%na])
						x /= na
					}
					run(h2Base+first*perFirst2+rest, "H2", steps, false)
				}
			})
		}
		idx += nH2
		nred := 0
		for _, s := range fam.states {
			if s.reduced {
				nred++
			}
		}
		rep.histories += nH1 + nH2
		rep.familyStates += ns
		rep.perFamily[fam.typ] = map[string]int{"states": ns, "reduced_states": nred, "queries": nq, "histories_full_alphabet": nH1, "histories_state_x_query_steps": nH2}
	}
	return rep
}
