// Harness c20e2e: the READER and CONNECTION hooks of property C20 ("hooks fire in well-formed start/stop pairs"):
// runOnRead / runOnUnread per reader and runOnConnect / runOnDisconnect per connection, which the protocol servers
// fire (the path-level hooks are covered by harness c20).
//
// One real core.Core per lifecycle (in worker subprocesses), configured with marker commands: every hook is
// `sh -c 'echo "<family> <type> <id> start|stop" >> file'`, really spawned by externalcmd. A lifecycle is
// protocol {RTSP, RTMP, SRT, HLS, WebRTC} x role {read, publish} x ending {the client closes, it is kicked through
// the API, the publisher leaves, the path is recreated by a configuration change through the API, the protocol
// server is recreated by a configuration change, everything is recreated, the Core shuts down; RTSP: PAUSE, PAUSE+PLAY, PLAY sent again while playing, PLAY again + PAUSE},
// plus the family "the establishment of a reader session fails part-way" (role readfail, see failed.go): no publisher,
// user without read permission, maxReaders reached, RTSP SETUP without PLAY, HLS muxer without instance, ...
//
// Oracle: when the Core has been closed (Core.Close drains the external command pool) the lines of every reader id
// and of every connection id are start, stop -- exactly one pair, in that order (k pairs for a RTSP reader that
// played k times). Nothing is judged by elapsed time: every step waits for an explicit condition (API state, a line
// in the file) and a wait that does not end is a HARNESS-ERROR.
package main

import (
	"encoding/json"
	"flag"
	"fmt"
	"os"
	"runtime"
	"sort"
	"strings"

	"github.com/bluenviron/mediamtx/internal/zzverif/e2elib"
	"github.com/bluenviron/mediamtx/internal/zzverif/vcommon"
)

var (
	flagWorker = flag.Int("worker", -1, "internal: run as worker i")
	flagWTmp   = flag.String("wtmp", "", "internal: worker temp dir")
	flagProcs  = flag.Int("procs", 0, "worker processes (0 = one per core, 4..16)")
	flagOnly   = flag.String("only", "", "debug: run only the lifecycles whose key contains this string")
	flagKeep   = flag.Bool("keep", false, "debug: keep the temp dir")
)

// Lifecycle is one history of a reader / publisher and its connection.
type Lifecycle struct {
	ID      int    `json:"id"`
	Proto   string `json:"proto"`  // rtsp rtsps rtmp rtmps srt hls webrtc
	Role    string `json:"role"`   // read publish readfail
	Ending  string `json:"ending"` // close kick publeave pathreload serverreload allreload shutdown pause pauseplay playagain playagain-pause idle; readfail: see failed.go
	Workers int    `json:"workers"`
}

func (l Lifecycle) key() string { return l.Proto + "/" + l.Role + "/" + l.Ending }

func buildLifecycles(thorough bool) []Lifecycle {
	var out []Lifecycle
	protos := []string{"rtsp", "rtmp", "srt", "hls", "webrtc"}
	if thorough {
		protos = append(protos, "rtsps", "rtmps")
	}
	for _, pr := range protos {
		endings := []string{"close", "kick", "publeave", "pathreload", "serverreload", "allreload", "shutdown"}
		if pr == "rtsp" || pr == "rtsps" {
			endings = append(endings, "pause", "pauseplay", "playagain", "playagain-pause")
		}
		for _, e := range endings {
			if pr == "hls" && e == "close" {
				// a HLS session has no connection to close: it ends when it is idle for 30 s (thorough tier)
				if !thorough {
					continue
				}
				e = "idle"
			}
			out = append(out, Lifecycle{Proto: pr, Role: "read", Ending: e})
		}
		if pr == "hls" || pr == "webrtc" {
			continue // no connection hooks: a publisher of these protocols fires none of the hooks of this check
		}
		for _, e := range []string{"close", "kick", "pathreload", "serverreload", "allreload", "shutdown"} {
			out = append(out, Lifecycle{Proto: pr, Role: "publish", Ending: e})
		}
	}
	// the establishment of a reader session fails part-way (failed.go)
	out = append(out, buildFailLifecycles(thorough)...)
	for i := range out {
		out[i].ID = i
	}
	return out
}

func main() {
	flag.CommandLine.SetOutput(os.Stderr)
	if len(os.Args) > 1 && os.Args[1] == "-worker" {
		flag.Parse()
		workerMain(*flagWorker, *flagWTmp)
		return
	}
	r := vcommon.Start("C20", "exploration")
	lcs := buildLifecycles(r.Thorough())
	if *flagOnly != "" {
		var sel []Lifecycle
		for _, l := range lcs {
			if strings.Contains(l.key(), *flagOnly) {
				sel = append(sel, l)
			}
		}
		lcs = sel
	}
	n := *flagProcs
	if n <= 0 {
		n = runtime.GOMAXPROCS(0)
		if n > 16 {
			n = 16
		}
		if n < 4 {
			n = 4
		}
	}
	if n > len(lcs) {
		n = len(lcs)
	}
	tmp, err := os.MkdirTemp("", "verif-c20e-")
	if err != nil {
		vcommon.Harness("tmp: %v", err)
	}
	cleanup := func() {
		if !*flagKeep {
			os.RemoveAll(tmp)
		}
	}
	var jobs []any
	for i := range lcs {
		lcs[i].Workers = n
		jobs = append(jobs, lcs[i])
	}
	pool := e2elib.NewPool(n, tmp)
	results := pool.Run(jobs)
	pool.Close()

	var harnessErrs []string
	totalIDs, totalLines, totalPairs, coreTerminated := 0, 0, 0, 0
	byFamily := map[string]int{}
	failLifecycles, failWithHooks, failWithReadHooks, failObjects, failReadObjects := 0, 0, 0, 0, 0
	failures := map[string]bool{}
	for i, res := range results {
		l := lcs[i]
		if res.Crash != "" {
			// a stop closure of internal/hooks that is called a second time closes the start command's channel again:
			// the process dies with that closure on the stack. That is the second stop, observed as a crash.
			if strings.Contains(res.Crash, "close of closed channel") && strings.Contains(res.Crash, "internal/hooks.On") {
				family := "conn"
				if strings.Contains(res.Crash, "internal/hooks.OnRead") {
					family = "read"
				}
				r.Eval(1)
				r.Violation(fmt.Sprintf("%s:stop-twice-crash:%s:%s:%s", family, l.Proto, l.Role, l.Ending),
					fmt.Sprintf("%s: the stop hook of an object ran twice; the second run closed the start command again and the server died", l.key()),
					map[string]any{"lifecycle": l, "crash": res.Crash})
				continue
			}
			cleanup()
			vcommon.Harness("lifecycle %s: %s", l.key(), res.Crash)
		}
		var lr LifecycleResult
		if err = json.Unmarshal(res.Raw, &lr); err != nil {
			cleanup()
			vcommon.Harness("lifecycle %s: bad answer: %v", l.key(), err)
		}
		if lr.HarnessError != "" {
			harnessErrs = append(harnessErrs, l.key()+": "+lr.HarnessError)
			continue
		}
		runs := append(append([]LifecycleResult{}, lr.Earlier...), lr)
		for _, lr := range runs {
			if lr.CoreTerminated != "" {
				coreTerminated++
				r.Note("%s: the Core terminated by itself during the lifecycle (%s); pairing judged", l.key(), lr.CoreTerminated)
			}
			r.Eval(1)
			totalLines += len(lr.Lines)
			if l.Role == roleFail {
				replay := map[string]any{"lifecycle": l, "lines": lr.Lines, "ordered": lr.Ordered, "attempts": lr.Attempts, "steps": lr.Steps}
				shape, objects, readObjects, malformed := judgeFail(l, lr, func(key, what string) { r.Violation(key, what, replay) })
				for _, ln := range malformed {
					harnessErrs = append(harnessErrs, l.key()+": malformed marker line "+fmt.Sprintf("%q", ln))
				}
				failLifecycles++
				failObjects += objects
				failReadObjects += readObjects
				totalIDs += objects
				totalPairs += objects
				if objects > 0 {
					failWithHooks++
				}
				if readObjects > 0 {
					failWithReadHooks++
				}
				for _, a := range lr.Attempts {
					failures[l.Proto+"/"+l.Ending+" "+a] = true
				}
				for _, sh := range shape {
					byFamily[strings.Join(strings.Split(sh, "/")[:2], "/")]++
				}
				r.Distinct(l.key() + " " + strings.Join(shape, " ") + " || " + strings.Join(lr.Attempts, " | "))
				if l.ID%5 == 0 {
					r.Sample(map[string]any{"lifecycle": l.key(), "hooks": shape, "attempts": lr.Attempts, "steps": lr.Steps})
				}
				continue
			}
			// the lines of every id, in file order
			seq := map[string][]string{}
			var ids []string
			for _, ln := range lr.Lines {
				f := strings.Fields(ln)
				if len(f) != 4 || (f[3] != "start" && f[3] != "stop") || (f[0] != "read" && f[0] != "conn") {
					harnessErrs = append(harnessErrs, l.key()+": malformed marker line "+fmt.Sprintf("%q", ln))
					continue
				}
				id := f[0] + " " + f[1] + " " + f[2]
				if _, ok := seq[id]; !ok {
					ids = append(ids, id)
				}
				seq[id] = append(seq[id], f[3])
			}
			// the objects the lifecycle is about must have been seen (otherwise the lifecycle was not exercised)
			for _, sub := range lr.Subjects {
				if _, ok := seq[sub]; !ok {
					harnessErrs = append(harnessErrs, l.key()+": no hook line of the subject "+sub)
				}
			}
			replay := map[string]any{"lifecycle": l, "lines": lr.Lines, "subjects": lr.Subjects, "steps": lr.Steps}
			shape := []string{}
			for _, id := range ids {
				totalIDs++
				f := strings.Fields(id)
				family, typ := f[0], f[1]
				byFamily[family+"/"+typ]++
				s := strings.Join(seq[id], " ")
				pairs := 1
				if n, ok := lr.Pairs[id]; ok {
					pairs = n
				}
				want := strings.TrimSpace(strings.Repeat("start stop ", pairs))
				totalPairs += pairs
				isSubject := false
				for _, sub := range lr.Subjects {
					if sub == id {
						isSubject = true
					}
				}
				who := "bystander"
				if isSubject {
					who = "subject"
				}
				shape = append(shape, family+"/"+typ+"/"+who+"="+strings.ReplaceAll(s, " ", ","))
				if s == want {
					continue
				}
				hooks := map[string]string{"read": "runOnRead/runOnUnread", "conn": "runOnConnect/runOnDisconnect"}[family]
				kind := "unbalanced"
				nStart, nStop := strings.Count(s, "start"), strings.Count(s, "stop")
				switch {
				case nStop < nStart:
					kind = "missing-stop"
				case nStop > nStart:
					kind = "extra-stop"
				case nStart != pairs:
					kind = "repeated-pair"
				default:
					kind = "out-of-order"
				}
				r.Violation(fmt.Sprintf("%s:%s:%s:%s:%s", family, kind, l.Proto, l.Role, l.Ending),
					fmt.Sprintf("%s: %s of %s %s (%s) fired as [%s], expected [%s] once the Core was closed",
						l.key(), hooks, typ, f[2], who, s, want), replay)
			}
			sort.Strings(shape)
			r.Distinct(l.key() + " " + strings.Join(shape, " "))
			if l.ID%9 == 0 {
				r.Sample(map[string]any{"lifecycle": l.key(), "hooks": shape, "steps": lr.Steps})
			}
		}
	}
	cleanup()
	if len(harnessErrs) > 0 {
		sort.Strings(harnessErrs)
		if len(harnessErrs) > 6 {
			harnessErrs = append(harnessErrs[:6], fmt.Sprintf("... and %d more", len(harnessErrs)-6))
		}
		vcommon.Harness("%d lifecycles could not be run:\n  %s", len(harnessErrs), strings.Join(harnessErrs, "\n  "))
	}
	if failLifecycles > 0 && failWithHooks == 0 && *flagOnly == "" {
		vcommon.Harness("no lifecycle of the family 'the establishment fails part-way' produced a hook object: the family is vacuous")
	}
	var failureList []string
	for f := range failures {
		failureList = append(failureList, f)
	}
	sort.Strings(failureList)
	r.Set("failed_establishment_runs", failLifecycles)
	r.Set("failed_establishment_runs_with_hook_objects", failWithHooks)
	r.Set("failed_establishment_runs_with_read_hook_objects", failWithReadHooks)
	r.Set("failed_establishment_hook_objects", failObjects)
	r.Set("failed_establishment_read_hook_objects", failReadObjects)
	r.Set("failed_establishment_refusals_observed", failureList)
	r.Set("lifecycles", len(lcs))
	r.Set("hook_objects", totalIDs)
	r.Set("hook_pairs_expected", totalPairs)
	r.Set("marker_lines", totalLines)
	r.Set("runs_in_which_a_reload_terminated_the_core", coreTerminated)
	r.Set("objects_by_family_and_type", byFamily)
	r.Rule = "protocol x role {read, publish} x ending {client closes, kicked through the API, publisher leaves, path recreated by an API " +
		"configuration change, protocol server recreated, everything recreated, Core shutdown, RTSP PAUSE / PAUSE+PLAY / PLAY again while playing / PLAY again then PAUSE, HLS idle}; every " +
		"read lifecycle has the reader under test, a second reader of the same protocol that stays, and the publisher's connection; " +
		"a class = lifecycle x the (family, type, role in the lifecycle, fired sequence) of every hook object || " +
		"the establishment of a reader session fails part-way (role readfail): protocol x {no publisher, user without read permission, " +
		"maxReaders reached, RTSP refused at SETUP instead of DESCRIBE, RTSP SETUP without PLAY then close / kick / shutdown, HLS muxer " +
		"refused by the path, HLS always-remux muxer without instance, SRT passphrase missing, WHEP body that is no offer, WHEP offer " +
		"answered and session deleted}, every attempt twice, a bystander reading successfully wherever a publisher exists; a class = " +
		"lifecycle x fired hooks of every object x the way the attempts were refused"
	r.Exhaustive = *flagOnly == ""
	r.Assumptions = []string{
		"hook executions are observed through marker commands really spawned by externalcmd (one line appended per execution); the harness " +
			"waits for the start line of every object before it triggers the ending, because a start command that is still running when its " +
			"stop arrives is interrupted by design",
		"one reader under test plus one bystander per lifecycle; sequential histories (the schedules of the path-level hooks are harness c20)",
		"runOnConnectRestart / runOnReadRestart are off; WebRTC and HLS have no connection hooks; MoQ is not driven",
		"RTSPS / RTMPS and the 30 s HLS idle expiry only in the thorough tier",
		"role readfail: a connection that the server closes as soon as it has accepted it (a refused reader) has its start command " +
			"interrupted by externalcmd (by design) or running at the same time as its stop command: for the objects whose start line " +
			"the harness could not await, the numbers of lines are judged (one stop, at most one start, never a start alone) and not " +
			"their order; a stop line without a start line is accepted only when the Core's log shows that many start commands " +
			"launched that wrote no line",
		"role readfail: a lifecycle in which no hook fires is accepted (nothing was started); how many runs produced hook objects is " +
			"in the coverage (failed_establishment_*)",
	}
	fmt.Printf("lifecycles=%d hook objects=%d pairs=%d lines=%d classes=%d\n", len(lcs), totalIDs, totalPairs, totalLines, r.DistinctCount())
	r.Finish()
}
