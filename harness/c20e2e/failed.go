package main

// Family "the establishment of a reader session fails part-way" (role "readfail").
//
// A server starts runOnRead at some point of the establishment of a reader session and owes runOnUnread from then
// on, whatever happens next; it starts runOnConnect when it accepts a connection and owes runOnDisconnect whatever the
// connection was used for. The lifecycles of this family stop the establishment at every step that can be provoked
// without a timing assumption (the step fails by itself or the client stops there):
//
//	nopublisher        the path has no publisher: no stream is available            (RTSP: refused at DESCRIBE)
//	nopublisher-setup  RTSP: SETUP without DESCRIBE, refused at SETUP
//	authdenied         a user that has no read permission (two attempts at once: a refusal sleeps 0-4 s);
//	                   WebRTC: the repository's client (refused at OPTIONS) and a bare WHEP POST (refused in the session)
//	authdenied-setup   RTSP: SETUP without DESCRIBE
//	maxreaders         maxReaders: 1 and a reader is attached: the path refuses the second reader
//	muxerrefused       HLS, maxReaders: 1, nobody attached: the session takes the place, the muxer it asks for is
//	                   refused by the path and has no instance ("muxer instance not available")
//	noinstance         HLS, hlsAlwaysRemux with hlsDirectory pointing to a regular file: the muxer of the path exists
//	                   (in /v3/hlsmuxers/list) but cannot create its instance; playlist requests fail after the session
//	                   has become a reader of the path
//	setupclose / setupkick / setupshutdown
//	                   RTSP: DESCRIBE, SETUP, no PLAY; the client closes / the session is kicked / the Core shuts down
//	badpassphrase      SRT: the path has srtReadPassphrase, the client has none (refused after it became a reader)
//	badoffer           WebRTC: a WHEP POST whose body is not a session description (refused after the session became
//	                   a reader and its peer connection was started)
//	abortoffer         WebRTC: a valid WHEP offer is answered; the client never uses the answer and deletes the session
//
// Every attempt is made twice. Wherever a publisher exists a bystander reads the path successfully (it is the reader
// that occupies the place in "maxreaders"), so that the hooks that ARE due fire in the same Core.
//
// Oracle: as for the other lifecycles, judged on the marker file after Core.Close: the lines of every hook id are
// start, stop. One thing is different here: a connection that the server closes in the same millisecond in which it
// accepted it (a refused RTSP / RTMP / SRT reader) has its stop hook called while its start command is being spawned,
// and internal/externalcmd then interrupts the start command (SIGINT to its process group) -- by design. The start
// marker of such an object is sometimes not written, and when it is, the two commands run at the same time and
// their lines can come in either order. So:
//   - objects whose start line was in the file before anything was done that ends them ("ordered"): exactly start, stop;
//   - the other objects ("counted"): one stop line; at most one start line; a start line without a stop line is the
//     hook left open. A stop line without a start line is accepted only if the Core's log shows a start command that
//     was launched and wrote nothing: internal/hooks logs "runOnConnect command started" / "runOnRead command started"
//     before it spawns the command, so (log lines of the lifecycle) - (start lines in the file) is the number of
//     start commands that were interrupted; more stop-only objects than that is a stop without a start.
// A stop hook is never interrupted and Core.Close drains the command pool, so a missing stop line is never an artefact.

import (
	"fmt"
	"io"
	"os"
	"path/filepath"
	"regexp"
	"sort"
	"strings"
	"sync"
	"time"

	"github.com/bluenviron/gortsplib/v5"

	"github.com/bluenviron/mediamtx/internal/zzverif/e2elib"
)

const roleFail = "readfail"

var (
	credReader = e2elib.Creds{User: "reader", Pass: "rpass"}
	credNoRead = e2elib.Creds{User: "noread", Pass: "npass"}
)

const srtPassphrase = "0123456789abcdef"

func buildFailLifecycles(thorough bool) []Lifecycle {
	var out []Lifecycle
	add := func(pr string, endings ...string) {
		for _, e := range endings {
			out = append(out, Lifecycle{Proto: pr, Role: roleFail, Ending: e})
		}
	}
	add("rtsp", "nopublisher", "nopublisher-setup", "authdenied", "authdenied-setup", "maxreaders",
		"setupclose", "setupkick", "setupshutdown")
	add("rtmp", "nopublisher", "authdenied", "maxreaders")
	add("srt", "nopublisher", "authdenied", "maxreaders", "badpassphrase")
	add("hls", "nopublisher", "authdenied", "maxreaders", "muxerrefused", "noinstance")
	add("webrtc", "nopublisher", "authdenied", "maxreaders", "badoffer", "abortoffer")
	if thorough {
		add("rtsps", "nopublisher", "nopublisher-setup", "authdenied", "authdenied-setup", "maxreaders",
			"setupclose", "setupkick", "setupshutdown")
		add("rtmps", "nopublisher", "authdenied", "maxreaders")
	}
	return out
}

// customize adapts the configuration of the Core to the lifecycle.
func (r *run) customize(cfg map[string]any) {
	if r.l.Role != roleFail {
		return
	}
	pconf := cfg["paths"].(map[string]any)[pathName].(map[string]any)
	switch r.l.Ending {
	case "authdenied", "authdenied-setup":
		perm := func(actions ...string) []any {
			var out []any
			for _, a := range actions {
				out = append(out, map[string]any{"action": a})
			}
			return out
		}
		cfg["authInternalUsers"] = []any{
			// the harness (Control API) and the publisher are anonymous; anonymous clients cannot read
			map[string]any{"user": "any", "pass": "", "ips": []any{}, "permissions": perm("api", "publish")},
			map[string]any{"user": credReader.User, "pass": credReader.Pass, "ips": []any{}, "permissions": perm("read")},
			map[string]any{"user": credNoRead.User, "pass": credNoRead.Pass, "ips": []any{}, "permissions": perm("publish")},
		}
	case "maxreaders", "muxerrefused":
		pconf["maxReaders"] = 1
	case "noinstance":
		notADir := filepath.Join(r.dir, "hls-directory-is-a-file")
		if err := os.WriteFile(notADir, []byte{1}, 0o644); err != nil {
			r.fail("%v", err)
		}
		cfg["hlsAlwaysRemux"] = true
		cfg["hlsDirectory"] = notADir
	case "badpassphrase":
		pconf["srtReadPassphrase"] = srtPassphrase
	}
}

func (r *run) portOf(proto string) string {
	switch proto {
	case "rtsp":
		return r.addr(e2elib.PRTSP)
	case "rtsps":
		return r.addr(e2elib.PRTSPS)
	case "rtmp":
		return r.addr(e2elib.PRTMP)
	case "rtmps":
		return r.addr(e2elib.PRTMPS)
	case "srt":
		return r.addr(e2elib.PSRT)
	case "hls":
		return r.addr(e2elib.PHLS)
	}
	return r.addr(e2elib.PWebRTC)
}

// dialReader makes one attempt to read the path with the given protocol; flow is the RTSP flow ("" = DESCRIBE,
// SETUP, PLAY; "sp" = SETUP, PLAY; "ds" = DESCRIBE, SETUP and no PLAY).
func (r *run) dialReader(proto string, cr e2elib.Creds, flow string) (*e2elib.Client, *gortsplib.Client) {
	switch proto {
	case "rtsp", "rtsps":
		o := e2elib.RTSPOpts{TLS: proto == "rtsps", Placement: "hdr", Flow: flow}
		if flow == "ds" {
			o.Flow = ""
			return e2elib.RTSPSetup(r.portOf(proto), pathName, cr, o)
		}
		return e2elib.RTSPRead(r.portOf(proto), pathName, cr, o)
	case "rtmp", "rtmps":
		return e2elib.RTMPRead(r.portOf(proto), pathName, cr, proto == "rtmps"), nil
	case "srt":
		c, _ := e2elib.SRTDial(r.portOf(proto), e2elib.SRTStreamID("custom", false, pathName, cr), false, cr)
		return c, nil
	case "hls":
		return e2elib.HLSGet(r.portOf(proto), pathName, cr, "basic"), nil
	}
	c, _ := e2elib.WHIP(r.portOf(proto), pathName, false, cr, e2elib.WHIPOpts{})
	return c, nil
}

var (
	reUUID = regexp.MustCompile(`[0-9a-f]{8}-[0-9a-f]{4}-[0-9a-f]{4}-[0-9a-f]{4}-[0-9a-f]{12}`)
	rePort = regexp.MustCompile(`127\.0\.0\.1:\d+`)
)

// failureClass strips what differs from run to run from the error of a refused attempt.
func failureClass(c *e2elib.Client) string {
	s := c.Outcome + ": " + c.Err
	s = reUUID.ReplaceAllString(s, "<id>")
	s = rePort.ReplaceAllString(s, "<addr>")
	if len(s) > 160 {
		s = s[:160]
	}
	return s
}

// markedIDs returns the hook ids that have a start line in the marker file now.
func (r *run) markedIDs() []string {
	buf, _ := os.ReadFile(r.file)
	var out []string
	for _, ln := range strings.Split(string(buf), "\n") {
		f := strings.Fields(ln)
		if len(f) == 4 && f[3] == "start" {
			out = append(out, f[0]+" "+f[1]+" "+f[2])
		}
	}
	sort.Strings(out)
	return out
}

func (r *run) webrtcSessionIDs() map[string]bool {
	ids := map[string]bool{}
	r.wait("the list of WebRTC sessions", func() (bool, error) {
		l, err := r.api.List("webrtcsessions")
		if err != nil {
			return false, err
		}
		for _, it := range l {
			ids[it.ID] = true
		}
		return true, nil
	})
	return ids
}

func (r *run) failLifecycle() {
	e := r.l.Ending
	proto := r.l.Proto
	hasPublisher := !strings.HasPrefix(e, "nopublisher")
	if hasPublisher {
		var err error
		r.feeder, _, err = e2elib.StartFeeder(r.addr(e2elib.PRTSP), pathName, anon, 40*time.Millisecond)
		if err != nil {
			r.fail("%v", err)
		}
		r.wait("the path to be ready", func() (bool, error) {
			pi, err := r.api.PathGet(pathName)
			return err == nil && pi != nil && pi.Ready, err
		})
		r.step("publisher attached")
	}

	// the reader that succeeds
	byProto := proto
	byCreds := anon
	switch {
	case !hasPublisher || e == "muxerrefused":
		byProto = ""
	case e == "noinstance" || e == "badpassphrase" || (proto == "hls" && e == "maxreaders"):
		// no HLS reader can attach / the SRT client of the harness has no passphrase / a HLS reader is two readers
		// of the path (the session and its muxer)
		byProto = "rtsp"
	case strings.HasPrefix(e, "authdenied"):
		byCreds = credReader
	}
	if byProto != "" {
		var by *e2elib.Client
		for try := 0; ; try++ {
			by, _ = r.dialReader(byProto, byCreds, "")
			if by.Outcome == e2elib.OutOK {
				r.clients = append(r.clients, by)
				break
			}
			by.Close()
			if try >= 2 {
				r.fail("the bystander cannot read: %s", by.Err)
			}
		}
		bat := r.attachOf(by, "read")
		r.waitLine("read "+bat.Type+" "+bat.ID+" start", 1)
		r.step("a %s reader attached, its runOnRead marker written", byProto)
	}
	if e == "noinstance" {
		r.wait("the muxer of the path in /v3/hlsmuxers/list", func() (bool, error) {
			l, err := r.api.List("hlsmuxers")
			if err != nil {
				return false, err
			}
			for _, it := range l {
				if it.Path == pathName {
					return true, nil
				}
			}
			return false, nil
		})
		r.step("the always-remux muxer of the path exists")
	}
	r.waitConnStarts()
	// nothing that ends an object has been done so far: the objects that have their start line now are the ones
	// whose lines are judged in file order
	r.res.Ordered = r.markedIDs()

	refused := func(c *e2elib.Client) {
		if c.Outcome == e2elib.OutOK {
			c.Close()
			r.fail("the attempt that had to fail succeeded (%s)", strings.Join(c.Steps, ","))
		}
		r.res.Attempts = append(r.res.Attempts, failureClass(c))
		c.Close()
	}

	switch e {
	case "setupclose", "setupkick", "setupshutdown":
		for i := 0; i < 2; i++ {
			c, _ := r.dialReader(proto, anon, "ds")
			if c.Outcome != e2elib.OutOK {
				c.Close()
				r.fail("DESCRIBE, SETUP: %s", c.Err)
			}
			r.clients = append(r.clients, c)
			at := r.attachOf(c, "read")
			r.waitConnStarts()
			// the connection of this session has its start line before it is ended (the earlier ones had, too)
			r.res.Ordered = r.markedIDs()
			r.step("session %d set up, reader of the path, not playing", i+1)
			switch e {
			case "setupclose":
				c.Close()
				r.waitGone("the session of the closed connection to leave", at.ID)
				r.step("connection closed by the client")
			case "setupkick":
				r.kick(at.ID)
				r.waitGone("the kicked session to leave", at.ID)
				r.step("session kicked")
			}
		}
		if e == "setupshutdown" {
			r.step("shutting down with two sessions set up")
			return
		}

	case "abortoffer":
		for i := 0; i < 2; i++ {
			before := r.webrtcSessionIDs()
			c, ws := e2elib.WHEPPost(r.portOf(proto), pathName, anon, "")
			if c.Outcome != e2elib.OutOK {
				c.Close()
				r.fail("WHEP POST: %s", c.Err)
			}
			r.clients = append(r.clients, c)
			st, err := ws.Delete()
			if err != nil || st != 200 {
				r.fail("WHEP DELETE: status %d, %v", st, err)
			}
			r.wait("the deleted WebRTC session to leave", func() (bool, error) {
				l, err := r.api.List("webrtcsessions")
				if err != nil {
					return false, err
				}
				for _, it := range l {
					if !before[it.ID] {
						return false, nil
					}
				}
				return true, nil
			})
			c.Close()
			r.step("offer %d answered with 201, session deleted before any connectivity check", i+1)
		}

	case "badoffer":
		for i := 0; i < 2; i++ {
			c, _ := e2elib.WHEPPost(r.portOf(proto), pathName, anon, "v=0\r\nthis is not a session description\r\n")
			refused(c)
		}
		r.step("two WHEP POSTs without a session description: %s", strings.Join(r.res.Attempts, " | "))

	case "authdenied", "authdenied-setup":
		// a refusal sleeps for up to 4 s: both attempts at once
		flow := ""
		if e == "authdenied-setup" {
			flow = "sp"
		}
		cs := make([]*e2elib.Client, 2)
		var wg sync.WaitGroup
		for i := range cs {
			wg.Add(1)
			go func(i int) {
				defer wg.Done()
				if proto == "webrtc" && i == 1 {
					cs[i], _ = e2elib.WHEPPost(r.portOf(proto), pathName, credNoRead, "")
					return
				}
				cs[i], _ = r.dialReader(proto, credNoRead, flow)
			}(i)
		}
		wg.Wait()
		for _, c := range cs {
			refused(c)
		}
		r.step("two reads by a user without read permission: %s", strings.Join(r.res.Attempts, " | "))

	default:
		flow := ""
		if e == "nopublisher-setup" {
			flow = "sp"
		}
		for i := 0; i < 2; i++ {
			c, _ := r.dialReader(proto, anon, flow)
			refused(c)
		}
		r.step("two reads: %s", strings.Join(r.res.Attempts, " | "))
	}

	r.closeClients()
	r.step("clients closed")
	r.waitQuiet()
}

// countLogStarts counts, in the part of the worker's log written during this lifecycle, the lines with which
// internal/hooks announces that it starts a runOnConnect / runOnRead command.
func (r *run) countLogStarts() map[string]int {
	out := map[string]int{"conn": 0, "read": 0}
	f, err := os.Open(r.logPath)
	if err != nil {
		return out
	}
	defer f.Close()
	if _, err = f.Seek(r.logFrom, 0); err != nil {
		return out
	}
	buf, _ := io.ReadAll(f)
	out["conn"] = strings.Count(string(buf), "runOnConnect command started")
	out["read"] = strings.Count(string(buf), "runOnRead command started")
	return out
}

// judgeFail is the oracle of the family for one run; it returns the shape of the run (for the class key), the
// numbers of hook objects (all, runOnRead) and the marker lines it could not parse.
func judgeFail(l Lifecycle, lr LifecycleResult, violation func(key, what string)) (shape []string, objects, readObjects int, malformed []string) {
	seq := map[string][]string{}
	var ids []string
	startLines := map[string]int{}
	for _, ln := range lr.Lines {
		f := strings.Fields(ln)
		if len(f) != 4 || (f[3] != "start" && f[3] != "stop") || (f[0] != "read" && f[0] != "conn") {
			malformed = append(malformed, ln)
			continue
		}
		id := f[0] + " " + f[1] + " " + f[2]
		if _, ok := seq[id]; !ok {
			ids = append(ids, id)
		}
		seq[id] = append(seq[id], f[3])
		if f[3] == "start" {
			startLines[f[0]]++
		}
	}
	ordered := map[string]bool{}
	for _, id := range lr.Ordered {
		ordered[id] = true
	}
	// start commands that were launched (log) and wrote no line: interrupted by their stop
	silent := map[string]int{}
	for fam, n := range lr.LogStarted {
		if n > startLines[fam] {
			silent[fam] = n - startLines[fam]
		}
	}
	hookNames := map[string]string{"read": "runOnRead/runOnUnread", "conn": "runOnConnect/runOnDisconnect"}
	for _, id := range ids {
		f := strings.Fields(id)
		family, typ := f[0], f[1]
		objects++
		if family == "read" {
			readObjects++
		}
		s := strings.Join(seq[id], " ")
		nStart, nStop := strings.Count(s, "start"), strings.Count(s, "stop")
		kind := ""
		fired := ""
		if ordered[id] {
			fired = "ordered=" + strings.ReplaceAll(s, " ", ",")
			switch {
			case s == "start stop":
			case nStop < nStart:
				kind = "left-open"
			case nStop > nStart:
				kind = "stop-without-start"
			case nStart != 1:
				kind = "repeated"
			default:
				kind = "stop-before-start"
			}
		} else {
			// the start command may have been interrupted by the stop, or have run at the same time
			fired = "counted=stop"
			switch {
			case nStop < nStart:
				kind = "left-open"
				fired = fmt.Sprintf("counted=%dxstart,%dxstop", nStart, nStop)
			case nStop > 1 || nStart > 1:
				kind = "repeated"
				fired = fmt.Sprintf("counted=%dxstart,%dxstop", nStart, nStop)
			case nStart == 0:
				if silent[family] > 0 {
					silent[family]--
				} else {
					kind = "stop-without-start"
					fired = "counted=stop-only"
				}
			}
		}
		shape = append(shape, family+"/"+typ+"/"+fired)
		if kind != "" {
			violation(fmt.Sprintf("%s-hook-%s:%s:%s", family, kind, l.Proto, l.Ending),
				fmt.Sprintf("%s: %s of %s %s fired as [%s] (the establishment of a reader session failed part-way: %s; "+
					"start commands launched according to the log: %v); every hook that was started must be stopped exactly once "+
					"and nothing else may be stopped when the Core has been closed",
					l.key(), hookNames[family], typ, f[2], s, strings.Join(lr.Attempts, " | "), lr.LogStarted))
		}
	}
	sort.Strings(shape)
	return shape, objects, readObjects, malformed
}
