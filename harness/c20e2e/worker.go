package main

import (
	"encoding/json"
	"fmt"
	"net/http"
	"os"
	"path/filepath"
	"strings"
	"time"

	"github.com/bluenviron/gortsplib/v5"

	"github.com/bluenviron/mediamtx/internal/core"
	"github.com/bluenviron/mediamtx/internal/zzverif/e2elib"
)

// LifecycleResult is what a worker reports about one lifecycle.
type LifecycleResult struct {
	Lines    []string       `json:"lines"`    // the marker file, after Core.Close
	Subjects []string       `json:"subjects"` // "<family> <type> <id>" of the objects the lifecycle is about
	Pairs    map[string]int `json:"pairs"`    // expected number of start/stop pairs of an object, when it is not 1
	Steps    []string       `json:"steps"`
	// family "the establishment fails part-way" (failed.go): Ordered = the hook ids whose start line was in the marker
	// file before anything was done that ends them; Attempts = how every attempt that had to fail did fail
	Ordered  []string `json:"ordered,omitempty"`
	Attempts []string `json:"attempts,omitempty"`
	// LogStarted: how often the Core logged that it started a runOnConnect ("conn") / runOnRead ("read") command
	// during the lifecycle (the log line is written by internal/hooks before the command is spawned)
	LogStarted map[string]int `json:"log_started,omitempty"`
	// CoreTerminated: the Core terminated by itself during the lifecycle (a configuration reload whose new server
	// could not listen); the pairing is judged all the same, and the lifecycle is run again
	CoreTerminated string `json:"core_terminated,omitempty"`
	// Earlier: the runs of this lifecycle in which the Core terminated by itself
	Earlier      []LifecycleResult `json:"earlier,omitempty"`
	HarnessError string            `json:"harness_error,omitempty"`
}

const (
	portBase    = 29200
	waitTimeout = 90 * time.Second
	pathName    = "p1"
)

var connType = map[string]string{"rtspconns": "rtspConn", "rtspsconns": "rtspsConn", "rtmpconns": "rtmpConn",
	"rtmpsconns": "rtmpsConn", "srtconns": "srtConn"}

func workerMain(idx int, tmp string) {
	seq := 0
	e2elib.WorkerLoop(func(raw json.RawMessage) any {
		var l Lifecycle
		if err := json.Unmarshal(raw, &l); err != nil {
			return LifecycleResult{HarnessError: "bad job: " + err.Error()}
		}
		var earlier []LifecycleResult
		for attempt := 0; ; attempt++ {
			seq++
			lc := &run{idx: idx, l: l, dir: filepath.Join(tmp, fmt.Sprintf("w%d-l%d-%d", idx, l.ID, attempt)),
				logPath: filepath.Join(tmp, fmt.Sprintf("worker-%d.log", idx)), res: LifecycleResult{Pairs: map[string]int{}}}
			lc.execute()
			if lc.res.CoreTerminated != "" && lc.res.HarnessError == "" && attempt < 1 {
				earlier = append(earlier, lc.res)
				continue
			}
			lc.res.Earlier = earlier
			return lc.res
		}
	})
}

type run struct {
	idx   int
	l     Lifecycle
	dir   string
	file  string
	ports e2elib.Ports
	api   *e2elib.API
	core  *core.Core
	res   LifecycleResult

	clients []*e2elib.Client
	feeder  *e2elib.Feeder

	logPath  string
	logFrom  int64 // size of the worker's log when the lifecycle began
	coreDone chan struct{}
}

type abort struct{ msg string }

// coreExited is raised by a wait when the Core has terminated by itself.
type coreExited struct{}

func (r *run) fail(format string, a ...any) {
	panic(abort{fmt.Sprintf(format, a...)})
}

func (r *run) step(format string, a ...any) {
	r.res.Steps = append(r.res.Steps, fmt.Sprintf(format, a...))
}

func marker(family, typ, id, what, file string) string {
	return fmt.Sprintf(`sh -c 'echo "%s %s %s %s" >> %s'`, family, typ, id, what, file)
}

func (r *run) execute() {
	defer func() {
		if e := recover(); e != nil {
			ab, ok := e.(abort)
			if !ok {
				panic(e)
			}
			r.res.HarnessError = ab.msg + " (after: " + strings.Join(r.res.Steps, "; ") + ")"
			r.closeClients()
			if r.core != nil {
				r.core.Close()
			}
		}
		if r.api != nil {
			r.api.Close()
		}
	}()
	if err := os.MkdirAll(r.dir, 0o755); err != nil {
		r.fail("mkdir: %v", err)
	}
	r.file = filepath.Join(r.dir, "hooks.log")
	if fi, err := os.Stat(r.logPath); err == nil {
		r.logFrom = fi.Size()
	}
	if err := os.WriteFile(r.file, nil, 0o644); err != nil {
		r.fail("marker file: %v", err)
	}
	useTLS := r.l.Proto == "rtsps" || r.l.Proto == "rtmps"
	for try := 0; ; try++ {
		var err error
		r.ports, err = e2elib.PickBlock(portBase, r.idx, r.l.Workers, try)
		if err != nil {
			r.fail("%v", err)
		}
		cfg, err := e2elib.BaseConf(r.ports, r.dir, useTLS)
		if err != nil {
			r.fail("%v", err)
		}
		cfg["runOnConnect"] = marker("conn", "$MTX_CONN_TYPE", "$MTX_CONN_ID", "start", r.file)
		cfg["runOnDisconnect"] = marker("conn", "$MTX_CONN_TYPE", "$MTX_CONN_ID", "stop", r.file)
		cfg["paths"] = map[string]any{pathName: map[string]any{
			"runOnRead":   marker("read", "$MTX_READER_TYPE", "$MTX_READER_ID", "start", r.file),
			"runOnUnread": marker("read", "$MTX_READER_TYPE", "$MTX_READER_ID", "stop", r.file),
		}}
		r.customize(cfg)
		fn, err := e2elib.WriteConf(r.dir, "mediamtx.yml", cfg)
		if err != nil {
			r.fail("%v", err)
		}
		var ok bool
		r.core, ok = e2elib.StartCore(fn, 12)
		if ok {
			break
		}
		if try >= 5 {
			r.fail("the Core does not start (see the worker log)")
		}
	}
	r.api = e2elib.NewAPI(r.ports.Addr(e2elib.PAPI))
	r.step("core started")
	r.coreDone = make(chan struct{})
	go func(p *core.Core, done chan struct{}) {
		p.Wait()
		close(done)
	}(r.core, r.coreDone)

	func() {
		defer func() {
			if e := recover(); e != nil {
				if _, ok := e.(coreExited); !ok {
					panic(e)
				}
				r.res.CoreTerminated = r.lastLogError()
				r.step("the Core terminated by itself: %s", r.res.CoreTerminated)
			}
		}()
		switch r.l.Role {
		case "read":
			r.readLifecycle()
		case roleFail:
			r.failLifecycle()
		default:
			r.publishLifecycle()
		}
	}()

	// every lifecycle ends with the Core closed: Core.Close returns after the external command pool has drained
	r.core.Close()
	r.core = nil
	r.step("core closed")
	r.closeClients()
	buf, err := os.ReadFile(r.file)
	if err != nil {
		r.fail("marker file: %v", err)
	}
	for _, ln := range strings.Split(string(buf), "\n") {
		if strings.TrimSpace(ln) != "" {
			r.res.Lines = append(r.res.Lines, ln)
		}
	}
	if r.l.Role == roleFail {
		r.res.LogStarted = r.countLogStarts()
	}
}

func (r *run) closeClients() {
	for _, c := range r.clients {
		c.Close()
	}
	if r.feeder != nil {
		r.feeder.Stop()
	}
}

func (r *run) wait(what string, cond func() (bool, error)) {
	exited := false
	ok, err := e2elib.WaitFor(waitTimeout, func() (bool, error) {
		select {
		case <-r.coreDone:
			exited = true
			return true, nil
		default:
		}
		return cond()
	})
	if exited {
		panic(coreExited{})
	}
	if !ok {
		r.fail("timeout waiting for %s (last error: %v)", what, err)
	}
}

func (r *run) lastLogError() string {
	buf, err := os.ReadFile(r.logPath)
	if err != nil {
		return "?"
	}
	lines := strings.Split(string(buf), "\n")
	for i := len(lines) - 1; i >= 0; i-- {
		if j := strings.Index(lines[i], " ERR "); j >= 0 {
			return strings.TrimSpace(lines[i][j+5:])
		}
	}
	return "?"
}

func (r *run) countLines(line string) int {
	buf, _ := os.ReadFile(r.file)
	n := 0
	for _, ln := range strings.Split(string(buf), "\n") {
		if ln == line {
			n++
		}
	}
	return n
}

func (r *run) waitLine(line string, n int) {
	r.wait(fmt.Sprintf("%d x %q in the marker file", n, line), func() (bool, error) {
		return r.countLines(line) >= n, nil
	})
}

// waitConnStarts waits until the runOnConnect marker of every connection the API lists has been written.
func (r *run) waitConnStarts() {
	r.wait("the runOnConnect markers of all connections", func() (bool, error) {
		for kind, typ := range connType {
			l, err := r.api.List(kind)
			if err != nil {
				return false, err
			}
			for _, it := range l {
				if r.countLines("conn "+typ+" "+it.ID+" start") == 0 {
					return false, nil
				}
			}
		}
		return true, nil
	})
}

// connsOf returns "conn <type> <id>" of the connections of a client.
func (r *run) connsOf(c *e2elib.Client) []string {
	addrs := c.Locals()
	var out []string
	r.wait("the connection of a client in the API", func() (bool, error) {
		out = nil
		for kind, typ := range connType {
			l, err := r.api.List(kind)
			if err != nil {
				return false, err
			}
			for _, it := range l {
				if addrs[it.RemoteAddr] {
					out = append(out, "conn "+typ+" "+it.ID)
				}
			}
		}
		return len(out) > 0, nil
	})
	return out
}

// attachOf returns the attachment of a client to the path with the given role.
func (r *run) attachOf(c *e2elib.Client, role string) e2elib.Attach {
	var at e2elib.Attach
	r.wait("the "+role+" attachment of a client in the API", func() (bool, error) {
		s, err := r.api.Snapshot(e2elib.SessKinds)
		if err != nil {
			return false, err
		}
		mine, _ := s.AttachedOf(c.Locals())
		for _, a := range mine {
			if a.Path == pathName && a.Role == role {
				at = a
				return true, nil
			}
		}
		return false, nil
	})
	return at
}

func (r *run) kindOf(id string) string {
	kind := ""
	r.wait("the session "+id+" in the API lists", func() (bool, error) {
		s, err := r.api.Snapshot(e2elib.SessKinds)
		if err != nil {
			return false, err
		}
		se, ok := s.ByID[id]
		kind = se.Kind
		return ok, nil
	})
	return kind
}

// waitGone waits until none of the ids is in the protocol lists (sessions and connections).
func (r *run) waitGone(what string, ids ...string) {
	r.wait(what, func() (bool, error) {
		for _, kind := range append(append([]string{}, e2elib.SessKinds...), "rtspconns", "rtspsconns") {
			l, err := r.api.List(kind)
			if err != nil {
				return false, err
			}
			for _, it := range l {
				for _, id := range ids {
					if it.ID == id {
						return false, nil
					}
				}
			}
		}
		return true, nil
	})
}

// waitQuiet waits until the server has no session and no connection left (HLS sessions, which only expire, excepted).
func (r *run) waitQuiet() {
	r.wait("the server to forget every client", func() (bool, error) {
		for _, kind := range append(append([]string{}, e2elib.SessKinds...), "rtspconns", "rtspsconns") {
			if kind == "hlssessions" {
				continue
			}
			l, err := r.api.List(kind)
			if err != nil {
				return false, err
			}
			if len(l) > 0 {
				return false, nil
			}
		}
		return true, nil
	})
}

func (r *run) addr(k int) string { return r.ports.Addr(k) }

var anon = e2elib.Creds{Anon: true}

func (r *run) openReader() (*e2elib.Client, *gortsplib.Client) {
	var c *e2elib.Client
	var rc *gortsplib.Client
	for try := 0; try < 3; try++ {
		switch r.l.Proto {
		case "rtsp":
			c, rc = e2elib.RTSPRead(r.addr(e2elib.PRTSP), pathName, anon, e2elib.RTSPOpts{})
		case "rtsps":
			c, rc = e2elib.RTSPRead(r.addr(e2elib.PRTSPS), pathName, anon, e2elib.RTSPOpts{TLS: true})
		case "rtmp":
			c = e2elib.RTMPRead(r.addr(e2elib.PRTMP), pathName, anon, false)
		case "rtmps":
			c = e2elib.RTMPRead(r.addr(e2elib.PRTMPS), pathName, anon, true)
		case "srt":
			c, _ = e2elib.SRTDial(r.addr(e2elib.PSRT), e2elib.SRTStreamID("custom", false, pathName, anon), false, anon)
		case "hls":
			c = e2elib.HLSGet(r.addr(e2elib.PHLS), pathName, anon, "basic")
		case "webrtc":
			c, _ = e2elib.WHIP(r.addr(e2elib.PWebRTC), pathName, false, anon, e2elib.WHIPOpts{})
		}
		if c.Outcome == e2elib.OutOK {
			r.clients = append(r.clients, c)
			return c, rc
		}
		c.Close()
	}
	r.fail("reader: %s", c.Err)
	return nil, nil
}

// playAgainGrace is how long a hook command that must not exist is given to write its marker line.
const playAgainGrace = 2 * time.Second

// openRawReader opens the RTSP reader that writes its requests itself.
func (r *run) openRawReader() (*e2elib.Client, *e2elib.RawRTSP) {
	var c *e2elib.Client
	var rr *e2elib.RawRTSP
	for try := 0; try < 3; try++ {
		switch r.l.Proto {
		case "rtsp":
			c, rr = e2elib.RTSPRawRead(r.addr(e2elib.PRTSP), pathName, anon, e2elib.RTSPOpts{})
		case "rtsps":
			c, rr = e2elib.RTSPRawRead(r.addr(e2elib.PRTSPS), pathName, anon, e2elib.RTSPOpts{TLS: true})
		default:
			r.fail("no raw reader for %s", r.l.Proto)
		}
		if c.Outcome == e2elib.OutOK {
			r.clients = append(r.clients, c)
			return c, rr
		}
		c.Close()
	}
	r.fail("raw reader: %s", c.Err)
	return nil, nil
}

func (r *run) openPublisher() *e2elib.Client {
	var c *e2elib.Client
	for try := 0; try < 3; try++ {
		switch r.l.Proto {
		case "rtsp":
			c, _, _ = e2elib.RTSPPublish(r.addr(e2elib.PRTSP), pathName, anon, e2elib.RTSPOpts{})
		case "rtsps":
			c, _, _ = e2elib.RTSPPublish(r.addr(e2elib.PRTSPS), pathName, anon, e2elib.RTSPOpts{TLS: true})
		case "rtmp":
			c = e2elib.RTMPPublish(r.addr(e2elib.PRTMP), pathName, anon, false)
		case "rtmps":
			c = e2elib.RTMPPublish(r.addr(e2elib.PRTMPS), pathName, anon, true)
		case "srt":
			c, _ = e2elib.SRTDial(r.addr(e2elib.PSRT), e2elib.SRTStreamID("custom", true, pathName, anon), true, anon)
		}
		if c.Outcome == e2elib.OutOK {
			r.clients = append(r.clients, c)
			return c
		}
		c.Close()
	}
	r.fail("publisher: %s", c.Err)
	return nil
}

func (r *run) patch(path string, body any) {
	r.wait("PATCH "+path, func() (bool, error) {
		st, buf, err := r.api.Do(http.MethodPatch, path, body)
		if err != nil {
			return false, err
		}
		if st != 200 {
			return false, fmt.Errorf("status %d: %s", st, string(buf))
		}
		return true, nil
	})
}

func (r *run) kick(id string) {
	kind := r.kindOf(id)
	st, buf, err := r.api.Do(http.MethodPost, "/v3/"+kind+"/kick/"+id, nil)
	if err != nil || st != 200 {
		r.fail("kick %s/%s: status %d %s %v", kind, id, st, string(buf), err)
	}
}

func (r *run) serverReloadPatch() map[string]any {
	switch r.l.Proto {
	case "rtsp", "rtsps":
		return map[string]any{"rtspAuthMethods": []any{"basic", "digest"}}
	case "rtmp", "rtmps":
		return map[string]any{"rtmpTrustedProxies": []any{"10.1.2.3/32"}}
	case "srt":
		return map[string]any{"srtAddress": r.addr(e2elib.PMoQ2)}
	case "hls":
		return map[string]any{"hlsSegmentCount": 4}
	default:
		return map[string]any{"webrtcHandshakeTimeout": "11s"}
	}
}

// ending triggers the global endings; it reports whether it was one.
func (r *run) globalEnding() bool {
	switch r.l.Ending {
	case "pathreload":
		// maxReaders is not hot-reloadable: the path is closed and created again
		r.patch("/v3/config/paths/patch/"+pathName, map[string]any{"maxReaders": 5})
		r.step("path configuration changed through the API")
	case "serverreload":
		r.patch("/v3/config/global/patch", r.serverReloadPatch())
		r.step("server parameter changed through the API")
	case "allreload":
		// the path manager and every server are recreated
		r.patch("/v3/config/global/patch", map[string]any{"writeQueueSize": 1024})
		r.step("writeQueueSize changed through the API")
	default:
		return false
	}
	return true
}

func (r *run) readLifecycle() {
	var err error
	r.feeder, _, err = e2elib.StartFeeder(r.addr(e2elib.PRTSP), pathName, anon, 40*time.Millisecond)
	if err != nil {
		r.fail("%v", err)
	}
	r.wait("the path to be ready", func() (bool, error) {
		pi, err := r.api.PathGet(pathName)
		return err == nil && pi != nil && pi.Ready, err
	})
	var subject *e2elib.Client
	var subjectRTSP *gortsplib.Client
	var subjectRaw *e2elib.RawRTSP
	if strings.HasPrefix(r.l.Ending, "playagain") {
		// the client of gortsplib refuses a second Play() while playing: the reader under test writes its requests itself
		subject, subjectRaw = r.openRawReader()
	} else {
		subject, subjectRTSP = r.openReader()
	}
	bystander, _ := r.openReader()
	sat := r.attachOf(subject, "read")
	bat := r.attachOf(bystander, "read")
	sID := "read " + sat.Type + " " + sat.ID
	bID := "read " + bat.Type + " " + bat.ID
	r.res.Subjects = append(r.res.Subjects, sID)
	if _, hasConn := map[string]bool{"rtsp": true, "rtsps": true, "rtmp": true, "rtmps": true, "srt": true}[r.l.Proto]; hasConn {
		r.res.Subjects = append(r.res.Subjects, r.connsOf(subject)...)
	}
	r.step("readers attached")
	// the start command of every object has run to its end before anything is stopped
	r.waitLine(sID+" start", 1)
	r.waitLine(bID+" start", 1)
	r.waitConnStarts()
	r.step("start markers written")

	switch r.l.Ending {
	case "close":
		subject.Close()
		r.step("reader closed")
		r.waitGone("the closed reader to leave", sat.ID)
	case "kick":
		r.kick(sat.ID)
		r.step("reader kicked")
		r.waitGone("the kicked reader to leave", sat.ID)
	case "idle":
		r.step("reader left idle")
		ok, err := e2elib.WaitFor(150*time.Second, func() (bool, error) {
			l, err := r.api.List("hlssessions")
			if err != nil {
				return false, err
			}
			for _, it := range l {
				if it.ID == sat.ID {
					return false, nil
				}
			}
			return true, nil
		})
		if !ok {
			r.fail("the idle HLS session does not expire: %v", err)
		}
	case "pause", "pauseplay":
		if _, err = subjectRTSP.Pause(); err != nil {
			r.fail("PAUSE: %v", err)
		}
		r.waitLine(sID+" stop", 1)
		r.step("paused")
		if r.l.Ending == "pauseplay" {
			if _, err = subjectRTSP.Play(nil); err != nil {
				r.fail("PLAY: %v", err)
			}
			r.waitLine(sID+" start", 2)
			r.res.Pairs[sID] = 2
			r.step("playing again")
		}
		subject.Close()
		r.waitGone("the closed reader to leave", sat.ID)
	case "playagain", "playagain-pause":
		// PLAY of a session that is playing (accepted by the server): the reader goes on playing, it is ONE play
		if err = subjectRaw.Play(); err != nil {
			r.fail("second PLAY: %v", err)
		}
		r.step("PLAY sent again while playing")
		// nothing has to happen, so there is no condition to wait for: a start command spawned by mistake is given the
		// time to write its line (the wait ends at once when it does; the verdict is the pairing, not the time)
		e2elib.WaitFor(playAgainGrace, func() (bool, error) { //nolint:errcheck
			return r.countLines(sID+" start") >= 2, nil
		})
		if r.l.Ending == "playagain-pause" {
			if err = subjectRaw.Pause(); err != nil {
				r.fail("PAUSE: %v", err)
			}
			r.waitLine(sID+" stop", 1)
			r.step("paused")
			e2elib.WaitFor(playAgainGrace, func() (bool, error) { //nolint:errcheck
				return r.countLines(sID+" stop") >= 2, nil
			})
		}
		subject.Close()
		r.step("reader closed")
		r.waitGone("the closed reader to leave", sat.ID)
	case "publeave":
		r.feeder.Stop()
		r.step("publisher left")
		r.waitGone("the readers of a path without publisher to leave", sat.ID, bat.ID)
	case "shutdown":
		r.step("shutting down with everything connected")
		return
	default:
		if !r.globalEnding() {
			r.fail("unknown ending %s", r.l.Ending)
		}
		r.waitGone("the readers to leave after the configuration change", sat.ID, bat.ID)
	}
	r.closeClients()
	r.step("clients closed")
	r.waitQuiet()
}

func (r *run) publishLifecycle() {
	pub := r.openPublisher()
	at := r.attachOf(pub, "publish")
	conns := r.connsOf(pub)
	r.res.Subjects = append(r.res.Subjects, conns...)
	r.step("publisher attached")
	r.waitConnStarts()
	r.step("start markers written")
	var connIDs []string
	for _, c := range conns {
		connIDs = append(connIDs, strings.Fields(c)[2])
	}
	switch r.l.Ending {
	case "close":
		pub.Close()
		r.step("publisher closed")
		r.waitGone("the closed publisher to leave", append(connIDs, at.ID)...)
	case "kick":
		r.kick(at.ID)
		r.step("publisher kicked")
		r.waitGone("the kicked publisher to leave", at.ID)
	case "shutdown":
		r.step("shutting down with everything connected")
		return
	default:
		if !r.globalEnding() {
			r.fail("unknown ending %s", r.l.Ending)
		}
		r.waitGone("the publisher to leave after the configuration change", at.ID)
	}
	r.closeClients()
	r.step("clients closed")
	r.waitQuiet()
}
