// C09: environment overrides are equivalent to file values.
//
// Engine B. A test is (file document B, parameter location, value v). The reference model (conflib.Env /
// conflib.Overlay, written from docs/2-features/05-configuration.md) gives (1) the MTX_ assignments E that set
// the parameter to v and (2) the file document A in which the same value is written. The real conf.Load is run
// on (A, clean environment) and on (B, environment E); the outcomes must be the same (both fail, or equal
// configurations). B ranges over: empty file, file that sets the same parameter to another value (override),
// files that already contain the map entry / list. Every test runs in a worker subprocess with a real process
// environment (os.Setenv), one test at a time.
package main

import (
	"encoding/json"
	"fmt"
	"os"
	"path/filepath"
	"reflect"
	"runtime"
	"sort"
	"strings"
	"time"

	"github.com/bluenviron/mediamtx/internal/conf"
	"github.com/bluenviron/mediamtx/internal/conf/jsonwrapper"
	"github.com/bluenviron/mediamtx/internal/zzverif/conflib"
	"github.com/bluenviron/mediamtx/internal/zzverif/vcommon"
)

type test struct {
	class string        // coverage class
	base  *conflib.Node // file B
	loc   []string      // location of the parameter inside the document (JSON keys)
	typ   reflect.Type  // Go type of the parameter
	val   *conflib.Node
	field string // parameter name for keys / labels
}

func (t test) prefix() string {
	p := "MTX"
	for _, k := range t.loc {
		p += "_" + strings.ToUpper(k)
	}
	return p
}

func (t test) label() string {
	return fmt.Sprintf("%s %s=%s on %s", t.class, strings.Join(t.loc, "."), t.val.Label(), vcommon.Short(t.base.JSON(), 80))
}

func nodeAt(doc *conflib.Node, loc []string) *conflib.Node {
	cur := doc
	for _, k := range loc {
		if cur == nil || cur.K != conflib.Map {
			return nil
		}
		cur = cur.Get(k)
	}
	return cur
}

// expected file document A: base with the parameter overlaid by v.
func (t test) expected() *conflib.Node {
	cur := nodeAt(t.base, t.loc)
	base := t.base
	// a path written as "name:" (null) is a path without parameters
	if len(t.loc) >= 2 && t.loc[0] == "paths" {
		if p := nodeAt(t.base, t.loc[:2]); p != nil && p.K == conflib.Null {
			base = base.WithPath(t.loc[:2], conflib.M())
		}
	}
	return base.WithPath(t.loc, conflib.Overlay(t.typ, t.loc[len(t.loc)-1], cur, t.val))
}

func decodable(t reflect.Type, n *conflib.Node) bool {
	_, err := conflib.DecodeValue(jsonwrapper.Unmarshal, t, n)
	return err == nil
}

// first decodable alphabet value different from v.
func otherValue(f conflib.Field, v *conflib.Node) *conflib.Node {
	for _, o := range conflib.FieldAlphabet(f, false) {
		if o.JSON() != v.JSON() && decodable(f.Type, o) {
			return o
		}
	}
	return nil
}

func genTests(thorough bool) []test {
	var out []test
	limit := func(a []*conflib.Node) []*conflib.Node {
		if !thorough && len(a) > 6 {
			return a[:6]
		}
		return a
	}
	empty := conflib.M()
	// 1. global parameters
	for _, f := range conflib.GlobalFields() {
		for _, v := range limit(conflib.FieldAlphabet(f, thorough)) {
			out = append(out, test{"global", empty, []string{f.Key}, f.Type, v, f.Key})
			if o := otherValue(f, v); o != nil {
				out = append(out, test{"global-override", conflib.M(f.Key, o), []string{f.Key}, f.Type, v, f.Key})
			}
		}
	}
	// 2. path defaults
	for _, f := range conflib.PathFields() {
		for _, v := range limit(conflib.FieldAlphabet(f, thorough)) {
			out = append(out, test{"pathDefaults", empty, []string{"pathDefaults", f.Key}, f.Type, v, f.Key})
			if o := otherValue(f, v); o != nil {
				out = append(out, test{"pathDefaults-override", conflib.M("pathDefaults", conflib.M(f.Key, o)),
					[]string{"pathDefaults", f.Key}, f.Type, v, f.Key})
			}
		}
	}
	// 3. map entries: paths.<name>.<parameter>
	names := []string{"test"}
	if thorough {
		names = []string{"test", "cam1", "a-b/c"}
	}
	for _, name := range names {
		for _, f := range conflib.PathFields() {
			vals := limit(conflib.FieldAlphabet(f, thorough))
			for vi, v := range vals {
				loc := []string{"paths", name, f.Key}
				out = append(out, test{"path-new", empty, loc, f.Type, v, f.Key})
				other := "maxReaders"
				if f.Key == other {
					other = "record"
				}
				var otherV *conflib.Node = conflib.L("3")
				if other == "record" {
					otherV = conflib.L("true")
				}
				out = append(out, test{"path-existing", conflib.M("paths", conflib.M(name, conflib.M(other, otherV))), loc, f.Type, v, f.Key})
				if o := otherValue(f, v); o != nil {
					out = append(out, test{"path-override", conflib.M("paths", conflib.M(name, conflib.M(f.Key, o))), loc, f.Type, v, f.Key})
				}
				if thorough || vi == 0 {
					out = append(out, test{"path-null-in-file", conflib.M("paths", conflib.M(name, conflib.N())), loc, f.Type, v, f.Key})
					out = append(out, test{"path-other-in-file", conflib.M("paths", conflib.M("zz", conflib.N())), loc, f.Type, v, f.Key})
				}
			}
		}
	}
	// 4. list items addressed by position: every list of structures, every member
	type listLoc struct {
		loc []string
		f   conflib.Field
	}
	var lists []listLoc
	for _, f := range conflib.GlobalFields() {
		if isStructList(f.Type) {
			lists = append(lists, listLoc{[]string{f.Key}, f})
		}
	}
	for _, f := range conflib.PathFields() {
		if isStructList(f.Type) {
			lists = append(lists, listLoc{[]string{"pathDefaults", f.Key}, f})
			lists = append(lists, listLoc{[]string{"paths", "test", f.Key}, f})
		}
	}
	for _, ll := range lists {
		et := ll.f.Type
		for et.Kind() == reflect.Pointer {
			et = et.Elem()
		}
		et = et.Elem()
		all := conflib.TypeAlphabet(ll.f.Type, false) // list values; [0]=[], [1]=[seed0], [2]=[seed0,seed1]
		if len(all) < 3 {
			continue
		}
		seed0, seed1 := all[2].Items[0], all[2].Items[1]
		bases := []*conflib.Node{empty, empty.WithPath(ll.loc, conflib.Q(seed0, seed1)), empty.WithPath(ll.loc, conflib.Q())}
		for bi, base := range bases {
			for _, mf := range conflib.Fields(et) {
				for _, mv := range limit(conflib.FieldAlphabet(mf, thorough)) {
					for pos := 0; pos <= 2; pos++ {
						// position pos must be the next free position or an existing one
						have := 0
						if bi == 1 {
							have = 2
						} else if bi == 0 && ll.f.Key == "authInternalUsers" {
							have = 2
						}
						if pos > have {
							continue
						}
						items := make([]*conflib.Node, pos+1)
						for i := range items {
							items[i] = conflib.M() // positions before pos: not addressed
						}
						items[pos] = conflib.M(mf.Key, mv)
						// a list value whose earlier items are empty maps = only position pos is addressed
						out = append(out, test{"list-item", base, ll.loc, ll.f.Type, sparse(items), ll.f.Key + "." + mf.Key})
					}
				}
			}
			// whole lists
			for _, lv := range all {
				out = append(out, test{"list-whole", base, ll.loc, ll.f.Type, lv, ll.f.Key})
			}
		}
	}
	return out
}

// sparse marks a list value in which only some positions are addressed: unaddressed items are empty maps, which
// conflib.Env refuses; so address them by dropping: we encode "only position pos" as a list whose other items are
// nil and handle it in envOf / expected through Overlay (empty map overlay = keep).
func sparse(items []*conflib.Node) *conflib.Node { return &conflib.Node{K: conflib.Seq, Items: items} }

func isStructList(t reflect.Type) bool {
	for t.Kind() == reflect.Pointer {
		t = t.Elem()
	}
	return t.Kind() == reflect.Slice && t.Elem().Kind() == reflect.Struct && t.Elem().Name() != "IPNetwork"
}

// envOf: the assignments of a test. For sparse list values, unaddressed positions produce no assignment.
func envOf(t test) (map[string]string, bool) {
	if t.class == "list-item" && t.val.K == conflib.Seq && isStructList(t.typ) && len(t.val.Items) > 0 {
		et := t.typ
		for et.Kind() == reflect.Pointer {
			et = et.Elem()
		}
		et = et.Elem()
		out := map[string]string{}
		for i, it := range t.val.Items {
			if it.K == conflib.Map && len(it.Keys) == 0 {
				continue
			}
			m, ok := conflib.Env(fmt.Sprintf("%s_%d", t.prefix(), i), et, it)
			if !ok {
				return nil, false
			}
			for k, v := range m {
				out[k] = v
			}
		}
		return out, len(out) > 0
	}
	return conflib.Env(t.prefix(), t.typ, t.val)
}

type outcome struct {
	Err   string `json:"err,omitempty"`
	Panic string `json:"panic,omitempty"`
	FP    string `json:"-"`
}

func (o outcome) class() string {
	switch {
	case o.Panic != "":
		return "panic"
	case o.Err != "":
		return "error"
	}
	return "ok"
}

type result struct {
	Skip    string            `json:"skip,omitempty"`
	A       outcome           `json:"a"`
	B       outcome           `json:"b"`
	Same    bool              `json:"same"`
	Diff    string            `json:"diff,omitempty"`
	Leaf    string            `json:"leaf,omitempty"`
	YAMLA   string            `json:"yamlA,omitempty"`
	YAMLB   string            `json:"yamlB,omitempty"`
	Env     map[string]string `json:"env,omitempty"`
	Dirty   bool              `json:"dirtyDefaults,omitempty"`
	PanicAt string            `json:"panicAt,omitempty"`
}

func load(dir, yaml string, env map[string]string) (*conf.Conf, outcome, string) {
	fp := filepath.Join(dir, "mediamtx.yml")
	if err := os.WriteFile(fp, []byte(yaml), 0o644); err != nil {
		vcommon.Harness("write: %v", err)
	}
	for k, v := range env {
		os.Setenv(k, v)
	}
	defer func() {
		for k := range env {
			os.Unsetenv(k)
		}
	}()
	var c *conf.Conf
	var err error
	p, stack := vcommon.Recover(func() { c, _, err = conf.Load(fp, nil, nil) })
	if p != nil {
		return nil, outcome{Panic: fmt.Sprint(p)}, stack
	}
	if err != nil {
		return nil, outcome{Err: err.Error()}, ""
	}
	return c, outcome{}, ""
}

func confFrame(stack string) string {
	for _, ln := range strings.Split(stack, "\n") {
		if strings.HasPrefix(ln, "github.com/bluenviron/mediamtx/internal/conf") && !strings.Contains(ln, "zzverif") {
			fn := ln
			if i := strings.LastIndex(fn, "("); i > 0 {
				fn = fn[:i]
			}
			return strings.TrimPrefix(fn, "github.com/bluenviron/mediamtx/internal/")
		}
	}
	return "?"
}

func runTest(dir string, t test, snap []conf.AuthInternalUser, restore func([]conf.AuthInternalUser)) result {
	env, ok := envOf(t)
	if !ok {
		return result{Skip: "not expressible as environment variables"}
	}
	res := result{Env: env}
	res.YAMLA = t.expected().YAML()
	res.YAMLB = t.base.YAML()
	ca, oa, _ := load(dir, res.YAMLA, nil)
	cb, ob, stack := load(dir, res.YAMLB, env)
	res.A, res.B = oa, ob
	if ob.Panic != "" {
		res.PanicAt = confFrame(stack)
	}
	// (compare first: a configuration loaded without authInternalUsers in the file shares the package-level
	// default list, which is restored below)
	defer func() {
		if !conf.VerifC09DefaultUsersEqual(snap) {
			restore(snap)
		}
	}()
	res.Dirty = !conf.VerifC09DefaultUsersEqual(snap)
	switch {
	case oa.class() != ob.class():
		res.Same = false
	case oa.class() == "ok":
		if p, leaf := conflib.Diff(reflect.ValueOf(ca), reflect.ValueOf(cb)); p != "" {
			res.Diff, res.Leaf = p, leaf
		} else {
			res.Same = true
		}
	default:
		res.Same = true
	}
	return res
}

func main() {
	worker := conflib.IsWorker()
	var r *vcommon.Run
	thorough := false
	if worker {
		thorough = os.Getenv("C09_THOROUGH") == "1"
	} else {
		r = vcommon.Start("C09", "exploration")
		thorough = r.Thorough()
	}
	tests := genTests(thorough)

	if worker {
		conflib.ClearConfEnv()
		dir, err := os.MkdirTemp(os.Getenv("C09_TMP"), "w")
		if err != nil {
			vcommon.Harness("%v", err)
		}
		defer os.RemoveAll(dir)
		snapshot, restore := conf.VerifC09DefaultUsers()
		// the first Load turns the nil lists inside the shared default user list into empty ones
		// (setAllNilSlicesToEmptyRecursive): snapshot after a warm-up load
		if _, _, err = conf.Load("", nil, nil); err != nil {
			vcommon.Harness("default configuration does not load: %v", err)
		}
		snap := snapshot()
		conflib.WorkerMain(len(tests), func(i int) string {
			res := runTest(dir, tests[i], snap, restore)
			b, _ := json.Marshal(res)
			return string(b)
		})
		return
	}

	r.Rule = "tests = (file document B in {empty, same parameter with another value, map entry / list already in the file, path written as 'name:'}) x" +
		" parameter (every field of conf.Conf, of pathDefaults and of paths.<name>, every member of every list of structures at positions 0..2) x" +
		" conflib.FieldAlphabet value expressible in the environment; distinct = (class, parameter, value, outcome class) of evaluated tests"
	if thorough {
		os.Setenv("C09_THOROUGH", "1")
	}
	tmpRoot, err := os.MkdirTemp("", "c09")
	if err != nil {
		vcommon.Harness("%v", err)
	}
	os.Setenv("C09_TMP", tmpRoot)
	w := runtime.GOMAXPROCS(0)
	if w > 16 {
		w = 16
	}
	skipped, dirty := 0, 0
	classes := map[string]int{}
	outcomes := map[string]int{}
	dirtyParams := map[string]bool{}
	var harnessErr string
	conflib.RunWorkers(len(tests), w, nil, 0, 5*time.Minute,
		func(i int, payload string) {
			t := tests[i]
			var res result
			if err := json.Unmarshal([]byte(payload), &res); err != nil {
				harnessErr = fmt.Sprintf("bad worker payload for %d: %v", i, err)
				return
			}
			if res.Skip != "" {
				skipped++
				return
			}
			r.Eval(2)
			classes[t.class]++
			outcomes[res.A.class()+"/"+res.B.class()]++
			if res.Dirty {
				dirty++
				dirtyParams[strings.Join(t.loc, ".")] = true
			}
			r.Distinct(t.class + "|" + strings.Join(t.loc, ".") + "|" + t.val.JSON() + "|" + res.A.class())
			if i%211 == 0 {
				r.Sample(map[string]any{"test": t.label(), "env": res.Env, "outcome": res.A.class() + "/" + res.B.class()})
			}
			if res.Same {
				return
			}
			rep := map[string]any{"yaml_with_value": res.YAMLA, "yaml_base": res.YAMLB, "env": res.Env, "a": res.A, "b": res.B, "diff": res.Diff}
			switch {
			case res.B.Panic != "":
				r.Violation("panic:"+conflib.Slug(res.B.Panic, 8)+"@"+res.PanicAt,
					fmt.Sprintf("%s: conf.Load panics with the environment %v: %s (the same value in the file: %s)", t.label(), res.Env, res.B.Panic, res.A.class()), rep)
			case res.A.Panic != "":
				r.Violation("panic-file:"+conflib.Slug(res.A.Panic, 8),
					fmt.Sprintf("%s: conf.Load panics on the file: %s", t.label(), res.A.Panic), rep)
			case res.A.class() == "ok" && res.B.class() == "error":
				r.Violation("env-rejected:"+baseParam(t)+":"+conflib.Slug(res.B.Err, 6),
					fmt.Sprintf("%s: accepted in the file, rejected through the environment %v: %s", t.label(), res.Env, res.B.Err), rep)
			case res.A.class() == "error" && res.B.class() == "ok":
				r.Violation("file-rejected-env-accepted:"+baseParam(t),
					fmt.Sprintf("%s: rejected in the file (%s), accepted through the environment %v", t.label(), res.A.Err, res.Env), rep)
			default:
				r.Violation("differs:"+baseParam(t)+":"+conflib.StripIndices(res.Diff),
					fmt.Sprintf("%s: configuration loaded with the environment %v differs from the file at %s", t.label(), res.Env, res.Diff), rep)
			}
		},
		func(i int, info string) {
			if i < 0 {
				harnessErr = info
				return
			}
			r.Violation("crash", fmt.Sprintf("%s: worker died: %s", tests[i].label(), info), map[string]any{"test": tests[i].label()})
		})
	os.RemoveAll(tmpRoot)
	if harnessErr != "" {
		vcommon.Harness("%s", harnessErr)
	}
	r.Set("tests", len(tests))
	r.Set("not_expressible_skipped", skipped)
	r.Set("by_class", classes)
	r.Set("outcome_pairs_file/env", outcomes)
	r.Set("tests_that_modified_package_level_default_users", dirty)
	var dp []string
	for k := range dirtyParams {
		dp = append(dp, k)
	}
	sort.Strings(dp)
	if len(dp) > 0 {
		r.Note("env.Load patched the package-level default user list in place for parameters %v (restored by the harness after each test; harmless in a server process, whose environment never changes)", dp)
	}
	if outcomes["ok/ok"] < 500 {
		vcommon.Harness("vacuous: only %d tests accepted on both sides", outcomes["ok/ok"])
	}
	r.Exhaustive = true
	r.Assumptions = []string{
		"reference model of the environment syntax: harness/conflib/env.go and overlay.go (from docs/2-features/05-configuration.md)",
		"values not expressible as environment variables are outside the space: null, list items containing a comma, a single empty list item, integers outside 32 bits, map keys with upper case or underscore",
		"both loaders failing counts as agreement (error texts are not compared); one failing and the other not is a disagreement",
		"RTSP_ legacy prefix and MTX_CONFKEY are not part of this check",
		"the whole loaded Conf is compared, including OptionalPaths and the effective Paths; nil and empty lists are equal",
	}
	r.Finish()
}

func baseParam(t test) string {
	return strings.Split(t.field, ".")[0]
}
