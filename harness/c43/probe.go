// Representation-independent access to the three things the harness needs from inside a running
// hls.Server and that the package does not export: the TCP listener (port 0 was asked for), the
// http.Handler behind it (to deliver requests with a chosen RemoteAddr: IPv6 peers cannot be had
// over loopback) and the gohlslib muxers (reference bodies, fetched out of band).
//
// No field, method or type NAME of internal/servers/hls or internal/protocols/httpp is mentioned
// here or anywhere else in the harness: the object graph below the *hls.Server is walked with
// reflection and the values are recognised by their (standard library / gohlslib) TYPE. A
// refactoring that renames or retypes private fields (session.ip string -> net.IP, findSession
// split in two, ...) therefore neither breaks the build of the check nor blinds it. Everything else
// is observed through the HTTP surface and the exported API (APISessionsList / APISessionsKick).
package main

import (
	"net"
	"net/http"
	"reflect"
	"strings"
	"unsafe"

	"github.com/bluenviron/gohlslib/v2"
)

type graphFinds struct {
	listeners []net.Listener
	servers   []*http.Server
	hmuxers   []*gohlslib.Muxer
	routes    []string // how each hmuxer was reached (diagnostics only)
}

var (
	tListener   = reflect.TypeOf((*net.Listener)(nil)).Elem()
	tHTTPServer = reflect.TypeOf((*http.Server)(nil))
	tHMuxer     = reflect.TypeOf((*gohlslib.Muxer)(nil))
)

// only structs of the server packages are opened (not streams, path managers, loggers, contexts)
func graphInScope(t reflect.Type) bool {
	p := t.PkgPath()
	return strings.HasSuffix(p, "/internal/servers/hls") || strings.HasSuffix(p, "/internal/protocols/httpp")
}

// clean returns v without the read-only flag reflection puts on values reached through unexported
// fields (v must be addressable).
func clean(v reflect.Value) reflect.Value {
	if v.CanInterface() || !v.CanAddr() {
		return v
	}
	return reflect.NewAt(v.Type(), unsafe.Pointer(v.UnsafeAddr())).Elem()
}

func addressable(v reflect.Value) reflect.Value {
	if v.CanAddr() {
		return v
	}
	c := reflect.New(v.Type()).Elem()
	c.Set(v)
	return c
}

func inspectGraph(root any) *graphFinds {
	g := &graphFinds{}
	seen := map[unsafe.Pointer]bool{}
	var walk func(v reflect.Value, depth int, route string)
	walk = func(v reflect.Value, depth int, route string) {
		if !v.IsValid() || depth > 12 {
			return
		}
		switch v.Kind() {
		case reflect.Interface:
			if v.IsNil() {
				return
			}
			e := v.Elem()
			if e.Type().Implements(tListener) && v.CanInterface() {
				if l, ok := v.Interface().(net.Listener); ok {
					g.listeners = append(g.listeners, l)
					return
				}
			}
			if e.Kind() == reflect.Struct {
				e = addressable(e)
			}
			walk(e, depth+1, route)
		case reflect.Pointer:
			if v.IsNil() {
				return
			}
			p := v.UnsafePointer()
			if seen[p] {
				return
			}
			seen[p] = true
			switch {
			case v.Type() == tHTTPServer:
				g.servers = append(g.servers, (*http.Server)(p))
				return
			case v.Type() == tHMuxer:
				g.hmuxers = append(g.hmuxers, (*gohlslib.Muxer)(p))
				g.routes = append(g.routes, route)
				return
			case v.Type().Implements(tListener) && v.CanInterface():
				g.listeners = append(g.listeners, v.Interface().(net.Listener))
				return
			}
			if v.Type().Elem().Kind() == reflect.Struct && graphInScope(v.Type().Elem()) {
				walk(v.Elem(), depth+1, route)
			}
		case reflect.Struct:
			if !graphInScope(v.Type()) {
				return
			}
			v = addressable(v)
			for i := 0; i < v.NumField(); i++ {
				walk(clean(v.Field(i)), depth+1, route+"."+v.Type().Field(i).Name)
			}
		case reflect.Map:
			if v.IsNil() {
				return
			}
			ek := v.Type().Elem().Kind()
			if ek != reflect.Pointer && ek != reflect.Interface && ek != reflect.Struct {
				return
			}
			it := v.MapRange()
			for it.Next() {
				e := it.Value()
				if e.Kind() == reflect.Struct {
					e = addressable(e)
				}
				r := route + "[?]"
				if it.Key().Kind() == reflect.String {
					r = route + "[" + it.Key().String() + "]"
				}
				walk(e, depth+1, r)
			}
		case reflect.Slice, reflect.Array:
			ek := v.Type().Elem().Kind()
			if ek != reflect.Pointer && ek != reflect.Interface && ek != reflect.Struct {
				return
			}
			if v.Kind() == reflect.Array {
				v = addressable(v)
			}
			for i := 0; i < v.Len(); i++ {
				walk(clean(v.Index(i)), depth+1, route)
			}
		}
	}
	rv := reflect.ValueOf(root)
	if rv.Kind() == reflect.Pointer && !rv.IsNil() {
		seen[rv.UnsafePointer()] = true
		walk(rv.Elem(), 0, "")
	}
	return g
}
