// C43: HLS media is served only to authorized sessions.
//
// Engine X: explicit-state breadth-first search over session histories on a REAL hls.Server
// (fresh server per transition: start, feed a real stream per path, replay the shortest history,
// apply one more operation). In every distinct state the full product of media requests
// (path x file x secret x placement x client IP x Authorization) is sent over real TCP to the real
// server and each response is judged against the statement.
//
// How the statement maps onto the package (internal/servers/hls):
//
//   - a "session" is a *session record in muxer.sessionsBySecret, created by GET <path>/index.m3u8
//     ?cookieCheck=1 after pathManager.AddReader authenticated the client; its "secret" is the UUID
//     handed back either as cookie hlsSession (when the cookieCheck cookie came back) or as query
//     parameter session= inside the playlist URIs;
//
//   - "same IP": session.ip (host part of httpp.RemoteAddr = gin ClientIP) vs ctx.ClientIP(). Which
//     address "the IP of a request" is depends on the configuration, so it is a dimension of Init:
//
//   - proxy world (Server.TrustedProxies = 127.0.0.1/32): the harness plays the trusted proxy and
//     chooses the client IP with X-Forwarded-For (the right-most entry is what the proxy itself
//     appended, i.e. the real peer);
//
//   - direct world (Server.TrustedProxies empty, THE DEFAULT): nobody is trusted, the IP of a
//     request is the source address of its TCP connection. The harness binds its client sockets to
//     distinct loopback source addresses (127.0.0.1, 127.0.0.2: every 127/8 address is local on
//     Linux) and crosses every request with client-supplied forwarding headers that name the
//     OTHER address (X-Forwarded-For, X-Real-Ip, both, chains, Forwarded, platform headers): they
//     must never change whose request it is, neither when a session is created nor when its
//     secret is presented;
//
//   - "CDN secret": Authorization: Bearer <Server.CDNSecret> (only when CDNSecret is configured);
//
//   - "media playlists and segments": every file the gohlslib muxer of the path serves except the
//     multivariant playlist index.m3u8 (that request creates sessions): media playlist, init,
//     segment, part.
//
//   - handler world (TrustedProxies empty, requests handed to the server's own http.Handler with a
//     chosen RemoteAddr): the only way to have IPv6 peers (2001:db8::1 ... do not exist on loopback).
//     It carries the WIDE client-address alphabet {IPv4 a, IPv4 b, IPv6 a, IPv6 b, IPv4-mapped IPv6
//     of a, link-local IPv6 without zone}; the proxy world carries the same alphabet over real TCP
//     (X-Forwarded-For set by the trusted proxy). Every ordered pair session owner x requester is
//     judged. Two spellings of one address (10.0.0.1 and ::ffff:10.0.0.1) are a don't-care: the
//     statement says "same IP", serving and refusing are both accepted;
//
//   - sessions can only be created by GET <path>/index.m3u8 (with ?cookieCheck=1 directly, or without
//     it through the 302 the server answers). Besides credentials a creating request may PRESENT the
//     secret of somebody else's session (query session= or cookie hlsSession): that must not buy
//     anything. Whatever secret such a request is handed becomes a session of the REQUESTER in the
//     reference model (authorized only if the requester's own credentials are) and is then used for
//     media by the request product.
//
// Nothing private of the packages is named: the listener, the http.Handler and the gohlslib muxers
// are found by type (probe.go), session records are read through the exported API.
//
// Oracle (the "only" direction, exactly the statement): a response that carries media of path P
// (status 200 and a body that is byte-identical to a file of P's muxer, or a playlist naming P's
// random file prefix; reference bodies are fetched out of band straight from the gohlslib muxer)
// is allowed only if the request carries, in cookie or query, the secret of a live session that the
// reference model says was created for P by an authorized client with the request's client IP, or
// the configured CDN secret. Refusals are never violations.
package main

import (
	"bytes"
	"flag"
	"fmt"
	"io"
	"net"
	"net/http"
	"net/http/httptest"
	"net/url"
	"os"
	"regexp"
	"sort"
	"strings"
	"sync"
	"time"

	"github.com/bluenviron/gohlslib/v2"
	"github.com/bluenviron/gortsplib/v5/pkg/description"
	"github.com/bluenviron/gortsplib/v5/pkg/format"
	"github.com/gin-gonic/gin"
	"github.com/google/uuid"

	"github.com/bluenviron/mediamtx/internal/auth"
	"github.com/bluenviron/mediamtx/internal/conf"
	"github.com/bluenviron/mediamtx/internal/defs"
	"github.com/bluenviron/mediamtx/internal/externalcmd"
	"github.com/bluenviron/mediamtx/internal/logger"
	"github.com/bluenviron/mediamtx/internal/servers/hls"
	"github.com/bluenviron/mediamtx/internal/stream"
	"github.com/bluenviron/mediamtx/internal/unit"
	"github.com/bluenviron/mediamtx/internal/zzverif/vcommon"
)

// ---------------------------------------------------------------------------------------------
// fixed world: paths, users, IPs

const cdnSecret = "myCDNsecret"

var pathNames = []string{"a", "b"}

// client IPs per world (index = op.Px): proxy world (chosen with X-Forwarded-For through the trusted
// proxy 127.0.0.1), direct world (TCP source addresses of the client sockets)
var worldIPs = [3][]string{{"10.0.0.1", "10.0.0.2"}, {"127.0.0.1", "127.0.0.2"}, {"10.0.0.1", "10.0.0.2"}}

// the wide client-address alphabet (proxy world and handler world): owner x requester, all pairs
var (
	wideIPs   = []string{"10.0.0.1", "10.0.0.2", "2001:db8::1", "2001:db8::2", "::ffff:10.0.0.1", "fe80::1"}
	wideKinds = []string{"v4a", "v4b", "v6a", "v6b", "v4a-mapped-v6", "v6-link-local"}
)

const (
	pxProxy   = 0 // TrustedProxies = 127.0.0.1/32
	pxDirect  = 1 // TrustedProxies empty (default configuration), real TCP source addresses
	pxHandler = 2 // TrustedProxies empty, requests handed to the http.Handler with a chosen RemoteAddr
)

func ipsOf(px int, wide bool) []string {
	if wide {
		return wideIPs
	}
	return worldIPs[px]
}

// ipEqual: the same address, whatever its spelling (10.0.0.1 == ::ffff:10.0.0.1).
func ipEqual(a, b string) bool {
	if a == b {
		return true
	}
	pa, pb := net.ParseIP(a), net.ParseIP(b)
	return pa != nil && pb != nil && pa.Equal(pb)
}

func kindOf(ip string) string {
	for i, w := range wideIPs {
		if w == ip {
			return wideKinds[i]
		}
	}
	return ip
}

type cred struct {
	name, user, pass string
}

var creds = []cred{
	{"alice", "alice", "apass"},     // may read every path from anywhere
	{"bob", "bob", "bpass"},         // may read path b only
	{"carol", "carol", "cpass"},     // may read path a, only from the first IP of the world
	{"badpass", "alice", "wrong"},   // wrong password
	{"nocreds", "", ""},             // no credentials at all
	{"unknown", "mallory", "apass"}, // unknown user
	// not part of the -creds prefix: only used by Create requests that present a foreign secret
	{"bearer-wrong", "", "Bearer wrongsecret"}, // an Authorization header that is not the CDN secret
}

// modelAuthorized is the reference decision, written from the user table above.
func modelAuthorized(c cred, path string, ip string, carolIP string) bool {
	switch {
	case c.user == "alice" && c.pass == "apass":
		return true
	case c.user == "bob" && c.pass == "bpass":
		return path == "b"
	case c.user == "carol" && c.pass == "cpass":
		return path == "a" && ip == carolIP
	}
	return false
}

func ipnet(s string) conf.IPNetwork {
	_, n, err := net.ParseCIDR(s)
	if err != nil {
		panic(err)
	}
	return conf.IPNetwork{IP: n.IP.To4(), Mask: n.Mask}
}

func newAuthManager(carolIP string) *auth.Manager {
	rd := func(p string) []conf.AuthInternalUserPermission {
		return []conf.AuthInternalUserPermission{{Action: conf.AuthActionRead, Path: p}}
	}
	return &auth.Manager{
		Method: conf.AuthMethodInternal,
		InternalUsers: []conf.AuthInternalUser{
			{User: "alice", Pass: "apass", Permissions: rd("")},
			{User: "bob", Pass: "bpass", Permissions: rd("b")},
			{User: "carol", Pass: "cpass", IPs: conf.IPNetworks{ipnet(carolIP + "/32")}, Permissions: rd("a")},
			// a publisher account that must not grant reading
			{User: "pub", Pass: "ppass", Permissions: []conf.AuthInternalUserPermission{{Action: conf.AuthActionPublish}}},
		},
		ReadTimeout: 5 * time.Second,
	}
}

// ---------------------------------------------------------------------------------------------
// path manager stub (authenticates with the real auth.Manager)

type nilLogger struct{}

var debugLog = os.Getenv("VERIF_DEBUG") != ""

func (nilLogger) Log(l logger.Level, f string, a ...any) {
	if debugLog {
		fmt.Fprintf(os.Stderr, "[log %d] "+f+"\n", append([]any{l}, a...)...)
	}
}

type pathStub struct {
	name string
	strm *stream.Stream
	sub  *stream.SubStream
	desc *description.Session
}

func (p *pathStub) Name() string                                { return p.name }
func (p *pathStub) SafeConf() *conf.Path                        { return &conf.Path{} }
func (p *pathStub) ExternalCmdEnv() externalcmd.Environment     { return nil }
func (p *pathStub) RemovePublisher(defs.PathRemovePublisherReq) {}
func (p *pathStub) RemoveReader(defs.PathRemoveReaderReq)       {}

type pmStub struct {
	paths map[string]*pathStub
	auth  *auth.Manager
}

func (pm *pmStub) SetHLSServer(s *hls.Server) []defs.Path {
	if s == nil {
		return nil
	}
	var out []defs.Path
	for _, n := range pathNames {
		out = append(out, pm.paths[n])
	}
	return out
}

func (pm *pmStub) FindPathConf(req defs.PathFindPathConfReq) (*defs.PathFindPathConfRes, error) {
	if _, ok := pm.paths[req.AccessRequest.Name]; !ok {
		return nil, fmt.Errorf("path '%s' is not configured", req.AccessRequest.Name)
	}
	user, aerr := pm.auth.Authenticate(req.AccessRequest.ToAuthRequest())
	if aerr != nil {
		return nil, aerr
	}
	return &defs.PathFindPathConfRes{Conf: &conf.Path{}, User: user}, nil
}

func (pm *pmStub) AddReader(req defs.PathAddReaderReq) (*defs.PathAddReaderRes, error) {
	p, ok := pm.paths[req.AccessRequest.Name]
	if !ok {
		return nil, fmt.Errorf("path '%s' is not configured", req.AccessRequest.Name)
	}
	user := ""
	if !req.AccessRequest.SkipAuth {
		var aerr *auth.Error
		user, aerr = pm.auth.Authenticate(req.AccessRequest.ToAuthRequest())
		if aerr != nil {
			return nil, aerr
		}
	}
	return &defs.PathAddReaderRes{Path: p, Stream: p.strm, User: user}, nil
}

var spsList = [][]byte{
	{0x67, 0x42, 0xc0, 0x28, 0xd9, 0x00, 0x78, 0x02, 0x27, 0xe5, 0x84, 0x00, 0x00, 0x03, 0x00, 0x04, 0x00, 0x00, 0x03, 0x00, 0xf0, 0x3c, 0x60, 0xc9, 0x20},
	{0x67, 0x64, 0x00, 0x1f, 0xac, 0xd9, 0x40, 0x50, 0x05, 0xbb, 0x01, 0x6c, 0x80, 0x00, 0x00, 0x03, 0x00, 0x80, 0x00, 0x00, 0x1e, 0x07, 0x8c, 0x18, 0xcb},
}

// init files differ per path through the PPS
func ppsOf(i int) []byte { return []byte{0x08, 0x06, 0x07, byte(0x08 + i)} }

func newPath(i int, name string) *pathStub {
	forma := &format.H264{PayloadTyp: 96, PacketizationMode: 1, SPS: spsList[0], PPS: ppsOf(i)}
	media := &description.Media{Type: description.MediaTypeVideo, Formats: []format.Format{forma}}
	p := &pathStub{name: name, desc: &description.Session{Medias: []*description.Media{media}}}
	p.strm = &stream.Stream{
		OrigDesc:          p.desc,
		WriteQueueSize:    512,
		RTPMaxPayloadSize: 1450,
		Parent:            nilLogger{},
	}
	if err := p.strm.Initialize(); err != nil {
		vcommon.Harness("stream: %v", err)
	}
	p.sub = &stream.SubStream{Stream: p.strm, UseRTPPackets: false}
	if err := p.sub.Initialize(); err != nil {
		vcommon.Harness("substream: %v", err)
	}
	return p
}

const nFrames = 5

func (p *pathStub) feed(i int) {
	media := p.desc.Medias[0]
	forma := media.Formats[0]
	for k := 0; k < nFrames; k++ {
		p.sub.WriteUnit(media, forma, &unit.Unit{
			NTP:     time.Time{},
			PTS:     int64(k) * 90000,
			Payload: unit.PayloadH264{{5, byte(0x10 + i), byte(k), 0xaa, 0xbb}}, // IDR, distinct per path and frame
		})
	}
}

// ---------------------------------------------------------------------------------------------
// operations

const (
	opInit = iota
	opCreate
	opCDN
	opKick
)

type op struct {
	Kind int
	Cfg  int // opInit: 0 = CDN secret configured, 1 = not configured
	Px   int // world (set by Init, copied into every later operation): pxProxy | pxDirect
	Path int
	IP   int
	Cred int
	Mode int // opCreate: 0 = secret via query parameter, 1 = via cookie; opCDN: 0 = Bearer <the CDN secret>, 1 = "Bearer " (empty)
	K    int // opKick: index into the sessions created so far
	// opCreate: client-supplied forwarding header that names the OTHER IP of the world
	// (0 = none, 1 = X-Forwarded-For, 2 = X-Real-Ip). Proxy world: the proxy appends the real peer
	// to the client's X-Forwarded-For ("other, real") and passes X-Real-Ip through.
	Forge int
	// opInit: the wide client-address alphabet (IPv4, IPv6, IPv4-mapped, link-local) instead of two addresses
	Wide bool
	// opCreate: the request also PRESENTS the secret of session PK (somebody else's, live or kicked):
	// 0 = no, 1 = in the query (session=), 2 = in the cookie (hlsSession)
	Present int
	PK      int
	// opCreate: 0 = GET index.m3u8?cookieCheck=1, 1 = GET index.m3u8 and follow the 302
	Entry int
}

var presentNames = []string{"", "query", "cookie"}

var forgeNames = []string{"", ",forged-xff", ",forged-x-real-ip"}

func (o op) String() string {
	switch o.Kind {
	case opInit:
		s := []string{"Init(cdn=on", "Init(cdn=off"}[o.Cfg]
		switch o.Px {
		case pxDirect:
			s += ",no-trusted-proxies"
		case pxHandler:
			s += ",no-trusted-proxies,requests-through-the-http-handler"
		}
		if o.Wide {
			s += ",wide-address-alphabet"
		}
		return s + ")"
	case opCreate:
		extra := ""
		if o.Present != 0 {
			extra += fmt.Sprintf(",presents-secret-of-#%d-in-%s", o.PK, presentNames[o.Present])
		}
		if o.Entry == 1 {
			extra += ",via-302-without-cookieCheck"
		}
		return fmt.Sprintf("Create(%s,%s,%s,%s%s%s)", pathNames[o.Path], ipsOf(o.Px, o.Wide)[o.IP], creds[o.Cred].name, []string{"query", "cookie"}[o.Mode], forgeNames[o.Forge], extra)
	case opCDN:
		return fmt.Sprintf("CDNIndex(%s,%s)", pathNames[o.Path], []string{"bearer-cdn", "bearer-empty"}[o.Mode])
	default:
		return fmt.Sprintf("Kick(#%d)", o.K)
	}
}

func histString(h []op) []string {
	out := make([]string, len(h))
	for i, o := range h {
		out[i] = o.String()
	}
	return out
}

// ---------------------------------------------------------------------------------------------
// world = one real server + the reference model

type refFiles struct {
	prefix   string
	playlist string            // media playlist name
	files    map[string]string // kind -> name (init, seg, part)
	bodies   map[string][]byte // name -> body
}

type msession struct {
	path       string
	ip         string
	secret     string
	id         uuid.UUID // of the server's record (exported API), uuid.Nil if it could not be told
	authorized bool      // per the reference model
	// the statement leaves it open: the session was handed to a client without valid credentials of
	// its own that presented, from the SAME address and for the SAME path, the secret of a live
	// session of an authorized client (it was entitled to that media anyway)
	dontcare bool
	live     bool
	how      string
	forge    int    // the creating request carried a forged forwarding header (op.Forge)
	via      string // "" or how a foreign secret was presented by the creating request
}

type world struct {
	cfg      int
	px       int
	wide     bool
	ips      []string
	srv      *hls.Server
	base     string
	handler  http.Handler               // the server's own handler (handler world)
	hmux     map[string]*gohlslib.Muxer // by path: reference bodies only
	clients  map[string]*http.Client    // by TCP source address ("" = unbound, i.e. 127.0.0.1)
	trs      []*http.Transport
	pm       *pmStub
	ref      map[string]*refFiles
	sessions []*msession
	cdnIndex map[string]bool
	anomaly  []string
	broken   bool // secrets handed out and session records do not correspond one to one
}

func newWorld(cfg, px int, wide bool) *world {
	w := &world{cfg: cfg, px: px, wide: wide, ips: ipsOf(px, wide), ref: map[string]*refFiles{}, cdnIndex: map[string]bool{},
		clients: map[string]*http.Client{}, hmux: map[string]*gohlslib.Muxer{}}
	w.pm = &pmStub{paths: map[string]*pathStub{}, auth: newAuthManager(w.ips[0])}
	for i, n := range pathNames {
		w.pm.paths[n] = newPath(i, n)
	}
	secret := cdnSecret
	if cfg == 1 {
		secret = ""
	}
	trusted := conf.IPNetworks{ipnet("127.0.0.1/32")}
	if px != pxProxy {
		trusted = nil // the default: no trusted proxies
	}
	w.srv = &hls.Server{
		Address:         "127.0.0.1:0",
		AlwaysRemux:     true,
		Variant:         conf.HLSVariant(gohlslib.MuxerVariantLowLatency),
		SegmentCount:    7,
		SegmentDuration: conf.Duration(1 * time.Second),
		PartDuration:    conf.Duration(200 * time.Millisecond),
		SegmentMaxSize:  50 * 1024 * 1024,
		TrustedProxies:  trusted,
		CDNSecret:       secret,
		ReadTimeout:     conf.Duration(20 * time.Second),
		WriteTimeout:    conf.Duration(20 * time.Second),
		MuxerCloseAfter: conf.Duration(60 * time.Second),
		PathManager:     w.pm,
		Parent:          nilLogger{},
	}
	if err := w.srv.Initialize(); err != nil {
		vcommon.Harness("hls server: %v", err)
	}
	srcs := []string{""}
	switch px {
	case pxDirect:
		srcs = w.ips
	case pxHandler:
		srcs = nil
	}
	for _, src := range srcs {
		tr := &http.Transport{MaxIdleConns: 8, MaxIdleConnsPerHost: 8}
		if src != "" {
			// the client IP of the direct world: the source address the socket is bound to
			d := &net.Dialer{LocalAddr: &net.TCPAddr{IP: net.ParseIP(src)}, Timeout: 20 * time.Second}
			tr.DialContext = d.DialContext
		}
		w.trs = append(w.trs, tr)
		w.clients[src] = &http.Client{
			Transport: tr,
			Timeout:   30 * time.Second,
			CheckRedirect: func(*http.Request, []*http.Request) error {
				return http.ErrUseLastResponse
			},
		}
	}
	// feed both streams once the always-remux muxers have attached, then wait (blocking LL-HLS
	// playlist request straight at the gohlslib muxer: an event, not a sleep) until the last complete
	// segment exists; after that nothing changes any more
	for i, n := range pathNames {
		p := w.pm.paths[n]
		p.strm.WaitForReaders()
		p.feed(i)
	}
	// listener, handler and gohlslib muxers, found by type. The muxer instance is published by the
	// muxer's goroutine right after it attached its reader: wait for it (bounded).
	var g *graphFinds
	for try := 0; ; try++ {
		g = inspectGraph(w.srv)
		if len(g.hmuxers) == len(pathNames) {
			break
		}
		if try > 5000 {
			vcommon.Harness("found %d gohlslib muxers below the hls.Server (routes %v), expected %d: the harness cannot fetch its reference bodies", len(g.hmuxers), g.routes, len(pathNames))
		}
		time.Sleep(time.Millisecond)
	}
	if len(g.listeners) != 1 || len(g.servers) != 1 || g.servers[0].Handler == nil {
		vcommon.Harness("found %d net.Listener and %d *http.Server below the hls.Server, expected one of each", len(g.listeners), len(g.servers))
	}
	w.base = "http://" + g.listeners[0].Addr().String()
	w.handler = g.servers[0].Handler
	// which muxer serves which path is told by content: the PPS of the path's stream is in its init file
	for _, hm := range g.hmuxers {
		rf := w.discover(hm)
		owner := ""
		for i, n := range pathNames {
			if bytes.Contains(rf.bodies[rf.files["init"]], ppsOf(i)) {
				if owner != "" {
					vcommon.Harness("init file matches two paths")
				}
				owner = n
			}
		}
		if owner == "" || w.ref[owner] != nil {
			vcommon.Harness("cannot attribute a gohlslib muxer to a path (owner %q)", owner)
		}
		w.ref[owner] = rf
		w.hmux[owner] = hm
	}
	return w
}

func (w *world) direct(hm *gohlslib.Muxer, file, query string) (int, []byte) {
	rec := httptest.NewRecorder()
	u := "/" + file
	if query != "" {
		u += "?" + query
	}
	req := httptest.NewRequest(http.MethodGet, u, nil)
	done := make(chan struct{}, 1)
	go func() { hm.Handle(rec, req); done <- struct{}{} }()
	select {
	case <-done:
	case <-time.After(30 * time.Second):
		vcommon.Harness("direct fetch %s did not return within 30 s", file)
	}
	return rec.Code, rec.Body.Bytes()
}

var (
	reMap  = regexp.MustCompile(`#EXT-X-MAP:URI="([^"?]+)`)
	rePart = regexp.MustCompile(`#EXT-X-PART:[^\n]*URI="([^"?]+)`)
	reSeg  = regexp.MustCompile(`(?m)^([^#\n][^\n?]*\.mp4)`)
)

func (w *world) discover(hm *gohlslib.Muxer) *refFiles {
	rf := &refFiles{files: map[string]string{}, bodies: map[string][]byte{}, playlist: "video1_stream.m3u8"}
	// initial gap of 7 segments: the first real segment has sequence number 7
	last := 7 + nFrames - 2
	// a blocking request may only run one segment ahead of the muxer (else 400): walk up to the last
	var code int
	var body []byte
	for msn := 8; msn <= last; msn++ {
		code, body = w.direct(hm, rf.playlist, fmt.Sprintf("_HLS_msn=%d&_HLS_part=0", msn))
		if code != 200 {
			vcommon.Harness("direct media playlist (msn %d): status %d", msn, code)
		}
	}
	m := reMap.FindSubmatch(body)
	var segs [][][]byte
	for _, sm := range reSeg.FindAllSubmatch(body, -1) {
		if string(sm[1]) != "gap.mp4" {
			segs = append(segs, sm)
		}
	}
	parts := rePart.FindAllSubmatch(body, -1)
	if m == nil || len(segs) < 2 || len(parts) < 1 {
		vcommon.Harness("cannot parse media playlist:\n%s", body)
	}
	rf.files["init"] = string(m[1])
	rf.files["seg"] = string(segs[1][1])
	rf.files["part"] = string(parts[0][1])
	i := strings.Index(rf.files["init"], "_")
	if i <= 0 {
		vcommon.Harness("unexpected init file name %q", rf.files["init"])
	}
	rf.prefix = rf.files["init"][:i]
	for _, k := range []string{"init", "seg", "part"} {
		c, b := w.direct(hm, rf.files[k], "")
		if c != 200 || len(b) == 0 {
			vcommon.Harness("direct fetch of %s: status %d len %d", rf.files[k], c, len(b))
		}
		rf.bodies[rf.files[k]] = b
	}
	return rf
}

func (w *world) closeIdle() {
	for _, tr := range w.trs {
		tr.CloseIdleConnections()
	}
}

func (w *world) close() {
	w.closeIdle()
	w.srv.Close()
	for _, p := range w.pm.paths {
		p.strm.Close()
	}
}

type hreq struct {
	urlPath string // raw path after the base
	query   string
	cookie  string
	xff     string
	authz   string
	src     string      // direct world: TCP source address of the connection; handler world: host of RemoteAddr
	hdrs    [][2]string // further client-supplied headers (forwarding headers)
}

func (w *world) do(r hreq) (int, http.Header, []byte) {
	u := r.urlPath
	if r.query != "" {
		u += "?" + r.query
	}
	var req *http.Request
	if w.px == pxHandler {
		req = httptest.NewRequest(http.MethodGet, u, nil)
		// the peer address as net/http reports it; the port differs per address like real clients' do
		port := 5000
		for i, ip := range w.ips {
			if ip == r.src {
				port += i
			}
		}
		req.RemoteAddr = net.JoinHostPort(r.src, fmt.Sprint(port))
	} else {
		var err error
		req, err = http.NewRequest(http.MethodGet, w.base+u, nil)
		if err != nil {
			vcommon.Harness("request %q: %v", u, err)
		}
	}
	if r.cookie != "" {
		req.Header.Set("Cookie", r.cookie)
	}
	if r.xff != "" {
		req.Header.Set("X-Forwarded-For", r.xff)
	}
	if r.authz != "" {
		req.Header.Set("Authorization", r.authz)
	}
	for _, h := range r.hdrs {
		req.Header.Set(h[0], h[1])
	}
	if w.px == pxHandler {
		rec := httptest.NewRecorder()
		w.handler.ServeHTTP(rec, req)
		return rec.Code, rec.Header(), rec.Body.Bytes()
	}
	cl := w.clients[r.src]
	if cl == nil {
		vcommon.Harness("no client bound to source address %q in this world", r.src)
	}
	res, err := cl.Do(req)
	if err != nil {
		vcommon.Harness("request %+v: %v", r, err)
	}
	defer res.Body.Close()
	body, err := io.ReadAll(res.Body)
	if err != nil {
		vcommon.Harness("request %+v: body: %v", r, err)
	}
	return res.StatusCode, res.Header, body
}

func basic(c cred) string {
	if c.user == "" && c.pass == "" {
		return ""
	}
	if c.user == "" && strings.HasPrefix(c.pass, "Bearer ") {
		return c.pass
	}
	r, _ := http.NewRequest(http.MethodGet, "http://x/", nil)
	r.SetBasicAuth(c.user, c.pass)
	return r.Header.Get("Authorization")
}

var reSessionQuery = regexp.MustCompile(`[?&]session=([0-9a-fA-F-]{36})`)

// handedSecrets lists every session secret a response carries (cookie hlsSession, session= in the
// playlist URIs or in a Location header).
func handedSecrets(hdr http.Header, body []byte) []string {
	var out []string
	for _, ck := range (&http.Response{Header: hdr}).Cookies() {
		if ck.Name == "hlsSession" {
			out = append(out, strings.ToLower(ck.Value))
		}
	}
	for _, m := range reSessionQuery.FindAllSubmatch(body, -1) {
		out = append(out, strings.ToLower(string(m[1])))
	}
	for _, m := range reSessionQuery.FindAllStringSubmatch(hdr.Get("Location"), -1) {
		out = append(out, strings.ToLower(m[1]))
	}
	return out
}

// records lists the session records of the real server (exported API).
func (w *world) records() []defs.APIHLSSession {
	l, err := w.srv.APISessionsList()
	if err != nil {
		vcommon.Harness("APISessionsList: %v", err)
	}
	return l.Items
}

func recordIP(rs defs.APIHLSSession) string {
	h, _, err := net.SplitHostPort(rs.RemoteAddr)
	if err != nil {
		return rs.RemoteAddr
	}
	return h
}

// setSender fills in who sends a creating request: client address index ipx, forged header form.
func (w *world) setSender(r *hreq, ipx, forge int) {
	ip := w.ips[ipx]
	other := w.ips[(ipx+1)%len(w.ips)]
	if !w.wide {
		other = w.ips[1-ipx]
	}
	if w.px == pxProxy {
		r.xff = ip // what the trusted proxy reports
		switch forge {
		case 1:
			r.xff = other + ", " + ip // the client sent X-Forwarded-For: other, the proxy appended the peer
		case 2:
			r.hdrs = [][2]string{{"X-Real-Ip", other}}
		}
	} else {
		r.src = ip // the address the client really connects from
		switch forge {
		case 1:
			r.xff = other
		case 2:
			r.hdrs = [][2]string{{"X-Real-Ip", other}}
		}
	}
}

// apply executes one operation; it returns the number of sessions the model gained.
func (w *world) apply(o op) int {
	switch o.Kind {
	case opCreate:
		c := creds[o.Cred]
		path, ip := pathNames[o.Path], w.ips[o.IP]
		before := map[uuid.UUID]bool{}
		for _, rs := range w.records() {
			before[rs.ID] = true
		}
		known := map[string]bool{}
		for _, s := range w.sessions {
			known[s.secret] = true
		}
		r := hreq{urlPath: "/" + path + "/index.m3u8", authz: basic(c)}
		w.setSender(&r, o.IP, o.Forge)
		var q, cookies []string
		if o.Entry == 0 {
			q = append(q, "cookieCheck=1")
		}
		if o.Mode == 1 {
			cookies = append(cookies, "cookieCheck=1") // a client that stores and returns the cookieCheck cookie
		}
		var foreign *msession
		switch o.Present {
		case 1:
			foreign = w.sessions[o.PK]
			q = append(q, "session="+foreign.secret)
		case 2:
			foreign = w.sessions[o.PK]
			cookies = append(cookies, "hlsSession="+foreign.secret)
		}
		r.query, r.cookie = strings.Join(q, "&"), strings.Join(cookies, "; ")
		code, hdr, body := w.do(r)
		handed := handedSecrets(hdr, body)
		if o.Entry == 1 && code >= 300 && code < 400 && hdr.Get("Location") != "" {
			// follow the redirect like a browser: same peer, same credentials, same cookies
			if lu, err := url.Parse(hdr.Get("Location")); err == nil {
				r2 := r
				r2.urlPath, r2.query = lu.EscapedPath(), lu.RawQuery
				code, hdr, body = w.do(r2)
				handed = append(handed, handedSecrets(hdr, body)...)
			}
		}
		// secrets the requester did not have before (a presented secret may be echoed in the URIs)
		var fresh []string
		for _, s := range handed {
			if !known[s] {
				known[s] = true
				fresh = append(fresh, s)
			}
		}
		var newIDs []uuid.UUID
		for _, rs := range w.records() {
			if !before[rs.ID] && !rs.IsCDN {
				newIDs = append(newIDs, rs.ID)
			}
		}
		auth := modelAuthorized(c, path, ip, w.ips[0])
		dontcare := !auth && foreign != nil && foreign.live && foreign.authorized && foreign.path == path && ipEqual(foreign.ip, ip)
		via := ""
		if foreign != nil {
			via = "foreign-secret-in-" + presentNames[o.Present]
		}
		if len(fresh) != len(newIDs) || len(fresh) > 1 {
			w.broken = true
			w.anomaly = append(w.anomaly, fmt.Sprintf("%s: %d new secrets handed out but %d new session records (status %d)", o, len(fresh), len(newIDs), code))
		}
		for i, s := range fresh {
			ms := &msession{path: path, ip: ip, secret: s, authorized: auth, dontcare: dontcare, live: true, how: o.String(), forge: o.Forge, via: via}
			if i < len(newIDs) && len(fresh) == len(newIDs) {
				ms.id = newIDs[i]
			}
			w.sessions = append(w.sessions, ms)
		}
		if len(fresh) == 0 && auth {
			w.anomaly = append(w.anomaly, fmt.Sprintf("%s: authorized by the model but no session secret was handed out (status %d)", o, code))
		}
		return len(fresh)
	case opCDN:
		path := pathNames[o.Path]
		hdr := "Bearer " + cdnSecret
		if o.Mode == 1 {
			hdr = "Bearer "
		}
		cr := hreq{urlPath: "/" + path + "/index.m3u8", authz: hdr}
		if w.px == pxProxy {
			cr.xff = w.ips[0]
		} else {
			cr.src = w.ips[0]
		}
		code, _, _ := w.do(cr)
		if code == 200 && w.cfg == 0 && o.Mode == 0 {
			w.cdnIndex[path] = true
		}
	case opKick:
		s := w.sessions[o.K]
		if s.id != uuid.Nil {
			if err := w.srv.APISessionsKick(s.id); err != nil {
				vcommon.Harness("kick: %v", err)
			}
		}
		s.live = false
	}
	return 0
}

// deviates reports whether the session records of the real server differ from the model's live
// sessions (used only to decide about a safe teardown, never as an oracle).
func (w *world) deviates() bool {
	if w.broken {
		return true
	}
	real := map[uuid.UUID]bool{}
	for _, rs := range w.records() {
		if !rs.IsCDN {
			real[rs.ID] = true
		}
	}
	n := 0
	for _, s := range w.sessions {
		if s.live {
			n++
			if !real[s.id] {
				return true
			}
		}
	}
	return n != len(real)
}

// key is the canonical state key: configuration, the session records the real server holds
// (path, ip, CDN flag; sorted) and the secrets the clients still remember of sessions that are gone
// (they widen the request alphabet). Two states with the same key answer every request of the
// product identically because onRequest/findSession read only cdnSecret, the muxer map (fixed),
// sessionsBySecret (secret -> ip) and cdnSession != nil; which user created a session, its age and
// byte counters are never consulted. The records come from the exported API (ip = host part of the
// record's remote address).
func (w *world) key() string {
	var live, gone []string
	recs := w.records()
	for _, rs := range recs {
		tag := "S"
		if rs.IsCDN {
			tag = "CDN"
		}
		ip := recordIP(rs)
		if rs.IsCDN {
			ip = "-"
		}
		known := "?"
		for _, s := range w.sessions {
			if s.id == rs.ID {
				known = fmt.Sprintf("auth=%v", s.authorized)
				if s.dontcare {
					known = "auth=open"
				}
				if s.via != "" && !s.authorized {
					// (a session an authorized client obtained while also presenting a foreign secret is an
					// ordinary session: same state as without the foreign secret)
					known += "/" + s.via
				}
				if s.ip != ip {
					// the record's IP is not the IP the client really had: a different state for
					// the reference model (on a correct tree only as another spelling of the same
					// address: ::ffff:10.0.0.1 recorded as 10.0.0.1)
					known += "/really-from-" + s.ip
				}
			}
		}
		if rs.IsCDN {
			known = ""
		}
		live = append(live, fmt.Sprintf("%s:%s@%s%s", tag, rs.Path, ip, known))
	}
	for _, s := range w.sessions {
		if !s.live {
			gone = append(gone, fmt.Sprintf("kicked:%s@%s", s.path, s.ip))
		}
	}
	sort.Strings(live)
	sort.Strings(gone)
	world := ""
	switch w.px {
	case pxDirect:
		world = "no-trusted-proxies "
	case pxHandler:
		world = "no-trusted-proxies(handler) "
	}
	if w.wide {
		world += "wide "
	}
	return fmt.Sprintf("%scdn=%v | %s | %s", world, w.cfg == 0, strings.Join(live, " "), strings.Join(gone, " "))
}

// ---------------------------------------------------------------------------------------------
// the request product and its oracle

type finding struct {
	key, what string
	req       map[string]any
}

type prodStats struct {
	requests  int
	served    map[string]int // class -> count
	refused   int
	denied401 int
	authDeny  int // request satisfied the statement's condition but was refused (allowed, reported)
	// direct world only
	forgedPin      int // requests with the secret of a live authorized session of the path from ANOTHER address, with forwarding headers naming the session's address
	forgedEntitled int // entitled requests (right secret, right address) whose forwarding headers name another address
	classes        map[string]int
	// wide address alphabet: "world|owner kind->requester kind" -> requests presenting the secret of a
	// live authorized session of the requested path; and how many of them were served
	widePairs  map[string]int
	wideServed map[string]int
	openServed int // served although the statement leaves the case open (counted, not judged)
}

func newProdStats() prodStats {
	return prodStats{served: map[string]int{}, classes: map[string]int{}, widePairs: map[string]int{}, wideServed: map[string]int{}}
}

// ipChoice is one value of the "who sends the request" dimension.
type ipChoice struct {
	name string      // stable name used in outcome classes
	src  string      // direct world: TCP source address
	xff  string      // X-Forwarded-For
	hdrs [][2]string // other forwarding headers
	cip  string      // the request's client IP according to the statement (reference model)
	forg string      // "" or the kind of client-supplied forwarding header(s) naming the other IP
}

// ipChoices enumerates the dimension for a world.
//
// Proxy world: the harness is the trusted proxy 127.0.0.1; the client IP is the right-most
// X-Forwarded-For entry (what a real proxy appends), 127.0.0.1 without the header.
//
// Direct world: nobody is trusted; the client IP is the TCP source address whatever the headers say.
// Every source address is crossed with the forwarding-header forms, each naming the OTHER address O
// (S = the sender's own address).
func ipChoices(px int, wide, thorough bool) []ipChoice {
	ips := ipsOf(px, wide)
	var out []ipChoice
	if wide {
		// every address of the wide alphabet, as the trusted proxy reports it / as the peer address
		for i, ip := range ips {
			c := ipChoice{name: wideKinds[i], cip: ip}
			if px == pxProxy {
				c.xff = ip
			} else {
				c.src = ip
			}
			out = append(out, c)
		}
		return out
	}
	if px == pxProxy {
		xffs := []string{ips[0], ips[1], ips[0] + ", " + ips[1]}
		if thorough {
			xffs = append(xffs, ips[1]+", "+ips[0], "")
		}
		for _, x := range xffs {
			c := ipChoice{name: "xff[" + x + "]", xff: x, cip: "127.0.0.1"}
			if x != "" {
				parts := strings.Split(x, ",")
				c.cip = strings.TrimSpace(parts[len(parts)-1])
			}
			out = append(out, c)
		}
		return out
	}
	for i, s := range ips {
		o := ips[1-i]
		forms := []ipChoice{
			{forg: ""},
			{forg: "xff", xff: o},
			{forg: "x-real-ip", hdrs: [][2]string{{"X-Real-Ip", o}}},
			{forg: "xff+x-real-ip", xff: o, hdrs: [][2]string{{"X-Real-Ip", o}}},
			{forg: "xff-chain-other-first", xff: o + ", " + s},
		}
		if thorough {
			forms = append(forms,
				ipChoice{forg: "xff-chain-other-last", xff: s + ", " + o},
				ipChoice{forg: "xff-self+x-real-ip", xff: s, hdrs: [][2]string{{"X-Real-Ip", o}}},
				ipChoice{forg: "forwarded", hdrs: [][2]string{{"Forwarded", "for=" + o}}},
				ipChoice{forg: "platform-headers", hdrs: [][2]string{{"CF-Connecting-IP", o}, {"X-Appengine-Remote-Addr", o}, {"Fly-Client-IP", o}, {"X-Client-Ip", o}, {"True-Client-Ip", o}}},
			)
		}
		for _, f := range forms {
			f.src, f.cip = s, s
			f.name = fmt.Sprintf("src#%d", i)
			if f.forg != "" {
				f.name += "+forged-" + f.forg
			}
			out = append(out, f)
		}
	}
	return out
}

func (w *world) product(thorough bool, st *prodStats) []finding {
	var out []finding

	type secretChoice struct {
		name, val string
		sess      *msession
	}
	secrets := []secretChoice{{"none", "", nil}, {"random", uuid.New().String(), nil}, {"malformed", "not-a-uuid", nil}}
	if w.cfg == 0 {
		secrets = append(secrets, secretChoice{"cdnsecret-as-session", cdnSecret, nil})
	}
	for i, s := range w.sessions {
		secrets = append(secrets, secretChoice{fmt.Sprintf("session#%d", i), s.secret, s})
	}
	senders := ipChoices(w.px, w.wide, thorough)
	authzs := []struct{ name, val string }{
		{"none", ""}, {"bearer-cdn", "Bearer " + cdnSecret}, {"bearer-wrong", "Bearer wrongsecret"},
		{"bearer-empty", "Bearer "}, {"basic-alice", basic(creds[0])},
	}
	if thorough {
		authzs = append(authzs, struct{ name, val string }{"bearer-cdn-lower", "bearer " + cdnSecret},
			struct{ name, val string }{"bearer-userpass", "Bearer alice:apass"})
	}
	type target struct{ urlDir, path string }
	targets := []target{{"/a", "a"}, {"/b", "b"}, {"/b/../a", "a"}}
	if thorough {
		targets = append(targets, target{"/a/../b", "b"}, target{"/./a", "a"})
	}
	if w.wide {
		// the wide worlds vary WHO asks, not how: plain targets, session secrets only
		targets = targets[:2]
		authzs = authzs[:1]
		secrets = append(secrets[:1:1], secrets[len(secrets)-len(w.sessions):]...)
	}

	for _, tg := range targets {
		rf := w.ref[tg.path]
		files := []struct{ kind, name string }{
			{"playlist", rf.playlist}, {"init", rf.files["init"]}, {"seg", rf.files["seg"]}, {"part", rf.files["part"]},
			{"seg.mp", strings.TrimSuffix(rf.files["seg"], "4")},
		}
		for _, f := range files {
			for _, sc := range secrets {
				placements := []string{"query", "cookie"}
				if sc.sess != nil && !w.wide {
					placements = append(placements, "cookie+bogus-query", "bogus-cookie+query")
				}
				if sc.name == "none" {
					placements = []string{"-"}
				}
				for _, pl := range placements {
					for _, snd := range senders {
						xff := snd.xff
						for _, az := range authzs {
							r := hreq{urlPath: tg.urlDir + "/" + f.name, xff: xff, authz: az.val, src: snd.src, hdrs: snd.hdrs}
							bogus := "11111111-2222-3333-4444-555555555555"
							switch pl {
							case "query":
								r.query = "session=" + sc.val
							case "cookie":
								r.cookie = "hlsSession=" + sc.val
							case "cookie+bogus-query":
								r.cookie = "hlsSession=" + sc.val
								r.query = "session=" + bogus
							case "bogus-cookie+query":
								r.cookie = "hlsSession=" + bogus
								r.query = "session=" + sc.val
							}
							code, _, body := w.do(r)
							st.requests++

							// which path's media (if any) does the response carry?
							servedPath := ""
							if code == 200 && len(body) > 0 {
								for _, pn := range pathNames {
									prf := w.ref[pn]
									for _, b := range prf.bodies {
										if bytes.Equal(b, body) {
											servedPath = pn
										}
									}
									if bytes.Contains(body, []byte(prf.prefix+"_")) && bytes.HasPrefix(body, []byte("#EXTM3U")) {
										servedPath = pn
									}
								}
								if servedPath == "" {
									vcommon.Harness("status 200 with an unidentified body (%d bytes) for %+v", len(body), r)
								}
							}

							// the statement's condition
							cip := snd.cip
							// the scheme name is case-insensitive (RFC 9110): "bearer <secret>" still carries the secret
							cdnOK := w.cfg == 0 && len(az.val) > 7 && strings.EqualFold(az.val[:7], "Bearer ") && az.val[7:] == cdnSecret
							// entitled: the statement's condition, literally
							sessOK := func(p string) bool {
								return sc.sess != nil && sc.sess.live && sc.sess.authorized && sc.sess.path == p && sc.sess.ip == cip
							}
							// open: the statement does not decide (another spelling of the session's address;
							// a session handed to the holder of a valid secret on the same address)
							sessOpen := func(p string) bool {
								return sc.sess != nil && sc.sess.live && (sc.sess.authorized || sc.sess.dontcare) && sc.sess.path == p && ipEqual(sc.sess.ip, cip)
							}

							desc := map[string]any{"target": tg.urlDir, "file": f.kind, "secret": sc.name, "placement": pl,
								"x_forwarded_for": xff, "authorization": az.name}
							if w.px == pxHandler {
								desc["trusted_proxies"] = "none"
								desc["remote_addr_host"] = snd.src
							}
							if w.px == pxDirect {
								desc["trusted_proxies"] = "none"
								desc["tcp_source_address"] = snd.src
								if len(snd.hdrs) > 0 {
									desc["forwarding_headers"] = snd.hdrs
								}
							}
							if sc.sess != nil {
								desc["session"] = fmt.Sprintf("%s live=%v authorized=%v", sc.sess.how, sc.sess.live, sc.sess.authorized)
							}

							rel := sc.name
							if sc.sess != nil {
								switch {
								case sc.sess.dontcare:
									rel = "sess-open"
								case !sc.sess.authorized:
									rel = "sess-unauthorized"
								case !sc.sess.live:
									rel = "sess-kicked"
								case sc.sess.path != tg.path:
									rel = "sess-other-path"
								default:
									rel = "sess-of-path"
								}
								switch {
								case sc.sess.ip == cip:
									rel += "/same-ip"
								case ipEqual(sc.sess.ip, cip):
									rel += "/same-ip-other-spelling"
								default:
									rel += "/other-ip"
								}
								if sc.sess.via != "" {
									rel += "/obtained-presenting-" + sc.sess.via
								}
							}
							outcome := fmt.Sprintf("%d", code)
							if servedPath != "" {
								outcome = "served"
							}
							wtag := ""
							pair := ""
							if w.wide {
								wtag = []string{"wide-proxy:", "", "wide-handler:"}[w.px]
								if sc.sess != nil {
									pair = kindOf(sc.sess.ip) + "->" + snd.name
									rel += "/" + pair
									if sc.sess.live && sc.sess.authorized && sc.sess.path == tg.path {
										st.widePairs[wtag+pair]++
										if servedPath != "" {
											st.wideServed[wtag+pair]++
										}
									}
								}
							}
							if w.px == pxDirect {
								// direct world: classes also tell the forwarding-header form apart
								wtag = "direct:"
								rel += "/" + snd.forg
								if sessOK(tg.path) && snd.forg != "" {
									st.forgedEntitled++ // own secret from the right address, headers lie: still entitled
								}
								if sc.sess != nil && sc.sess.live && sc.sess.authorized && sc.sess.path == tg.path && sc.sess.ip != cip && snd.forg != "" {
									st.forgedPin++ // THE attack: right secret, wrong address, headers name the session's address
								}
							}
							st.classes[fmt.Sprintf("%s%s|%s|%s|%s|cdn=%v|%s", wtag, f.kind, rel, pl, az.name, w.cfg == 0, outcome)]++

							if servedPath == "" {
								st.refused++
								if code == 401 {
									st.denied401++
								}
								if cdnOK || sessOK(tg.path) {
									st.authDeny++
								}
								continue
							}
							if cdnOK {
								st.served[wtag+"cdn/"+f.kind]++
								continue
							}
							if sessOK(servedPath) {
								st.served[wtag+"session-"+pl+"/"+f.kind]++
								continue
							}
							if sessOpen(servedPath) {
								st.openServed++
								continue
							}
							// violation: classify
							reason := "no-valid-secret"
							switch {
							case sc.sess != nil && !sc.sess.authorized:
								reason = "session-of-unauthorized-client"
							case sc.sess != nil && !sc.sess.live:
								reason = "kicked-session"
							case sc.sess != nil && sc.sess.path != servedPath:
								reason = "session-of-other-path"
							case sc.sess != nil && sc.sess.ip != cip:
								reason = "session-from-other-ip"
							case az.name != "none" && az.name != "basic-alice":
								reason = "not-the-cdn-secret:" + az.name
							case az.name == "basic-alice":
								reason = "credentials-without-session"
							}
							ipReason := reason == "session-from-other-ip"
							if w.px != pxProxy {
								// the default configuration is its own class; a forged forwarding header is named
								// (the header form only where the client IP decides: other reasons do not depend on it)
								reason += ":no-trusted-proxies"
								if ipReason && snd.forg != "" {
									reason += ":forged-" + snd.forg
								}
							}
							if w.wide && ipReason {
								reason += ":" + pair // which kinds of addresses are taken for one another
							}
							if sc.sess != nil && sc.sess.via != "" {
								reason += ":session-obtained-presenting-" + sc.sess.via
							}
							if sc.sess != nil && sc.sess.forge != 0 && (strings.HasPrefix(reason, "session-from-other-ip") || strings.HasPrefix(reason, "session-of-unauthorized-client")) {
								reason += ":session-created-with" + strings.ReplaceAll(forgeNames[sc.sess.forge], ",", "-")
							}
							out = append(out, finding{
								key:  "served-" + reason,
								what: fmt.Sprintf("%s of path %s served (status %d, %d bytes) to %v", f.kind, servedPath, code, len(body), desc),
								req:  desc,
							})
						}
					}
				}
			}
		}
	}
	return out
}

// ---------------------------------------------------------------------------------------------
// executions

type result struct {
	key      string
	findings []finding
	stats    prodStats
	anomaly  []string
	nsess    int
	live     []bool // per session a secret was handed out for: not kicked yet
	harness  string
	deviated bool
	gained   int // sessions the model gained by the last operation
}

// run replays a history on a fresh server; with check=true the request product is evaluated in
// the reached state.
func run(h []op, check, thorough bool) (r result) {
	r.stats = newProdStats()
	w := newWorld(h[0].Cfg, h[0].Px, h[0].Wide)
	defer func() {
		// a server whose records deviate from the model (e.g. a kicked session still registered) may
		// crash the process while shutting down (double close of the session's reader); it is leaked
		// instead so that the findings of this run are still reported
		if w.deviates() || len(r.findings) > 0 {
			w.closeIdle()
			return
		}
		w.close()
	}()
	for _, o := range h[1:] {
		r.gained = w.apply(o)
	}
	r.key = w.key()
	r.nsess = len(w.sessions)
	for _, s := range w.sessions {
		r.live = append(r.live, s.live)
	}
	r.anomaly = w.anomaly
	if !check && w.deviates() {
		// the server's records already contradict the model: judge this state right away (the leaked
		// server must not live long, see above) so that main can report and stop
		check = true
		r.deviated = true
	}
	if check {
		r.findings = w.product(thorough, &r.stats)
		// the product must not have changed the state
		if k2 := w.key(); k2 != r.key {
			r.harness = fmt.Sprintf("request product changed the state: %q -> %q", r.key, k2)
		}
	}
	return r
}

// successors lists the operations that may follow history h. nforge = number of forged-header
// variants of Create (beyond the plain one) enumerated in h's world.
//
// plain: the ordinary alphabet (Create with credentials only, CDNIndex, Kick) is allowed at this
// depth; foreign: Create requests that present the secret of an existing session are allowed.
func successors(h []op, nsess int, live []bool, credSet []int, nforge int, plain, foreign bool, foreignCreds []int, thorough bool) []op {
	var out []op
	px, wide := h[0].Px, h[0].Wide
	ips := ipsOf(px, wide)
	if wide {
		// the wide worlds vary the ADDRESSES: one authorized owner on path a per address, then every
		// address presents the owner's secret to the session-creating entry point without credentials
		if plain && len(h) == 1 {
			for ip := range ips {
				for mode := 0; mode < 2; mode++ {
					out = append(out, op{Kind: opCreate, Px: px, Wide: true, Path: 0, IP: ip, Cred: 0, Mode: mode})
				}
			}
		}
		if foreign {
			for k := 0; k < nsess; k++ {
				for ip := range ips {
					for mode := 0; mode < 2; mode++ {
						for pr := 1; pr <= 2; pr++ {
							for en := 0; en < 2; en++ {
								if en == 1 && !thorough {
									continue
								}
								out = append(out, op{Kind: opCreate, Px: px, Wide: true, Path: 0, IP: ip, Cred: 4, Mode: mode, Present: pr, PK: k, Entry: en})
							}
						}
					}
				}
			}
		}
		return out
	}
	for p := range pathNames {
		if plain {
			for ip := range ips {
				for _, c := range credSet {
					for mode := 0; mode < 2; mode++ {
						for fg := 0; fg <= nforge; fg++ {
							out = append(out, op{Kind: opCreate, Px: px, Path: p, IP: ip, Cred: c, Mode: mode, Forge: fg})
						}
						if len(h) == 1 || thorough {
							// the other entry point: index.m3u8 without cookieCheck, then the 302
							out = append(out, op{Kind: opCreate, Px: px, Path: p, IP: ip, Cred: c, Mode: mode, Entry: 1})
						}
					}
				}
			}
			out = append(out, op{Kind: opCDN, Px: px, Path: p, Mode: 0}, op{Kind: opCDN, Px: px, Path: p, Mode: 1})
		}
		if foreign {
			// a client presents the secret of session k (anybody's, live or kicked) to every entry point
			// that can create a session, from every address, without / with bad / with good credentials
			for k := 0; k < nsess; k++ {
				for ip := range ips {
					for _, c := range foreignCreds {
						for mode := 0; mode < 2; mode++ {
							for pr := 1; pr <= 2; pr++ {
								for en := 0; en < 2; en++ {
									out = append(out, op{Kind: opCreate, Px: px, Path: p, IP: ip, Cred: c, Mode: mode, Present: pr, PK: k, Entry: en})
								}
							}
						}
					}
				}
			}
		}
	}
	if plain {
		for k := 0; k < nsess; k++ {
			if live[k] {
				out = append(out, op{Kind: opKick, Px: px, K: k})
			}
		}
	}
	return out
}

func main() {
	depth := flag.Int("depth", 3, "maximum number of operations after Init")
	ncreds := flag.Int("creds", 4, "size of the credential alphabet for session creation")
	maxSess := flag.Int("maxsess", 3, "maximum number of session records (created ever) in a history")
	ddepth := flag.Int("ddepth", 2, "maximum number of operations after Init in the direct world (no trusted proxies)")
	dforge := flag.Int("dforge", 1, "forged-header variants of Create in the direct world (0..2)")
	pforge := flag.Int("pforge", 0, "forged-header variants of Create in the proxy world (0..2)")
	fdepth := flag.Int("fdepth", 2, "last position in a history at which a Create may present the secret of an existing session")
	budget := flag.Duration("budget", 10*time.Minute, "internal deadline")
	probe := flag.Bool("probe", false, "print the discovered files and exit")
	r := vcommon.Start("C43", "model_checking")
	gin.SetMode(gin.ReleaseMode)
	t0 := time.Now()
	thorough := r.Thorough()

	if *probe {
		for i := 0; i < 5; i++ {
			t := time.Now()
			w0 := newWorld(0, i%3, i%3 != 1 && i > 2)
			t1 := time.Since(t)
			w0.close()
			fmt.Printf("world: create %v close %v\n", t1, time.Since(t)-t1)
		}
		for px := 0; px < 2; px++ {
			w := newWorld(0, px, false)
			for _, n := range pathNames {
				fmt.Printf("%s: %+v\n", n, w.ref[n].files)
			}
			w.apply(op{Kind: opCreate, Px: px, Path: 0, IP: 0, Cred: 0, Mode: 0})
			w.apply(op{Kind: opCreate, Px: px, Path: 1, IP: 1, Cred: 1, Mode: 1, Forge: 1})
			w.apply(op{Kind: opCreate, Px: px, Path: 0, IP: 1, Cred: 2, Mode: 1})
			w.apply(op{Kind: opCDN, Px: px, Path: 0})
			fmt.Println(w.key(), w.anomaly)
			st := newProdStats()
			t := time.Now()
			f := w.product(thorough, &st)
			fmt.Printf("%d findings, %d requests, served %v refused %d forgedPin %d forgedEntitled %d in %v\n", len(f), st.requests, st.served, st.refused, st.forgedPin, st.forgedEntitled, time.Since(t))
			w.close()
		}
		os.Exit(0)
	}

	var credSet []int
	for i := 0; i < *ncreds && i < len(creds); i++ {
		credSet = append(credSet, i)
	}
	foreignCreds := []int{4, 0} // no credentials; alice (an authorized client presenting a foreign secret gets an ordinary session)
	if thorough {
		foreignCreds = []int{4, 3, 5, 6, 0}
		// deeper by default in the thorough tier
		set := false
		flag.Visit(func(f *flag.Flag) { set = set || f.Name == "fdepth" })
		if !set {
			*fdepth = 3
		}
	}

	r.Rule = fmt.Sprintf("BFS over histories Init(cdn on/off, trusted proxies = loopback | none (default))·{Create(path,ip,cred,query|cookie[,forged forwarding header][,presenting the secret of session k in query|cookie][,entry index.m3u8?cookieCheck=1 | index.m3u8 + 302]), CDNIndex(path, Bearer cdn|Bearer empty), Kick(k)}* "+
		"(proxy world <=%d operations, direct world <=%d operations, <=%d sessions; Create presenting a foreign secret up to position %d in both worlds; "+
		"plus two worlds with the wide client-address alphabet {IPv4 a, IPv4 b, IPv6 a, IPv6 b, IPv4-mapped IPv6 of a, link-local IPv6}: proxy world over TCP and no-trusted-proxies world through the server's http.Handler with a chosen RemoteAddr, "+
		"histories Create(a, owner address, alice)·Create(a, requester address, no credentials, presenting the owner's secret), every owner x requester pair) "+
		"on a fresh real hls.Server per transition; states deduplicated by (trusted proxies, cdn configured, sorted live session records path@ip, CDN sessions, kicked sessions); "+
		"in every distinct state the full product target x file x secret x placement x sender x Authorization is requested over TCP, where sender = X-Forwarded-For value (proxy world: the harness is the trusted proxy) "+
		"or TCP source address {127.0.0.1, 127.0.0.2} x forged forwarding headers naming the other address (direct world); "+
		"distinct = state keys plus request outcome classes (world | file kind | relation of the presented secret to the sessions and to the client IP [| forged header form | owner address kind -> requester address kind] | placement | Authorization kind | cdn configured | served or status)", *depth, *ddepth, *maxSess, *fdepth)
	depthOf := [3]int{*depth, *ddepth, 0}
	forgeOf := [3]int{*pforge, *dforge, 0}

	// determinism discipline
	execs := 0
	for px := 0; px < 2; px++ {
		ph := []op{{Kind: opInit, Px: px}, {Kind: opCreate, Px: px, Path: 0, IP: 0, Cred: 0, Mode: 0}, {Kind: opCDN, Px: px, Path: 1}, {Kind: opKick, Px: px, K: 0}}
		a, b := run(ph, true, false), run(ph, true, false)
		if a.key != b.key || a.stats.requests != b.stats.requests || a.stats.refused != b.stats.refused || len(a.findings) != len(b.findings) {
			vcommon.Harness("nondeterministic replay: %q/%d/%d vs %q/%d/%d", a.key, a.stats.requests, a.stats.refused, b.key, b.stats.requests, b.stats.refused)
		}
		execs += 2
	}

	type state struct {
		hist  []op
		key   string
		nsess int
		live  []bool
	}
	seen := map[string]bool{}
	var mu sync.Mutex
	states, transitions, requests := 0, 0, 0
	served := map[string]int{}
	reqClasses := map[string]bool{}
	refused, denied401, authDeny := 0, 0, 0
	forgedPin, forgedEntitled := 0, 0
	widePairs, wideServed := map[string]int{}, map[string]int{}
	openServed := 0
	// Create requests presenting a foreign secret: by "requester authorized by its own credentials",
	// how many were executed and how many were handed a session
	foreignRuns, foreignGained := map[bool]int{}, map[bool]int{}
	anomalies := map[string]int{}
	exhausted := true
	abort := false // a state whose records contradict the model was met: report and stop

	// checkStates runs the request product in each new state (fresh replay) in parallel.
	checkStates := func(sts []state) {
		results := make([]result, len(sts))
		vcommon.Parallel(len(sts), func(i int) {
			if time.Since(t0) > *budget {
				results[i].harness = "budget"
				return
			}
			results[i] = run(sts[i].hist, true, thorough)
		})
		for i, res := range results {
			if res.harness == "budget" {
				exhausted = false
				continue
			}
			if res.harness != "" {
				vcommon.Harness("%s; history %v", res.harness, histString(sts[i].hist))
			}
			if res.key != sts[i].key {
				vcommon.Harness("nondeterministic: history %v reached %q, now %q", histString(sts[i].hist), sts[i].key, res.key)
			}
			execs++
			requests += res.stats.requests
			r.Eval(res.stats.requests)
			refused += res.stats.refused
			denied401 += res.stats.denied401
			authDeny += res.stats.authDeny
			forgedPin += res.stats.forgedPin
			forgedEntitled += res.stats.forgedEntitled
			openServed += res.stats.openServed
			for k, v := range res.stats.widePairs {
				widePairs[k] += v
			}
			for k, v := range res.stats.wideServed {
				wideServed[k] += v
			}
			for k, v := range res.stats.served {
				served[k] += v
			}
			for k := range res.stats.classes {
				r.Distinct("R " + k)
				reqClasses[k] = true
			}
			for _, f := range res.findings {
				r.Violation(f.key, fmt.Sprintf("after %v: %s", histString(sts[i].hist), f.what),
					map[string]any{"history": histString(sts[i].hist), "request": f.req})
			}
			if len(sts[i].hist) >= 3 {
				ns := 0
				for _, v := range res.stats.served {
					ns += v
				}
				r.Sample(map[string]any{"history": histString(sts[i].hist), "state": res.key,
					"requests": res.stats.requests, "served": ns, "refused": res.stats.refused})
			}
		}
	}

	expand := func(jobs [][]op) []state {
		results := make([]result, len(jobs))
		vcommon.Parallel(len(jobs), func(i int) {
			if time.Since(t0) > *budget {
				results[i].harness = "budget"
				return
			}
			results[i] = run(jobs[i], false, false)
		})
		var next []state
		for i, res := range results {
			if res.harness == "budget" {
				exhausted = false
				continue
			}
			execs++
			transitions++
			r.Eval(1)
			if lo := jobs[i][len(jobs[i])-1]; lo.Kind == opCreate && lo.Present != 0 {
				ips := ipsOf(lo.Px, lo.Wide)
				a := modelAuthorized(creds[lo.Cred], pathNames[lo.Path], ips[lo.IP], ips[0])
				foreignRuns[a]++
				if res.gained > 0 {
					foreignGained[a]++
				}
			}
			if res.deviated {
				abort = true
				for _, f := range res.findings {
					r.Violation(f.key, fmt.Sprintf("after %v: %s", histString(jobs[i]), f.what),
						map[string]any{"history": histString(jobs[i]), "request": f.req})
				}
				continue
			}
			mu.Lock()
			for _, a := range res.anomaly {
				anomalies[a]++
			}
			mu.Unlock()
			// Kick(k) indexes the sessions a secret was handed out for (also those the model calls
			// unauthorized: they are exercised by the product of this very state and may be kicked)
			live := res.live
			if !seen[res.key] {
				seen[res.key] = true
				states++
				r.Distinct("S " + res.key)
				next = append(next, state{hist: jobs[i], key: res.key, nsess: res.nsess, live: live})
			}
		}
		return next
	}

	frontier := expand([][]op{
		{{Kind: opInit, Cfg: 0, Px: pxProxy}}, {{Kind: opInit, Cfg: 1, Px: pxProxy}},
		{{Kind: opInit, Cfg: 0, Px: pxDirect}}, {{Kind: opInit, Cfg: 1, Px: pxDirect}},
		{{Kind: opInit, Cfg: 0, Px: pxProxy, Wide: true}}, {{Kind: opInit, Cfg: 0, Px: pxHandler, Wide: true}},
	})
	checkStates(frontier)
	completed := 0
	maxDepth := max(depthOf[0], depthOf[1], *fdepth)
	for d := 1; d <= maxDepth && len(frontier) > 0; d++ {
		var jobs [][]op
		for _, s := range frontier {
			px := s.hist[0].Px
			plain := d <= depthOf[px] || (s.hist[0].Wide && d == 1)
			foreign := d >= 2 && d <= *fdepth
			if !plain && !foreign {
				continue
			}
			fc := foreignCreds
			if !plain {
				// beyond the world's own depth only the requests that must not buy anything
				fc = fc[:len(fc)-1]
			}
			for _, o := range successors(s.hist, s.nsess, s.live, credSet, forgeOf[px], plain, foreign, fc, thorough) {
				if o.Kind == opCreate && s.nsess >= *maxSess {
					continue
				}
				jobs = append(jobs, append(append([]op(nil), s.hist...), o))
			}
		}
		fmt.Fprintf(os.Stderr, "[c43] depth %d: frontier %d states, %d transitions (%.1fs)\n", d, len(frontier), len(jobs), time.Since(t0).Seconds())
		frontier = expand(jobs)
		if abort {
			exhausted = false
			r.Note("stopped at depth %d: the server's session records contradict the model (see violations)", d)
			break
		}
		fmt.Fprintf(os.Stderr, "[c43] depth %d: %d new states to check (%.1fs)\n", d, len(frontier), time.Since(t0).Seconds())
		checkStates(frontier)
		if !exhausted {
			break
		}
		completed = d
	}

	// non-vacuity: media must really have been served through each legitimate door
	if exhausted {
		if forgedPin == 0 || forgedEntitled == 0 {
			vcommon.Harness("vacuous: the direct world never presented a session secret with forged forwarding headers (%d from another address, %d from the right one)", forgedPin, forgedEntitled)
		}
		for _, door := range []string{"cdn/", "session-query/", "session-cookie/", "direct:cdn/", "direct:session-query/", "direct:session-cookie/"} {
			n := 0
			for k, v := range served {
				if strings.HasPrefix(k, door) {
					n += v
				}
			}
			if n == 0 {
				vcommon.Harness("vacuous: nothing was ever served through %s", door)
			}
		}
		// wide address alphabet: every owner x requester pair presented a live secret in both worlds,
		// and every owner (IPv6 ones too) was really served its own session
		for _, wt := range []string{"wide-proxy:", "wide-handler:"} {
			for _, ok := range wideKinds {
				for _, rk := range wideKinds {
					if widePairs[wt+ok+"->"+rk] == 0 {
						vcommon.Harness("vacuous: %s no request from a %s address presented the secret of a session owned by a %s address", wt, rk, ok)
					}
				}
				if wideServed[wt+ok+"->"+ok] == 0 {
					vcommon.Harness("vacuous: %s a session owned by a %s address was never served to its owner", wt, ok)
				}
			}
		}
		if *fdepth >= 2 && (foreignRuns[false] == 0 || foreignGained[true] == 0) {
			vcommon.Harness("vacuous: Create requests presenting a foreign secret: %d without valid credentials, %d with valid credentials handed a session", foreignRuns[false], foreignGained[true])
		}
	}
	for a, n := range anomalies {
		r.Note("%s (x%d)", a, n)
	}

	r.Set("states", states)
	r.Set("transitions", transitions)
	r.Set("traces_validated_against_impl", execs)
	r.Set("requests", requests)
	r.Set("requests_refused", refused)
	r.Set("requests_401", denied401)
	r.Set("served_by_class", served)
	r.Set("request_outcome_classes", len(reqClasses))
	r.Set("entitled_but_refused", authDeny)
	r.Set("wide_alphabet_owner_requester_pairs", len(widePairs))
	r.Set("wide_alphabet_requests_with_live_secret_by_pair", widePairs)
	r.Set("wide_alphabet_served_by_pair", wideServed)
	r.Set("served_where_the_statement_is_open", openServed)
	r.Set("creates_presenting_foreign_secret_without_valid_credentials", foreignRuns[false])
	r.Set("creates_presenting_foreign_secret_without_valid_credentials_handed_a_session", foreignGained[false])
	r.Set("creates_presenting_foreign_secret_with_valid_credentials", foreignRuns[true])
	r.Set("creates_presenting_foreign_secret_with_valid_credentials_handed_a_session", foreignGained[true])
	r.Set("bound_completed", min(completed, depthOf[0]))
	r.Set("bound_completed_direct_world", min(completed, depthOf[1]))
	r.Set("direct_world_forged_header_requests_with_foreign_session_secret", forgedPin)
	r.Set("direct_world_forged_header_requests_entitled", forgedEntitled)
	r.Exhaustive = exhausted
	if !exhausted {
		r.Note("internal deadline hit: histories up to %d operations completed", completed)
	}
	r.Assumptions = []string{
		"path manager is a stub that authenticates with a real auth.Manager (internal users alice: all paths, bob: path b, carol: path a from the first client IP of the world only); core.pathManager is not in the loop",
		"AlwaysRemux=true, Low-Latency variant, two paths with distinct H264 streams of 5 IDR frames fed before the first request; muxers never close during a history",
		"proxy world: only trusted proxy is 127.0.0.1 (the harness); the client IP is the right-most X-Forwarded-For entry (what a real proxy appends)",
		"direct world (TrustedProxies empty, the default): the client IP is the TCP source address of the connection (client sockets bound to 127.0.0.1 / 127.0.0.2; needs Linux loopback semantics, every 127/8 address local); forwarding headers are client-supplied and carry no authority",
		"'session' = a live record (a kicked session's secret must not be served any more: the design's reading of 'a session'); expiry by the 10 s cleanup ticker after 30 s of inactivity is not exercised (no virtual clock in this harness)",
		"only the 'served only to' direction is judged; entitled requests that are refused are counted (entitled_but_refused), not reported",
		"reference bodies come from the gohlslib muxer directly (found by type below the hls.Server with reflection; no private name of the package is used), so serving is recognised by content, not by status alone",
		"handler world: requests are handed to the http.Handler of the server's *http.Server (found by type) with a chosen RemoteAddr; net/http's connection handling is not in that loop (it is in the proxy and direct worlds)",
		"two spellings of one address (10.0.0.1 / ::ffff:10.0.0.1) are the same IP or not: left open by the statement, both answers accepted; likewise a session handed to a client without valid credentials that presented, from the same address and for the same path, the live secret of an authorized session",
		"session records (state key, kick) are read through the exported APISessionsList / APISessionsKick; a new record is attributed to the secret handed out by the same request",
	}
	r.Finish()
}
