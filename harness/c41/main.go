// C41: TLS fingerprint pinning accepts exactly the pinned certificate.
//
// Engine B: bounded-exhaustive enumeration of
//
//	(server certificate chain) x (fingerprint string) x (TLS version) x (way the client uses the config)
//
// with REAL TLS handshakes (crypto/tls on both ends, in-memory buffered connection) driven by the
// *tls.Config returned by the real ptls.MakeConfig. Reference model, from the statement only:
//
//	handshake succeeds  <=>  asciiLower(fingerprint) == hex(sha256(leaf.Raw))
//
// independently of expiry, host name, issuer, trust. The empty fingerprint (= nothing configured)
// must give normal verification (only the chain that is valid for the host and anchored in the
// trusted root pool is accepted).
package main

import (
	"bufio"
	"context"
	"crypto"
	"crypto/ecdsa"
	"crypto/ed25519"
	"crypto/elliptic"
	"crypto/md5"
	"crypto/rand"
	"crypto/rsa"
	"crypto/sha1"
	"crypto/sha256"
	"crypto/sha512"
	"crypto/tls"
	"crypto/x509"
	"crypto/x509/pkix"
	"encoding/hex"
	"encoding/pem"
	"fmt"
	"io"
	"math/big"
	"net"
	"net/http"
	"os"
	"path/filepath"
	"strings"
	"sync"
	"time"

	ptls "github.com/bluenviron/mediamtx/internal/protocols/tls"
	"github.com/bluenviron/mediamtx/internal/zzverif/vcommon"
)

// ---------------------------------------------------------------------------------------------
// buffered in-memory full-duplex connection (net.Pipe is unbuffered and can deadlock when both TLS
// ends write at the same time, e.g. alert vs. session ticket).

type half struct {
	mu     sync.Mutex
	cond   *sync.Cond
	buf    []byte
	closed bool
}

func newHalf() *half {
	h := &half{}
	h.cond = sync.NewCond(&h.mu)
	return h
}

type memConn struct {
	r, w *half
}

type memAddr struct{}

func (memAddr) Network() string { return "mem" }
func (memAddr) String() string  { return "mem" }

func memPipe() (*memConn, *memConn) {
	a, b := newHalf(), newHalf()
	return &memConn{r: a, w: b}, &memConn{r: b, w: a}
}

func (c *memConn) Read(p []byte) (int, error) {
	c.r.mu.Lock()
	defer c.r.mu.Unlock()
	for len(c.r.buf) == 0 {
		if c.r.closed {
			return 0, io.EOF
		}
		c.r.cond.Wait()
	}
	n := copy(p, c.r.buf)
	c.r.buf = c.r.buf[n:]
	return n, nil
}

func (c *memConn) Write(p []byte) (int, error) {
	c.w.mu.Lock()
	defer c.w.mu.Unlock()
	if c.w.closed {
		return 0, io.ErrClosedPipe
	}
	c.w.buf = append(c.w.buf, p...)
	c.w.cond.Broadcast()
	return len(p), nil
}

func (c *memConn) Close() error {
	for _, h := range []*half{c.r, c.w} {
		h.mu.Lock()
		h.closed = true
		h.cond.Broadcast()
		h.mu.Unlock()
	}
	return nil
}

func (c *memConn) LocalAddr() net.Addr                { return memAddr{} }
func (c *memConn) RemoteAddr() net.Addr               { return memAddr{} }
func (c *memConn) SetDeadline(_ time.Time) error      { return nil }
func (c *memConn) SetReadDeadline(_ time.Time) error  { return nil }
func (c *memConn) SetWriteDeadline(_ time.Time) error { return nil }

// ---------------------------------------------------------------------------------------------
// certificates

const host = "server.verif.test"

type chain struct {
	name      string
	cert      tls.Certificate     // what the server presents
	leaf      *x509.Certificate   // parsed first certificate
	others    []*x509.Certificate // further certificates presented or related (CA, root)
	sibling   *x509.Certificate   // other certificate with the same key and subject
	validNorm bool                // accepted by normal verification for `host` with the trusted pool
}

var cleanup = func() {}

func must[T any](v T, err error) T {
	if err != nil {
		cleanup()
		vcommon.Harness("setup: %v", err)
	}
	return v
}

type keyKind int

const (
	kECDSA keyKind = iota
	kRSA
	kEd25519
)

func genKey(k keyKind) crypto.Signer {
	switch k {
	case kRSA:
		return must(rsa.GenerateKey(rand.Reader, 2048))
	case kEd25519:
		_, priv, err := ed25519.GenerateKey(rand.Reader)
		if err != nil {
			vcommon.Harness("setup: %v", err)
		}
		return priv
	default:
		return must(ecdsa.GenerateKey(elliptic.P256(), rand.Reader))
	}
}

var serialCtr int64 = 1000

type certSpec struct {
	cn        string
	dns       []string
	ips       []net.IP
	notBefore time.Time
	notAfter  time.Time
	isCA      bool
}

func makeCert(spec certSpec, key crypto.Signer, parent *x509.Certificate, parentKey crypto.Signer) (*x509.Certificate, []byte) {
	serialCtr++
	tpl := &x509.Certificate{
		SerialNumber:          big.NewInt(serialCtr),
		Subject:               pkix.Name{CommonName: spec.cn, Organization: []string{"verif"}},
		NotBefore:             spec.notBefore,
		NotAfter:              spec.notAfter,
		DNSNames:              spec.dns,
		IPAddresses:           spec.ips,
		BasicConstraintsValid: true,
		IsCA:                  spec.isCA,
		KeyUsage:              x509.KeyUsageDigitalSignature,
		ExtKeyUsage:           []x509.ExtKeyUsage{x509.ExtKeyUsageServerAuth},
	}
	if spec.isCA {
		tpl.KeyUsage |= x509.KeyUsageCertSign
	}
	if parent == nil {
		parent = tpl
		parentKey = key
	}
	der := must(x509.CreateCertificate(rand.Reader, tpl, parent, key.Public(), parentKey))
	return must(x509.ParseCertificate(der)), der
}

// intermediate CA under the trusted root (kept for the call-site part, which issues its own leaf)
var (
	caInter    *x509.Certificate
	caInterKey crypto.Signer
	caInterDER []byte
)

func buildChains(dir string) []*chain {
	now := time.Now()
	ok0, ok1 := now.Add(-24*time.Hour), now.Add(24*365*time.Hour)
	leafSpec := func() certSpec { return certSpec{cn: host, dns: []string{host}, notBefore: ok0, notAfter: ok1} }

	// trusted root (installed as the process's system pool through SSL_CERT_FILE) and an intermediate
	rootKey := genKey(kECDSA)
	root, rootDER := makeCert(certSpec{cn: "verif trusted root", notBefore: ok0, notAfter: ok1, isCA: true}, rootKey, nil, nil)
	interKey := genKey(kECDSA)
	inter, interDER := makeCert(certSpec{cn: "verif intermediate", notBefore: ok0, notAfter: ok1, isCA: true}, interKey, root, rootKey)
	caInter, caInterKey, caInterDER = inter, interKey, interDER
	// untrusted CA
	uKey := genKey(kECDSA)
	uCA, uCADER := makeCert(certSpec{cn: "verif untrusted CA", notBefore: ok0, notAfter: ok1, isCA: true}, uKey, nil, nil)

	pemFile := filepath.Join(dir, "roots.pem")
	if err := os.WriteFile(pemFile, pem.EncodeToMemory(&pem.Block{Type: "CERTIFICATE", Bytes: rootDER}), 0o600); err != nil {
		vcommon.Harness("setup: %v", err)
	}
	emptyDir := filepath.Join(dir, "nocerts")
	_ = os.Mkdir(emptyDir, 0o700)
	os.Setenv("SSL_CERT_FILE", pemFile)
	os.Setenv("SSL_CERT_DIR", emptyDir)

	var out []*chain
	add := func(name string, key crypto.Signer, spec certSpec, parent *x509.Certificate, parentKey crypto.Signer,
		extraDER [][]byte, others []*x509.Certificate, validNorm bool, mangle bool,
	) {
		leaf, der := makeCert(spec, key, parent, parentKey)
		sib, _ := makeCert(spec, key, parent, parentKey) // same key, same subject, other serial
		if mangle {
			// forged issuer signature: flip the last byte of the signature (last byte of the DER)
			der = append([]byte(nil), der...)
			der[len(der)-1] ^= 0x55
			leaf = must(x509.ParseCertificate(der))
		}
		c := &chain{
			name: name,
			cert: tls.Certificate{
				Certificate: append([][]byte{der}, extraDER...),
				PrivateKey:  key,
			},
			leaf: leaf, others: others, sibling: sib, validNorm: validNorm,
		}
		out = append(out, c)
	}

	add("selfsigned-ecdsa", genKey(kECDSA), leafSpec(), nil, nil, nil, nil, false, false)
	sp := leafSpec()
	sp.notBefore, sp.notAfter = now.Add(-48*time.Hour), now.Add(-24*time.Hour)
	add("selfsigned-expired", genKey(kECDSA), sp, nil, nil, nil, nil, false, false)
	sp = leafSpec()
	sp.notBefore, sp.notAfter = now.Add(24*time.Hour), now.Add(48*time.Hour)
	add("selfsigned-notyetvalid", genKey(kECDSA), sp, nil, nil, nil, nil, false, false)
	sp = leafSpec()
	sp.dns = []string{"other.verif.test"}
	sp.cn = "other.verif.test"
	add("selfsigned-wronghost", genKey(kECDSA), sp, nil, nil, nil, nil, false, false)
	sp = leafSpec()
	sp.isCA = true
	add("selfsigned-isCA", genKey(kECDSA), sp, nil, nil, nil, nil, false, false)
	add("selfsigned-rsa2048", genKey(kRSA), leafSpec(), nil, nil, nil, nil, false, false)
	add("selfsigned-ed25519", genKey(kEd25519), leafSpec(), nil, nil, nil, nil, false, false)
	add("untrustedCA-leaf+ca", genKey(kECDSA), leafSpec(), uCA, uKey, [][]byte{uCADER}, []*x509.Certificate{uCA}, false, false)
	add("untrustedCA-leaf-only", genKey(kECDSA), leafSpec(), uCA, uKey, nil, []*x509.Certificate{uCA}, false, false)
	add("trusted-valid-leaf+inter", genKey(kECDSA), leafSpec(), inter, interKey, [][]byte{interDER},
		[]*x509.Certificate{inter, root}, true, false)
	add("trusted-valid-leaf+inter+root", genKey(kECDSA), leafSpec(), inter, interKey, [][]byte{interDER, rootDER},
		[]*x509.Certificate{inter, root}, true, false)
	sp = leafSpec()
	sp.notBefore, sp.notAfter = now.Add(-48*time.Hour), now.Add(-24*time.Hour)
	add("trusted-expired-leaf+inter", genKey(kECDSA), sp, inter, interKey, [][]byte{interDER},
		[]*x509.Certificate{inter, root}, false, false)
	sp = leafSpec()
	sp.dns = []string{"other.verif.test"}
	sp.cn = "other.verif.test"
	add("trusted-wronghost-leaf+inter", genKey(kECDSA), sp, inter, interKey, [][]byte{interDER},
		[]*x509.Certificate{inter, root}, false, false)
	add("trusted-forged-signature", genKey(kECDSA), leafSpec(), inter, interKey, [][]byte{interDER},
		[]*x509.Certificate{inter, root}, false, true)
	return out
}

// ---------------------------------------------------------------------------------------------
// fingerprint alphabet

type fpCase struct {
	class string // class of the string (for distinct counting)
	fp    string
}

func sha256hex(b []byte) string {
	s := sha256.Sum256(b)
	return hex.EncodeToString(s[:])
}

func mixed(s string) string {
	b := []byte(s)
	for i := range b {
		if i%2 == 0 && b[i] >= 'a' && b[i] <= 'f' {
			b[i] -= 32
		}
	}
	return string(b)
}

func colons(s string) string {
	var parts []string
	for i := 0; i+2 <= len(s); i += 2 {
		parts = append(parts, s[i:i+2])
	}
	return strings.Join(parts, ":")
}

func fullwidth(s string) string {
	var sb strings.Builder
	for _, r := range s {
		switch {
		case r >= '0' && r <= '9':
			sb.WriteRune(0xFF10 + (r - '0'))
		case r >= 'a' && r <= 'f':
			sb.WriteRune(0xFF41 + (r - 'a'))
		default:
			sb.WriteRune(r)
		}
	}
	return sb.String()
}

const hexdigits = "0123456789abcdef"

func fingerprints(c *chain, thorough bool) []fpCase {
	leaf := sha256hex(c.leaf.Raw)
	up := strings.ToUpper(leaf)
	var out []fpCase
	add := func(class, fp string) { out = append(out, fpCase{class, fp}) }

	add("leaf-lower", leaf)
	add("leaf-upper", up)
	add("leaf-mixed", mixed(leaf))
	// single position case flips (letters only): must all be accepted
	// (digit positions give the unchanged string again: kept so that the number of cases does not
	// depend on the freshly generated certificate)
	for i := 0; i < len(leaf); i++ {
		b := []byte(leaf)
		if b[i] >= 'a' {
			b[i] -= 32
		}
		add("leaf-oneupper", string(b))
		if thorough || i%2 == 0 {
			b = []byte(up)
			if b[i] >= 'A' {
				b[i] += 32
			}
			add("leaf-onelower", string(b))
		}
	}
	// one nibble changed, at every position
	for i := 0; i < len(leaf); i++ {
		cur := strings.IndexByte(hexdigits, leaf[i])
		var alts []int
		if thorough {
			for d := 1; d < 16; d++ {
				alts = append(alts, (cur+d)%16)
			}
		} else {
			alts = []int{(cur + 1 + i%14) % 16}
		}
		for _, a := range alts {
			b := []byte(leaf)
			b[i] = hexdigits[a]
			add("nibble-changed", string(b))
			{
				b = []byte(up)
				b[i] = strings.ToUpper(hexdigits)[a]
				add("nibble-changed-upper", string(b))
			}
		}
	}
	// truncated / extended
	for n := 1; n < len(leaf); n++ {
		add("truncated", leaf[:n])
	}
	for n := 1; n < len(leaf); n++ {
		if thorough || n%8 == 0 {
			add("suffix-only", leaf[n:])
		}
	}
	add("extended", leaf+"00")
	add("extended", leaf+leaf)
	add("extended", "00"+leaf)
	// other certificates / other digests
	for _, o := range c.others {
		add("other-cert-of-chain", sha256hex(o.Raw))
		add("other-cert-of-chain", strings.ToUpper(sha256hex(o.Raw)))
	}
	add("sibling-same-key", sha256hex(c.sibling.Raw))
	add("spki-sha256", sha256hex(c.leaf.RawSubjectPublicKeyInfo))
	add("tbs-sha256", sha256hex(c.leaf.RawTBSCertificate))
	s1 := sha1.Sum(c.leaf.Raw)
	add("sha1", hex.EncodeToString(s1[:]))
	m5 := md5.Sum(c.leaf.Raw)
	add("md5", hex.EncodeToString(m5[:]))
	s5 := sha512.Sum512(c.leaf.Raw)
	add("sha512", hex.EncodeToString(s5[:]))
	s5256 := sha512.Sum512_256(c.leaf.Raw)
	add("sha512-256", hex.EncodeToString(s5256[:]))
	add("sha256-of-pem", sha256hex(pem.EncodeToMemory(&pem.Block{Type: "CERTIFICATE", Bytes: c.leaf.Raw})))
	// decorated
	add("colons", colons(leaf))
	add("colons", colons(up))
	add("decorated", " "+leaf)
	add("decorated", leaf+" ")
	add("decorated", leaf+"\n")
	add("decorated", "\t"+leaf)
	add("decorated", "0x"+leaf)
	add("decorated", "sha256:"+leaf)
	add("decorated", "SHA256 Fingerprint="+colons(up))
	add("decorated", strings.ReplaceAll(colons(leaf), ":", " "))
	add("decorated", leaf+"\x00")
	add("fullwidth", fullwidth(leaf))
	add("constant", strings.Repeat("0", 64))
	add("constant", strings.Repeat("f", 64))
	add("constant", strings.Repeat("F", 64))
	add("constant", "*")
	add("constant", "x")
	return out
}

// reference model, from the statement only.
func asciiLower(s string) string {
	b := []byte(s)
	for i := range b {
		if b[i] >= 'A' && b[i] <= 'Z' {
			b[i] += 32
		}
	}
	return string(b)
}

func modelAccept(c *chain, fp string) bool {
	return asciiLower(fp) == sha256hex(c.leaf.Raw)
}

// ---------------------------------------------------------------------------------------------
// handshake drivers

type variant int

const (
	vRaw    variant = iota // config used exactly as returned, tls.Client
	vClone                 // what tls.Dial / gortsplib / http do: Clone + ServerName + NextProtos
	vHTTP                  // net/http Transport with TLSClientConfig (auth server, JWKS, HLS/WHEP sources)
	vResume                // Clone + session cache, two connections (second one may be resumed)
)

var variantNames = []string{"raw", "clone+servername", "http.Transport", "session-cache-2conns"}

func serverConf(c *chain, ver uint16) *tls.Config {
	return &tls.Config{
		Certificates: []tls.Certificate{c.cert},
		MinVersion:   ver,
		MaxVersion:   ver,
	}
}

// one TLS connection; returns client-side error of handshake + 2-byte echo.
func oneConn(cconf *tls.Config, sconf *tls.Config) (err error, didResume bool) {
	cc, sc := memPipe()
	done := make(chan struct{})
	go func() {
		defer close(done)
		defer sc.Close()
		ts := tls.Server(sc, sconf)
		if ts.Handshake() != nil {
			return
		}
		_, _ = ts.Write([]byte("ok"))
		buf := make([]byte, 2)
		_, _ = io.ReadFull(ts, buf)
	}()
	tc := tls.Client(cc, cconf)
	err = tc.Handshake()
	if err == nil {
		buf := make([]byte, 2)
		_, err = io.ReadFull(tc, buf)
		if err == nil && string(buf) != "ok" {
			err = fmt.Errorf("harness: wrong echo")
		}
		if err == nil {
			_, err = tc.Write([]byte("ko"))
		}
		didResume = tc.ConnectionState().DidResume
	}
	cc.Close()
	<-done
	return err, didResume
}

func httpConn(cconf *tls.Config, sconf *tls.Config) error {
	var wg sync.WaitGroup
	tr := &http.Transport{
		DisableKeepAlives: true,
		TLSClientConfig:   cconf,
		DialContext: func(_ context.Context, _, _ string) (net.Conn, error) {
			cc, sc := memPipe()
			wg.Add(1)
			go func() {
				defer wg.Done()
				defer sc.Close()
				ts := tls.Server(sc, sconf)
				if ts.Handshake() != nil {
					return
				}
				req, err := http.ReadRequest(bufio.NewReader(ts))
				if err != nil {
					return
				}
				_ = req.Body.Close()
				_, _ = io.WriteString(ts, "HTTP/1.1 200 OK\r\nContent-Length: 2\r\nConnection: close\r\n\r\nok")
			}()
			return cc, nil
		},
	}
	defer tr.CloseIdleConnections()
	res, err := (&http.Client{Transport: tr}).Get("https://" + host + "/jwks")
	if err == nil {
		var body []byte
		body, err = io.ReadAll(res.Body)
		res.Body.Close()
		if err == nil && string(body) != "ok" {
			err = fmt.Errorf("harness: wrong body")
		}
	}
	tr.CloseIdleConnections()
	wg.Wait()
	return err
}

type outcome struct {
	ok      bool
	errs    string
	resumed bool
}

func run(c *chain, fp string, ver uint16, v variant) outcome {
	conf := ptls.MakeConfig(fp)
	sconf := serverConf(c, ver)
	switch v {
	case vRaw:
		err, _ := oneConn(conf, sconf)
		return mk(err, false)
	case vClone:
		cl := conf.Clone()
		cl.ServerName = host
		cl.NextProtos = []string{"http/1.1"}
		err, _ := oneConn(cl, sconf)
		return mk(err, false)
	case vHTTP:
		return mk(httpConn(conf, sconf), false)
	default:
		cl := conf.Clone()
		cl.ServerName = host
		cl.ClientSessionCache = tls.NewLRUClientSessionCache(4)
		err1, _ := oneConn(cl, sconf)
		err2, res := oneConn(cl, sconf)
		if (err1 == nil) != (err2 == nil) {
			return outcome{ok: err2 == nil, errs: fmt.Sprintf("first connection: %v, second connection: %v", err1, err2), resumed: res}
		}
		return mk(err2, res)
	}
}

func mk(err error, resumed bool) outcome {
	if err == nil {
		return outcome{ok: true, resumed: resumed}
	}
	return outcome{ok: false, errs: err.Error(), resumed: resumed}
}

func errClass(s string) string {
	switch {
	case s == "":
		return "ok"
	case strings.Contains(s, "fingerprint does not match"):
		return "fingerprint-mismatch"
	case strings.Contains(s, "certificate has expired or is not yet valid"):
		return "x509-expired"
	case strings.Contains(s, "certificate signed by unknown authority"):
		return "x509-unknown-authority"
	case strings.Contains(s, "certificate is valid for") || strings.Contains(s, "not "+host):
		return "x509-hostname"
	case strings.Contains(s, "x509"):
		return "x509-other"
	default:
		return "other"
	}
}

func verName(v uint16) string {
	if v == tls.VersionTLS13 {
		return "1.3"
	}
	return "1.2"
}

// racePass is the body of the free-running -race build (VSCHED_RACEPASS): crypto/tls calls VerifyConnection
// concurrently for handshakes that share a *tls.Config (http.Transport opening parallel connections, the RTSP
// tunnel, config clones share the closure too), so for every chain 8 handshakes run concurrently on ONE config
// returned by MakeConfig and on clones of it, with the pinned and with a non-matching fingerprint. The race
// detector decides (happens-before analysis of whatever state the closure shares); the verdicts of the
// handshakes are also compared with the model.
func racePass(chains []*chain, reps int, dir string) {
	for _, c := range chains {
		for rep := 0; rep < reps; rep++ {
			for _, fp := range []string{sha256hex(c.leaf.Raw), strings.Repeat("ab", 32)} {
				want := modelAccept(c, fp)
				conf := ptls.MakeConfig(fp)
				var wg sync.WaitGroup
				for k := 0; k < 8; k++ {
					cc := conf
					if k%2 == 1 {
						cc = conf.Clone()
						cc.ServerName = host
					}
					ver := uint16(tls.VersionTLS12)
					if k%4 >= 2 {
						ver = tls.VersionTLS13
					}
					wg.Add(1)
					go func() {
						defer wg.Done()
						err, _ := oneConn(cc, serverConf(c, ver))
						if (err == nil) != want {
							fmt.Fprintf(os.Stderr, "RACEPASS-WRONG chain=%s fingerprint=%s concurrent handshake on a shared config: model accept=%v, got error %v\n", c.name, fp, want, err)
						}
					}()
				}
				wg.Wait()
			}
		}
		fmt.Fprintf(os.Stderr, "RACEPASS-DONE %s x%d\n", c.name, reps)
	}
	os.RemoveAll(dir)
	os.Exit(0)
}

func main() {
	if n := os.Getenv("VSCHED_RACEPASS"); n != "" {
		dir, err := os.MkdirTemp("", "verif-c41-race-")
		if err != nil {
			vcommon.Harness("tempdir: %v", err)
		}
		chains := buildChains(dir)
		reps := 1
		fmt.Sscanf(n, "%d", &reps)
		racePass(chains, reps, dir)
	}
	r := vcommon.Start("C41", "exploration")
	dir, err := os.MkdirTemp("", "verif-c41-")
	if err != nil {
		vcommon.Harness("tempdir: %v", err)
	}
	cleanup = func() { os.RemoveAll(dir) }

	chains := buildChains(dir)
	versions := []uint16{tls.VersionTLS12, tls.VersionTLS13}
	variants := []variant{vRaw, vClone, vHTTP, vResume}

	type job struct {
		c   *chain
		f   fpCase
		ver uint16
		v   variant
	}
	var jobs []job
	fpTotal := 0
	for _, c := range chains {
		fps := fingerprints(c, r.Thorough())
		fpTotal += len(fps)
		for _, f := range fps {
			for _, ver := range versions {
				for _, v := range variants {
					jobs = append(jobs, job{c, f, ver, v})
				}
			}
		}
	}
	r.Rule = "full product: 14 server certificate chains (self-signed ECDSA/RSA/Ed25519, expired, not yet valid, wrong host, CA:true, " +
		"untrusted CA with/without CA in chain, chain to a trusted root valid/expired/wrong host/forged signature) x fingerprint strings derived " +
		"from that chain (3 case forms, every single-letter case flip, one nibble changed at each of the 64 positions [1 alternative per position quick, all 15 thorough; lower and upper case], " +
		"every truncation, suffixes, extensions, other certificates' digests, sibling certificate with the same key, SPKI/TBS/SHA-1/MD5/SHA-512 digests, " +
		"colon/space/prefix decorations, full-width digits, constants) x TLS {1.2,1.3} x 4 client usages; real handshakes + 2-byte echo; " +
		"plus the empty fingerprint through http.Transport. distinct = (chain, fingerprint class, TLS version, client usage, outcome class)"

	var accepted, rejected, resumedN int64
	harnessErr := ""
	var mu sync.Mutex
	vcommon.Parallel(len(jobs), func(i int) {
		j := jobs[i]
		want := modelAccept(j.c, j.f.fp)
		got := run(j.c, j.f.fp, j.ver, j.v)
		r.Eval(1)
		rep := map[string]any{"chain": j.c.name, "fingerprint": j.f.fp, "fingerprint_class": j.f.class,
			"leaf_sha256": sha256hex(j.c.leaf.Raw), "tls": verName(j.ver), "client": variantNames[j.v], "error": got.errs}
		mu.Lock()
		if got.ok {
			accepted++
		} else {
			rejected++
		}
		if got.resumed {
			resumedN++
		}
		mu.Unlock()
		switch {
		case want && !got.ok:
			r.Violation("pinned-rejected-"+j.f.class, fmt.Sprintf("chain %s, fingerprint %q (%s) equals the leaf's SHA-256 ignoring case but the connection failed (TLS %s, %s): %s",
				j.c.name, j.f.fp, j.f.class, verName(j.ver), variantNames[j.v], got.errs), rep)
		case !want && got.ok:
			r.Violation("unpinned-accepted-"+j.f.class, fmt.Sprintf("chain %s, fingerprint %q (%s) differs from the leaf's SHA-256 %s but the connection succeeded (TLS %s, %s)",
				j.c.name, j.f.fp, j.f.class, sha256hex(j.c.leaf.Raw), verName(j.ver), variantNames[j.v]), rep)
		case !want && errClass(got.errs) != "fingerprint-mismatch":
			// rejected, but for a reason that is not the pin: this would mean the chain validity matters
			// (or the harness is broken). Not a property violation by itself; recorded as a harness error.
			mu.Lock()
			if harnessErr == "" {
				harnessErr = fmt.Sprintf("chain %s fingerprint %q: rejected for an unexpected reason: %s", j.c.name, j.f.fp, got.errs)
			}
			mu.Unlock()
		}
		r.Distinct(fmt.Sprintf("%s|%s|%s|%s|%s", j.c.name, j.f.class, verName(j.ver), variantNames[j.v], errClass(got.errs)))
		if j.ver == tls.VersionTLS13 && j.v == vClone && j.c.name == "selfsigned-expired" &&
			(j.f.class == "leaf-upper" || j.f.class == "colons" || j.f.class == "sibling-same-key") {
			r.Sample(map[string]any{"chain": j.c.name, "fingerprint": j.f.fp, "class": j.f.class, "tls": "1.3",
				"client": variantNames[j.v], "accepted": got.ok, "error": got.errs})
		}
	})

	// empty fingerprint: nothing is configured -> MakeConfig must not weaken verification.
	emptyN := 0
	for _, c := range chains {
		for _, ver := range versions {
			conf := ptls.MakeConfig("")
			got := mk(httpConn(conf, serverConf(c, ver)), false)
			r.Eval(1)
			emptyN++
			rep := map[string]any{"chain": c.name, "fingerprint": "", "tls": verName(ver), "client": "http.Transport", "error": got.errs}
			if conf != nil && (conf.InsecureSkipVerify || conf.VerifyConnection != nil || conf.VerifyPeerCertificate != nil) && !c.validNorm && got.ok {
				r.Violation("empty-fingerprint-disables-verification",
					fmt.Sprintf("chain %s: empty fingerprint but the invalid chain is accepted", c.name), rep)
			} else if got.ok != c.validNorm {
				if got.ok {
					r.Violation("empty-fingerprint-disables-verification",
						fmt.Sprintf("chain %s: empty fingerprint but the invalid chain is accepted", c.name), rep)
				} else {
					r.Violation("empty-fingerprint-rejects-valid-chain",
						fmt.Sprintf("chain %s: empty fingerprint, chain valid for %s under the trusted pool, connection failed: %s", c.name, host, got.errs), rep)
				}
			}
			r.Distinct(fmt.Sprintf("%s|empty|%s|http.Transport|%s", c.name, verName(ver), errClass(got.errs)))
			if c.name == "trusted-valid-leaf+inter" || c.name == "trusted-expired-leaf+inter" {
				r.Sample(map[string]any{"chain": c.name, "fingerprint": "", "tls": verName(ver), "accepted": got.ok, "error": got.errs})
			}
		}
	}

	// call sites: the real components against TLS servers of the harness
	callSitePart(r, dir)

	r.Set("chains", len(chains))
	r.Set("fingerprint_strings", fpTotal)
	r.Set("handshake_cases_accepted", accepted)
	r.Set("handshake_cases_rejected", rejected)
	r.Set("second_connections_resumed", resumedN)
	r.Set("empty_fingerprint_cases", emptyN)
	raceRuns := vcommon.RacePass(r, 2)
	cleanup()
	if harnessErr != "" {
		vcommon.Harness("%s", harnessErr)
	}
	if accepted == 0 || rejected == 0 {
		vcommon.Harness("vacuous run: accepted=%d rejected=%d", accepted, rejected)
	}
	r.Exhaustive = true
	r.Assumptions = []string{
		"crypto/tls, crypto/x509 and net/http of the Go toolchain are trusted (they run for real on both ends)",
		"the 'leaf' is the first certificate the server presents (TLS definition)",
		"keys are freshly generated per run (crypto/rand); the verdict does not depend on them",
		"fingerprint-string alphabet: callers are represented by four usages of the returned *tls.Config (as is, Clone+ServerName+ALPN, net/http Transport, session cache)",
		"call-site part: components are built from conf.Load output the way internal/core/path.go and core.go build them (staticsources.Handler, forward.Manager, auth.Manager), not through a running Core; " +
			"three certificates and three fingerprint forms per call site (the string alphabet is covered on MakeConfig); a rejected QUIC handshake is not visible to a QUIC listener, there the explicit event is the component's own TLS error; " +
			"hot reload of a fingerprint is property C13's subject",
		fmt.Sprintf("concurrent use of one returned config (crypto/tls calls VerifyConnection concurrently) is covered by a separate free-running -race pass of %d shared-config handshake groups, not by schedule enumeration: the closure has no synchronisation operations a scheduler could interleave at", raceRuns),
		"trusted root pool = one generated root installed through SSL_CERT_FILE/SSL_CERT_DIR of the harness process",
	}
	r.Finish()
}
