// C41, call-site part: the components that take a configured fingerprint are instantiated for real
// (configuration text -> conf.Load -> staticsources.Handler / forward.Manager / auth.Manager, built the
// way internal/core builds them) against an in-process TLS server of the harness, for the product
//
//	(component, every option of it that changes how it dials)
//	  x (certificate the server presents: the pinned self-signed one, another self-signed one,
//	     one chaining to the root the process trusts that is NOT the pinned one)
//	  x (configured fingerprint: pinned lower case, pinned upper case, empty)
//	  x (TLS version of the server: 1.2, 1.3 for TCP; QUIC is 1.3 only)
//
// Oracle, from the statement only: with a fingerprint configured the TLS handshake completes (observed
// AT THE SERVER: crypto/tls Handshake() returned nil / the QUIC listener delivered the connection / the
// HTTP/3 handler received the request) iff the presented leaf is the pinned certificate. With no
// fingerprint configured normal verification is in force (only the trusted chain completes).
// No verdict depends on elapsed time: a case waits for an explicit event (server handshake result, or
// the component reporting its error); the only timers are guards whose expiry is a harness error.
package main

import (
	"context"
	"crypto/tls"
	"crypto/x509"
	"fmt"
	"net"
	"net/http"
	"os"
	"path/filepath"
	"strings"
	"sync"
	"time"

	"github.com/bluenviron/gortsplib/v5/pkg/description"
	"github.com/bluenviron/gortsplib/v5/pkg/format"
	"github.com/quic-go/quic-go"
	"github.com/quic-go/quic-go/http3"
	"github.com/quic-go/webtransport-go"

	"github.com/bluenviron/mediamtx/internal/auth"
	"github.com/bluenviron/mediamtx/internal/conf"
	"github.com/bluenviron/mediamtx/internal/defs"
	"github.com/bluenviron/mediamtx/internal/forward"
	"github.com/bluenviron/mediamtx/internal/logger"
	"github.com/bluenviron/mediamtx/internal/staticsources"
	"github.com/bluenviron/mediamtx/internal/stream"
	"github.com/bluenviron/mediamtx/internal/zzverif/vcommon"
)

const csGuard = 90 * time.Second // never part of a verdict: expiry = harness error

// ---------------------------------------------------------------------------------------------
// certificates of the call-site part (valid for 127.0.0.1, so that trust is the only difference)

type csCert struct {
	name    string
	cert    tls.Certificate
	leaf    *x509.Certificate
	trusted bool // completes under normal verification for 127.0.0.1
}

func buildCallSiteCerts() (pinned, other, trusted *csCert) {
	now := time.Now()
	spec := func(cn string) certSpec {
		return certSpec{
			cn: cn, dns: []string{"localhost"}, ips: []net.IP{net.ParseIP("127.0.0.1")},
			notBefore: now.Add(-24 * time.Hour), notAfter: now.Add(24 * 365 * time.Hour),
		}
	}
	k := genKey(kECDSA)
	leaf, der := makeCert(spec("pinned.callsite.verif"), k, nil, nil)
	pinned = &csCert{"pinned-selfsigned", tls.Certificate{Certificate: [][]byte{der}, PrivateKey: k}, leaf, false}
	k = genKey(kECDSA)
	leaf, der = makeCert(spec("other.callsite.verif"), k, nil, nil)
	other = &csCert{"other-selfsigned", tls.Certificate{Certificate: [][]byte{der}, PrivateKey: k}, leaf, false}
	k = genKey(kECDSA)
	leaf, der = makeCert(spec("trusted.callsite.verif"), k, caInter, caInterKey)
	trusted = &csCert{"other-chaining-to-trusted-root", tls.Certificate{Certificate: [][]byte{der, caInterDER}, PrivateKey: k}, leaf, true}
	return
}

// ---------------------------------------------------------------------------------------------
// TLS servers of the harness

type srvKind int

const (
	srvTCP  srvKind = iota // crypto/tls over TCP
	srvQUIC                // raw QUIC, MoQ ALPN
	srvWT                  // HTTP/3 + WebTransport
)

type srvEvent struct {
	hsErr  error  // result of the server-side handshake (nil = completed)
	req    []byte // first application bytes / request line (second event of a connection)
	isReq  bool
	forced bool // produced after the harness force-closed the connection: not evidence
}

type pinServer struct {
	addr   string
	events chan srvEvent
	close  func() (forcedClose bool)
}

var moqALPN = []string{
	string(defs.APIMoQVersionDraft19), string(defs.APIMoQVersionDraft18),
	string(defs.APIMoQVersionDraft17), string(defs.APIMoQVersionDraft16),
}

func startTCPServer(c *csCert, ver uint16) *pinServer {
	ln, err := net.Listen("tcp", "127.0.0.1:0")
	if err != nil {
		vcommon.Harness("callsite: listen: %v", err)
	}
	sconf := &tls.Config{Certificates: []tls.Certificate{c.cert}, MinVersion: ver, MaxVersion: ver}
	s := &pinServer{addr: ln.Addr().String(), events: make(chan srvEvent, 256)}
	var mu sync.Mutex
	var conns []net.Conn
	forcedFlag := false
	var wg sync.WaitGroup
	emit := func(e srvEvent) {
		mu.Lock()
		e.forced = forcedFlag
		mu.Unlock()
		select {
		case s.events <- e:
		default:
		}
	}
	wg.Add(1)
	go func() {
		defer wg.Done()
		for {
			nc, err2 := ln.Accept()
			if err2 != nil {
				return
			}
			mu.Lock()
			conns = append(conns, nc)
			mu.Unlock()
			wg.Add(1)
			go func() {
				defer wg.Done()
				defer nc.Close()
				ts := tls.Server(nc, sconf)
				if err3 := ts.Handshake(); err3 != nil {
					emit(srvEvent{hsErr: err3})
					return
				}
				emit(srvEvent{})
				buf := make([]byte, 256)
				n, _ := ts.Read(buf)
				if n > 0 {
					emit(srvEvent{isReq: true, req: buf[:n]})
				}
			}()
		}
	}()
	s.close = func() bool {
		ln.Close()
		done := make(chan struct{})
		go func() { wg.Wait(); close(done) }()
		select {
		case <-done:
			return false
		case <-time.After(15 * time.Second):
		}
		// the stopped component left a connection open: close it from here; whatever the connection
		// goroutines report from now on is not evidence
		mu.Lock()
		forcedFlag = true
		for _, nc := range conns {
			nc.Close()
		}
		mu.Unlock()
		<-done
		return true
	}
	return s
}

func startQUICServer(c *csCert) *pinServer {
	sconf := &tls.Config{Certificates: []tls.Certificate{c.cert}, NextProtos: moqALPN, MinVersion: tls.VersionTLS13}
	ln, err := quic.ListenAddr("127.0.0.1:0", sconf, &quic.Config{EnableDatagrams: true})
	if err != nil {
		vcommon.Harness("callsite: quic listen: %v", err)
	}
	s := &pinServer{addr: ln.Addr().String(), events: make(chan srvEvent, 256)}
	ctx, cancel := context.WithCancel(context.Background())
	var wg sync.WaitGroup
	wg.Add(1)
	go func() {
		defer wg.Done()
		for {
			// a non-early listener delivers a connection once its handshake is complete
			qc, err2 := ln.Accept(ctx)
			if err2 != nil {
				return
			}
			s.events <- srvEvent{}
			qc.CloseWithError(0x10, "verif: handshake observed") //nolint:errcheck
		}
	}()
	s.close = func() bool {
		cancel()
		ln.Close()
		wg.Wait()
		return false
	}
	return s
}

func startWTServer(c *csCert) *pinServer {
	pc, err := net.ListenPacket("udp", "127.0.0.1:0")
	if err != nil {
		vcommon.Harness("callsite: udp listen: %v", err)
	}
	s := &pinServer{addr: pc.LocalAddr().String(), events: make(chan srvEvent, 256)}
	h3 := &http3.Server{
		Handler: http.HandlerFunc(func(w http.ResponseWriter, req *http.Request) {
			// a request can only be sent by a client whose handshake completed
			select {
			case s.events <- srvEvent{}:
			default:
			}
			select {
			case s.events <- srvEvent{isReq: true, req: []byte(req.Method + " " + req.URL.Path)}:
			default:
			}
			w.WriteHeader(http.StatusNotFound)
		}),
		TLSConfig: http3.ConfigureTLSConfig(&tls.Config{Certificates: []tls.Certificate{c.cert}}),
	}
	webtransport.ConfigureHTTP3Server(h3)
	wt := &webtransport.Server{H3: h3, CheckOrigin: func(*http.Request) bool { return true }}
	done := make(chan struct{})
	go func() {
		defer close(done)
		wt.Serve(pc) //nolint:errcheck
	}()
	s.close = func() bool {
		wt.Close() //nolint:errcheck
		pc.Close()
		<-done
		return false
	}
	return s
}

// ---------------------------------------------------------------------------------------------
// the real components

type csVariant struct {
	comp  string  // component (class key part)
	opts  string  // dial-changing options (class key part)
	kind  srvKind // server it talks to
	yaml  func(addr, fp string) string
	start func(cnf *conf.Conf, errs chan<- string) (stop func())
}

type nopLog struct{}

func (nopLog) Log(logger.Level, string, ...any) {}

// parent of a static source handler / forward manager: reports every Error-level line (the component
// logs the error its Run returned) as the component's explicit failure event.
type csParent struct {
	errs chan<- string
}

func (p csParent) Log(l logger.Level, f string, a ...any) {
	if l == logger.Error {
		select {
		case p.errs <- fmt.Sprintf(f, a...):
		default:
		}
	}
}

func (csParent) StaticSourceHandlerSetReady(_ context.Context, req defs.PathSourceStaticSetReadyReq) {
	req.Res <- defs.PathSourceStaticSetReadyRes{Err: fmt.Errorf("verif: not a real path")}
}

func (csParent) StaticSourceHandlerSetNotReady(_ context.Context, req defs.PathSourceStaticSetNotReadyReq) {
	close(req.Res)
}

func yamlQ(s string) string { return "'" + strings.ReplaceAll(s, "'", "''") + "'" }

func sourceVariant(comp, scheme, urlPath string, kind srvKind, dump *bool, extraOpts, extraYAML string) csVariant {
	v := csVariant{comp: comp, kind: kind}
	var o []string
	if scheme != "" && extraOpts == "scheme" {
		o = append(o, "scheme="+scheme)
	} else if extraOpts != "" {
		o = append(o, extraOpts)
	}
	if dump != nil {
		o = append(o, fmt.Sprintf("dumpPackets=%v", *dump))
	}
	v.opts = strings.Join(o, ",")
	v.yaml = func(addr, fp string) string {
		y := ""
		if dump != nil {
			y += fmt.Sprintf("dumpPackets: %v\n", *dump)
		}
		y += "paths:\n  p:\n    source: " + yamlQ(scheme+"://"+addr+urlPath) + "\n    sourceFingerprint: " + yamlQ(fp) + "\n" + extraYAML
		return y
	}
	v.start = func(cnf *conf.Conf, errs chan<- string) func() {
		pconf := cnf.Paths["p"]
		if pconf == nil {
			vcommon.Harness("callsite: path p missing from the loaded configuration")
		}
		// as internal/core/path.go builds it
		h := &staticsources.Handler{
			Conf:              pconf,
			LogLevel:          cnf.LogLevel,
			DumpPackets:       cnf.DumpPackets,
			ReadTimeout:       cnf.ReadTimeout,
			WriteTimeout:      cnf.WriteTimeout,
			WriteQueueSize:    cnf.WriteQueueSize,
			UDPReadBufferSize: cnf.UDPReadBufferSize,
			RTPMaxPayloadSize: cnf.UDPMaxPayloadSize - 12,
			Parent:            csParent{errs},
		}
		h.Initialize()
		h.Start(false, "")
		return func() { h.Stop("verif") }
	}
	return v
}

var csDesc = &description.Session{Medias: []*description.Media{{
	Type: description.MediaTypeVideo,
	Formats: []format.Format{&format.H264{
		PayloadTyp:        96,
		SPS:               []byte{0x67, 0x42, 0xc0, 0x28, 0xd9, 0x00, 0x78, 0x02, 0x27, 0xe5, 0x84, 0x00, 0x00, 0x03, 0x00, 0x04, 0x00, 0x00, 0x03, 0x00, 0xf0, 0x3c, 0x60, 0xc9, 0x20},
		PPS:               []byte{0x08, 0x06, 0x07, 0x08},
		PacketizationMode: 1,
	}},
}}}

func forwardVariant(comp, scheme, urlPath string) csVariant {
	v := csVariant{comp: comp, kind: srvTCP}
	v.yaml = func(addr, fp string) string {
		return "paths:\n  p:\n    forward:\n      - dest: " + yamlQ(scheme+"://"+addr+urlPath) + "\n        destFingerprint: " + yamlQ(fp) + "\n"
	}
	v.start = func(cnf *conf.Conf, errs chan<- string) func() {
		pconf := cnf.Paths["p"]
		if pconf == nil || len(pconf.Forward) != 1 {
			vcommon.Harness("callsite: forward destination missing from the loaded configuration")
		}
		strm := &stream.Stream{OrigDesc: csDesc, WriteQueueSize: 512, RTPMaxPayloadSize: 1450, Parent: nopLog{}}
		if err := strm.Initialize(); err != nil {
			vcommon.Harness("callsite: stream: %v", err)
		}
		// as internal/core/path.go builds it
		m := &forward.Manager{
			ReadTimeout:       cnf.ReadTimeout,
			WriteTimeout:      cnf.WriteTimeout,
			UDPMaxPayloadSize: cnf.UDPMaxPayloadSize,
			PathName:          "p",
			Forward:           pconf.Forward,
			Parent:            csParent{errs},
		}
		m.Initialize()
		m.Start(strm)
		return func() {
			m.Stop()
			strm.Close()
		}
	}
	return v
}

func authVariant(comp string, jwt bool) csVariant {
	v := csVariant{comp: comp, kind: srvTCP}
	v.yaml = func(addr, fp string) string {
		if jwt {
			return "authMethod: jwt\nauthJWTJWKS: " + yamlQ("https://"+addr+"/jwks.json") + "\nauthJWTJWKSFingerprint: " + yamlQ(fp) + "\n"
		}
		return "authMethod: http\nauthHTTPAddress: " + yamlQ("https://"+addr+"/auth") + "\nauthHTTPFingerprint: " + yamlQ(fp) + "\nauthHTTPExclude: []\n"
	}
	v.start = func(cnf *conf.Conf, errs chan<- string) func() {
		// as internal/core/core.go builds it
		m := &auth.Manager{
			Method:             cnf.AuthMethod,
			InternalUsers:      cnf.AuthInternalUsers,
			HTTPAddress:        cnf.AuthHTTPAddress,
			HTTPFingerprint:    cnf.AuthHTTPFingerprint,
			HTTPExclude:        cnf.AuthHTTPExclude,
			JWTJWKS:            cnf.AuthJWTJWKS,
			JWTJWKSFingerprint: cnf.AuthJWTJWKSFingerprint,
			JWTClaimKey:        cnf.AuthJWTClaimKey,
			JWTExclude:         cnf.AuthJWTExclude,
			JWTInHTTPQuery:     cnf.AuthJWTInHTTPQuery,
			JWTIssuer:          cnf.AuthJWTIssuer,
			JWTAudience:        cnf.AuthJWTAudience,
			ReadTimeout:        time.Duration(cnf.ReadTimeout),
		}
		done := make(chan struct{})
		go func() {
			defer close(done)
			_, aerr := m.Authenticate(&auth.Request{
				Action:      conf.AuthActionPublish,
				Path:        "p",
				Protocol:    auth.ProtocolRTSP,
				Credentials: &auth.Credentials{User: "u", Pass: "p", Token: "t"},
				IP:          net.ParseIP("127.0.0.1"),
			})
			if aerr != nil {
				errs <- aerr.Wrapped.Error()
			} else {
				errs <- "verif: authentication returned without an error"
			}
		}()
		return func() { <-done }
	}
	return v
}

func callSiteVariants() []csVariant {
	t, f := true, false
	var vs []csVariant
	for _, d := range []*bool{&f, &t} {
		vs = append(vs, sourceVariant("source-hls", "https", "/stream/index.m3u8", srvTCP, d, "", ""))
		for _, sch := range []string{"rtsps", "rtsps+http", "rtsps+ws"} {
			vs = append(vs, sourceVariant("source-rtsp", sch, "/stream", srvTCP, d, "scheme", ""))
		}
		vs = append(vs, sourceVariant("source-rtmp", "rtmps", "/app/stream", srvTCP, d, "", ""))
		vs = append(vs, sourceVariant("source-whep", "wheps", "/stream/whep", srvTCP, d, "", ""))
	}
	vs = append(vs, sourceVariant("source-moq", "moqt", "/stream", srvQUIC, nil, "moqTransport=quic", "    moqTransport: quic\n"))
	vs = append(vs, sourceVariant("source-moq", "moqt", "/stream", srvWT, nil, "moqTransport=webtransport", "    moqTransport: webtransport\n"))
	vs = append(vs, forwardVariant("forward-rtmp", "rtmps", "/app/stream"))
	vs = append(vs, forwardVariant("forward-rtsp", "rtsps", "/stream"))
	vs = append(vs, forwardVariant("forward-whip", "whips", "/stream/whip"))
	vs = append(vs, authVariant("auth-http", false))
	vs = append(vs, authVariant("auth-jwks", true))
	return vs
}

// ---------------------------------------------------------------------------------------------

type csCase struct {
	v      csVariant
	cert   *csCert
	fpName string
	fp     string
	ver    uint16
}

type csResult struct {
	completed   bool   // a server-side handshake completed
	request     string // first application bytes seen by the server
	serverErr   string // server-side handshake error (rejected)
	clientErr   string // what the component reported
	handshakes  int
	unjudgeable string
}

func tlsFailureText(s string) bool {
	return strings.Contains(s, "fingerprint does not match") || strings.Contains(s, "x509:") ||
		strings.Contains(s, "certificate") || strings.Contains(s, "CRYPTO_ERROR")
}

func runCallSiteCase(idx int, dir string, c csCase) csResult {
	var srv *pinServer
	switch c.v.kind {
	case srvTCP:
		srv = startTCPServer(c.cert, c.ver)
	case srvQUIC:
		srv = startQUICServer(c.cert)
	default:
		srv = startWTServer(c.cert)
	}

	cfile := filepath.Join(dir, fmt.Sprintf("case%d.yml", idx))
	if err := os.WriteFile(cfile, []byte(c.v.yaml(srv.addr, c.fp)), 0o600); err != nil {
		vcommon.Harness("callsite: %v", err)
	}
	cnf, _, err := conf.Load(cfile, nil, nopLog{})
	if err != nil {
		vcommon.Harness("callsite: configuration of %s [%s] refused: %v", c.v.comp, c.v.opts, err)
	}
	os.Remove(cfile)

	errs := make(chan string, 64)
	stop := c.v.start(cnf, errs)

	var res csResult
	var evs []srvEvent
	guard := time.NewTimer(csGuard)
	defer guard.Stop()
	// first explicit event: a server-side handshake result, or the component reporting its failure
	select {
	case e := <-srv.events:
		evs = append(evs, e)
		if e.hsErr == nil && c.v.kind == srvTCP {
			// completed: additionally wait for the application request (or the component giving up)
			select {
			case e2 := <-srv.events:
				evs = append(evs, e2)
			case res.clientErr = <-errs:
			case <-guard.C:
				vcommon.Harness("callsite: %s [%s]: handshake completed but neither a request nor an error followed", c.v.comp, c.v.opts)
			}
		}
	case res.clientErr = <-errs:
	case <-guard.C:
		vcommon.Harness("callsite: %s [%s] cert=%s fp=%s: no event (neither a server-side handshake result nor a component error)",
			c.v.comp, c.v.opts, c.cert.name, c.fpName)
	}
	stop() // the component is gone: every connection it opened is closed
	forced := srv.close()
drain:
	for {
		select {
		case e := <-srv.events:
			evs = append(evs, e)
		default:
			break drain
		}
	}
	if res.clientErr == "" {
		select {
		case res.clientErr = <-errs:
		default:
		}
	}
	for _, e := range evs {
		if e.forced {
			continue
		}
		switch {
		case e.isReq:
			if res.request == "" {
				res.request = string(e.req)
			}
		case e.hsErr == nil:
			res.completed = true
			res.handshakes++
		default:
			res.handshakes++
			if res.serverErr == "" {
				res.serverErr = e.hsErr.Error()
			}
		}
	}
	switch {
	case res.completed:
	case res.serverErr != "":
	case c.v.kind != srvTCP && tlsFailureText(res.clientErr):
		// QUIC: a handshake the client aborts never reaches the listener's Accept; the explicit event
		// is the component's own TLS error
	default:
		res.unjudgeable = fmt.Sprintf("no handshake seen by the server (forced close: %v), component reported %q", forced, res.clientErr)
	}
	return res
}

func callSitePart(r *vcommon.Run, dir string) {
	os.Setenv("QUIC_GO_DISABLE_RECEIVE_BUFFER_WARNING", "true")
	// packet dumps are written into the working directory
	dumps := filepath.Join(dir, "dumps")
	if err := os.Mkdir(dumps, 0o700); err != nil {
		vcommon.Harness("callsite: %v", err)
	}
	prev, _ := os.Getwd()
	if err := os.Chdir(dumps); err != nil {
		vcommon.Harness("callsite: %v", err)
	}
	defer os.Chdir(prev) //nolint:errcheck

	pinned, other, trusted := buildCallSiteCerts()
	pin := sha256hex(pinned.leaf.Raw)
	fps := []struct{ name, fp string }{{"pinned-lower", pin}, {"pinned-upper", strings.ToUpper(pin)}, {"empty", ""}}

	var cases []csCase
	variants := callSiteVariants()
	for _, v := range variants {
		vers := []uint16{tls.VersionTLS12, tls.VersionTLS13}
		if v.kind != srvTCP {
			vers = []uint16{tls.VersionTLS13}
		}
		for _, c := range []*csCert{pinned, other, trusted} {
			for _, f := range fps {
				for _, ver := range vers {
					cases = append(cases, csCase{v, c, f.name, f.fp, ver})
				}
			}
		}
	}

	type pendingV struct {
		key, what string
		replay    any
	}
	pend := make([]*pendingV, len(cases))
	harnessErrs := make([]string, len(cases))
	var mu sync.Mutex
	var completedN, rejectedN, dumpFiles int64
	compSeen := map[string]bool{}
	vcommon.Parallel(len(cases), func(i int) {
		c := cases[i]
		res := runCallSiteCase(i, dir, c)
		r.Eval(1)
		id := c.v.comp
		if c.v.opts != "" {
			id += "[" + c.v.opts + "]"
		}
		rep := map[string]any{"component": c.v.comp, "options": c.v.opts, "server_certificate": c.cert.name,
			"fingerprint": c.fp, "fingerprint_form": c.fpName, "pinned_sha256": pin, "presented_sha256": sha256hex(c.cert.leaf.Raw),
			"tls": verName(c.ver), "server_handshake_completed": res.completed, "server_handshake_error": res.serverErr,
			"first_request_bytes": vcommon.Short(res.request, 60), "component_error": vcommon.Short(res.clientErr, 300)}
		if res.unjudgeable != "" {
			harnessErrs[i] = fmt.Sprintf("%s cert=%s fingerprint=%s TLS %s: %s", id, c.cert.name, c.fpName, verName(c.ver), res.unjudgeable)
			return
		}
		var want bool
		if c.fp != "" {
			want = c.cert == pinned // the statement
		} else {
			want = c.cert.trusted // nothing configured: normal verification
		}
		mu.Lock()
		if res.completed {
			completedN++
		} else {
			rejectedN++
		}
		compSeen[id] = true
		mu.Unlock()
		desc := fmt.Sprintf("%s, server presents %s, configured fingerprint %s (TLS %s)", id, c.cert.name, c.fpName, verName(c.ver))
		if res.serverErr == "" {
			res.serverErr = "no completed handshake was delivered to the listener"
		}
		switch {
		case c.fp != "" && want && !res.completed:
			pend[i] = &pendingV{"callsite:" + id + ":pinned-rejected",
				desc + ": the presented leaf IS the pinned certificate but the handshake did not complete: server side " + res.serverErr + "; component: " + vcommon.Short(res.clientErr, 300), rep}
		case c.fp != "" && !want && res.completed:
			pend[i] = &pendingV{"callsite:" + id + ":unpinned-accepted",
				desc + fmt.Sprintf(": the presented leaf is NOT the pinned certificate but the handshake completed at the server (first request bytes %q): the pin is not in force at this call site", vcommon.Short(res.request, 60)), rep}
		case c.fp == "" && !want && res.completed:
			pend[i] = &pendingV{"callsite:" + id + ":empty-fingerprint-disables-verification",
				desc + ": no fingerprint configured, certificate not trusted, but the handshake completed", rep}
		case c.fp == "" && want && !res.completed:
			pend[i] = &pendingV{"callsite:" + id + ":empty-fingerprint-rejects-valid-chain",
				desc + ": no fingerprint configured, chain valid under the trusted pool, handshake failed: " + res.serverErr + "; component: " + vcommon.Short(res.clientErr, 300), rep}
		}
		out := "rejected"
		if res.completed {
			out = "completed"
		}
		r.Distinct(fmt.Sprintf("callsite|%s|%s|%s|%s|%s", id, c.cert.name, c.fpName, verName(c.ver), out))
		if c.v.comp == "source-hls" && c.ver == tls.VersionTLS13 && c.fpName == "pinned-upper" {
			r.Sample(rep)
		}
	})
	if ents, err := os.ReadDir(dumps); err == nil {
		dumpFiles = int64(len(ents))
	}
	for _, he := range harnessErrs {
		if he != "" {
			cleanup()
			vcommon.Harness("callsite: case without an explicit event: %s", he)
		}
	}
	for _, p := range pend {
		if p != nil {
			r.Violation(p.key, p.what, p.replay)
		}
	}
	r.Set("callsite_components_x_options", len(variants))
	r.Set("callsite_cases", len(cases))
	r.Set("callsite_handshakes_completed", completedN)
	r.Set("callsite_handshakes_rejected", rejectedN)
	r.Set("callsite_packet_dump_files_written", dumpFiles)
	if len(compSeen) != len(variants) || completedN == 0 || rejectedN == 0 || dumpFiles == 0 {
		cleanup()
		vcommon.Harness("callsite: vacuous (%d of %d variants judged, completed=%d rejected=%d dumps=%d)", len(compSeen), len(variants), completedN, rejectedN, dumpFiles)
	}
}
