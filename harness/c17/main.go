// C17: readers get the publisher's units in order; drops are counted.
// Engine S: the real internal/stream + gortsplib ringbuffer + counterdumper/errordumper, instrumented,
// explored under the controlled scheduler over all schedules up to the deviation bound.
package main

import (
	"fmt"
	"strings"

	"github.com/bluenviron/gortsplib/v5/pkg/description"
	"github.com/bluenviron/gortsplib/v5/pkg/format"

	"github.com/bluenviron/mediamtx/internal/logger"
	"github.com/bluenviron/mediamtx/internal/stream"
	"github.com/bluenviron/mediamtx/internal/unit"
	"github.com/bluenviron/mediamtx/internal/zzverif/pmlib"
	"github.com/bluenviron/mediamtx/internal/zzverif/vexplore"
	"github.com/bluenviron/mediamtx/zzverif/vsched"
)

type nl struct{}

func (nl) Log(logger.Level, string, ...any) {}

type fixture struct {
	strm   *stream.Stream
	ss     *stream.SubStream
	mv, ma  *description.Media
	fv, fa  format.Format
	fb      format.Format // second format of the audio media
}

func newFixture(queue int) *fixture {
	f := &fixture{}
	f.fv = &format.H264{PayloadTyp: 96, PacketizationMode: 1}
	f.fa = &format.G711{PayloadTyp: 8, MULaw: false, SampleRate: 8000, ChannelCount: 1}
	f.mv = &description.Media{Type: description.MediaTypeVideo, Formats: []format.Format{f.fv}}
	f.fb = &format.G711{PayloadTyp: 0, MULaw: true, SampleRate: 8000, ChannelCount: 1}
	f.ma = &description.Media{Type: description.MediaTypeAudio, Formats: []format.Format{f.fa, f.fb}}
	vsched.Name(f.mv, "Mv")
	vsched.Name(f.ma, "Ma")
	vsched.Name(f.fv, "Fv")
	vsched.Name(f.fa, "Fa")
	vsched.Name(f.fb, "Fb")
	desc := &description.Session{Medias: []*description.Media{f.mv, f.ma}}
	f.strm = &stream.Stream{OrigDesc: desc, WriteQueueSize: queue, RTPMaxPayloadSize: 1450, ReplaceNTP: true, Parent: nl{}}
	if err := f.strm.Initialize(); err != nil {
		panic(err)
	}
	f.ss = &stream.SubStream{Stream: f.strm, UseRTPPackets: false}
	if err := f.ss.Initialize(); err != nil {
		panic(err)
	}
	return f
}

// unit ids: video units carry NALU {1, id}; audio units carry samples {id, id}
func (f *fixture) write(kind byte, id int) {
	vsched.Log("begin %c%d", kind, id)
	if kind == 'V' {
		f.ss.WriteUnit(f.mv, f.fv, &unit.Unit{PTS: int64(id) * 3000, Payload: unit.PayloadH264{{1, byte(id)}}})
	} else if kind == 'B' {
		f.ss.WriteUnit(f.ma, f.fb, &unit.Unit{PTS: int64(id) * 160, Payload: unit.PayloadG711{byte(id), byte(id), byte(id)}})
	} else {
		f.ss.WriteUnit(f.ma, f.fa, &unit.Unit{PTS: int64(id) * 160, Payload: unit.PayloadG711{byte(id), byte(id)}})
	}
	vsched.Log("end %c%d", kind, id)
}

func (f *fixture) reader(name string, video, audio bool) *stream.Reader {
	r := &stream.Reader{Parent: nl{}}
	vsched.Name(r, name)
	if video {
		r.OnData(f.mv, f.fv, func(u *unit.Unit) error {
			vsched.Yield() // the callback is arbitrary (slow) reader code: a scheduling point before its effect
			p, ok := u.Payload.(unit.PayloadH264)
			if !ok || len(p) != 1 || len(p[0]) != 2 || p[0][0] != 1 {
				vsched.Log("got %s V? modified payload %v", name, u.Payload)
				return nil
			}
			vsched.Log("got %s V%d", name, p[0][1])
			return nil
		})
	}
	if audio {
		r.OnData(f.ma, f.fa, func(u *unit.Unit) error {
			vsched.Yield()
			p, ok := u.Payload.(unit.PayloadG711)
			if !ok || len(p) != 2 || p[0] != p[1] {
				vsched.Log("got %s A? modified payload %v", name, u.Payload)
				return nil
			}
			vsched.Log("got %s A%d", name, p[0])
			return nil
		})
		// a second format of the same media
		r.OnData(f.ma, f.fb, func(u *unit.Unit) error {
			vsched.Yield()
			p, ok := u.Payload.(unit.PayloadG711)
			if !ok || len(p) != 3 || p[0] != p[1] {
				vsched.Log("got %s B? modified payload %v", name, u.Payload)
				return nil
			}
			vsched.Log("got %s B%d", name, p[0])
			return nil
		})
	}
	return r
}

// scenario 1: R2 (both formats) attached before the writer starts, R1 (video only) attached
// concurrently; the writer writes V1 A1 V2 V3 (A2); queue size q.
func bodyOrder(q int, writes string) func() {
	return func() {
		f := newFixture(q)
		r1 := f.reader("R1", true, false)
		r2 := f.reader("R2", true, true)
		f.strm.AddReader(r2)
		vsched.Log("added R2")
		d1 := make(chan struct{})
		d2 := make(chan struct{})
		vsched.Go(func() {
			f.strm.AddReader(r1)
			vsched.Log("added R1")
			vsched.Close(d1)
		})
		vsched.Go(func() {
			nv, na, nb := 0, 0, 0
			for _, k := range writes {
				switch k {
				case 'V':
					nv++
					f.write('V', nv)
				case 'B':
					nb++
					f.write('B', nb)
				default:
					na++
					f.write('A', na)
				}
			}
			vsched.Close(d2)
		})
		vsched.Recv(d1)
		vsched.Recv(d2)
		vsched.WaitIdle()
		vsched.Log("quiescent")
		f.strm.RemoveReader(r1)
		vsched.Log("removed R1 discarded=%d", r1.OutboundFramesDiscarded())
		f.strm.RemoveReader(r2)
		vsched.Log("removed R2 discarded=%d", r2.OutboundFramesDiscarded())
		f.strm.Close()
	}
}

// scenario 2: RemoveReader concurrent with delivery.
func bodyRemove(q int) func() {
	return func() {
		f := newFixture(q)
		r2 := f.reader("R2", true, true)
		f.strm.AddReader(r2)
		vsched.Log("added R2")
		d1 := make(chan struct{})
		d2 := make(chan struct{})
		vsched.Go(func() {
			f.write('V', 1)
			f.write('A', 1)
			f.write('V', 2)
			vsched.Close(d2)
		})
		vsched.Go(func() {
			f.strm.RemoveReader(r2)
			vsched.Log("removed R2 discarded=%d", r2.OutboundFramesDiscarded())
			vsched.Close(d1)
		})
		vsched.Recv(d1)
		vsched.Recv(d2)
		vsched.WaitIdle()
		vsched.Log("quiescent")
		f.strm.Close()
	}
}

func check(o *vsched.Outcome) (string, string) {
	tr := strings.Join(o.Trace, ", ")
	if o.Failure != "" {
		return "sched-" + strings.SplitN(o.Failure, ":", 2)[0], o.Failure + " | " + tr
	}
	type rs struct {
		added, removed bool
		lastV, lastA   int
		lastB          int
		got            int
		mustGet        int // writes that began after the reader was attached and before it was removed
		mayGet         int // writes that ended (or began) while it could have been attached
		disc           int
	}
	readers := map[string]*rs{"R1": {}, "R2": {}}
	for _, l := range o.Trace {
		var name string
		var kind byte
		var id, d int
		switch {
		case strings.HasPrefix(l, "added "):
			readers[l[6:]].added = true
		case strings.HasPrefix(l, "begin "):
			fmt.Sscanf(l, "begin %c%d", &kind, &id)
			for n, r := range readers {
				sub := n == "R2" || kind == 'V'
				if !sub {
					continue
				}
				if r.added && !r.removed {
					r.mustGet++
				}
				if !r.removed {
					r.mayGet++
				}
			}
		case strings.HasPrefix(l, "removed "):
			fmt.Sscanf(l, "removed %s discarded=%d", &name, &d)
			readers[name].removed = true
			readers[name].disc = d
		case strings.HasPrefix(l, "got "):
			if strings.Contains(l, "modified payload") {
				return "payload-modified", l + " | " + tr
			}
			fmt.Sscanf(l, "got %s %c%d", &name, &kind, &id)
			r := readers[name]
			if r.removed {
				return "callback-after-remove", "callback of " + name + " ran after RemoveReader returned | " + tr
			}
			if name == "R1" && kind != 'V' {
				return "unsubscribed-format", "R1 (video only) received an audio unit | " + tr
			}
			if kind == 'V' {
				if id <= r.lastV {
					return "order-or-duplicate", fmt.Sprintf("%s got V%d after V%d | %s", name, id, r.lastV, tr)
				}
				r.lastV = id
			} else if kind == 'B' {
				if id <= r.lastB {
					return "order-or-duplicate", fmt.Sprintf("%s got B%d after B%d | %s", name, id, r.lastB, tr)
				}
				r.lastB = id
			} else {
				if id <= r.lastA {
					return "order-or-duplicate", fmt.Sprintf("%s got A%d after A%d | %s", name, id, r.lastA, tr)
				}
				r.lastA = id
			}
			r.got++
		}
	}
	for n, r := range readers {
		if !r.removed {
			continue
		}
		// every unit that was certainly pushed to the reader was either delivered or counted as discarded;
		// nothing is counted that could not have been pushed
		if r.got+r.disc < r.mustGet-pendingAtRemoval(o.Trace, n) {
			return "drop-not-counted", fmt.Sprintf("%s: got=%d discarded=%d but %d units were written while attached | %s", n, r.got, r.disc, r.mustGet, tr)
		}
		if r.got+r.disc > r.mayGet {
			return "overcount", fmt.Sprintf("%s: got=%d discarded=%d but only %d units could have reached it | %s", n, r.got, r.disc, r.mayGet, tr)
		}
	}
	return "", ""
}

// pendingAtRemoval: units written while attached whose write had begun but whose delivery may have been
// cut by a concurrent RemoveReader (queued callbacks are dropped by ringbuffer.Close, and a write that began
// before the removal may find the callback already deleted). The statement allows both. Only the scenario
// with a concurrent remover has such units: every write that has not *ended* and been delivered before
// "removed" is a don't-care.
func pendingAtRemoval(trace []string, name string) int {
	quiescentBefore := false
	for _, l := range trace {
		if l == "quiescent" {
			quiescentBefore = true
		}
		if strings.HasPrefix(l, "removed "+name) {
			break
		}
	}
	if quiescentBefore {
		return 0 // removal happened at quiescence: everything pushed was delivered or counted
	}
	// concurrent removal: only units delivered before the removal are certain
	n := 0
	for _, l := range trace {
		if strings.HasPrefix(l, "removed "+name) {
			break
		}
		if strings.HasPrefix(l, "begin ") {
			n++
		}
	}
	return n
}

func main() {
	var scn []*vexplore.Scenario
	add := func(name, desc string, body func(), qb, tb int) {
		scn = append(scn, &vexplore.Scenario{Name: name, Desc: desc, Body: body, Check: check,
			QuickBound: qb, ThoroughBound: tb, Horizon: 5000, Bg: []string{"dumper.go"}})
	}
	add("order-q2", "R2(video+audio) attached, R1(video) attaching concurrently, writer V A B V (A and B are two formats of one media), queue 2", bodyOrder(2, "VABV"), 2, 3)
	add("order-q1", "same, queue 1, writer V V A", bodyOrder(1, "VVA"), 2, 3)
	add("order-q4", "same, queue 4, writer V A B A V", bodyOrder(4, "VABAV"), 1, 2)
	add("remove-q2", "RemoveReader(R2) concurrent with writer V A V, queue 2", bodyRemove(2), 2, 3)
	scn = append(scn, &vexplore.Scenario{Name: "replace-publisher", Desc: "always-available stream: publisher A (2 writes) is replaced by B (1 write) concurrently; reader attached",
		Body: pmlib.ReplaceBody, Check: pmlib.CheckReplace, QuickBound: 2, ThoroughBound: 3, Horizon: 8000,
		Bg: []string{"dumper.go", "stream/offline_sub_stream_track.go"}})
	computeAliasRef()
	for _, c := range codecs {
		scn = append(scn, &vexplore.Scenario{Name: "delayed-" + c.name, Desc: "one " + c.name + " format whose units are rewritten by the format updater/unit remuxer/RTP encoder (parameters in band, key frames, changed parameters); the reader (queue 8) is delayed arbitrarily relative to the writer; every delivered unit must equal the lock-step reference",
			Body: bodyAlias(c), Check: checkAlias(c), QuickBound: 1, ThoroughBound: 2, Horizon: 5000, MinOutcomes: 2, Bg: []string{"dumper.go"}})
	}
	vexplore.Main("C17", scn, []string{
		"payload alphabet: H.264 non-IDR NALU {1,id} and G.711 samples {id,id} (identity remux) in the ordering scenarios; 4-6 unit sequences of H.264/H.265/MPEG-4 Video/AV1 with in-band and changed parameters in the delayed-delivery scenarios (oracle: lock-step reference run; the remuxed content itself is C22's subject)",
		"background tickers of counterdumper/errordumper fire only when nothing else is enabled (they only log)",
		"memory-model effects below the level of lock/channel operations are not explored (see C40 race pass)",
	})
}
