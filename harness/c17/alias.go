package main

// "unmodified after remuxing", for the codecs whose units are rewritten on the way through the stream (format
// updater + unit remuxer + RTP encoder): what a reader is handed for unit i must not depend on WHEN it is handed
// it. Differential oracle with no hand-written expected bytes: a lock-step run (write one unit, wait until the
// reader has consumed it, copy what it was given) gives the reference; in the explored runs the reader is
// delayed arbitrarily (at 0 deviations it runs after ALL writes) and every delivered unit must have exactly the
// reference content. A remuxer or encoder that lets two units share a backing array, or that keeps writing
// into memory it has already handed out, is visible as a difference.

import (
	"fmt"
	"strings"

	"github.com/bluenviron/gortsplib/v5/pkg/description"
	"github.com/bluenviron/gortsplib/v5/pkg/format"

	"github.com/bluenviron/mediamtx/internal/stream"
	"github.com/bluenviron/mediamtx/internal/unit"
	"github.com/bluenviron/mediamtx/internal/zzverif/vcommon"
	"github.com/bluenviron/mediamtx/zzverif/vsched"
)

type codec struct {
	name  string
	forma func() format.Format
	units func() []unit.Payload // freshly allocated on every call: a publisher does not reuse what it handed over
}

func rep(b byte, n int) []byte {
	out := make([]byte, n)
	for i := range out {
		out[i] = b
	}
	return out
}

func cat(parts ...[]byte) []byte {
	var out []byte
	for _, p := range parts {
		out = append(out, p...)
	}
	return out
}

var codecs = []codec{
	{"h264",
		func() format.Format { return &format.H264{PayloadTyp: 96, PacketizationMode: 1} },
		func() []unit.Payload {
			return []unit.Payload{
				unit.PayloadH264{{0x67, 1, 2, 3}, {0x68, 1}, cat([]byte{0x65, 1}, rep(0x11, 12))},   // parameters in band + IDR
				unit.PayloadH264{{0x09, 0xF0}, cat([]byte{0x41, 2}, rep(0x22, 6))},                  // AUD + non-IDR
				unit.PayloadH264{cat([]byte{0x65, 3}, rep(0x33, 6))},                                // IDR: parameters are prepended
				unit.PayloadH264{{0x67, 9, 9, 9, 9}, {0x68, 2}, cat([]byte{0x65, 4}, rep(0x44, 4))}, // changed parameters
				unit.PayloadH264{cat([]byte{0x65, 5}, rep(0x55, 3))},
			}
		}},
	{"h265",
		func() format.Format { return &format.H265{PayloadTyp: 96} },
		func() []unit.Payload {
			return []unit.Payload{
				unit.PayloadH265{{0x40, 1, 1}, {0x42, 1, 2, 2}, {0x44, 1, 3}, cat([]byte{0x26, 1, 1}, rep(0x11, 12))},
				unit.PayloadH265{{0x46, 1, 0x50}, cat([]byte{0x02, 1, 2}, rep(0x22, 6))},
				unit.PayloadH265{cat([]byte{0x26, 1, 3}, rep(0x33, 6))},
				unit.PayloadH265{{0x40, 1, 7, 7}, {0x42, 1, 8, 8, 8}, {0x44, 1, 9}, cat([]byte{0x26, 1, 4}, rep(0x44, 4))},
				unit.PayloadH265{cat([]byte{0x26, 1, 5}, rep(0x55, 3))},
			}
		}},
	{"mpeg4video",
		func() format.Format { return &format.MPEG4Video{PayloadTyp: 96, ProfileLevelID: 1} },
		func() []unit.Payload {
			conf := []byte{0, 0, 1, 0xB0, 0x01, 0, 0, 1, 0xB5, 0x89, 0x13, 0, 0, 1, 0x20, 0xAA}
			conf2 := []byte{0, 0, 1, 0xB0, 0x02, 0, 0, 1, 0xB5, 0x77}
			gov := []byte{0, 0, 1, 0xB3, 0x10}
			vop := []byte{0, 0, 1, 0xB6}
			return []unit.Payload{
				unit.PayloadMPEG4Video(cat(conf, gov, vop, []byte{1}, rep(0x11, 24))), // configuration in band
				unit.PayloadMPEG4Video(cat(vop, []byte{2}, rep(0x22, 6))),
				unit.PayloadMPEG4Video(cat(gov, vop, []byte{3}, rep(0x33, 6))), // key frame: configuration is prepended
				unit.PayloadMPEG4Video(cat(gov, vop, []byte{4}, rep(0x44, 3))),
				unit.PayloadMPEG4Video(cat(conf2, gov, vop, []byte{5}, rep(0x55, 8))), // changed configuration
				unit.PayloadMPEG4Video(cat(gov, vop, []byte{6}, rep(0x66, 2))),
			}
		}},
	{"av1",
		func() format.Format { return &format.AV1{PayloadTyp: 96} },
		func() []unit.Payload {
			return []unit.Payload{
				unit.PayloadAV1{{0x12, 0x00}, {0x0A, 0x03, 1, 1, 1}, cat([]byte{0x32, 0x0C}, rep(0x11, 12))},
				unit.PayloadAV1{{0x12, 0x00}, cat([]byte{0x32, 0x06}, rep(0x22, 6))},
				unit.PayloadAV1{{0x0A, 0x02, 3, 3}, cat([]byte{0x32, 0x04}, rep(0x33, 4))},
				unit.PayloadAV1{cat([]byte{0x32, 0x03}, rep(0x44, 3))},
			}
		}},
}

// digest of what a reader is handed: the remuxed payload and the payloads of the RTP packets (sequence
// numbers and timestamps start at random values and are not compared).
func digest(u *unit.Unit) string {
	var sb strings.Builder
	fmt.Fprintf(&sb, "%x", u.Payload)
	sb.WriteString("/rtp")
	for _, p := range u.RTPPackets {
		fmt.Fprintf(&sb, ":%x", p.Payload)
	}
	return strings.ReplaceAll(sb.String(), " ", "_")
}

type aliasFixture struct {
	strm  *stream.Stream
	ss    *stream.SubStream
	media *description.Media
	forma format.Format
}

func newAliasFixture(c codec, useRTP bool) *aliasFixture {
	f := &aliasFixture{forma: c.forma()}
	f.media = &description.Media{Type: description.MediaTypeVideo, Formats: []format.Format{f.forma}}
	vsched.Name(f.media, "M")
	vsched.Name(f.forma, "F")
	f.strm = &stream.Stream{OrigDesc: &description.Session{Medias: []*description.Media{f.media}},
		WriteQueueSize: 8, RTPMaxPayloadSize: 1450, ReplaceNTP: true, Parent: nl{}}
	if err := f.strm.Initialize(); err != nil {
		panic(err)
	}
	f.ss = &stream.SubStream{Stream: f.strm, UseRTPPackets: useRTP}
	if err := f.ss.Initialize(); err != nil {
		panic(err)
	}
	return f
}

var aliasRef = map[string][]string{} // codec -> digest of unit i ("" = not delivered), from the lock-step run

// computeAliasRef runs outside the scheduler (vsched is pass-through): real goroutines, one unit at a time.
func computeAliasRef() {
	for _, c := range codecs {
		f := newAliasFixture(c, false)
		units := c.units()
		ref := make([]string, len(units))
		got := make(chan struct{}, 1)
		r := &stream.Reader{Parent: nl{}}
		r.OnData(f.media, f.forma, func(u *unit.Unit) error {
			ref[int(u.PTS/3000)-1] = digest(u)
			got <- struct{}{}
			return nil
		})
		f.strm.AddReader(r)
		delivered := 0
		for i, p := range units {
			before := f.strm.InboundFramesInError()
			f.ss.WriteUnit(f.media, f.forma, &unit.Unit{PTS: int64(i+1) * 3000, Payload: p})
			if f.strm.InboundFramesInError() != before || (&unit.Unit{Payload: p}).NilPayload() {
				continue // rejected by the stream: nothing is delivered for it
			}
			<-got
			delivered++
		}
		f.strm.RemoveReader(r)
		f.strm.Close()
		if delivered < 3 {
			vcommon.Harness("alias reference for %s is vacuous: %d of %d units delivered", c.name, delivered, len(units))
		}
		aliasRef[c.name] = ref
	}
}

func bodyAlias(c codec) func() {
	return func() {
		f := newAliasFixture(c, false)
		r := &stream.Reader{Parent: nl{}}
		vsched.Name(r, "R")
		r.OnData(f.media, f.forma, func(u *unit.Unit) error {
			vsched.Yield()
			vsched.Log("got %d %s", int(u.PTS/3000), digest(u))
			return nil
		})
		f.strm.AddReader(r)
		done := make(chan struct{})
		vsched.Go(func() {
			for i, p := range c.units() {
				f.ss.WriteUnit(f.media, f.forma, &unit.Unit{PTS: int64(i+1) * 3000, Payload: p})
				vsched.Log("wrote %d", i+1)
			}
			vsched.Close(done)
		})
		vsched.Recv(done)
		vsched.WaitIdle()
		vsched.Log("quiescent")
		f.strm.RemoveReader(r)
		vsched.Log("removed discarded=%d", r.OutboundFramesDiscarded())
		f.strm.Close()
	}
}

func checkAlias(c codec) func(o *vsched.Outcome) (string, string) {
	return func(o *vsched.Outcome) (string, string) {
		if o.Failure != "" {
			return "sched-" + strings.SplitN(o.Failure, ":", 2)[0], o.Failure + " | " + short(o.Trace)
		}
		ref := aliasRef[c.name]
		last, got, disc := 0, 0, -1
		for _, l := range o.Trace {
			switch {
			case strings.HasPrefix(l, "got "):
				var id int
				var d string
				fmt.Sscanf(l, "got %d %s", &id, &d)
				if id <= last {
					return "order-or-duplicate", fmt.Sprintf("%s: unit %d delivered after unit %d | %s", c.name, id, last, short(o.Trace))
				}
				last = id
				got++
				if id < 1 || id > len(ref) || ref[id-1] == "" {
					return "unwritten-unit", fmt.Sprintf("%s: a unit with PTS index %d was delivered; the lock-step reference has none | %s", c.name, id, short(o.Trace))
				}
				if d != ref[id-1] {
					return "payload-modified-" + c.name, fmt.Sprintf("%s unit %d: the reader was handed %s, but the same unit consumed immediately after its write is %s (content depends on delivery time: buffers shared between units) | %s",
						c.name, id, d, ref[id-1], short(o.Trace))
				}
			case strings.HasPrefix(l, "removed "):
				fmt.Sscanf(l, "removed discarded=%d", &disc)
			}
		}
		want := 0
		for _, d := range ref {
			if d != "" {
				want++
			}
		}
		if disc >= 0 && got+disc != want {
			return "drop-not-counted", fmt.Sprintf("%s: %d delivered + %d counted as discarded != %d written (queue 8 never fills) | %s", c.name, got, disc, want, short(o.Trace))
		}
		return "", ""
	}
}

func short(tr []string) string {
	s := strings.Join(tr, ", ")
	if len(s) > 1500 {
		s = s[:1500] + "..."
	}
	return s
}
