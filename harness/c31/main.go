// C31: segment operations identify segments by instant.
//
// Engine B. For every (server time zone = time.Local, record path format, segment set) of a finite
// alphabet (the formats: one or more per class the configuration validator accepts, see recFormats) the segment files are written with the recorder's naming (real recordstore.Path.Encode under
// that time.Local) into a private tree; a real api.API and a real playback.Server (both listening on unix
// sockets in the private directory, nothing bypassed) are asked to
//
//	list:     GET /v3/recordings/get/<path>, GET /v3/recordings/list, GET <playback>/list?path=
//	delete:   DELETE /v3/recordings/deletesegment?path=&start=<instant q written with UTC offset o>
//
// for every query instant q (every listed instant, every listed instant shifted by the difference between
// a client offset and the server's, +1 s) and every writing o in {Z, server's own offset, +05:30, -08:00,
// +14:00}. Oracle, from the statement: the instants listed by the API and by playback are the same and
// are those of the files (to the extent the name identifies them); a delete removes exactly the files
// of that path whose (listed) start instant equals q, whatever o; everything else stays.
package main

import (
	"context"
	"encoding/json"
	"fmt"
	"io"
	"io/fs"
	"net"
	"net/http"
	"net/url"
	"os"
	"path/filepath"
	"sort"
	"strings"
	"sync"
	"time"

	"github.com/bluenviron/mediacommon/v2/pkg/codecs/mpeg4audio"
	"github.com/bluenviron/mediacommon/v2/pkg/formats/fmp4"
	"github.com/bluenviron/mediacommon/v2/pkg/formats/fmp4/seekablebuffer"
	mcodecs "github.com/bluenviron/mediacommon/v2/pkg/formats/mp4/codecs"
	"github.com/gin-gonic/gin"

	"github.com/bluenviron/mediamtx/internal/api"
	"github.com/bluenviron/mediamtx/internal/auth"
	"github.com/bluenviron/mediamtx/internal/conf"
	"github.com/bluenviron/mediamtx/internal/logger"
	"github.com/bluenviron/mediamtx/internal/playback"
	"github.com/bluenviron/mediamtx/internal/recordstore"
	"github.com/bluenviron/mediamtx/internal/zzverif/c26lib"
	"github.com/bluenviron/mediamtx/internal/zzverif/vcommon"
)

type nilLogger struct{}

func (nilLogger) Log(logger.Level, string, ...any) {}

type allowAll struct{}

func (allowAll) Authenticate(*auth.Request) (string, *auth.Error) { return "", nil }
func (allowAll) RefreshJWTJWKS()                                  {}

type apiParent struct {
	nilLogger
	cnf *conf.Conf
}

func (p *apiParent) APIConfigSnapshot() *conf.Conf                       { return p.cnf }
func (p *apiParent) APIConfigGlobalPatch(conf.OptionalGlobal) error      { return fmt.Errorf("unused") }
func (p *apiParent) APIConfigPathDefaultsPatch(conf.OptionalPath) error  { return fmt.Errorf("unused") }
func (p *apiParent) APIConfigPathsAdd(string, conf.OptionalPath) error   { return fmt.Errorf("unused") }
func (p *apiParent) APIConfigPathsPatch(string, conf.OptionalPath) error { return fmt.Errorf("unused") }
func (p *apiParent) APIConfigPathsReplace(string, conf.OptionalPath) error {
	return fmt.Errorf("unused")
}
func (p *apiParent) APIConfigPathsDelete(string) error { return fmt.Errorf("unused") }

func unixClient(sock string) *http.Client {
	return &http.Client{Transport: &http.Transport{
		DialContext: func(ctx context.Context, _, _ string) (net.Conn, error) {
			var d net.Dialer
			return d.DialContext(ctx, "unix", sock)
		},
	}, Timeout: 20 * time.Second}
}

// segmentBytes is a minimal valid fMP4 segment (one audio track, one part of 1 s).
func segmentBytes() []byte {
	init := fmp4.Init{Tracks: []*fmp4.InitTrack{{
		ID: 1, TimeScale: 48000,
		Codec: &mcodecs.MPEG4Audio{Config: mpeg4audio.AudioSpecificConfig{
			Type: mpeg4audio.ObjectTypeAACLC, SampleRate: 48000, ChannelCount: 2, ChannelConfig: 2, //nolint:staticcheck
		}},
	}}}
	var b1 seekablebuffer.Buffer
	if err := init.Marshal(&b1); err != nil {
		vcommon.Harness("fmp4 init: %v", err)
	}
	parts := fmp4.Parts{{Tracks: []*fmp4.PartTrack{{
		ID: 1, BaseTime: 0,
		Samples: []*fmp4.Sample{{Duration: 48000, Payload: []byte{1, 2}}},
	}}}}
	var b2 seekablebuffer.Buffer
	if err := parts.Marshal(&b2); err != nil {
		vcommon.Harness("fmp4 parts: %v", err)
	}
	return append(b1.Bytes(), b2.Bytes()...)
}

type recFormat struct {
	name     string
	rel      string
	class    string // how the name carries the instant
	playback bool   // the configuration accepts the format with the playback server enabled (it has %f); measured with conf.Load
}

// The alphabet of record path formats: one (or more) per class of format the configuration validator
// ACCEPTS (conf.Path.validate: %path, and either %s or all of %Y %m %d %H %M %S; %f only when the
// playback server is enabled). Every entry is verified against the real validator before use.
var recFormats = []recFormat{
	// only calendar fields
	{name: "default", rel: "%path/%Y-%m-%d_%H-%M-%S-%f", class: "local-time-name"},
	{name: "with-z", rel: "%path/%Y-%m-%d_%H-%M-%S-%f_%z", class: "name-with-utc-offset"},
	// only %s
	{name: "unix", rel: "%path/%s-%f", class: "unix-time-name"},
	// calendar fields in directories
	{name: "date-dirs", rel: "%Y/%m/%d/%path/%H-%M-%S-%f", class: "local-time-name"},

	// ---- second round: the other accepted classes ----
	// without %f (accepted while the playback server is disabled): the name denotes one second
	{name: "unix-seconds", rel: "%path/%s", class: "unix-time-name-without-f"},
	{name: "calendar-seconds", rel: "%path/%Y-%m-%d_%H-%M-%S", class: "local-time-name-without-f"},
	// %s together with a PARTIAL calendar set (date directories, Unix-time file names): accepted
	// because %s makes %H %M %S optional; the instant is the Unix time
	{name: "unix-in-day-dir", rel: "%path/%Y-%m-%d/%s-%f", class: "unix-time-name-with-partial-calendar"},
	{name: "day-dirs-then-unix", rel: "%Y/%m/%d/%path/%s-%f", class: "unix-time-name-with-partial-calendar"},
	{name: "unix-in-month-dir", rel: "%path/%Y-%m/%s-%f", class: "unix-time-name-with-partial-calendar"},
	{name: "unix-in-hour-dir", rel: "%path/%H/%s-%f", class: "unix-time-name-with-partial-calendar"},
	{name: "unix-with-day-in-name", rel: "%path/%Y%m%d_%s_%f", class: "unix-time-name-with-partial-calendar"},
	{name: "unix-in-day-dir-seconds", rel: "%path/%Y-%m-%d/%s", class: "unix-time-name-with-partial-calendar-without-f"},
	// %s together with the FULL calendar set
	{name: "unix-and-calendar", rel: "%path/%Y-%m-%d_%H-%M-%S-%f_%s", class: "unix-time-name-with-full-calendar"},
	{name: "unix-then-calendar-dirs", rel: "%s/%path/%Y/%m/%d/%H-%M-%S-%f", class: "unix-time-name-with-full-calendar"},
	// %z next to %s
	{name: "unix-with-z", rel: "%path/%s-%f_%z", class: "unix-time-name-with-utc-offset"},
	{name: "unix-in-day-dir-with-z", rel: "%path/%Y-%m-%d_%z/%s-%f", class: "unix-time-name-with-partial-calendar-and-utc-offset"},
	// %z in a directory
	{name: "z-dir", rel: "%path/%z/%Y-%m-%d_%H-%M-%S-%f", class: "name-with-utc-offset"},
	// fields repeated
	{name: "repeated-date", rel: "%path/%Y-%m-%d/%Y-%m-%d_%H-%M-%S-%f", class: "local-time-name"},
	{name: "repeated-unix", rel: "%path/%s/%s-%f", class: "unix-time-name"},
	{name: "repeated-all", rel: "%path/%Y-%m-%d_%H-%M-%S-%f_%z/%s-%f_%z_%H-%M-%S", class: "unix-time-name-with-full-calendar"},
	// every field a directory (the file is <micros>.mp4); time of day in directories
	{name: "all-dirs", rel: "%path/%Y/%m/%d/%H/%M/%S/%f", class: "local-time-name"},
	{name: "hour-dirs", rel: "%Y-%m-%d/%H/%path/%M-%S-%f", class: "local-time-name"},
}

// acceptFormats runs every format of the alphabet through the real configuration loader
// (conf.Load -> Conf.Validate -> Path.validate): it must be accepted with the playback server disabled;
// whether it is also accepted with it enabled decides if the playback listing is part of the case.
func acceptFormats(base string) {
	for i := range recFormats {
		f := &recFormats[i]
		for _, pb := range []bool{false, true} {
			yml := fmt.Sprintf("playback: %v\npathDefaults:\n  recordPath: %s\npaths:\n  a:\n  a/b:\n",
				pb, filepath.Join(base, "rec", f.rel))
			fp := filepath.Join(base, "conf.yml")
			if err := os.WriteFile(fp, []byte(yml), 0o644); err != nil {
				vcommon.Harness("%v", err)
			}
			c, _, err := conf.Load(fp, nil, nilLogger{})
			os.Remove(fp)
			switch {
			case err != nil && !pb:
				os.RemoveAll(base)
				vcommon.Harness("format %q of the alphabet is not accepted by the configuration: %v", f.rel, err)
			case err == nil:
				if c.Paths["a"] == nil || c.Paths["a"].RecordPath != filepath.Join(base, "rec", f.rel) {
					os.RemoveAll(base)
					vcommon.Harness("format %q: loaded configuration does not carry the record path", f.rel)
				}
				if pb {
					f.playback = true
				}
			}
		}
	}
}

type writing struct {
	name string
	loc  func(q time.Time) *time.Location
}

var writings = []writing{
	{"Z", func(time.Time) *time.Location { return time.UTC }},
	{"server-offset", func(time.Time) *time.Location { return time.Local }},
	{"+05:30", func(time.Time) *time.Location { return time.FixedZone("", 5*3600+1800) }},
	{"-08:00", func(time.Time) *time.Location { return time.FixedZone("", -8*3600) }},
	{"+14:00", func(time.Time) *time.Location { return time.FixedZone("", 14*3600) }},
}

var clientOffsets = []int{0, 5*3600 + 1800, -8 * 3600, 14 * 3600}

// the first four formats are the first-round alphabet (full query set in both tiers)
const firstRoundFormats = 4

func mustParse(s string) time.Time {
	t, err := time.Parse(time.RFC3339Nano, s)
	if err != nil {
		panic(err)
	}
	return t
}

type segFile struct {
	path   string // path name
	start  time.Time
	fpath  string
	cands  []c26lib.Cand // instants the name denotes
	listed time.Time     // instant reported by recordings/get
}

func regularFiles(root string) map[string]bool {
	out := map[string]bool{}
	filepath.WalkDir(root, func(p string, d fs.DirEntry, err error) error { //nolint:errcheck
		if err == nil && d.Type().IsRegular() {
			out[p] = true
		}
		return nil
	})
	return out
}

func main() {
	r := vcommon.Start("C31", "exploration")
	gin.SetMode(gin.ReleaseMode)
	zones := c26lib.Zones(r.Thorough())
	r.Rule = "all (server zone x record path format [every class the configuration validator accepts] x segment set x query instant x UTC-offset writing of the instant) through the real API and playback servers; " +
		"distinct = (zone, format, set, kind of query, writing, outcome)"

	base, err := os.MkdirTemp("", "c31-")
	if err != nil {
		vcommon.Harness("%v", err)
	}
	fail := func(format string, a ...any) {
		os.RemoveAll(base)
		vcommon.Harness(format, a...)
	}
	seg := segmentBytes()
	pathNames := []string{"a", "a/b"}
	outcomes := map[string]int{}
	var outMu sync.Mutex
	acceptFormats(base)
	classes := map[string]bool{}
	withPlayback := 0
	for _, f := range recFormats {
		classes[f.class] = true
		if f.playback {
			withPlayback++
		}
	}

	// Violations are collected per case (zone, format, set) and handed to the run in case order, so that
	// the representative of a class is the same on every run although the cases of a zone run in parallel.
	type pendingViol struct {
		key, what string
		replay    any
	}

	for zi, z := range zones {
		time.Local = z.Loc // before any server goroutine of this zone exists
		const nsets = 3
		pending := make([][]pendingViol, len(recFormats)*nsets)
		vcommon.Parallel(len(recFormats)*nsets, func(job int) {
			fi, si := job/nsets, job%nsets
			f := recFormats[fi]
			violation := func(key, what string, replay any) {
				pending[job] = append(pending[job], pendingViol{key, what, replay})
			}
			{
				// segment sets
				t0 := mustParse("2026-09-21T10:11:12.345678Z")
				_, offLocal := t0.In(time.Local).Zone()
				collide := []time.Time{t0}
				for _, o := range clientOffsets {
					collide = append(collide, t0.Add(time.Duration(o-offLocal)*time.Second))
				}
				sets := []struct {
					name string
					ts   []time.Time
				}{
					{"collisions", collide},
					{"dst-a", []time.Time{mustParse("2024-02-29T23:30:00.000001Z"), mustParse("2024-03-31T00:59:59.999999Z"),
						mustParse("2024-03-31T01:30:00Z"), mustParse("2024-10-27T00:30:00.5Z"), mustParse("2024-03-10T06:59:59.999999Z"),
						mustParse("2024-03-10T07:30:00Z"), mustParse("2024-11-03T05:30:00.25Z")}},
					{"dst-b", []time.Time{mustParse("2024-10-27T01:30:00.5Z"), mustParse("2024-11-03T06:30:00.25Z"), t0}},
				}
				{
					set := sets[si]
					root := filepath.Join(base, fmt.Sprintf("%d-%d-%d", zi, fi, si))
					if err := os.MkdirAll(root, 0o755); err != nil {
						fail("%v", err)
					}
					recordPath := filepath.Join(root, "rec", f.rel)
					absFormat := recordstore.PathAddExtension(recordPath, conf.RecordFormatFMP4)
					toks := c26lib.Tokenize(absFormat)
					confs := map[string]*conf.Path{}
					for _, pn := range pathNames {
						confs[pn] = &conf.Path{Name: pn, RecordPath: recordPath, RecordFormat: conf.RecordFormatFMP4}
					}

					// the recorder's files
					var files []*segFile
					seenT := map[int64]bool{}
					for _, t := range set.ts {
						if seenT[t.UnixMicro()] {
							continue
						}
						seenT[t.UnixMicro()] = true
						for _, pn := range pathNames {
							lt := t.In(time.Local)
							fpath := recordstore.Path{Start: lt}.Encode(
								recordstore.PathAddExtension(strings.ReplaceAll(recordPath, "%path", pn), conf.RecordFormatFMP4))
							if m := c26lib.ModelEncode(toks, pn, lt); m != fpath {
								fail("model encoding %q != recorder's %q", m, fpath)
							}
							if err := os.MkdirAll(filepath.Dir(fpath), 0o755); err != nil {
								fail("%v", err)
							}
							if _, err := os.Stat(fpath); err == nil {
								fail("two segments of the set share the name %s", fpath)
							}
							if err := os.WriteFile(fpath, seg, 0o644); err != nil {
								fail("%v", err)
							}
							files = append(files, &segFile{path: pn, start: t, fpath: fpath, cands: c26lib.Parse(toks, fpath, pn, time.Local)})
						}
					}
					all := regularFiles(root)
					if len(all) != len(files) {
						fail("tree has %d files, expected %d", len(all), len(files))
					}

					// the servers
					apiSock := filepath.Join(root, "api.sock")
					pbSock := filepath.Join(root, "pb.sock")
					a := &api.API{
						Address: "unix://" + apiSock, ReadTimeout: conf.Duration(10 * time.Second), WriteTimeout: conf.Duration(10 * time.Second),
						AuthManager: allowAll{}, Parent: &apiParent{cnf: &conf.Conf{Paths: confs}},
					}
					if err := a.Initialize(); err != nil {
						fail("api: %v", err)
					}
					pb := &playback.Server{
						Address: "unix://" + pbSock, ReadTimeout: conf.Duration(10 * time.Second), WriteTimeout: conf.Duration(10 * time.Second),
						PathConfs: confs, AuthManager: allowAll{}, Parent: nilLogger{},
					}
					if err := pb.Initialize(); err != nil {
						fail("playback: %v", err)
					}
					apiC, pbC := unixClient(apiSock), unixClient(pbSock)
					get := func(c *http.Client, method, u string) (int, []byte) {
						req, _ := http.NewRequest(method, u, nil)
						res, err := c.Do(req)
						if err != nil {
							fail("%s %s: %v", method, u, err)
						}
						defer res.Body.Close()
						b, _ := io.ReadAll(res.Body)
						return res.StatusCode, b
					}
					tag := fmt.Sprintf("%s|%s|%s", z.Name, f.name, set.name)
					rep := func(extra map[string]any) map[string]any {
						m := map[string]any{"zone": z.Name, "recordPath": "<root>/rec/" + f.rel, "set": set.name}
						var ss []string
						for _, t := range set.ts {
							ss = append(ss, t.Format(time.RFC3339Nano))
						}
						m["segments"] = ss
						for k, v := range extra {
							m[k] = v
						}
						return m
					}

					// ---- listing: API get, API list, playback list ------------------------------------------
					for _, pn := range pathNames {
						var mine []*segFile
						for _, sf := range files {
							if sf.path == pn {
								mine = append(mine, sf)
							}
						}
						st, body := get(apiC, http.MethodGet, "http://api/v3/recordings/get/"+pn)
						var rec struct {
							Name     string
							Segments []struct{ Start time.Time }
						}
						if st != 200 || json.Unmarshal(body, &rec) != nil {
							fail("recordings/get/%s: %d %s", pn, st, body)
						}
						r.Eval(1)
						var apiList []time.Time
						for _, s := range rec.Segments {
							apiList = append(apiList, s.Start)
						}
						// the playback server only exists for formats the configuration accepts with it enabled
						same := true
						if f.playback {
							st, body = get(pbC, http.MethodGet, "http://pb/list?path="+url.QueryEscape(pn))
							var entries []struct {
								Start    time.Time
								Duration float64
							}
							if st != 200 || json.Unmarshal(body, &entries) != nil {
								fail("playback list %s: %d %s", pn, st, body)
							}
							r.Eval(1)
							var pbList []time.Time
							for _, e := range entries {
								pbList = append(pbList, e.Start)
							}
							same = len(apiList) == len(pbList)
							for i := 0; same && i < len(apiList); i++ {
								same = apiList[i].Equal(pbList[i])
							}
							if !same {
								violation("api-and-playback-list-disagree:"+f.name,
									fmt.Sprintf("[%s] path %q: recordings/get lists %v, playback list %v", tag, pn, apiList, pbList), rep(map[string]any{"path": pn}))
							}
						}
						// every file is listed with an instant its name denotes (exactly its start when unambiguous)
						used := map[int]bool{}
						for _, sf := range mine {
							found := -1
							for i, lt := range apiList {
								if used[i] {
									continue
								}
								for _, c := range sf.cands {
									if c.Contains(lt) {
										found = i
									}
								}
								if found >= 0 {
									break
								}
							}
							if found < 0 {
								violation("segment-not-listed-with-its-instant:"+f.name,
									fmt.Sprintf("[%s] path %q: segment started %s (file %s) is not among the listed instants %v", tag, pn,
										sf.start.Format(time.RFC3339Nano), strings.ReplaceAll(sf.fpath, root, "<root>"), apiList), rep(map[string]any{"path": pn}))
								sf.listed = sf.start
								continue
							}
							used[found] = true
							sf.listed = apiList[found]
						}
						if len(apiList) != len(mine) {
							violation("listed-count:"+f.name, fmt.Sprintf("[%s] path %q: %d files, %d listed", tag, pn, len(mine), len(apiList)), rep(map[string]any{"path": pn}))
						}
						amb := 0
						for _, sf := range mine {
							if len(sf.cands) > 1 {
								amb++
							}
						}
						r.Distinct(fmt.Sprintf("%s|list|%s|n=%d|ambiguous=%d|agree=%v", tag, pn, len(mine), amb, same))
					}
					st, body := get(apiC, http.MethodGet, "http://api/v3/recordings/list")
					var lst struct {
						Items []struct {
							Name     string
							Segments []struct{ Start time.Time }
						}
					}
					if st != 200 || json.Unmarshal(body, &lst) != nil {
						fail("recordings/list: %d %s", st, body)
					}
					r.Eval(1)
					for _, it := range lst.Items {
						var want []time.Time
						for _, sf := range files {
							if sf.path == it.Name {
								want = append(want, sf.listed)
							}
						}
						sort.Slice(want, func(i, j int) bool { return want[i].Before(want[j]) })
						ok := len(want) == len(it.Segments)
						for i := 0; ok && i < len(want); i++ {
							ok = want[i].Equal(it.Segments[i].Start)
						}
						if !ok {
							violation("recordings-list-and-get-disagree:"+f.name, fmt.Sprintf("[%s] path %q: list %v, get %v", tag, it.Name, it.Segments, want), rep(nil))
						}
					}
					if len(lst.Items) != len(pathNames) {
						violation("recordings-list-paths:"+f.name, fmt.Sprintf("[%s] recordings/list has %d paths", tag, len(lst.Items)), rep(nil))
					}

					// ---- deletion ----------------------------------------------------------------------------
					type query struct {
						kind string
						q    time.Time
					}
					var queries []query
					seenQ := map[int64]bool{}
					addQ := func(kind string, q time.Time) {
						if !seenQ[q.UnixMicro()] {
							seenQ[q.UnixMicro()] = true
							queries = append(queries, query{kind, q})
						}
					}
					for _, sf := range files {
						if sf.path == "a" {
							addQ("listed-instant", sf.listed)
						}
					}
					for _, sf := range files {
						if sf.path != "a" {
							continue
						}
						_, off := sf.listed.In(time.Local).Zone()
						offs := clientOffsets
						if fi >= firstRoundFormats && !r.Thorough() {
							offs = clientOffsets[1:3] // quick tier, second-round formats: +05:30 and -08:00 only
						}
						for _, o := range offs {
							if o != off {
								addQ("no-segment:shifted-by-offset-difference", sf.listed.Add(time.Duration(off-o)*time.Second))
								addQ("no-segment:shifted-by-offset-difference", sf.listed.Add(time.Duration(o-off)*time.Second))
							}
						}
						addQ("no-segment:+1s", sf.listed.Add(time.Second))
						addQ("no-segment:+1us", sf.listed.Add(time.Microsecond))
					}
					for _, qu := range queries {
						expected := map[string]bool{}
						dontcare := map[string]bool{}
						for _, sf := range files {
							if sf.path != "a" {
								continue
							}
							if sf.listed.Equal(qu.q) {
								expected[sf.fpath] = true
								continue
							}
							// a name that denotes more than the listed instant (two occurrences of a wall clock in a
							// DST overlap; a whole second when the format has no %f): the statement leaves open
							// whether a query for another instant the name denotes removes the file
							for _, c := range sf.cands {
								if (len(sf.cands) > 1 || c.Span > time.Microsecond) && c.Contains(qu.q) {
									dontcare[sf.fpath] = true
								}
							}
						}
						kind := qu.kind
						if len(expected) != 0 {
							kind = "listed-instant"
						} else if kind == "listed-instant" {
							kind = "no-segment"
						}
						for _, w := range writings {
							ws := qu.q.In(w.loc(qu.q)).Format(time.RFC3339Nano)
							v := url.Values{}
							v.Set("path", "a")
							v.Set("start", ws)
							st, body := get(apiC, http.MethodDelete, "http://api/v3/recordings/deletesegment?"+v.Encode())
							r.Eval(1)
							now := map[string]bool{} // which files of the tree are still there
							for p := range all {
								if fi, err := os.Lstat(p); err == nil && fi.Mode().IsRegular() {
									now[p] = true
								}
							}
							var removed []string
							for p := range all {
								if !now[p] {
									removed = append(removed, p)
								}
							}
							sort.Strings(removed)
							// classification of the writing relative to the server
							_, offServer := qu.q.In(time.Local).Zone()
							_, offWritten := qu.q.In(w.loc(qu.q)).Zone()
							wclass := "offset-differs-from-server"
							if offServer == offWritten {
								wclass = "offset-equals-server"
							}
							var bad []string
							missing := false
							for p := range expected {
								if now[p] {
									missing = true
								}
							}
							for _, p := range removed {
								if !expected[p] && !dontcare[p] {
									bad = append(bad, strings.ReplaceAll(p, root, "<root>"))
								}
							}
							outcome := "ok"
							rp := rep(map[string]any{"query": ws, "instant": qu.q.UTC().Format(time.RFC3339Nano), "writing": w.name, "status": st})
							if missing {
								outcome = "segment-not-removed"
								violation("segment-not-removed:"+wclass+":"+f.class,
									strings.ReplaceAll(fmt.Sprintf("[%s] DELETE deletesegment?path=a&start=%s -> %d %s: the segment of \"a\" listed with start %s (same instant) is still there; removed: %v",
										tag, ws, st, strings.TrimSpace(vcommon.Short(string(body), 120)), qu.q.In(time.Local).Format(time.RFC3339Nano), removed), root, "<root>"), rp)
							}
							if len(bad) != 0 {
								outcome += "+other-file-removed"
								violation("other-segment-removed:"+wclass+":"+f.class,
									fmt.Sprintf("[%s] DELETE deletesegment?path=a&start=%s -> %d: removed %v, whose listed start is not that instant (segments with that instant: %d)",
										tag, ws, st, bad, len(expected)), rp)
							}
							if !missing && len(bad) == 0 && len(expected) == 0 && len(removed) != 0 {
								outcome = "ok(removed-a-file-whose-name-also-denotes-the-instant)"
							}
							if !missing && len(bad) == 0 && len(expected) != 0 && st != 200 {
								violation("removed-but-error-status:"+f.name, fmt.Sprintf("[%s] start=%s removed the segment but answered %d", tag, ws, st), rp)
							}
							outMu.Lock()
							outcomes[fmt.Sprintf("%s|%s|%s", kind, wclass, outcome)]++
							outMu.Unlock()
							r.Distinct(fmt.Sprintf("%s|delete|%s|%s|%s|%s|status=%d", tag, kind, w.name, wclass, outcome, st))
							if zi == 1 && fi == 0 && si == 0 && len(expected) != 0 {
								r.Sample(map[string]any{"zone": z.Name, "format": f.rel, "start": ws, "status": st, "removed": len(removed), "outcome": outcome})
							}
							// restore
							for _, p := range removed {
								if err := os.MkdirAll(filepath.Dir(p), 0o755); err != nil {
									fail("%v", err)
								}
								if err := os.WriteFile(p, seg, 0o644); err != nil {
									fail("%v", err)
								}
							}
						}
					}
					apiC.CloseIdleConnections()
					pbC.CloseIdleConnections()
					a.Close()
					pb.Close()
					os.RemoveAll(root)
				}
			}
		})
		for _, pv := range pending {
			for _, v := range pv {
				r.Violation(v.key, v.what, v.replay)
			}
		}
	}
	time.Local = time.UTC
	os.RemoveAll(base)
	r.Set("zones", len(zones))
	r.Set("formats", len(recFormats))
	r.Set("format_classes", len(classes))
	r.Set("formats_with_playback_listing", withPlayback)
	r.Set("outcomes", outcomes)
	r.Exhaustive = true
	r.Assumptions = []string{
		"a segment's start instant is the one recordings/get lists for it (required to be one its file name denotes; C26 judges the naming itself)",
		"a file whose name denotes two instants (DST overlap, format without %z/%s) may or may not be removed by a query for the instant that was not listed",
		"a format without %f (accepted only while the playback server is disabled) names one second: the listed instant is the whole second, and a query for another instant of that second (+1 us) may or may not remove the file; the playback listing is not requested for such formats",
		"record path formats: one or more per class the configuration accepts (calendar only, %s only, %s with a partial or the full calendar set, %z present/absent and next to %s, repeated fields, fields in directories / in the file name, with/without %f); each is checked with conf.Load before use; when %s is present the instant is the Unix time whatever calendar fields accompany it",
		"instants are 2024 (DST days of Europe/Rome and America/New_York, leap day) and 2026; offsets {Z, server's, +05:30, -08:00, +14:00}; RFC 3339 with fractional seconds",
		"playback /get and the recordings list pagination are not exercised; authentication accepts everything",
		"servers run on unix sockets created by the real Initialize of api.API and playback.Server",
	}
	r.Finish()
}
