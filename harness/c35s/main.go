// Harness c35s: the per-connection CONCURRENCY layer of property C35 ("no unauthenticated network input crashes
// the server") for the MoQ server, whose session handles every stream of a connection in its own goroutine.
// Engine S: the real internal/servers/moq session (instrumented; errgroup replaced by a scheduler-aware
// equivalent) behind its transport seam (the `conn` interface), driven by an unauthenticated client that opens
// 3 streams at once; every interleaving of the stream handlers up to the deviation bound is explored.
// Oracle: no panic in any goroutine (= process death), no deadlock, the session terminates when the client goes
// away and reports its end to the server exactly once.
package main

import (
	"context"
	"errors"
	"fmt"
	"io"
	"net"
	"strings"

	"github.com/bluenviron/mediamtx/internal/auth"
	"github.com/bluenviron/mediamtx/internal/defs"
	"github.com/bluenviron/mediamtx/internal/protocols/moq/controlmessage"
	"github.com/bluenviron/mediamtx/internal/protocols/moq/subgroup"
	smoq "github.com/bluenviron/mediamtx/internal/servers/moq"
	"github.com/bluenviron/mediamtx/internal/zzverif/vcommon"
	"github.com/bluenviron/mediamtx/internal/zzverif/vexplore"
	"github.com/bluenviron/mediamtx/zzverif/vsched"
)

// ---- fake transport -------------------------------------------------------------------------------------------

type fconn struct {
	transport defs.APIMoQSessionTransport
	uni       chan *fstream
	bidi      chan *fstream
	closed    chan struct{}
	isClosed  bool
	opened    int
}

func newConn(tr defs.APIMoQSessionTransport) *fconn {
	c := &fconn{transport: tr, uni: make(chan *fstream, 8), bidi: make(chan *fstream, 8), closed: make(chan struct{})}
	vsched.Name(c.uni, "uniQ")
	vsched.Name(c.bidi, "bidiQ")
	vsched.Name(c.closed, "connClosed")
	return c
}

func (c *fconn) RemoteAddr() net.Addr { return &net.UDPAddr{IP: net.IPv4(127, 0, 0, 1), Port: 4444} }

func (c *fconn) Transport() defs.APIMoQSessionTransport { return c.transport }

func (c *fconn) accept(q chan *fstream) (*fstream, error) {
	sel := vsched.Select(false, vsched.R(q), vsched.R(c.closed))
	if sel.I == 0 {
		return vsched.Got(q, sel), nil
	}
	return nil, errors.New("connection closed")
}

func (c *fconn) AcceptUniStream(_ context.Context) (io.Reader, error) {
	s, err := c.accept(c.uni)
	if err != nil {
		return nil, err
	}
	return s, nil
}

func (c *fconn) AcceptStream(_ context.Context) (io.ReadWriteCloser, error) {
	s, err := c.accept(c.bidi)
	if err != nil {
		return nil, err
	}
	return s, nil
}

func (c *fconn) open() (*fstream, error) {
	vsched.Yield()
	if c.isClosed {
		return nil, errors.New("connection closed")
	}
	c.opened++
	vsched.Log("server opened stream srv%d", c.opened)
	return &fstream{c: c, name: fmt.Sprintf("srv%d", c.opened), fin: true}, nil
}

func (c *fconn) OpenUniStreamSync(_ context.Context) (io.WriteCloser, error) {
	s, err := c.open()
	if err != nil {
		return nil, err
	}
	return s, nil
}

func (c *fconn) OpenStreamSync(_ context.Context) (io.ReadWriteCloser, error) {
	s, err := c.open()
	if err != nil {
		return nil, err
	}
	return s, nil
}

func (c *fconn) CloseWithError(_ uint64, _ string) error {
	if !c.isClosed {
		c.isClosed = true
		vsched.Log("connection closed")
		vsched.Close(c.closed)
	}
	return nil
}

// fstream: a stream whose client side has already sent `chunks` (each Read returns one chunk; a Read is a
// scheduling point, the arrival of the chunk) and then either closed its side (fin) or keeps it open.
type fstream struct {
	c      *fconn
	name   string
	chunks [][]byte
	fin    bool
	eof    bool
	wrote  int
}

func (s *fstream) Read(p []byte) (int, error) {
	vsched.Yield()
	if s.c.isClosed {
		return 0, errors.New("connection closed")
	}
	if len(s.chunks) > 0 {
		n := copy(p, s.chunks[0])
		if n < len(s.chunks[0]) {
			s.chunks[0] = s.chunks[0][n:]
		} else {
			s.chunks = s.chunks[1:]
		}
		return n, nil
	}
	if s.fin {
		if !s.eof {
			s.eof = true
			vsched.Log("server read %s to its end", s.name)
		}
		return 0, io.EOF
	}
	vsched.Recv(s.c.closed)
	return 0, errors.New("connection closed")
}

func (s *fstream) Write(p []byte) (int, error) {
	vsched.Yield()
	if s.c.isClosed {
		return 0, errors.New("connection closed")
	}
	s.wrote += len(p)
	vsched.Log("server wrote %d bytes on %s", len(p), s.name)
	return len(p), nil
}

func (s *fstream) Close() error { return nil }

// ---- path manager: the client is never authorized ----------------------------------------------------------------

type pm struct{}

func deny() error {
	vsched.Yield() // the round trip to the path manager
	return &auth.Error{Wrapped: errors.New("authentication failed")}
}

func (pm) FindPathConf(defs.PathFindPathConfReq) (*defs.PathFindPathConfRes, error) {
	return nil, deny()
}
func (pm) AddReader(defs.PathAddReaderReq) (*defs.PathAddReaderRes, error) { return nil, deny() }
func (pm) AddPublisher(defs.PathAddPublisherReq) (*defs.PathAddPublisherRes, error) {
	return nil, deny()
}

// ---- client alphabet ------------------------------------------------------------------------------------------

type kind struct {
	name string
	bidi bool
	fin  bool
	msg  func() []byte
}

func sg(alias uint64, payload string) []byte {
	g := &subgroup.SubGroup{Header: subgroup.Header{FirstObject: true, TrackAlias: alias}, Objects: []subgroup.Object{{Payload: []byte(payload)}}}
	return g.Marshal()
}

const catalogJSON = `{"version":1,"tracks":[{"name":"0","packaging":"loc","codec":"opus","samplerate":48000,"channelConfig":"2"}]}`

var kinds = []kind{
	{"uSETUP/p", false, true, func() []byte { return controlmessage.Setup{Path: "/p?x=1"}.Marshal() }},
	{"uSETUP/p-open", false, false, func() []byte { return controlmessage.Setup{Path: "/p"}.Marshal() }},
	{"uSETUP-nopath", false, true, func() []byte { return controlmessage.Setup{}.Marshal() }},
	{"bCLIENT_SETUP", true, true, func() []byte { return controlmessage.ClientSetup{Path: "/p"}.Marshal() }},
	{"uGARBAGE", false, true, func() []byte { return []byte{0x7f, 0xff, 0x00, 0x01} }},
	{"uCATALOG", false, true, func() []byte { return sg(0, catalogJSON) }},
	{"uCATALOG-bad", false, true, func() []byte { return sg(0, "{") }},
	{"uDATA1", false, true, func() []byte { return sg(1, "xyz") }},
	{"bSUBSCRIBE.catalog", true, true, func() []byte {
		return controlmessage.Subscribe{RequestID: 0, TrackName: ".catalog"}.Marshal()
	}},
	{"bSUBSCRIBE.catalog-open", true, false, func() []byte {
		return controlmessage.Subscribe{RequestID: 2, TrackName: ".catalog"}.Marshal()
	}},
	{"bSUBSCRIBE0", true, true, func() []byte { return controlmessage.Subscribe{RequestID: 4, TrackName: "0"}.Marshal() }},
	{"bPUBLISH.catalog", true, true, func() []byte {
		return controlmessage.Publish{RequestID: 0, TrackName: ".catalog", TrackAlias: 0}.Marshal()
	}},
	{"bPUBLISH0", true, true, func() []byte { return controlmessage.Publish{RequestID: 2, TrackName: "0", TrackAlias: 1}.Marshal() }},
}

var setupKinds = []int{0, 1, 2, 3}

type spec struct {
	tr      defs.APIMoQSessionTransport
	ver     defs.APIMoQVersion
	streams []int
	admin   bool // an API item read and a kick race with the client
}

func (sp spec) name() string {
	var ks []string
	for _, k := range sp.streams {
		ks = append(ks, kinds[k].name)
	}
	n := string(sp.tr) + "," + string(sp.ver) + "::" + strings.ReplaceAll(strings.Join(ks, "+"), "/", "_")
	if sp.admin {
		n += "+admin"
	}
	return n
}

func body(sp spec) func() {
	return func() {
		c := newConn(sp.tr)
		for i, k := range sp.streams {
			kd := kinds[k]
			m := kd.msg()
			st := &fstream{c: c, name: fmt.Sprintf("c%d:%s", i, kd.name), fin: kd.fin}
			// the client sends everything but the last byte, then the last byte
			if len(m) > 1 {
				st.chunks = [][]byte{m[:len(m)-1], m[len(m)-1:]}
			} else {
				st.chunks = [][]byte{m}
			}
			if kd.bidi {
				vsched.Send(c.bidi, st)
			} else {
				vsched.Send(c.uni, st)
			}
		}
		pathName := ""
		if sp.tr == defs.APIMoQSessionTransportWebTransport {
			pathName = "p"
		}
		sess := smoq.VerifC35SNewSession(c, pathName, sp.ver, pm{}, func() { vsched.Log("session reported closed") })
		if sp.admin {
			vsched.Go(func() {
				it := sess.APIItem()
				vsched.Log("api item state=%s", it.State)
			})
			vsched.Go(func() {
				sess.Kick()
				vsched.Log("kicked")
			})
		}
		vsched.WaitIdle()
		vsched.Log("quiescent connClosedByServer=%v", c.isClosed)
		c.CloseWithError(0, "") // the client goes away
		sess.Wait()
		vsched.Log("session goroutine returned")
	}
}

func check(o *vsched.Outcome) (string, string) {
	tr := strings.Join(o.Trace, ", ")
	if o.Failure != "" {
		cls := strings.SplitN(o.Failure, "\n", 2)[0]
		switch {
		case strings.HasPrefix(o.Failure, "panic"):
			// a panic in a goroutine of the session terminates the server process
			if i := strings.Index(cls, ": "); i > 0 {
				cls = cls[i+2:]
			}
			return "moq-session/panic/" + vcommon.Short(strings.ReplaceAll(cls, " ", "-"), 60), o.Failure + " | " + tr
		case strings.HasPrefix(o.Failure, "deadlock"):
			return "moq-session/deadlock", o.Failure + " | " + tr
		default:
			return "moq-session/sched-" + strings.SplitN(cls, ":", 2)[0], o.Failure + " | " + tr
		}
	}
	n := 0
	done := false
	for _, l := range o.Trace {
		if l == "session reported closed" {
			n++
		}
		if l == "session goroutine returned" {
			done = true
		}
	}
	if !done {
		return "moq-session/not-terminated", "the session goroutine did not return after the client closed the connection | " + tr
	}
	if n != 1 {
		return "moq-session/close-reported", fmt.Sprintf("the session reported its end to the server %d times | %s", n, tr)
	}
	return "", ""
}

func main() {
	transports := []defs.APIMoQSessionTransport{defs.APIMoQSessionTransportQUIC, defs.APIMoQSessionTransportWebTransport}
	versions := []defs.APIMoQVersion{defs.APIMoQVersionDraft16, defs.APIMoQVersionDraft19}
	var scn []*vexplore.Scenario
	add := func(sp spec, thoroughOnly bool) {
		scn = append(scn, &vexplore.Scenario{Name: sp.name(), Desc: "unauthenticated MoQ client opens these streams at once",
			Body: body(sp), Check: check, QuickBound: 1, ThoroughBound: 2, Horizon: 4000, ThoroughOnly: thoroughOnly, Quiet: true})
	}
	allVersions := []defs.APIMoQVersion{defs.APIMoQVersionDraft16, defs.APIMoQVersionDraft17, defs.APIMoQVersionDraft19}
	for _, tr := range transports {
		for _, ver := range allVersions {
			thoroughOnly := ver != versions[0] && ver != versions[1]
			for _, s0 := range setupKinds {
				for x := 0; x < len(kinds); x++ {
					for y := x; y < len(kinds); y++ {
						if x < s0 && contains(setupKinds, x) {
							continue // {s0, x, y} with two set-up kinds: counted once
						}
						add(spec{tr: tr, ver: ver, streams: []int{s0, x, y}}, thoroughOnly)
					}
				}
				add(spec{tr: tr, ver: ver, streams: []int{s0, 8, 11}, admin: true}, thoroughOnly)
			}
		}
	}
	vexplore.Main("C35S", scn, []string{
		"transport seam: the session's `conn` interface (QUIC / WebTransport streams) is a model: streams opened by the client before the session starts, each message arriving in two reads, a read/write/open being a scheduling point; closing the connection fails every pending read",
		"the client is never authorized: the path manager stub answers every request with an authentication error after a scheduling point",
		"golang.org/x/sync/errgroup is replaced by an equivalent built on the scheduler (same contract: first error cancels, panics are not recovered)",
		"client alphabet: 13 stream kinds (SETUP with/without PATH, CLIENT_SETUP, garbage, catalog, bad catalog, data, SUBSCRIBE/PUBLISH of catalog and track, two left open); scenarios = one set-up stream + two further streams, 2 transports x 3 protocol versions; plus an API read and a kick racing with the client",
	})
}

func contains(s []int, v int) bool {
	for _, x := range s {
		if x == v {
			return true
		}
	}
	return false
}
