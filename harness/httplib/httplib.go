// Package httplib is helper code shared by the HTTP-level verification harnesses
// (C04 permissions, C05 CORS, C07 secrets): a capturing logger, stub back ends that
// return recognisable marker data and record every state-changing call, a stub API
// parent, an HTTP client that never follows redirects, and a tiny fMP4 segment writer.
//
// It is mounted through the build overlay as internal/zzverif/httplib.
package httplib

import (
	"bytes"
	"context"
	"fmt"
	"hash/fnv"
	"io"
	"net"
	"net/http"
	"os"
	"path/filepath"
	"sync"
	"sync/atomic"
	"syscall"
	"time"

	"github.com/bluenviron/mediacommon/v2/pkg/formats/fmp4"
	"github.com/bluenviron/mediacommon/v2/pkg/formats/fmp4/seekablebuffer"
	mcodecs "github.com/bluenviron/mediacommon/v2/pkg/formats/mp4/codecs"
	"github.com/google/uuid"

	"github.com/bluenviron/mediamtx/internal/conf"
	"github.com/bluenviron/mediamtx/internal/defs"
	"github.com/bluenviron/mediamtx/internal/logger"
	"github.com/bluenviron/mediamtx/internal/test"
)

// Marker is the prefix of every datum served by the stubs.
const Marker = "MRK"

// ---------------------------------------------------------------------------------------
// logger

// Logger is a logger.Writer that optionally captures formatted lines.
type Logger struct {
	Capture bool
	mu      sync.Mutex
	lines   []string
}

// Log implements logger.Writer.
func (l *Logger) Log(_ logger.Level, format string, args ...any) {
	if !l.Capture {
		return
	}
	s := fmt.Sprintf(format, args...)
	l.mu.Lock()
	l.lines = append(l.lines, s)
	l.mu.Unlock()
}

// Lines returns a copy of the captured lines.
func (l *Logger) Lines() []string {
	l.mu.Lock()
	defer l.mu.Unlock()
	return append([]string(nil), l.lines...)
}

// Reset drops the captured lines.
func (l *Logger) Reset() {
	l.mu.Lock()
	l.lines = nil
	l.mu.Unlock()
}

// ---------------------------------------------------------------------------------------
// call recorder

// Call is one state-changing call that reached a stub.
type Call struct {
	Op  string
	Arg string
}

// Calls records state-changing calls.
type Calls struct {
	mu   sync.Mutex
	list []Call
}

// Add records a call.
func (c *Calls) Add(op, arg string) {
	c.mu.Lock()
	c.list = append(c.list, Call{op, arg})
	c.mu.Unlock()
}

// Snapshot returns a copy of the recorded calls.
func (c *Calls) Snapshot() []Call {
	c.mu.Lock()
	defer c.mu.Unlock()
	return append([]Call(nil), c.list...)
}

// Len returns the number of recorded calls.
func (c *Calls) Len() int {
	c.mu.Lock()
	defer c.mu.Unlock()
	return len(c.list)
}

// ---------------------------------------------------------------------------------------
// stub back ends

// ItemID is the UUID of item i of a stub kind.
func ItemID(kind string, i int) uuid.UUID {
	var u uuid.UUID
	u[0] = 0xAA
	h := fnv.New32a()
	h.Write([]byte(kind))
	sum := h.Sum32()
	u[1], u[2], u[3], u[4] = byte(sum>>24), byte(sum>>16), byte(sum>>8), byte(sum)
	u[6] = 0x40
	u[8] = 0x80
	u[15] = byte(i)
	return u
}

// TagID is a UUID that carries a case number (for state-changing routes with an :id).
func TagID(n int) uuid.UUID {
	var u uuid.UUID
	u[0] = 0xBB
	u[6] = 0x40
	u[8] = 0x80
	u[12] = byte(n >> 24)
	u[13] = byte(n >> 16)
	u[14] = byte(n >> 8)
	u[15] = byte(n)
	return u
}

// UntagID is the inverse of TagID.
func UntagID(s string) (int, bool) {
	u, err := uuid.Parse(s)
	if err != nil || u[0] != 0xBB {
		return 0, false
	}
	return int(u[12])<<24 | int(u[13])<<16 | int(u[14])<<8 | int(u[15]), true
}

var t0 = time.Date(2020, 1, 2, 3, 4, 5, 0, time.UTC)

func mark(kind string, i int) string { return fmt.Sprintf("%s%s%d", Marker, kind, i) }

// PathManager is a stub defs.APIPathManager with N paths and N forward destinations per path.
type PathManager struct {
	N     int
	Calls *Calls
}

func (s *PathManager) item(i int) defs.APIPath {
	return defs.APIPath{
		Name: mark("path", i), ConfName: mark("pathconf", i), Ready: true, Available: true, Online: true,
		Source:  &defs.APIPathSource{Type: defs.APIPathSourceTypeRTSPSession, ID: mark("src", i)},
		Readers: []defs.APIPathReader{{Type: defs.APIPathReaderTypeRTSPSession, ID: mark("rdr", i)}},
		InboundBytes: 123, OutboundBytes: 456,
	}
}

// APIPathsList implements defs.APIPathManager.
func (s *PathManager) APIPathsList() (*defs.APIPathList, error) {
	out := &defs.APIPathList{}
	for i := 0; i < s.N; i++ {
		out.Items = append(out.Items, s.item(i))
	}
	return out, nil
}

// APIPathsGet implements defs.APIPathManager.
func (s *PathManager) APIPathsGet(name string) (*defs.APIPath, error) {
	for i := 0; i < s.N; i++ {
		if it := s.item(i); it.Name == name {
			return &it, nil
		}
	}
	return nil, conf.ErrPathNotFound
}

func (s *PathManager) dest(i int) defs.APIForwardDest {
	return defs.APIForwardDest{ID: ItemID("fwd", i), Pos: i, Created: t0, Protocol: defs.APIForwardDestProtocolRTSP,
		State: defs.APIForwardDestStateError, LastError: mark("fwd", i)}
}

// APIForwardDestList implements defs.APIPathManager.
func (s *PathManager) APIForwardDestList(string) (*defs.APIForwardDestList, error) {
	out := &defs.APIForwardDestList{}
	for i := 0; i < s.N; i++ {
		out.Items = append(out.Items, s.dest(i))
	}
	return out, nil
}

// APIForwardDestGet implements defs.APIPathManager.
func (s *PathManager) APIForwardDestGet(_ string, id uuid.UUID) (*defs.APIForwardDest, error) {
	for i := 0; i < s.N; i++ {
		if d := s.dest(i); d.ID == id {
			return &d, nil
		}
	}
	return nil, fmt.Errorf("destination not found")
}

// HLS is a stub defs.APIHLSServer.
type HLS struct {
	N     int
	Calls *Calls
}

func (s *HLS) sess(i int) defs.APIHLSSession {
	return defs.APIHLSSession{ID: ItemID("hls", i), Created: t0, RemoteAddr: mark("hlsaddr", i), Path: mark("hlspath", i)}
}

// APISessionsList implements defs.APIHLSServer.
func (s *HLS) APISessionsList() (*defs.APIHLSSessionList, error) {
	out := &defs.APIHLSSessionList{}
	for i := 0; i < s.N; i++ {
		out.Items = append(out.Items, s.sess(i))
	}
	return out, nil
}

// APISessionsGet implements defs.APIHLSServer.
func (s *HLS) APISessionsGet(id uuid.UUID) (*defs.APIHLSSession, error) {
	for i := 0; i < s.N; i++ {
		if d := s.sess(i); d.ID == id {
			return &d, nil
		}
	}
	return nil, fmt.Errorf("not found")
}

// APISessionsKick implements defs.APIHLSServer.
func (s *HLS) APISessionsKick(id uuid.UUID) error {
	s.Calls.Add("hls.kick", id.String())
	return nil
}

// APIMuxersList implements defs.APIHLSServer.
func (s *HLS) APIMuxersList() (*defs.APIHLSMuxerList, error) {
	out := &defs.APIHLSMuxerList{}
	for i := 0; i < s.N; i++ {
		out.Items = append(out.Items, defs.APIHLSMuxer{Path: mark("muxer", i), Created: t0, LastRequest: t0})
	}
	return out, nil
}

// APIMuxersGet implements defs.APIHLSServer.
func (s *HLS) APIMuxersGet(name string) (*defs.APIHLSMuxer, error) {
	for i := 0; i < s.N; i++ {
		if mark("muxer", i) == name {
			return &defs.APIHLSMuxer{Path: name, Created: t0, LastRequest: t0}, nil
		}
	}
	return nil, fmt.Errorf("not found")
}

// RTSP is a stub defs.APIRTSPServer.
type RTSP struct {
	Kind  string // "rtsp" or "rtsps"
	N     int
	Calls *Calls
}

func (s *RTSP) conn(i int) defs.APIRTSPConn {
	return defs.APIRTSPConn{ID: ItemID(s.Kind+"conn", i), Created: t0, RemoteAddr: mark(s.Kind+"conn", i)}
}

func (s *RTSP) sess(i int) defs.APIRTSPSession {
	return defs.APIRTSPSession{ID: ItemID(s.Kind+"sess", i), Created: t0, RemoteAddr: mark(s.Kind+"sess", i),
		Path: mark(s.Kind+"path", i), Conns: []uuid.UUID{}}
}

// APIConnsList implements defs.APIRTSPServer.
func (s *RTSP) APIConnsList() (*defs.APIRTSPConnsList, error) {
	out := &defs.APIRTSPConnsList{}
	for i := 0; i < s.N; i++ {
		out.Items = append(out.Items, s.conn(i))
	}
	return out, nil
}

// APIConnsGet implements defs.APIRTSPServer.
func (s *RTSP) APIConnsGet(id uuid.UUID) (*defs.APIRTSPConn, error) {
	for i := 0; i < s.N; i++ {
		if d := s.conn(i); d.ID == id {
			return &d, nil
		}
	}
	return nil, fmt.Errorf("not found")
}

// APISessionsList implements defs.APIRTSPServer.
func (s *RTSP) APISessionsList() (*defs.APIRTSPSessionList, error) {
	out := &defs.APIRTSPSessionList{}
	for i := 0; i < s.N; i++ {
		out.Items = append(out.Items, s.sess(i))
	}
	return out, nil
}

// APISessionsGet implements defs.APIRTSPServer.
func (s *RTSP) APISessionsGet(id uuid.UUID) (*defs.APIRTSPSession, error) {
	for i := 0; i < s.N; i++ {
		if d := s.sess(i); d.ID == id {
			return &d, nil
		}
	}
	return nil, fmt.Errorf("not found")
}

// APISessionsKick implements defs.APIRTSPServer.
func (s *RTSP) APISessionsKick(id uuid.UUID) error {
	s.Calls.Add(s.Kind+".kick", id.String())
	return nil
}

// RTMP is a stub defs.APIRTMPServer.
type RTMP struct {
	Kind  string // "rtmp" or "rtmps"
	N     int
	Calls *Calls
}

func (s *RTMP) conn(i int) defs.APIRTMPConn {
	return defs.APIRTMPConn{ID: ItemID(s.Kind+"conn", i), Created: t0, RemoteAddr: mark(s.Kind+"conn", i),
		State: defs.APIRTMPConnStateRead, Path: mark(s.Kind+"path", i)}
}

// APIConnsList implements defs.APIRTMPServer.
func (s *RTMP) APIConnsList() (*defs.APIRTMPConnList, error) {
	out := &defs.APIRTMPConnList{}
	for i := 0; i < s.N; i++ {
		out.Items = append(out.Items, s.conn(i))
	}
	return out, nil
}

// APIConnsGet implements defs.APIRTMPServer.
func (s *RTMP) APIConnsGet(id uuid.UUID) (*defs.APIRTMPConn, error) {
	for i := 0; i < s.N; i++ {
		if d := s.conn(i); d.ID == id {
			return &d, nil
		}
	}
	return nil, fmt.Errorf("not found")
}

// APIConnsKick implements defs.APIRTMPServer.
func (s *RTMP) APIConnsKick(id uuid.UUID) error {
	s.Calls.Add(s.Kind+".kick", id.String())
	return nil
}

// SRT is a stub defs.APISRTServer.
type SRT struct {
	N     int
	Calls *Calls
}

func (s *SRT) conn(i int) defs.APISRTConn {
	return defs.APISRTConn{ID: ItemID("srt", i), Created: t0, RemoteAddr: mark("srtconn", i),
		State: defs.APISRTConnStateRead, Path: mark("srtpath", i)}
}

// APIConnsList implements defs.APISRTServer.
func (s *SRT) APIConnsList() (*defs.APISRTConnList, error) {
	out := &defs.APISRTConnList{}
	for i := 0; i < s.N; i++ {
		out.Items = append(out.Items, s.conn(i))
	}
	return out, nil
}

// APIConnsGet implements defs.APISRTServer.
func (s *SRT) APIConnsGet(id uuid.UUID) (*defs.APISRTConn, error) {
	for i := 0; i < s.N; i++ {
		if d := s.conn(i); d.ID == id {
			return &d, nil
		}
	}
	return nil, fmt.Errorf("not found")
}

// APIConnsKick implements defs.APISRTServer.
func (s *SRT) APIConnsKick(id uuid.UUID) error {
	s.Calls.Add("srt.kick", id.String())
	return nil
}

// WebRTC is a stub defs.APIWebRTCServer.
type WebRTC struct {
	N     int
	Calls *Calls
}

func (s *WebRTC) sess(i int) defs.APIWebRTCSession {
	return defs.APIWebRTCSession{ID: ItemID("webrtc", i), Created: t0, RemoteAddr: mark("webrtcsess", i),
		State: defs.APIWebRTCSessionStateRead, Path: mark("webrtcpath", i)}
}

// APISessionsList implements defs.APIWebRTCServer.
func (s *WebRTC) APISessionsList() (*defs.APIWebRTCSessionList, error) {
	out := &defs.APIWebRTCSessionList{}
	for i := 0; i < s.N; i++ {
		out.Items = append(out.Items, s.sess(i))
	}
	return out, nil
}

// APISessionsGet implements defs.APIWebRTCServer.
func (s *WebRTC) APISessionsGet(id uuid.UUID) (*defs.APIWebRTCSession, error) {
	for i := 0; i < s.N; i++ {
		if d := s.sess(i); d.ID == id {
			return &d, nil
		}
	}
	return nil, fmt.Errorf("not found")
}

// APISessionsKick implements defs.APIWebRTCServer.
func (s *WebRTC) APISessionsKick(id uuid.UUID) error {
	s.Calls.Add("webrtc.kick", id.String())
	return nil
}

// MoQ is a stub defs.APIMoQServer.
type MoQ struct {
	N     int
	Calls *Calls
}

func (s *MoQ) sess(i int) defs.APIMoQSession {
	return defs.APIMoQSession{ID: ItemID("moq", i), Created: t0, RemoteAddr: mark("moqsess", i),
		State: defs.APIMoQSessionStateRead, Path: mark("moqpath", i)}
}

// APISessionsList implements defs.APIMoQServer.
func (s *MoQ) APISessionsList() (*defs.APIMoQSessionList, error) {
	out := &defs.APIMoQSessionList{}
	for i := 0; i < s.N; i++ {
		out.Items = append(out.Items, s.sess(i))
	}
	return out, nil
}

// APISessionsGet implements defs.APIMoQServer.
func (s *MoQ) APISessionsGet(id uuid.UUID) (*defs.APIMoQSession, error) {
	for i := 0; i < s.N; i++ {
		if d := s.sess(i); d.ID == id {
			return &d, nil
		}
	}
	return nil, fmt.Errorf("not found")
}

// APISessionsKick implements defs.APIMoQServer.
func (s *MoQ) APISessionsKick(id uuid.UUID) error {
	s.Calls.Add("moq.kick", id.String())
	return nil
}

// ---------------------------------------------------------------------------------------
// stub API parent

// Parent is a stub of the API server's parent (core.Core): it hands out the live
// configuration and records every mutation request instead of applying it.
type Parent struct {
	Logger
	Conf  *conf.Conf
	Calls *Calls
}

// APIConfigSnapshot returns the live configuration (like core.Core does).
func (p *Parent) APIConfigSnapshot() *conf.Conf { return p.Conf }

// APIConfigGlobalPatch records the call.
func (p *Parent) APIConfigGlobalPatch(in conf.OptionalGlobal) error {
	p.Calls.Add("config.global.patch", fmt.Sprintf("%+v", in.Values))
	return nil
}

// APIConfigPathDefaultsPatch records the call.
func (p *Parent) APIConfigPathDefaultsPatch(in conf.OptionalPath) error {
	p.Calls.Add("config.pathdefaults.patch", fmt.Sprintf("%+v", in.Values))
	return nil
}

// APIConfigPathsAdd records the call.
func (p *Parent) APIConfigPathsAdd(name string, _ conf.OptionalPath) error {
	p.Calls.Add("config.paths.add", name)
	return nil
}

// APIConfigPathsPatch records the call.
func (p *Parent) APIConfigPathsPatch(name string, _ conf.OptionalPath) error {
	p.Calls.Add("config.paths.patch", name)
	return nil
}

// APIConfigPathsReplace records the call.
func (p *Parent) APIConfigPathsReplace(name string, _ conf.OptionalPath) error {
	p.Calls.Add("config.paths.replace", name)
	return nil
}

// APIConfigPathsDelete records the call.
func (p *Parent) APIConfigPathsDelete(name string) error {
	p.Calls.Add("config.paths.delete", name)
	return nil
}

// LoadConf loads a configuration from YAML text through conf.Load (defaults + Validate).
func LoadConf(dir string, yaml string) (*conf.Conf, error) {
	f, err := os.CreateTemp(dir, "conf*.yml")
	if err != nil {
		return nil, err
	}
	defer os.Remove(f.Name())
	if _, err = f.WriteString(yaml); err != nil {
		return nil, err
	}
	f.Close()
	c, _, err := conf.Load(f.Name(), nil, nil)
	return c, err
}

// ---------------------------------------------------------------------------------------
// HTTP client

// Req is one request.
type Req struct {
	Method string
	URL    string
	Header [][2]string // written with the exact key spelling given
	Body   string
	Host   string
}

// Resp is the response as the client saw it.
type Resp struct {
	Status int
	Header http.Header
	Body   []byte
	Err    error
}

// Client is an HTTP/1.1 client that keeps connections alive, never follows redirects
// and never adds headers of its own besides Host / User-Agent / Content-Length.
type Client struct {
	hc *http.Client
}

// NewClient creates a client for about maxConns concurrent requests (idle pool: maxConns/4 per host, maxConns in total).
func NewClient(maxConns int) *Client {
	tr := &http.Transport{
		DialContext:         (&net.Dialer{Timeout: 20 * time.Second}).DialContext,
		MaxIdleConns:        maxConns,
		MaxIdleConnsPerHost: maxConns / 4,
		IdleConnTimeout:     10 * time.Second,
		DisableCompression:  true,
	}
	return &Client{hc: &http.Client{
		Transport: tr,
		Timeout:   90 * time.Second,
		CheckRedirect: func(*http.Request, []*http.Request) error {
			return http.ErrUseLastResponse
		},
	}}
}

// Close drops idle connections.
func (c *Client) Close() { c.hc.CloseIdleConnections() }

// Do performs one request (with up to 3 attempts on transport errors before anything was answered).
func (c *Client) Do(r Req) Resp {
	var last Resp
	for attempt := 0; attempt < 3; attempt++ {
		var body io.Reader
		if r.Body != "" {
			body = bytes.NewReader([]byte(r.Body))
		}
		req, err := http.NewRequestWithContext(context.Background(), r.Method, r.URL, body)
		if err != nil {
			return Resp{Err: err}
		}
		for _, kv := range r.Header {
			req.Header[kv[0]] = append(req.Header[kv[0]], kv[1])
		}
		if r.Host != "" {
			req.Host = r.Host
		}
		res, err := c.hc.Do(req)
		if err != nil {
			last = Resp{Err: err}
			time.Sleep(50 * time.Millisecond)
			continue
		}
		b, err := io.ReadAll(res.Body)
		res.Body.Close()
		return Resp{Status: res.StatusCode, Header: res.Header, Body: b, Err: err}
	}
	return last
}

// RunN runs f(i) for i in [0,n) with the given number of concurrent workers
// (many more than cores: rejected requests sleep server-side).
func RunN(n, workers int, f func(i int)) {
	if workers > n {
		workers = n
	}
	var next atomic.Int64
	var wg sync.WaitGroup
	for k := 0; k < workers; k++ {
		wg.Add(1)
		go func() {
			defer wg.Done()
			for {
				i := int(next.Add(1)) - 1
				if i >= n {
					return
				}
				f(i)
			}
		}()
	}
	wg.Wait()
}

// RaiseFDLimit raises RLIMIT_NOFILE to its hard limit and returns the soft limit in force.
func RaiseFDLimit() uint64 {
	var l syscall.Rlimit
	if err := syscall.Getrlimit(syscall.RLIMIT_NOFILE, &l); err != nil {
		return 1024
	}
	if l.Cur < l.Max {
		l.Cur = l.Max
		_ = syscall.Setrlimit(syscall.RLIMIT_NOFILE, &l)
		_ = syscall.Getrlimit(syscall.RLIMIT_NOFILE, &l)
	}
	return l.Cur
}

// ---------------------------------------------------------------------------------------
// recordings

// SegmentStart is the start instant of every segment written by WriteSegment's callers.
var SegmentStart = time.Date(2008, 11, 7, 11, 22, 0, 500000000, time.Local)

// SegmentName is the file name (without directory) of a segment starting at SegmentStart
// for record path "<dir>/%path/%Y-%m-%d_%H-%M-%S-%f".
const SegmentName = "2008-11-07_11-22-00-500000.mp4"

// WriteSegment writes a small valid fMP4 recording segment (one H264 track, 2 samples, 2 s).
func WriteSegment(fpath string) error {
	if err := os.MkdirAll(filepath.Dir(fpath), 0o755); err != nil {
		return err
	}
	init := fmp4.Init{
		Tracks: []*fmp4.InitTrack{{
			ID:        1,
			TimeScale: 90000,
			Codec: &mcodecs.H264{
				SPS: test.FormatH264.SPS,
				PPS: test.FormatH264.PPS,
			},
		}},
	}
	var buf1 seekablebuffer.Buffer
	if err := init.Marshal(&buf1); err != nil {
		return err
	}
	var buf2 seekablebuffer.Buffer
	parts := fmp4.Parts{{
		Tracks: []*fmp4.PartTrack{{
			ID:       1,
			BaseTime: 0,
			Samples: []*fmp4.Sample{
				{Duration: 90000, Payload: []byte("MRKsample-one")},
				{Duration: 90000, Payload: []byte("MRKsample-two")},
			},
		}},
	}}
	if err := parts.Marshal(&buf2); err != nil {
		return err
	}
	return os.WriteFile(fpath, append(buf1.Bytes(), buf2.Bytes()...), 0o644)
}
