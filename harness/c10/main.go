// C10: loading any configuration input never panics, and what loads satisfies the documented constraints.
//
// Engine B. The real conf.Load (the function both the start-up and the hot-reload path of Core.run call) and
// decrypt.Decrypt are run on exhaustively enumerated bounded input spaces (see cases.go); the oracle is
// (1) no panic / no process death, (2) on success the predicates of constraints.go hold on the returned Conf.
//
// Containment: conf.Load is synchronous and starts no goroutine, so recover() in the calling goroutine is
// sufficient for panics; inputs that could kill the process with a fatal error instead (stack exhaustion on deep
// nesting, memory exhaustion on alias expansion) and all cases that need a process environment run in worker
// subprocesses (conflib.RunWorkers) that attribute a death to one case.
package main

import (
	"encoding/json"
	"fmt"
	"os"
	"path/filepath"
	"regexp"
	"runtime"
	"strings"
	"sync"
	"time"

	"github.com/bluenviron/mediamtx/internal/conf"
	"github.com/bluenviron/mediamtx/internal/conf/decrypt"
	"github.com/bluenviron/mediamtx/internal/logger"
	"github.com/bluenviron/mediamtx/internal/zzverif/conflib"
	"github.com/bluenviron/mediamtx/internal/zzverif/vcommon"
)

type nullLogger struct{ n int }

func (l *nullLogger) Log(_ logger.Level, _ string, _ ...any) { l.n++ }

type result struct {
	Class string   `json:"class"` // ok | error | panic
	Err   string   `json:"err,omitempty"`
	Panic string   `json:"panic,omitempty"`
	Frame string   `json:"frame,omitempty"`
	Viol  []string `json:"viol,omitempty"`
	Dirty bool     `json:"dirty,omitempty"`
	Ms    int64    `json:"ms,omitempty"`
}

var reTypeMethod = regexp.MustCompile(`^conf\.\(\*[A-Za-z0-9]+\)\.[A-Za-z]+$`)

// panicKey: message class (digits, quoted parts and the slice-bounds details dropped) at the innermost repository
// frame; the UnmarshalJSON/UnmarshalEnv methods of the individual parameter types are one class (they are all
// entered by the same caller with the same nil receiver).
func panicKey(msg, frame string) string {
	if i := strings.Index(msg, " ["); i > 0 && strings.Contains(msg, "slice bounds out of range") {
		msg = msg[:i]
	}
	if strings.Contains(msg, "nil pointer dereference") && reTypeMethod.MatchString(frame) {
		frame = "conf.(*T).Unmarshal"
	}
	return "panic:" + conflib.Slug(msg, 8) + "@" + frame
}

func frameOf(stack string) string {
	for _, ln := range strings.Split(stack, "\n") {
		if strings.HasPrefix(ln, "github.com/bluenviron/mediamtx/internal/") && !strings.Contains(ln, "zzverif") {
			fn := ln
			if i := strings.LastIndex(fn, "("); i > 0 {
				fn = fn[:i]
			}
			return strings.TrimPrefix(fn, "github.com/bluenviron/mediamtx/internal/")
		}
	}
	return "?"
}

// loadOnce runs the real conf.Load on a file with the given content; reload selects the hot-reload call shape
// (explicit path, nil default paths, a logger) after the same process has already loaded a good file.
func loadOnce(fp string, content []byte, env map[string]string, reload bool) result {
	if err := os.WriteFile(fp, content, 0o644); err != nil {
		vcommon.Harness("write: %v", err)
	}
	for k, v := range env {
		os.Setenv(k, v)
	}
	defer func() {
		for k := range env {
			os.Unsetenv(k)
		}
	}()
	var c *conf.Conf
	var err error
	var l logger.Writer
	if reload {
		l = &nullLogger{}
	}
	p, stack := vcommon.Recover(func() { c, _, err = conf.Load(fp, nil, l) })
	switch {
	case p != nil:
		return result{Class: "panic", Panic: fmt.Sprint(p), Frame: frameOf(stack)}
	case err != nil:
		return result{Class: "error", Err: err.Error()}
	}
	var viol []string
	if p, stack = vcommon.Recover(func() { viol = checkConstraints(c) }); p != nil {
		viol = append(viol, "predicate-panic: "+fmt.Sprint(p)+" "+vcommon.Short(stack, 300))
	}
	return result{Class: "ok", Viol: viol}
}

func record(r *vcommon.Run, c fcase, res result, phase string, dist map[string]int, mu *sync.Mutex) {
	r.Eval(1)
	mu.Lock()
	dist[c.class+"/"+res.Class]++
	mu.Unlock()
	sig := res.Class
	if res.Class == "error" {
		sig += ":" + conflib.Slug(res.Err, 5)
	}
	r.Distinct(c.class + "|" + sig)
	rep := c.replay()
	rep["phase"] = phase
	switch res.Class {
	case "panic":
		r.Violation(panicKey(res.Panic, res.Frame),
			fmt.Sprintf("[%s] %s: conf.Load panics: %s (at %s)", c.class, c.label, res.Panic, res.Frame), rep)
	case "ok":
		for _, v := range res.Viol {
			id, _, _ := strings.Cut(v, ":")
			r.Violation("constraint:"+id, fmt.Sprintf("[%s] %s: loaded, but %s", c.class, c.label, v), rep)
		}
	}
}

func main() {
	worker := conflib.IsWorker()
	thorough := false
	var r *vcommon.Run
	if worker {
		thorough = os.Getenv("C10_THOROUGH") == "1"
	} else {
		r = vcommon.Start("C10", "exploration")
		thorough = r.Thorough()
	}

	if worker {
		conflib.ClearConfEnv()
		var cases []fcase
		switch conflib.Phase() {
		case "env":
			cases = envCases(thorough)
		case "risky":
			cases = riskyCases(thorough)
		default:
			vcommon.Harness("unknown phase %q", conflib.Phase())
		}
		dir, err := os.MkdirTemp(os.Getenv("C10_TMP"), "w")
		if err != nil {
			vcommon.Harness("%v", err)
		}
		defer os.RemoveAll(dir)
		fp := filepath.Join(dir, "mediamtx.yml")
		snapshot, restore, equal := conf.VerifC10DefaultUsers()
		if _, _, err = conf.Load("", nil, nil); err != nil {
			vcommon.Harness("default configuration does not load: %v", err)
		}
		snap := snapshot()
		conflib.WorkerMain(len(cases), func(i int) string {
			c := cases[i]
			t0 := time.Now()
			res := loadOnce(fp, c.content, c.env, c.reload)
			res.Ms = time.Since(t0).Milliseconds()
			if !equal(snap) {
				res.Dirty = true
				restore(snap)
			}
			b, _ := json.Marshal(res)
			return string(b)
		})
		return
	}

	conflib.ClearConfEnv()
	if thorough {
		os.Setenv("C10_THOROUGH", "1")
	}
	tmpRoot, err := os.MkdirTemp("", "c10")
	if err != nil {
		vcommon.Harness("%v", err)
	}
	defer os.RemoveAll(tmpRoot)
	os.Setenv("C10_TMP", tmpRoot)

	dist := map[string]int{}
	var mu sync.Mutex

	// ---- phase 1: file contents, no environment, in-process (recover), all cores; each case as a first load and
	// as a reload (after a good load in the same process, with a logger)
	good := filepath.Join(tmpRoot, "good.yml")
	os.WriteFile(good, []byte("paths:\n  cam:\n    source: rtsp://host/x\n  all_others:\n"), 0o644)
	if _, _, err = conf.Load(good, nil, &nullLogger{}); err != nil {
		vcommon.Harness("good file does not load: %v", err)
	}
	fcs := fileCases(thorough)
	t0 := time.Now()
	vcommon.Parallel(len(fcs), func(i int) {
		fp := filepath.Join(tmpRoot, fmt.Sprintf("f%d.yml", i))
		res := loadOnce(fp, fcs[i].content, nil, false)
		record(r, fcs[i], res, "file", dist, &mu)
		// quick: the reload form for every hostile text and every third other case
		if thorough || fcs[i].class == "text:hostile" || i%3 == 0 {
			res2 := loadOnce(fp, fcs[i].content, nil, true)
			record(r, fcs[i], res2, "file-reload", dist, &mu)
			if res.Class != res2.Class {
				r.Violation("reload-differs", fmt.Sprintf("[%s] %s: first load %s, reload %s", fcs[i].class, fcs[i].label, res.Class, res2.Class), fcs[i].replay())
			}
		}
		os.Remove(fp)
		if i%997 == 0 {
			r.Sample(map[string]any{"class": fcs[i].class, "case": fcs[i].label, "outcome": res.Class, "err": vcommon.Short(res.Err, 100)})
		}
	})

	r.Set("phase_file_s", time.Since(t0).Seconds())
	t0 = time.Now()
	// ---- phase 2: decrypt.Decrypt directly (pure function), in-process
	dcs := decryptCases(thorough)
	var decOK, decErr int
	vcommon.Parallel(len(dcs), func(i int) {
		d := dcs[i]
		var out []byte
		var derr error
		p, stack := vcommon.Recover(func() { out, derr = decrypt.Decrypt(d.key, d.text) })
		r.Eval(1)
		mu.Lock()
		switch {
		case p != nil:
			dist["decrypt/panic"]++
		case derr != nil:
			dist["decrypt/error"]++
			decErr++
		default:
			dist["decrypt/ok"]++
			decOK++
		}
		mu.Unlock()
		if p != nil {
			r.Violation(panicKey(fmt.Sprint(p), frameOf(stack)),
				fmt.Sprintf("[decrypt] %s: decrypt.Decrypt panics: %v", d.label, p), map[string]any{"key": d.key, "text": string(d.text), "label": d.label})
			r.Distinct("decrypt|panic|" + fmt.Sprint(d.declen))
			return
		}
		if derr == nil && d.plain != nil && string(out) != string(d.plain) {
			vcommon.Harness("decrypt of a valid ciphertext gives another plaintext (%s)", d.label)
		}
		if derr == nil && d.plain == nil {
			vcommon.Harness("decrypt accepts a forged ciphertext (%s): harness alphabet is wrong", d.label)
		}
		cls := "error"
		if derr == nil {
			cls = "ok"
		}
		r.Distinct(fmt.Sprintf("decrypt|%s|%s|len%d", d.class, cls, min(d.declen, 30)))
	})

	r.Set("phase_decrypt_s", time.Since(t0).Seconds())
	t0 = time.Now()
	// ---- phase 3: cases with a process environment (MTX_ values, keys, MTX_CONFKEY): worker subprocesses
	w := runtime.GOMAXPROCS(0)
	if w > 16 {
		w = 16
	}
	var harnessErr string
	dirtyN := 0
	ecs := envCases(thorough)
	conflib.RunWorkers(len(ecs), w, []string{"-phase", "env"}, 0, 5*time.Minute,
		func(i int, payload string) {
			var res result
			if err := json.Unmarshal([]byte(payload), &res); err != nil {
				harnessErr = fmt.Sprintf("bad payload %d: %v", i, err)
				return
			}
			if res.Dirty {
				dirtyN++
			}
			record(r, ecs[i], res, "env", dist, &mu)
			if i%499 == 0 {
				r.Sample(map[string]any{"class": ecs[i].class, "case": ecs[i].label, "outcome": res.Class, "err": vcommon.Short(res.Err, 100)})
			}
		},
		func(i int, info string) {
			if i < 0 {
				harnessErr = info
				return
			}
			if strings.HasPrefix(info, "timeout") {
				harnessErr = "timeout in env case " + ecs[i].label
				return
			}
			r.Eval(1)
			r.Violation("process-death:"+ecs[i].class, fmt.Sprintf("[%s] %s: the process died: %s", ecs[i].class, ecs[i].label, info), ecs[i].replay())
		})

	r.Set("phase_env_s", time.Since(t0).Seconds())
	t0 = time.Now()
	// ---- phase 4: inputs that may exhaust stack or memory: worker subprocesses with an address-space limit
	rcs := riskyCases(thorough)
	slow := map[string]int64{}
	conflib.RunWorkers(len(rcs), min(w, 4), []string{"-phase", "risky"}, 6<<30, 5*time.Minute,
		func(i int, payload string) {
			var res result
			if err := json.Unmarshal([]byte(payload), &res); err != nil {
				harnessErr = fmt.Sprintf("bad payload %d: %v", i, err)
				return
			}
			record(r, rcs[i], res, "risky", dist, &mu)
			slow[rcs[i].class+": "+rcs[i].label+" -> "+res.Class+" "+vcommon.Short(res.Err, 60)] = res.Ms
		},
		func(i int, info string) {
			if i < 0 {
				harnessErr = info
				return
			}
			if strings.HasPrefix(info, "timeout") {
				harnessErr = "timeout in risky case " + rcs[i].label
				return
			}
			r.Eval(1)
			r.Violation("process-death:"+rcs[i].class, fmt.Sprintf("[%s] %s: the process died (fatal error, not a recoverable panic): %s",
				rcs[i].class, rcs[i].label, vcommon.Short(info, 600)), rcs[i].replay())
		})

	r.Set("phase_risky_s", time.Since(t0).Seconds())
	r.Set("risky_case_ms", slow)
	os.RemoveAll(tmpRoot)
	if harnessErr != "" {
		vcommon.Harness("%s", harnessErr)
	}
	r.Rule = "cases = file contents (every field at 3 levels x mistyped values and alphabet values; constraint products; hostile YAML texts;" +
		" all strings up to length 3 [4 thorough] over a 12-symbol YAML alphabet), each as first load and as reload;" +
		" decrypt.Decrypt on every byte string up to length 6 [10] over 3 symbols, every truncation of valid ciphertexts, key lengths, base64 variants;" +
		" environment: every field x bad values, key shapes, prefix collisions, MTX_CONFKEY x file texts; risky: deep nesting, alias expansion, big inputs;" +
		" distinct = (case class, outcome, error class)"
	r.Set("file_cases", len(fcs))
	r.Set("decrypt_cases", len(dcs))
	r.Set("env_cases", len(ecs))
	r.Set("risky_cases", len(rcs))
	r.Set("outcomes_by_class", dist)
	r.Set("decrypt_ok", decOK)
	r.Set("env_cases_that_modified_package_level_default_users", dirtyN)
	okN := 0
	for k, v := range dist {
		if strings.HasSuffix(k, "/ok") {
			okN += v
		}
	}
	r.Set("loads_accepted_and_checked_against_constraints", okN)
	if okN < 200 || decOK < 3 {
		vcommon.Harness("vacuous: %d accepted loads, %d successful decryptions", okN, decOK)
	}
	r.Exhaustive = true
	r.Assumptions = []string{
		"bounded input spaces as enumerated in harness/c10/cases.go; 'all byte strings' is covered only up to the stated lengths/alphabets",
		"hot reload is represented by the call Core.run makes (conf.Load(path, nil, logger)) executed in a process that has already loaded a configuration; Core itself (watcher, reloadConf) is not started here",
		"constraint predicates written from the property statement, mediamtx.yml comments and error texts: harness/c10/constraints.go",
		"alwaysAvailableFile pointing to real MP4 files is outside the alphabet (only missing files)",
	}
	r.Finish()
}
