package main

import (
	"fmt"
	"regexp"
	"sort"
	"strings"
	"time"

	"github.com/bluenviron/gortsplib/v5"
	"github.com/bluenviron/gortsplib/v5/pkg/auth"

	"github.com/bluenviron/mediamtx/internal/conf"
)

// The documented constraints a loaded configuration satisfies (property statement; comments of mediamtx.yml;
// the texts of the errors conf.Validate documents them with). Written independently of Validate's control flow:
// they are evaluated on the final Conf, after every deprecated-parameter rewrite and environment override.

var (
	rePathName   = regexp.MustCompile(`^[0-9a-zA-Z_\-/\.]+$`)
	sourceSchemes = []string{
		"rtsp://", "rtsps://", "rtsp+http://", "rtsps+http://", "rtsp+ws://", "rtsps+ws://", "rtmp://", "rtmps://",
		"http://", "https://", "udp://", "udp+mpegts://", "unix+mpegts://", "udp+rtp://", "unix+rtp://", "srt://",
		"moqt://", "whep://", "wheps://",
	}
)

func validName(n string) bool {
	if n == "" || n[0] == '/' || n[len(n)-1] == '/' || !rePathName.MatchString(n) {
		return false
	}
	for _, seg := range strings.Split(n, "/") {
		if seg == "." || seg == ".." {
			return false
		}
	}
	return true
}

func isStatic(src string) bool { return src != "publisher" && src != "redirect" }

func checkConstraints(c *conf.Conf) []string {
	var v []string
	bad := func(id, format string, a ...any) { v = append(v, id+": "+fmt.Sprintf(format, a...)) }

	if c.ReadTimeout <= 0 {
		bad("readTimeout-positive", "readTimeout=%d", c.ReadTimeout)
	}
	if c.WriteTimeout <= 0 {
		bad("writeTimeout-positive", "writeTimeout=%d", c.WriteTimeout)
	}
	if c.WriteQueueSize <= 0 || c.WriteQueueSize&(c.WriteQueueSize-1) != 0 {
		bad("writeQueueSize-power-of-two", "writeQueueSize=%d", c.WriteQueueSize)
	}
	if c.UDPMaxPayloadSize > 1472 {
		bad("udpMaxPayloadSize-max", "udpMaxPayloadSize=%d", c.UDPMaxPayloadSize)
	}

	// servers: an enabled server has its listen address
	need := func(on bool, name, val string) {
		if on && val == "" {
			bad("address-set-when-enabled", "%s is empty although the server is enabled", name)
		}
	}
	need(c.API, "apiAddress", c.APIAddress)
	need(c.Metrics, "metricsAddress", c.MetricsAddress)
	need(c.PPROF, "pprofAddress", c.PPROFAddress)
	need(c.Playback, "playbackAddress", c.PlaybackAddress)
	need(c.RTMP, "rtmpAddress", c.RTMPAddress)
	need(c.HLS, "hlsAddress", c.HLSAddress)
	need(c.WebRTC, "webrtcAddress", c.WebRTCAddress)
	need(c.MoQ, "moqQUICAddress", c.MoQQUICAddress)
	if c.RTSP {
		_, udp := c.RTSPTransports[gortsplib.ProtocolUDP]
		_, mc := c.RTSPTransports[gortsplib.ProtocolUDPMulticast]
		plain := c.RTSPEncryption == conf.EncryptionNo || c.RTSPEncryption == conf.EncryptionOptional
		enc := c.RTSPEncryption == conf.EncryptionOptional || c.RTSPEncryption == conf.EncryptionStrict
		need(plain, "rtspAddress", c.RTSPAddress)
		need(plain && udp, "rtpAddress", c.RTPAddress)
		need(plain && udp, "rtcpAddress", c.RTCPAddress)
		need((plain || enc) && mc, "multicastIPRange", c.MulticastIPRange)
		if plain && mc && (c.MulticastRTPPort == 0 || c.MulticastRTCPPort == 0) {
			bad("address-set-when-enabled", "multicast RTP/RTCP port is 0")
		}
		need(enc, "rtspsAddress", c.RTSPSAddress)
		need(enc && udp, "srtpAddress", c.SRTPAddress)
		need(enc && udp, "srtcpAddress", c.SRTCPAddress)
		if enc && mc && (c.MulticastSRTPPort == 0 || c.MulticastSRTCPPort == 0) {
			bad("address-set-when-enabled", "multicast SRTP/SRTCP port is 0")
		}
		if len(c.RTSPAuthMethods) == 0 {
			bad("rtspAuthMethods-nonempty", "no RTSP authentication method")
		}
		for _, m := range c.RTSPAuthMethods {
			if m == conf.RTSPAuthMethod(auth.VerifyMethodDigestMD5) {
				if c.AuthMethod != conf.AuthMethodInternal {
					bad("digest-needs-internal", "digest with authMethod %s", c.AuthMethod)
				}
				for _, u := range c.AuthInternalUsers {
					if u.User.IsHashed() || u.Pass.IsHashed() {
						bad("digest-no-hashed-credentials", "digest with hashed credentials")
					}
				}
			}
		}
	}
	switch c.AuthMethod {
	case conf.AuthMethodInternal:
		for _, u := range c.AuthInternalUsers {
			if u.User == "" {
				bad("internal-user-nonempty", "empty user name")
			}
			if u.User == "any" && u.Pass != "" {
				bad("any-user-no-password", "user any with a password")
			}
		}
	case conf.AuthMethodHTTP:
		if !strings.HasPrefix(c.AuthHTTPAddress, "http://") && !strings.HasPrefix(c.AuthHTTPAddress, "https://") {
			bad("authHTTPAddress-url", "authHTTPAddress=%q", c.AuthHTTPAddress)
		}
	case conf.AuthMethodJWT:
		if !strings.HasPrefix(c.AuthJWTJWKS, "http://") && !strings.HasPrefix(c.AuthJWTJWKS, "https://") {
			bad("authJWTJWKS-url", "authJWTJWKS=%q", c.AuthJWTJWKS)
		}
		if c.AuthJWTClaimKey == "" {
			bad("authJWTClaimKey-nonempty", "empty claim key")
		}
	default:
		bad("authMethod-member", "authMethod=%q", c.AuthMethod)
	}
	if c.WebRTC {
		if c.WebRTCLocalUDPAddress == "" && c.WebRTCLocalTCPAddress == "" && len(c.WebRTCICEServers2) == 0 {
			bad("webrtc-reachability", "no local UDP/TCP address and no ICE server")
		}
		if (c.WebRTCLocalUDPAddress != "" || c.WebRTCLocalTCPAddress != "") && !c.WebRTCIPsFromInterfaces && len(c.WebRTCAdditionalHosts) == 0 {
			bad("webrtc-hosts", "no IPs from interfaces and no additional hosts")
		}
		for _, s := range c.WebRTCICEServers2 {
			if !strings.HasPrefix(s.URL, "stun:") && !strings.HasPrefix(s.URL, "turn:") && !strings.HasPrefix(s.URL, "turns:") {
				bad("ice-server-url", "ICE server %q", s.URL)
			}
		}
	}

	// paths
	if len(c.Paths) != len(c.OptionalPaths) {
		bad("paths-filled", "%d paths for %d entries", len(c.Paths), len(c.OptionalPaths))
	}
	aliases := 0
	names := make([]string, 0, len(c.Paths))
	for n := range c.Paths {
		names = append(names, n)
	}
	sort.Strings(names)
	primaries := map[uint][]string{}
	secondaries := map[uint][]string{}
	for _, n := range names {
		p := c.Paths[n]
		if p == nil {
			bad("paths-filled", "path %q is nil", n)
			continue
		}
		if p.Name != n {
			bad("paths-filled", "path %q has name %q", n, p.Name)
		}
		if n == "all" || n == "all_others" || n == "~^.*$" {
			aliases++
		}
		isRe := n == "all" || n == "all_others" || strings.HasPrefix(n, "~")
		if isRe != (p.Regexp != nil) {
			bad("regexp-filled", "path %q: regexp presence %v", n, p.Regexp != nil)
		}
		if !isRe && !validName(n) {
			bad("path-name-valid", "path name %q", n)
		}
		srcOK := p.Source == "publisher" || p.Source == "redirect" || p.Source == "rpiCamera"
		for _, s := range sourceSchemes {
			if strings.HasPrefix(p.Source, s) {
				srcOK = true
			}
		}
		if !srcOK {
			bad("source-member", "path %q source %q", n, p.Source)
		}
		if isRe && isStatic(p.Source) && !p.SourceOnDemand {
			bad("regexp-static-source-on-demand", "path %q: source %q without sourceOnDemand", n, p.Source)
		}
		if p.Source == "publisher" && p.SourceOnDemand {
			bad("sourceOnDemand-not-with-publisher", "path %q", n)
		}
		if p.Source == "redirect" && p.SourceRedirect == "" || p.Source != "redirect" && p.SourceRedirect != "" {
			bad("sourceRedirect-iff-redirect", "path %q source %q redirect %q", n, p.Source, p.SourceRedirect)
		}
		if isRe && p.RunOnInit != "" {
			bad("runOnInit-not-on-regexp", "path %q", n)
		}
		if (p.RunOnDemand != "" || p.RunOnUnDemand != "") && p.Source != "publisher" {
			bad("runOnDemand-only-publisher", "path %q", n)
		}
		for _, pp := range []string{p.SRTReadPassphrase, p.SRTPublishPassphrase} {
			if pp != "" && (len(pp) < 10 || len(pp) > 79) {
				bad("srt-passphrase-length", "path %q: %d characters", n, len(pp))
			}
		}
		if p.SRTPublishPassphrase != "" && p.Source != "publisher" {
			bad("srtPublishPassphrase-only-publisher", "path %q", n)
		}
		if !strings.Contains(p.RecordPath, "%path") {
			bad("recordPath-has-path", "path %q recordPath %q", n, p.RecordPath)
		}
		full := true
		for _, e := range []string{"%Y", "%m", "%d", "%H", "%M", "%S"} {
			if !strings.Contains(p.RecordPath, e) {
				full = false
			}
		}
		if !full && !strings.Contains(p.RecordPath, "%s") {
			bad("recordPath-full-timestamp", "path %q recordPath %q", n, p.RecordPath)
		}
		if c.Playback && !strings.Contains(p.RecordPath, "%f") {
			bad("recordPath-has-f-with-playback", "path %q recordPath %q", n, p.RecordPath)
		}
		if p.RecordSegmentDuration > conf.Duration(24*time.Hour) {
			bad("recordSegmentDuration-max-1d", "path %q: %d", n, p.RecordSegmentDuration)
		}
		if p.RecordDeleteAfter != 0 && p.RecordDeleteAfter < p.RecordSegmentDuration {
			bad("recordDeleteAfter-not-below-segment", "path %q: deleteAfter %d < segment %d", n, p.RecordDeleteAfter, p.RecordSegmentDuration)
		}
		if p.AlwaysAvailable {
			if isRe {
				bad("alwaysAvailable-not-on-regexp", "path %q", n)
			}
			if p.SourceOnDemand {
				bad("alwaysAvailable-not-on-demand", "path %q", n)
			}
			if p.RunOnDemand != "" || p.RunOnUnDemand != "" {
				bad("alwaysAvailable-no-runOnDemand", "path %q", n)
			}
			if p.AlwaysAvailableFile == "" && len(p.AlwaysAvailableTracks) == 0 {
				bad("alwaysAvailable-needs-tracks", "path %q", n)
			}
			if p.AlwaysAvailableFile != "" && len(p.AlwaysAvailableTracks) != 0 {
				bad("alwaysAvailable-file-xor-tracks", "path %q", n)
			}
			if p.UseAbsoluteTimestamp {
				bad("alwaysAvailable-no-absolute-timestamp", "path %q", n)
			}
		}
		for _, fw := range p.Forward {
			ok := false
			for _, s := range []string{"rtmp://", "rtmps://", "rtsp://", "rtsps://", "srt://", "whip://", "whips://"} {
				if strings.HasPrefix(fw.Dest, s) {
					ok = true
				}
			}
			if !ok {
				bad("forward-dest-scheme", "path %q dest %q", n, fw.Dest)
			}
		}
		if p.Source == "rpiCamera" {
			if p.RPICameraSecondary {
				secondaries[p.RPICameraCamID] = append(secondaries[p.RPICameraCamID], n)
			} else {
				primaries[p.RPICameraCamID] = append(primaries[p.RPICameraCamID], n)
			}
			if p.RPICameraWidth == 0 || p.RPICameraHeight == 0 {
				bad("rpiCamera-size", "path %q", n)
			}
		}
	}
	if aliases > 1 {
		bad("all-aliases-unique", "%d of all, all_others, ~^.*$", aliases)
	}
	for id, ps := range primaries {
		if len(ps) > 1 {
			bad("rpiCamera-id-unique", "camera %d used by %v", id, ps)
		}
	}
	for id, ss := range secondaries {
		if len(primaries[id]) == 0 {
			bad("rpiCamera-secondary-has-primary", "camera %d: secondaries %v without primary", id, ss)
		}
		if len(ss) > 1 {
			bad("rpiCamera-one-secondary", "camera %d: secondaries %v", id, ss)
		}
	}
	return v
}
