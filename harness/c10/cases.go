package main

import (
	"encoding/base64"
	"fmt"
	"strings"

	"golang.org/x/crypto/nacl/secretbox"

	. "github.com/bluenviron/mediamtx/internal/zzverif/conflib" //nolint:revive
)

type fcase struct {
	class   string
	label   string
	content []byte
	env     map[string]string
	reload  bool
}

func (c fcase) replay() map[string]any {
	s := string(c.content)
	if len(s) > 3000 {
		s = s[:3000] + fmt.Sprintf("...(%d bytes)", len(c.content))
	}
	return map[string]any{"class": c.class, "label": c.label, "file": s, "env": c.env}
}

func doc(class, label string, n *Node) fcase {
	return fcase{class: class, label: label, content: []byte(n.YAML())}
}

func short(s string, n int) string {
	if len(s) > n {
		return s[:n] + "~"
	}
	return s
}

// ---------------------------------------------------------------------------------------------------------
// file contents

func fileCases(thorough bool) []fcase {
	var out []fcase
	levels := []struct {
		name string
		loc  func(key string) []string
		fs   []Field
	}{
		{"global", func(k string) []string { return []string{k} }, GlobalFields()},
		{"pathDefaults", func(k string) []string { return []string{"pathDefaults", k} }, PathFields()},
		{"path", func(k string) []string { return []string{"paths", "p", k} }, PathFields()},
	}
	// (i) every field x mistyped values, and x its own alphabet (valid and invalid members)
	for _, lv := range levels {
		for _, f := range lv.fs {
			mt := Mistyped()
			if !thorough {
				if lv.name == "pathDefaults" {
					mt = nil
				} else {
					mt = mt[:12]
				}
			}
			for _, v := range mt {
				out = append(out, doc("mistyped:"+lv.name, strings.Join(lv.loc(f.Key), ".")+"="+v.Label(), M().WithPath(lv.loc(f.Key), v)))
			}
			// quick: the whole alphabet at path level; at the other levels the parameters with a format / bound of
			// their own (field-specific alphabets)
			if thorough || lv.name == "path" || KeyAlphabet(f.Key) != nil {
				for _, v := range FieldAlphabet(f, thorough) {
					out = append(out, doc("alphabet:"+lv.name, strings.Join(lv.loc(f.Key), ".")+"="+v.Label(), M().WithPath(lv.loc(f.Key), v)))
				}
			}
		}
	}
	// whole sections mistyped
	for _, sec := range []string{"paths", "pathDefaults", "authInternalUsers"} {
		for _, v := range Mistyped() {
			out = append(out, doc("mistyped:section", sec+"="+v.Label(), M(sec, v)))
		}
	}
	for _, v := range Mistyped() {
		out = append(out, doc("mistyped:section", "paths.p="+v.Label(), M("paths", M("p", v))))
		out = append(out, doc("mistyped:section", "unknownKey="+v.Label(), M("unknownKey", v)))
	}

	// (ii) the documented constraints as small products
	durs := []string{"-1s", "0s", "1ns", "10s"}
	for _, rt := range durs {
		for _, wt := range durs {
			for _, wq := range []string{"-1", "0", "1", "3", "512", "1024"} {
				out = append(out, doc("product:timeouts", rt+"/"+wt+"/"+wq,
					M("readTimeout", S(rt), "writeTimeout", S(wt), "writeQueueSize", L(wq))))
			}
		}
	}
	for _, rb := range []string{"-1", "0", "3", "512"} {
		for _, wq := range []string{"3", "512"} {
			out = append(out, doc("product:timeouts", "readBufferCount="+rb+" writeQueueSize="+wq, M("readBufferCount", L(rb), "writeQueueSize", L(wq))))
		}
	}
	recPaths := keyAlphabet("recordPath")
	for _, rp := range recPaths {
		for _, pb := range []string{"true", "false"} {
			out = append(out, doc("product:recordPath", rp.S+" playback="+pb, M("playback", L(pb), "pathDefaults", M("recordPath", rp), "paths", M("p", N()))))
			out = append(out, doc("product:recordPath", rp.S+" playback="+pb+" (path)", M("playback", L(pb), "paths", M("p", M("recordPath", rp)))))
			out = append(out, doc("product:recordPath", rp.S+" playback="+pb+" (deprecated global)", M("playback", L(pb), "recordPath", rp, "paths", M("p", N()))))
			out = append(out, doc("product:recordPath", rp.S+" playback="+pb+" (no path)", M("playback", L(pb), "pathDefaults", M("recordPath", rp))))
		}
	}
	rd := []string{"0s", "1s", "1h", "24h", "25h", "-1s"}
	for _, da := range rd {
		for _, sd := range rd {
			out = append(out, doc("product:recordDurations", da+"/"+sd, M("paths", M("p", M("recordDeleteAfter", S(da), "recordSegmentDuration", S(sd))))))
			out = append(out, doc("product:recordDurations", da+"/"+sd+" (defaults/path)", M("pathDefaults", M("recordDeleteAfter", S(da)), "paths", M("p", M("recordSegmentDuration", S(sd))))))
			out = append(out, doc("product:recordDurations", da+"/"+sd+" (deprecated global)", M("recordDeleteAfter", S(da), "recordSegmentDuration", S(sd), "paths", M("p", N()))))
		}
	}
	names := []string{"p", "~^r(.*)$", "all_others", "~[bad", "a/../b", "all", "~^.*$", "", "/x", "x/", "a b", "~"}
	if !thorough {
		names = names[:5]
	}
	for _, name := range names {
		for _, src := range keyAlphabet("source") {
			for _, od := range []string{"true", "false"} {
				for _, aa := range []string{"true", "false"} {
					for _, roi := range []string{"", "cmd"} {
						p := M("source", src, "sourceOnDemand", L(od), "runOnInit", S(roi))
						if aa == "true" {
							p = p.With("alwaysAvailable", L("true")).With("alwaysAvailableTracks", Q(M("codec", S("H264"))))
						}
						if src.S == "redirect" {
							p = p.With("sourceRedirect", S("/other"))
						}
						if strings.HasPrefix(src.S, "udp+rtp") || strings.HasPrefix(src.S, "unix+rtp") {
							p = p.With("rtpSDP", S("v=0"))
						}
						out = append(out, doc("product:path-name-source", fmt.Sprintf("%q src=%s onDemand=%s always=%s init=%q", name, src.S, od, aa, roi),
							M("paths", M(name, p))))
					}
				}
			}
		}
	}
	for i, a := range []string{"all", "all_others", "~^.*$"} {
		for j, b := range []string{"all", "all_others", "~^.*$"} {
			if i < j {
				out = append(out, doc("product:aliases", a+"+"+b, M("paths", M(a, N(), b, N()))))
			}
		}
	}
	// rpiCamera: three paths, each absent / (camera 0|1) x (primary|secondary)
	type cam struct {
		id  string
		sec string
	}
	opts := []*cam{nil, {"0", "false"}, {"0", "true"}, {"1", "false"}, {"1", "true"}}
	for _, a := range opts {
		for _, b := range opts {
			for _, c := range opts {
				ps := M()
				lbl := ""
				for i, o := range []*cam{a, b, c} {
					if o == nil {
						lbl += "-"
						continue
					}
					lbl += o.id + map[string]string{"false": "P", "true": "S"}[o.sec]
					ps = ps.With(fmt.Sprintf("cam%d", i), M("source", S("rpiCamera"), "rpiCameraCamID", L(o.id), "rpiCameraSecondary", L(o.sec),
						"rpiCameraWidth", L("640"), "rpiCameraHeight", L("480")))
				}
				if len(ps.Keys) == 0 {
					continue
				}
				out = append(out, doc("product:rpiCamera", lbl, M("paths", ps)))
			}
		}
	}
	for _, codec := range keyAlphabet("rpiCameraCodec") {
		for _, w := range keyAlphabet("rpiCameraWidth") {
			for _, h := range []string{"1080", "0", "2048", "722"} {
				for _, sec := range []string{"true", "false"} {
					ps := M("main", M("source", S("rpiCamera")),
						"x", M("source", S("rpiCamera"), "rpiCameraSecondary", L(sec), "rpiCameraCamID", L(map[string]string{"true": "0", "false": "1"}[sec]),
							"rpiCameraCodec", codec, "rpiCameraWidth", w, "rpiCameraHeight", L(h)))
					out = append(out, doc("product:rpiCamera-size", codec.S+" "+w.S+"x"+h+" secondary="+sec, M("paths", ps)))
				}
			}
		}
	}
	for _, k := range []string{"rpiCameraExposure", "rpiCameraAWB", "rpiCameraDenoise", "rpiCameraMetering", "rpiCameraAfMode", "rpiCameraAfRange",
		"rpiCameraAfSpeed", "rpiCameraH264Profile", "rpiCameraH264Level", "rpiCameraProfile", "rpiCameraLevel", "rpiCameraHardwareH264Profile",
		"rpiCameraHardwareH264Level", "rpiCameraSoftwareH264Profile", "rpiCameraSoftwareH264Level", "rpiCameraAWBGains"} {
		for _, v := range keyAlphabet(k) {
			out = append(out, doc("product:rpiCamera-enums", k+"="+v.Label(), M("paths", M("cam", M("source", S("rpiCamera"), k, v)))))
		}
	}
	// RTSP listeners
	addrKeys := []string{"rtspAddress", "rtspsAddress", "rtpAddress", "rtcpAddress", "multicastIPRange", "srtpAddress", "srtcpAddress"}
	portKeys := []string{"multicastRTPPort", "multicastRTCPPort", "multicastSRTPPort", "multicastSRTCPPort"}
	for _, encKey := range []string{"rtspEncryption", "encryption"} {
		for _, enc := range []string{"no", "optional", "strict"} {
			for _, tr := range [][]string{{"udp", "multicast", "tcp"}, {"tcp"}, {"udp"}, {"multicast"}, {}} {
				for _, trKey := range []string{"rtspTransports", "protocols"} {
					base := M(encKey, S(enc), trKey, QS(tr...))
					out = append(out, doc("product:rtsp", fmt.Sprintf("%s=%s %s=%v", encKey, enc, trKey, tr), base))
					for _, k := range addrKeys {
						out = append(out, doc("product:rtsp", fmt.Sprintf("%s=%s %s=%v %s empty", encKey, enc, trKey, tr, k), base.With(k, S(""))))
					}
					for _, k := range portKeys {
						out = append(out, doc("product:rtsp", fmt.Sprintf("%s=%s %s=%v %s=0", encKey, enc, trKey, tr, k), base.With(k, L("0"))))
					}
					out = append(out, doc("product:rtsp", fmt.Sprintf("%s=%s %s=%v rtsp off", encKey, enc, trKey, tr), base.With("rtsp", L("false")).With("rtspAddress", S(""))))
					out = append(out, doc("product:rtsp", fmt.Sprintf("%s=%s %s=%v rtspDisable", encKey, enc, trKey, tr), base.With("rtspDisable", L("true")).With("rtspAddress", S(""))))
					out = append(out, doc("product:rtsp", fmt.Sprintf("%s=%s %s=%v rtsp on, rtspDisable false, empty", encKey, enc, trKey, tr),
						base.With("rtsp", L("false")).With("rtspDisable", L("false")).With("rtspAddress", S("")).With("rtspsAddress", S(""))))
				}
			}
		}
	}
	// servers and their addresses, with the deprecated disable switches
	for _, s := range []struct{ on, addr, off string }{
		{"api", "apiAddress", ""}, {"metrics", "metricsAddress", ""}, {"pprof", "pprofAddress", ""}, {"playback", "playbackAddress", ""},
		{"rtmp", "rtmpAddress", "rtmpDisable"}, {"hls", "hlsAddress", "hlsDisable"}, {"webrtc", "webrtcAddress", "webrtcDisable"}, {"moq", "moqQUICAddress", ""},
	} {
		for _, on := range []string{"true", "false"} {
			d := M(s.on, L(on), s.addr, S(""))
			out = append(out, doc("product:servers", s.on+"="+on+" empty address", d))
			if s.off != "" {
				for _, off := range []string{"true", "false"} {
					out = append(out, doc("product:servers", s.on+"="+on+" "+s.off+"="+off+" empty address", d.With(s.off, L(off))))
				}
			}
		}
	}
	// authentication
	for _, am := range []string{"internal", "http", "jwt"} {
		for _, ha := range keyAlphabet("authHTTPAddress") {
			for _, jw := range keyAlphabet("authJWTJWKS") {
				for _, ck := range keyAlphabet("authJWTClaimKey") {
					out = append(out, doc("product:auth", am+" "+ha.S+" "+jw.S+" "+ck.S, M("authMethod", S(am), "authHTTPAddress", ha, "authJWTJWKS", jw, "authJWTClaimKey", ck)))
				}
			}
		}
		for _, eu := range keyAlphabet("externalAuthenticationURL") {
			out = append(out, doc("product:auth", am+" externalAuthenticationURL="+eu.S, M("authMethod", S(am), "externalAuthenticationURL", eu)))
		}
	}
	creds := []string{"", "user", "any", sha256C, argon2C}
	for _, am := range [][]string{{"basic"}, {"digest"}, {"basic", "digest"}, {}} {
		for _, amKey := range []string{"rtspAuthMethods", "authMethods"} {
			for _, u := range creds {
				for _, p := range creds {
					for _, meth := range []string{"internal", "http"} {
						d := M(amKey, QS(am...), "authMethod", S(meth), "authHTTPAddress", S("http://host/auth"),
							"authInternalUsers", Q(M("user", S(u), "pass", S(p), "permissions", Q(M("action", S("read"))))))
						out = append(out, doc("product:rtsp-auth", fmt.Sprintf("%s=%v %s user=%s pass=%s", amKey, am, meth, short(u, 10), short(p, 10)), d))
					}
				}
			}
		}
	}
	// deprecated per-path credentials
	dc := []*Node{nil, S(""), S("user"), S("any"), S(sha256C)}
	for _, pu := range dc {
		for _, pp := range dc {
			for _, lvl := range []string{"pathDefaults", "path"} {
				for _, custom := range []bool{false, true} {
					for _, key := range []string{"publish", "read"} {
						p := M()
						if pu != nil {
							p = p.With(key+"User", pu)
						}
						if pp != nil {
							p = p.With(key+"Pass", pp)
						}
						d := M("paths", M("p", N(), "all_others", N()))
						if lvl == "path" {
							d = M("paths", M("p", p, "all_others", N()))
						} else {
							d = d.With("pathDefaults", p)
						}
						if custom {
							d = d.With("authInternalUsers", Q(M("user", S("u1"), "permissions", Q(M("action", S("read"))))))
						}
						out = append(out, doc("product:deprecated-credentials", fmt.Sprintf("%s %sUser=%v %sPass=%v custom=%v", lvl, key, lbl(pu), key, lbl(pp), custom), d))
					}
				}
			}
		}
	}
	for _, ips := range []*Node{Q(), QS("127.0.0.1/32"), QS("x"), N()} {
		out = append(out, doc("product:deprecated-credentials", "publishIPs="+ips.Label(), M("paths", M("p", M("publishIPs", ips)))))
		out = append(out, doc("product:deprecated-credentials", "readIPs="+ips.Label(), M("pathDefaults", M("readIPs", ips), "paths", M("p", N()))))
	}
	// WebRTC
	for _, on := range []string{"true", "false"} {
		for _, udp := range []string{"", ":8189"} {
			for _, tcp := range []string{"", ":8189"} {
				for _, ice := range []*Node{Q(), Q(M("url", S("stun:host:3478"))), Q(M("url", S("http://x")))} {
					for _, ifc := range []string{"true", "false"} {
						for _, hosts := range []*Node{Q(), QS("1.2.3.4")} {
							out = append(out, doc("product:webrtc", fmt.Sprintf("on=%s udp=%q tcp=%q ice=%s ifc=%s hosts=%s", on, udp, tcp, ice.Label(), ifc, hosts.Label()),
								M("webrtc", L(on), "webrtcLocalUDPAddress", S(udp), "webrtcLocalTCPAddress", S(tcp), "webrtcICEServers2", ice,
									"webrtcIPsFromInterfaces", L(ifc), "webrtcAdditionalHosts", hosts)))
						}
					}
				}
			}
		}
		for _, dep := range keyAlphabet("webrtcICEServers") {
			out = append(out, doc("product:webrtc", "on="+on+" deprecated webrtcICEServers="+dep.Label(), M("webrtc", L(on), "webrtcICEServers", dep, "webrtcLocalUDPAddress", S(""))))
			out = append(out, doc("product:webrtc", "on="+on+" deprecated mux addresses", M("webrtc", L(on), "webrtcICEUDPMuxAddress", S(""), "webrtcICETCPMuxAddress", S(""), "webrtcICEServers", dep)))
		}
	}
	// always available
	for _, name := range []string{"p", "~^r.*$"} {
		for _, tracks := range []*Node{nil, Q(), Q(M("codec", S("H264"))), Q(M("codec", S("MPEG4Audio")))} {
			for _, file := range []string{"", "/nonexistent/file.mp4"} {
				for _, od := range []string{"true", "false"} {
					for _, rod := range []string{"", "cmd"} {
						for _, abs := range []string{"true", "false"} {
							for _, src := range []string{"publisher", "rtsp://host/x"} {
								p := M("alwaysAvailable", L("true"), "alwaysAvailableFile", S(file), "sourceOnDemand", L(od), "runOnDemand", S(rod),
									"useAbsoluteTimestamp", L(abs), "source", S(src))
								if tracks != nil {
									p = p.With("alwaysAvailableTracks", tracks)
								}
								out = append(out, doc("product:alwaysAvailable", fmt.Sprintf("%s tracks=%s file=%q od=%s rod=%q abs=%s src=%s", name, lbl(tracks), file, od, rod, abs, src),
									M("paths", M(name, p))))
							}
						}
					}
				}
			}
		}
	}
	// SRT passphrases x source; redirects; fallback; forward
	for _, k := range []string{"srtReadPassphrase", "srtPublishPassphrase"} {
		for _, v := range keyAlphabet(k) {
			for _, src := range []string{"publisher", "rtsp://host/x"} {
				p := M(k, v, "source", S(src))
				out = append(out, doc("product:srt", fmt.Sprintf("%s=%d chars src=%s", k, len(v.S), src), M("paths", M("p", p))))
			}
		}
	}
	for _, src := range []string{"publisher", "redirect", "rtsp://host/x"} {
		for _, v := range keyAlphabet("sourceRedirect") {
			out = append(out, doc("product:redirect", src+" sourceRedirect="+v.S, M("paths", M("p", M("source", S(src), "sourceRedirect", v)))))
		}
	}
	for _, v := range keyAlphabet("fallback") {
		out = append(out, doc("product:redirect", "fallback="+v.S, M("paths", M("p", M("fallback", v)))))
	}
	for _, v := range keyAlphabet("dest") {
		out = append(out, doc("product:forward", "dest="+v.S, M("paths", M("p", M("forward", Q(M("dest", v)))))))
	}
	for _, k := range []string{"runOnDemand", "runOnUnDemand"} {
		for _, src := range []string{"publisher", "rtsp://host/x", "redirect"} {
			out = append(out, doc("product:runOnDemand", k+" src="+src, M("paths", M("p", M(k, S("cmd"), "source", S(src), "sourceRedirect", S(map[bool]string{true: "/o", false: ""}[src == "redirect"]))))))
		}
	}

	// (v) hostile YAML texts
	for i, t := range hostileTexts() {
		out = append(out, fcase{class: "text:hostile", label: fmt.Sprintf("#%d %q", i, short(t, 40)), content: []byte(t)})
	}
	// every string up to length n over a small YAML alphabet
	sym := []string{"a", ":", " ", "\n", "-", "[", "{", "\"", "&", "*", "!", "#"}
	maxLen := 3
	if thorough {
		maxLen = 4
	}
	var gen func(prefix string, n int)
	gen = func(prefix string, n int) {
		out = append(out, fcase{class: "text:short", label: fmt.Sprintf("%q", prefix), content: []byte(prefix)})
		if n == 0 {
			return
		}
		for _, s := range sym {
			gen(prefix+s, n-1)
		}
	}
	gen("", maxLen)
	// the same short strings as the value of a real key and as a path name
	if thorough {
		var gen2 func(prefix string, n int)
		gen2 = func(prefix string, n int) {
			out = append(out, fcase{class: "text:short-value", label: fmt.Sprintf("%q", prefix), content: []byte("paths:\n  " + prefix + "\nlogLevel: " + prefix + "\n")})
			if n == 0 {
				return
			}
			for _, s := range sym {
				gen2(prefix+s, n-1)
			}
		}
		gen2("", 3)
	}
	return out
}

func lbl(n *Node) string {
	if n == nil {
		return "unset"
	}
	return n.Label()
}

const (
	sha256C = "sha256:j1tsRqDEw9xvq/D7/9tMx6Jh/jMhk3UfjwIB2f1zgMo="
	argon2C = "argon2:$argon2id$v=19$m=4096,t=3,p=1$MTIzNDU2Nzg$Ux/LWeTgJQPyfMMJo1myR64+o8rALHoPmlE1i/TR+58"
)

func keyAlphabet(key string) []*Node {
	a := KeyAlphabet(key)
	if a == nil {
		panic("no alphabet for " + key)
	}
	return a
}

func hostileTexts() []string {
	return []string{
		"", "\n", " ", "\t", "\x00", "\xff\xfe", "\xef\xbb\xbf", "\xef\xbb\xbfpaths:\n", "---\n", "---\n---\n", "--- a\n--- b\n", "...\n",
		"x", "1", "null", "~", "true", "[]", "{}", "- a\n- b\n", "? a\n: b\n", "? [a]\n: b\n", "? {a: b}\n: c\n",
		"paths:\n  1:\n", "paths:\n  1.5:\n", "paths:\n  true:\n", "paths:\n  null:\n", "paths:\n  ~:\n", "paths:\n  ? [a]\n  : b\n",
		"paths:\n  \"\":\n", "paths:\n  \"\":\n    source: publisher\n", "paths:\n  p:\n  p:\n", "logLevel: info\nlogLevel: debug\n", "paths:\n  p: &a\n    source: publisher\n  q: *a\n",
		"a: &x 1\nlogLevel: *x\n", "logLevel: *nope\n", "paths:\n  p: *nope\n", "x: &x\n  <<: *x\n", "base: &b {source: publisher}\npaths:\n  p:\n    <<: *b\n",
		"paths:\n  p:\n    <<: 1\n", "paths:\n  p:\n    <<: [1, 2]\n", "logLevel: !!binary aW5mbw==\n", "readTimeout: !!float 10\n", "logLevel: !!str info\n",
		"logLevel: !custom info\n", "logLevel: !!map info\n", "paths: !!seq {}\n", "writeQueueSize: !!int \"512\"\n", "writeQueueSize: 0x200\n",
		"writeQueueSize: 0o1000\n", "writeQueueSize: 5_1_2\n", "writeQueueSize: +512\n", "writeQueueSize: 512.0\n", "writeQueueSize: 5.12e2\n",
		"writeQueueSize: .inf\n", "writeQueueSize: .nan\n", "pathDefaults:\n  rpiCameraBrightness: .inf\n", "pathDefaults:\n  rpiCameraBrightness: -.inf\n",
		"pathDefaults:\n  rpiCameraBrightness: .nan\n", "pathDefaults:\n  rpiCameraBrightness: 1e999\n", "readTimeout: 2001-12-14t21:59:43.10-05:00\n",
		"readTimeout: 2001-12-14\n", "logLevel: \"unterminated\n", "logLevel: 'unterminated\n", "logLevel: [unterminated\n", "logLevel: {unterminated\n",
		"logLevel: |\n  info\n", "logLevel: >\n  info\n", "logLevel: |+\n", "logLevel: |9\n", "logLevel: info # comment\n", "# only a comment\n",
		"logLevel:\tinfo\n", "\tlogLevel: info\n", "logLevel: info\r\nlogFile: x\r\n", "logLevel: info\rlogFile: x\r", "paths:\n p:\n   source: publisher\n  q:\n",
		"paths:\n  p:\n source: publisher\n", "- paths\n", "paths:\n- p\n", "paths:\n  - p: {}\n", "paths: {p: {source: publisher}}\n", "{\"paths\": {\"p\": null}}",
		"{\"paths\": {\"p\": null}", "[1, 2", "\"", "'", "&", "*", "!", "%YAML 1.2\n---\nlogLevel: info\n", "%TAG ! tag:x,2000:\n---\nlogLevel: info\n", "%FOO\n",
		"logLevel: \"\\x\"\n", "logLevel: \"\\u12\"\n", "logLevel: \"\\UFFFFFFFF\"\n", "logLevel: \"\\0\"\n", "logFile: \"a\\0b\"\n", "logFile: \"\\ud800\"\n",
		"logFile: " + strings.Repeat("a", 70000) + "\n", strings.Repeat("k: v\n", 5000), "paths:\n" + strings.Repeat("  p: {}\n", 3),
		"authInternalUsers:\n  - user: any\n    pass:\n    ips: []\n    permissions:\n      - action: publish\n", "authInternalUsers:\n  -\n", "authInternalUsers:\n  - null\n",
		"authInternalUsers:\n  - user: any\n    permissions:\n      -\n", "authInternalUsers:\n  - user: any\n    permissions: null\n", "authInternalUsers:\n  - user: any\n    ips: null\n",
		"pathDefaults:\n", "pathDefaults: null\n", "paths:\n", "paths: null\n", "paths:\n  p: null\n  q: ~\n  r:\n", "pathDefaults:\n  name: x\n", "paths:\n  p:\n    name: other\n",
		"paths:\n  p:\n    regexp: x\n", "paths:\n  p:\n    Source: publisher\n", "Paths:\n  p:\n", "paths:\n  p:\n    forward:\n      - dest: rtsp://h/x\n        extra: 1\n",
		"paths:\n  p:\n    alwaysAvailableTracks:\n      - codec: H264\n        extra: 1\n", "paths:\n  p:\n    alwaysAvailableTracks:\n      - null\n",
		"paths:\n  p:\n    alwaysAvailableTracks:\n      - codec: MPEG4Audio\n        sampleRate: -1\n        channelCount: -1\n",
		"paths:\n  p:\n    rtspUDPSourcePortRange: [1]\n", "paths:\n  p:\n    rtspUDPSourcePortRange: [-1, 2]\n", "paths:\n  p:\n    rtspUDPSourcePortRange: [2, 1, 3]\n",
		"webrtcICEServers2:\n  - url: stun:h\n    clientOnly: maybe\n", "hlsSegmentMaxSize: 99999999999999999999E\n", "hlsSegmentMaxSize: 1e999M\n", "hlsSegmentMaxSize: NaNM\n",
		"hlsSegmentMaxSize: InfM\n", "hlsSegmentMaxSize: -0M\n", "readTimeout: 99999999999999999999d\n", "readTimeout: 9223372036854775807d\n", "readTimeout: -9223372036854775808d\n",
		"readTimeout: 1d-5s\n", "readTimeout: --1s\n", "readTimeout: 1.5d\n", "readTimeout: 9999999999h\n",
	}
}

// ---------------------------------------------------------------------------------------------------------
// environment

func envCases(thorough bool) []fcase {
	var out []fcase
	files := []struct {
		name    string
		content string
	}{
		{"empty", ""},
		{"null-path", "paths:\n  p:\n"},
		{"path", "paths:\n  p:\n    source: publisher\n"},
	}
	levels := []struct {
		name   string
		prefix string
		fs     []Field
	}{
		{"global", "MTX_", GlobalFields()},
		{"pathDefaults", "MTX_PATHDEFAULTS_", PathFields()},
		{"path", "MTX_PATHS_P_", PathFields()},
		{"newpath", "MTX_PATHS_NEW_", PathFields()},
	}
	bad := []string{"", "x", "-1", "1.5", "99999999999", "yes", "TRUE", "a,b", ",", "1,,2", "\xff", "0x10", " 1", "1e3", "NaN", "Inf", "null", "[]", "{}"}
	suffixes := []string{"X", "_X", "_0", "_0_X", "_"}
	if !thorough {
		bad = []string{"", "x", "-1", "99999999999", "a,b", "\xff"}
		suffixes = []string{"_X"}
		levels = []struct {
			name   string
			prefix string
			fs     []Field
		}{levels[0], levels[2]}
	}
	for _, lv := range levels {
		for _, f := range lv.fs {
			up := strings.ToUpper(f.Key)
			for _, v := range bad {
				for fi, file := range files {
					if fi > 0 && lv.name != "path" && !(thorough && lv.name == "newpath") {
						continue
					}
					if !thorough && fi == 0 && lv.name == "path" {
						continue
					}
					out = append(out, fcase{class: "env-value:" + lv.name, label: lv.prefix + up + "=" + fmt.Sprintf("%q", v) + " file=" + file.name,
						content: []byte(file.content), env: map[string]string{lv.prefix + up: v}, reload: fi == 2})
				}
			}
			// keys that collide with / extend the parameter name
			for _, suffix := range suffixes {
				for vi, v := range []string{"", "x"} {
					if !thorough && vi > 0 {
						continue
					}
					out = append(out, fcase{class: "env-key-collision:" + lv.name, label: lv.prefix + up + suffix + "=" + fmt.Sprintf("%q", v),
						content: []byte(files[2].content), env: map[string]string{lv.prefix + up + suffix: v}})
				}
			}
			if thorough {
				for _, v := range FieldAlphabet(f, true) {
					if e, ok := Env(lv.prefix+up, f.Type, v); ok {
						out = append(out, fcase{class: "env-alphabet:" + lv.name, label: lv.prefix + up + "=" + v.Label(), content: []byte(files[1].content), env: e})
					}
				}
			}
		}
	}
	// key shapes
	shapes := []string{
		"MTX", "MTX_", "MTX__", "MTX_PATHS", "MTX_PATHS_", "MTX_PATHS__", "MTX_PATHS__SOURCE", "MTX_PATHS_P", "MTX_PATHS_P_", "MTX_PATHS_P__",
		"MTX_PATHS_p_SOURCE", "MTX_PATHS_P_NOPE", "MTX_PATHS_P_SOURCE_X", "MTX_PATHS_Q", "MTX_PATHS_Q_", "MTX_PATHS_Q_NOPE", "MTX_PATHS_ALL_OTHERS_SOURCE",
		"MTX_PATHS_~^R.*$_SOURCE", "MTX_PATHS_A/B_SOURCE", "MTX_PATHS_A B_SOURCE", "MTX_PATHS_../X_SOURCE", "MTX_PATHS_P_NAME", "MTX_PATHS_P_REGEXP",
		"MTX_PATHDEFAULTS", "MTX_PATHDEFAULTS_", "MTX_PATHDEFAULTS_NAME", "MTX_PATHDEFAULTS_NOPE",
		"MTX_AUTHINTERNALUSERS", "MTX_AUTHINTERNALUSERS_", "MTX_AUTHINTERNALUSERS_0", "MTX_AUTHINTERNALUSERS_0_", "MTX_AUTHINTERNALUSERS_1_USER", "MTX_AUTHINTERNALUSERS_2_USER",
		"MTX_AUTHINTERNALUSERS_5_USER", "MTX_AUTHINTERNALUSERS_-1_USER", "MTX_AUTHINTERNALUSERS_00_USER", "MTX_AUTHINTERNALUSERS_01_USER", "MTX_AUTHINTERNALUSERS_X_USER",
		"MTX_AUTHINTERNALUSERS_0_PERMISSIONS", "MTX_AUTHINTERNALUSERS_0_PERMISSIONS_0", "MTX_AUTHINTERNALUSERS_0_PERMISSIONS_0_ACTION", "MTX_AUTHINTERNALUSERS_0_PERMISSIONS_9_ACTION",
		"MTX_AUTHINTERNALUSERS_0_IPS", "MTX_AUTHINTERNALUSERS_0_IPS_0", "MTX_AUTHINTERNALUSERS_2_IPS", "MTX_AUTHINTERNALUSERS_2_PERMISSIONS_0_PATH",
		"MTX_AUTHHTTPEXCLUDE", "MTX_AUTHHTTPEXCLUDE_0", "MTX_AUTHHTTPEXCLUDE_0_ACTION", "MTX_AUTHHTTPEXCLUDE_1_ACTION", "MTX_WEBRTCICESERVERS2_0_URL", "MTX_WEBRTCICESERVERS2_0_CLIENTONLY",
		"MTX_PATHDEFAULTS_FORWARD", "MTX_PATHDEFAULTS_FORWARD_0_DEST", "MTX_PATHS_P_FORWARD_0_DEST", "MTX_PATHS_P_FORWARD", "MTX_PATHS_P_ALWAYSAVAILABLETRACKS_0_CODEC",
		"MTX_PATHS_P_ALWAYSAVAILABLETRACKS", "MTX_PATHS_NEW_ALWAYSAVAILABLETRACKS", "MTX_PATHS_NEW_FORWARD", "MTX_RTSPTRANSPORTS", "MTX_PROTOCOLS", "MTX_LOGDESTINATIONS",
		"RTSP_PATHS_P_SOURCE", "RTSP_LOGLEVEL", "RTSP_PATHS_P", "RTSP_", "MTX_CONFKEY", "RTSP_CONFKEY",
	}
	vals := []string{"", "x", "publisher", "0", "read", "true"}
	if !thorough {
		vals = vals[:3]
	}
	for _, k := range shapes {
		for _, v := range vals {
			for fi, file := range files {
				out = append(out, fcase{class: "env-key-shape", label: k + "=" + fmt.Sprintf("%q", v) + " file=" + file.name, content: []byte(file.content),
					env: map[string]string{k: v}, reload: fi == 1})
			}
		}
	}
	// pairs of list assignments (gaps, mixed whole/items)
	pairs := [][2]string{
		{"MTX_AUTHINTERNALUSERS", "MTX_AUTHINTERNALUSERS_0_USER"}, {"MTX_AUTHINTERNALUSERS_0_USER", "MTX_AUTHINTERNALUSERS_3_USER"},
		{"MTX_AUTHINTERNALUSERS_2_USER", "MTX_AUTHINTERNALUSERS_3_USER"}, {"MTX_PATHS_P_FORWARD", "MTX_PATHS_P_FORWARD_0_DEST"},
		{"MTX_PATHS_NEW_FORWARD_0_DEST", "MTX_PATHS_NEW_FORWARD_1_DEST"}, {"MTX_PATHS_P", "MTX_PATHS_P_SOURCE"}, {"MTX_PATHS_A_SOURCE", "MTX_PATHS_A_B_SOURCE"},
	}
	for _, pr := range pairs {
		for _, v1 := range []string{"", "u1"} {
			for _, v2 := range []string{"", "rtsp://host:8554/x"} {
				for _, file := range files {
					out = append(out, fcase{class: "env-key-pairs", label: fmt.Sprintf("%s=%q %s=%q file=%s", pr[0], v1, pr[1], v2, file.name), content: []byte(file.content),
						env: map[string]string{pr[0]: v1, pr[1]: v2}})
				}
			}
		}
	}
	// encrypted configuration through conf.Load
	for _, d := range decryptCases(false) {
		if d.class == "exhaustive" && d.declen > 4 {
			continue
		}
		for _, keyVar := range []string{"MTX_CONFKEY", "RTSP_CONFKEY"} {
			if keyVar == "RTSP_CONFKEY" && d.class == "exhaustive" {
				continue
			}
			out = append(out, fcase{class: "confkey:" + d.class, label: keyVar + " " + d.label, content: d.text, env: map[string]string{keyVar: d.key}})
		}
	}
	// a valid encrypted file whose plaintext is each of a few hostile texts / constraint violations
	for i, plain := range []string{"", "paths:\n  p:\n", "readTimeout: 0s\n", "x", "\x00", "paths:\n  p: *nope\n", "paths:\n  p:\n    recordPath: x\n"} {
		out = append(out, fcase{class: "confkey:plaintext", label: fmt.Sprintf("#%d %q", i, plain), content: []byte(seal("k", plain)), env: map[string]string{"MTX_CONFKEY": "k"}})
		out = append(out, fcase{class: "confkey:plaintext", label: fmt.Sprintf("#%d %q double", i, plain), content: []byte(seal("k1", seal("k2", plain))),
			env: map[string]string{"RTSP_CONFKEY": "k1", "MTX_CONFKEY": "k2"}})
	}
	return out
}

// ---------------------------------------------------------------------------------------------------------
// decryption

type dcase struct {
	class  string
	label  string
	key    string
	text   []byte
	declen int
	plain  []byte // non-nil: a valid ciphertext of this plaintext under key
}

func seal(key, plain string) string {
	var k [32]byte
	copy(k[:], key)
	var nonce [24]byte
	for i := range nonce {
		nonce[i] = byte(i*7 + 1)
	}
	enc := secretbox.Seal(nonce[:], []byte(plain), &nonce, &k)
	return base64.StdEncoding.EncodeToString(enc)
}

func decryptCases(thorough bool) []dcase {
	var out []dcase
	b64 := base64.StdEncoding
	// every byte string up to length n over 3 symbols, as base64 text
	maxLen := 6
	if thorough {
		maxLen = 10
	}
	sym := []byte{0x00, 0x41, 0xff}
	var gen func(cur []byte, n int)
	gen = func(cur []byte, n int) {
		out = append(out, dcase{class: "exhaustive", label: fmt.Sprintf("decoded %x", cur), key: "k", text: []byte(b64.EncodeToString(cur)), declen: len(cur)})
		if n == 0 {
			return
		}
		for _, s := range sym {
			gen(append(append([]byte{}, cur...), s), n-1)
		}
	}
	gen(nil, maxLen)
	// constant fills of every length up to 80
	for n := 0; n <= 80; n++ {
		for _, s := range sym {
			out = append(out, dcase{class: "fill", label: fmt.Sprintf("%d x %02x", n, s), key: "k", text: []byte(b64.EncodeToString([]byte(strings.Repeat(string([]byte{s}), n)))), declen: n})
		}
	}
	// valid ciphertexts, truncated at every decoded length, with every key length class, flipped bits
	plains := []string{"", "paths:\n  p:\n", strings.Repeat("logLevel: info\n", 20)}
	keys := []string{"", "k", strings.Repeat("k", 31), strings.Repeat("k", 32), strings.Repeat("k", 33), strings.Repeat("k", 64), "testing123testin"}
	for _, plain := range plains {
		for _, key := range keys {
			text := seal(key, plain)
			raw, _ := b64.DecodeString(text)
			out = append(out, dcase{class: "valid", label: fmt.Sprintf("valid key=%d plain=%d", len(key), len(plain)), key: key, text: []byte(text), declen: len(raw), plain: []byte(plain)})
			for _, variant := range []struct{ n, s string }{{"+LF", text + "\n"}, {"+CRLF", text + "\r\n"}, {"LF inside", text[:10] + "\n" + text[10:]}} {
				out = append(out, dcase{class: "valid", label: fmt.Sprintf("valid %s key=%d plain=%d", variant.n, len(key), len(plain)), key: key, text: []byte(variant.s), declen: len(raw), plain: []byte(plain)})
			}
			if key != "k" {
				continue
			}
			for n := 0; n < len(raw); n++ {
				out = append(out, dcase{class: "truncated", label: fmt.Sprintf("plain=%d truncated to %d", len(plain), n), key: key, text: []byte(b64.EncodeToString(raw[:n])), declen: n})
			}
			for _, pos := range []int{0, 23, 24, 39, 40, len(raw) - 1} {
				if pos < len(raw) {
					mod := append([]byte{}, raw...)
					mod[pos] ^= 1
					out = append(out, dcase{class: "tampered", label: fmt.Sprintf("plain=%d bit flipped at %d", len(plain), pos), key: key, text: []byte(b64.EncodeToString(mod)), declen: len(raw)})
				}
			}
			out = append(out, dcase{class: "wrong-key", label: fmt.Sprintf("plain=%d wrong key", len(plain)), key: "other", text: []byte(text), declen: len(raw)})
			out = append(out, dcase{class: "wrong-key", label: fmt.Sprintf("plain=%d key with trailing byte", len(plain)), key: "k\x00x", text: []byte(text), declen: len(raw)})
		}
	}
	// texts that are not (standard) base64, or base64 with odd padding
	for i, t := range []string{"", " ", "\n", "=", "==", "A", "AA", "AAA", "AAAA", "AA==", "AAA=", "A===", "AAAA=", "AA==AA==", "!!!!", "paths:\n  p:\n", "QUJD-_", "QUJD\x00",
		"QUJD QUJD", " QUJD", "QUJD ", "\xff\xfe", strings.Repeat("A", 31), strings.Repeat("A", 32), strings.Repeat("A", 33), strings.Repeat("A", 35) + "=", strings.Repeat("=", 40)} {
		raw, _ := b64.DecodeString(t)
		out = append(out, dcase{class: "text", label: fmt.Sprintf("#%d %q", i, short(t, 24)), key: "k", text: []byte(t), declen: len(raw)})
	}
	return out
}

// ---------------------------------------------------------------------------------------------------------
// inputs that may end the process with a fatal error rather than a panic

func riskyCases(thorough bool) []fcase {
	var out []fcase
	depths := []int{100, 1000, 10000}
	if thorough {
		depths = append(depths, 100000, 1000000)
	}
	for _, d := range depths {
		out = append(out, fcase{class: "deep-nesting", label: fmt.Sprintf("flow sequences x%d", d), content: []byte(strings.Repeat("[", d) + strings.Repeat("]", d))})
		if thorough || d <= 1000 {
			out = append(out, fcase{class: "deep-nesting", label: fmt.Sprintf("unclosed flow sequences x%d", d), content: []byte(strings.Repeat("[", d))})
			out = append(out, fcase{class: "deep-nesting", label: fmt.Sprintf("value of a key, flow sequences x%d", d), content: []byte("paths: " + strings.Repeat("[", d) + strings.Repeat("]", d))})
		}
		if d <= 10000 && (thorough || d <= 1000) {
			out = append(out, fcase{class: "deep-nesting", label: fmt.Sprintf("flow maps x%d", d), content: []byte(strings.Repeat("{a: ", d) + "1" + strings.Repeat("}", d))})
		}
		// block nesting needs d*d/2 bytes of indentation
		if d <= 1000 || thorough && d <= 10000 {
			var b strings.Builder
			for i := 0; i < d; i++ {
				b.WriteString(strings.Repeat(" ", i) + "a:\n")
			}
			out = append(out, fcase{class: "deep-nesting", label: fmt.Sprintf("block maps x%d", d), content: []byte(b.String())})
			b.Reset()
			for i := 0; i < d; i++ {
				b.WriteString(strings.Repeat(" ", i) + "-\n")
			}
			out = append(out, fcase{class: "deep-nesting", label: fmt.Sprintf("block sequences x%d", d), content: []byte(b.String())})
		}
	}
	// alias expansion ("billion laughs"), levels x fan-out
	for _, lv := range []struct{ levels, fan int }{{3, 3}, {5, 5}, {6, 9}, {9, 9}} {
		if !thorough && lv.levels > 5 || lv.levels > 6 {
			continue // 9 levels x 9 (10^9 nodes) is outside the explored space: it can only end in memory exhaustion
		}
		var b strings.Builder
		b.WriteString("a0: &a0 [x, x, x]\n")
		for i := 1; i <= lv.levels; i++ {
			refs := strings.TrimSuffix(strings.Repeat(fmt.Sprintf("*a%d, ", i-1), lv.fan), ", ")
			fmt.Fprintf(&b, "a%d: &a%d [%s]\n", i, i, refs)
		}
		out = append(out, fcase{class: "alias-expansion", label: fmt.Sprintf("%d levels x %d", lv.levels, lv.fan), content: []byte(b.String())})
		out = append(out, fcase{class: "alias-expansion", label: fmt.Sprintf("%d levels x %d under paths", lv.levels, lv.fan),
			content: []byte(b.String() + fmt.Sprintf("paths:\n  p:\n    runOnInit: *a%d\n", lv.levels))})
	}
	out = append(out, fcase{class: "alias-expansion", label: "self reference", content: []byte("a: &a [*a]\n")})
	out = append(out, fcase{class: "alias-expansion", label: "self reference map", content: []byte("a: &a\n  b: *a\n")})
	sizes := []int{64 << 10}
	if thorough {
		sizes = append(sizes, 1<<20)
	}
	for _, n := range sizes {
		out = append(out, fcase{class: "big", label: fmt.Sprintf("%d-byte scalar", n), content: []byte("logFile: " + strings.Repeat("a", n) + "\n")})
		out = append(out, fcase{class: "big", label: fmt.Sprintf("%d bytes of keys", n), content: []byte(strings.Repeat("k: v\n", n/5))})
		out = append(out, fcase{class: "big", label: fmt.Sprintf("%d paths", n/40), content: []byte("paths:\n" + manyPaths(n/40))})
		out = append(out, fcase{class: "big", label: fmt.Sprintf("%d-byte base64 with MTX_CONFKEY", n), content: []byte(strings.Repeat("QUJD", n/4)), env: map[string]string{"MTX_CONFKEY": "k"}})
	}
	return out
}

func manyPaths(n int) string {
	var b strings.Builder
	for i := 0; i < n; i++ {
		fmt.Fprintf(&b, "  p%d:\n    source: publisher\n", i)
	}
	return b.String()
}
