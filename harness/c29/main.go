// C29: playback list/get return exactly the recorded media in range.
//
// Engine B. Corpora are recorded by the REAL recorder from generated streams (segment and part
// splits, a gap between two publisher sessions, two sessions adjacent in time, audio leading
// the first random-access video unit); the ground truth is what was sent (validated against the
// files with a reference parser). Every window of a stated grid is requested from the real
// playback server (list; get in fmp4 and mp4) and the answer is compared with a reference model
// written from the statement. The server runs in worker subprocesses.
package main

import (
	"encoding/gob"
	"encoding/json"
	"flag"
	"fmt"
	"math"
	"os"
	"path/filepath"
	"sort"
	"strconv"
	"strings"
	"time"

	"github.com/bluenviron/mediamtx/internal/zzverif/reclib"
	"github.com/bluenviron/mediamtx/internal/zzverif/vcommon"
)

var (
	flagLimit   = flag.Int("limit", 0, "debug: evaluate only the first N cases (in spreading order)")
	flagWorkers = flag.Int("workers", 16, "number of worker subprocesses")
	flagBudget  = flag.Int("budget", 0, "debug: override the internal deadline (seconds)")
	flagReplay  = flag.String("replay", "", "replay file written for a violation: run only its case, verbosely")
	flagOne     = flag.String("one", "", "debug: run only the requests whose description contains this text, verbosely")
)

// RSample is a recorded sample with its absolute time (from the unit that was sent).
type RSample struct {
	TrackID int
	Unit    int
	AbsNs   int64 // absolute timestamp of the unit that was sent
	DurNs   int64 // recorded duration
	Scale   int64
	Sync    bool
	Video   bool
	Stream  int
	Seg     int
	Sum     uint32
	Size    int
}

// RSpan is the recorded media of one stream (publisher session).
type RSpan struct {
	Stream  int
	StartNs int64
	EndNs   int64
}

// KCorpus is one recorded corpus.
type KCorpus struct {
	Name    string
	Path    string
	History reclib.History
	Samples []RSample // in file order
	Spans   []RSpan
	SegNs   []int64 // start of every segment
}

// Case is one request.
type Case struct {
	Corpus  int
	Kind    string // list | get
	Format  string
	StartNs int64 // list: math.MinInt64 = absent
	EndNs   int64 // list: end (absent = MinInt64); get: start+duration (saturated at MaxInt64 when the sum is not representable)

	// "size of the requested window" dimension (zero values = one of the windows of the basic grid)
	Win    string // label of the window size ("" = basic grid)
	DurNs  int64  // requested duration (get) / end-start (list); the end instant itself may not be representable in ns
	DurRaw string // get: literal duration parameter (when it is not the decimal seconds of DurNs)
	EndMax bool   // list: end = the largest instant the parameter parser accepts (year 9999)
	At     string // what the start is ("seg-1ns", "seg", "seg+1ns", "grid")
}

// the largest instant time.Parse(time.RFC3339) accepts (4-digit years)
var listEndMax = time.Date(9999, 12, 31, 23, 59, 59, 999999999, time.UTC)

func satAdd(a, b int64) int64 {
	if b > 0 && a > math.MaxInt64-b {
		return math.MaxInt64
	}
	return a + b
}

// maxFloatSeconds returns the largest decimal number of seconds that the duration parser of
// /get (seconds as float64, multiplied by 1e9 and converted to time.Duration) turns into a
// representable duration, and that duration.
func maxFloatSeconds() (string, int64) {
	f := float64(math.MaxInt64) / float64(time.Second)
	for f*float64(time.Second) >= float64(math.MaxInt64) { // float64(MaxInt64) == 2^63: not representable
		f = math.Nextafter(f, 0)
	}
	return strconv.FormatFloat(f, 'f', -1, 64), int64(f * float64(time.Second))
}

// winSize is one size of the requested window.
type winSize struct {
	Label string
	DurNs int64
	Raw   string
}

// windowSizes is the alphabet of the "size of the requested window" dimension for corpus k
// (besides the windows of the basic grid and "up to 1 ns past the end of the recording", which
// depends on the start).
func windowSizes(k *KCorpus) []winSize {
	recStart, recEnd := k.Spans[0].StartNs, k.Spans[0].EndNs
	for _, sp := range k.Spans {
		recStart, recEnd = min(recStart, sp.StartNs), max(recEnd, sp.EndNs)
	}
	h := int64(time.Hour)
	fs, fns := maxFloatSeconds()
	return []winSize{
		{"rec+1ns", recEnd - recStart + 1, ""},
		{"1h", h, ""}, {"24h", 24 * h, ""}, {"28h", 28 * h, ""}, {"29h", 29 * h, ""}, {"48h", 48 * h, ""},
		{"60h", 60 * h, ""}, {"1000h", 1000 * h, ""},
		{"max-seconds", fns, fs},                              // the largest value in the documented format (seconds)
		{"max-go", math.MaxInt64, "2562047h47m16.854775807s"}, // the largest value in the deprecated Go format
	}
}

const absent = int64(-1 << 63)

// Corpus is what the workers load.
type Corpus struct {
	K     []KCorpus
	Cases []Case
}

// Viol is one violation found by a worker.
type Viol struct {
	Key  string `json:"key"`
	What string `json:"what"`
}

// Result is a worker's answer.
type Result struct {
	Class string `json:"class"`
	Viols []Viol `json:"viols,omitempty"`
	Debug string `json:"debug,omitempty"`
}

// corpora returns the recording histories; light[i] = corpus i exists for its track time scales
// (basic grid over its structural boundaries only, full "size of the window" dimension).
func corpora(thorough bool) (hs []reclib.History, light []bool) {
	b := reclib.NewBuilder(1)
	ms := time.Millisecond
	hs = []reclib.History{
		{Name: "video+audio, 5 segments, 1.3 s", PartDuration: 100 * ms, SegmentDuration: 250 * ms,
			Sessions: []reclib.Session{b.Build(reclib.SessionOpts{Video: true, Audio: true, PTS0: 2 * time.Second,
				VideoPeriod: 50 * ms, VideoCount: 27, GOP: 5, AudioCount: 58, VideoSize: 20, AudioSize: 6})}},
		{Name: "two sessions with a 2 s gap", PartDuration: 100 * ms, SegmentDuration: 250 * ms,
			Sessions: []reclib.Session{
				b.Build(reclib.SessionOpts{Video: true, Audio: true, PTS0: 1 * time.Second,
					VideoPeriod: 50 * ms, VideoCount: 12, GOP: 4, AudioCount: 25, VideoSize: 20, AudioSize: 6}),
				b.Build(reclib.SessionOpts{Video: true, Audio: true, Start: 2600 * ms, PTS0: 10 * time.Second,
					VideoPeriod: 50 * ms, VideoCount: 12, GOP: 4, AudioCount: 25, VideoSize: 20, AudioSize: 6}),
			}},
		{Name: "two sessions adjacent in time (no gap, different streams)", PartDuration: 100 * ms, SegmentDuration: 300 * ms,
			Sessions: []reclib.Session{
				b.Build(reclib.SessionOpts{Video: true, PTS0: 4 * time.Second,
					VideoPeriod: 50 * ms, VideoCount: 11, GOP: 3, VideoSize: 20}),
				// the first session's media ends at its 11th unit (held back): 4 s + 500 ms
				b.Build(reclib.SessionOpts{Video: true, Start: -500 * ms, PTS0: 5 * time.Second,
					VideoPeriod: 50 * ms, VideoCount: 11, GOP: 3, VideoSize: 20}),
			}},
		{Name: "audio leads, leading non-sync video units, long GOP", PartDuration: 100 * ms, SegmentDuration: 250 * ms,
			Sessions: []reclib.Session{b.Build(reclib.SessionOpts{Video: true, Audio: true, PTS0: 6 * time.Second, AudioLead: 80 * ms,
				VideoPeriod: 40 * ms, VideoCount: 24, GOP: 7, FirstIDR: 2, AudioCount: 44, VideoSize: 20, AudioSize: 6})}},
	}
	if thorough {
		hs = append(hs, reclib.History{Name: "audio only, 4 segments", PartDuration: 100 * ms, SegmentDuration: 300 * ms,
			Sessions: []reclib.Session{b.Build(reclib.SessionOpts{Audio: true, PTS0: 1 * time.Second, AudioCount: 50, AudioSize: 9})}})
	}
	light = make([]bool, len(hs))
	// track time scales: 90000 and 44100 above; 48000 and 8000 here
	hs = append(hs,
		reclib.History{Name: "video (90 kHz) + 48 kHz audio, 4 segments", PartDuration: 100 * ms, SegmentDuration: 250 * ms,
			Sessions: []reclib.Session{b.Build(reclib.SessionOpts{Video: true, Audio: true, AudioRate: 48000, PTS0: 3 * time.Second,
				VideoPeriod: 40 * ms, VideoCount: 22, GOP: 6, AudioCount: 40, VideoSize: 20, AudioSize: 6})}},
		reclib.History{Name: "8 kHz audio only, two sessions with a gap", PartDuration: 100 * ms, SegmentDuration: 300 * ms,
			Sessions: []reclib.Session{
				b.Build(reclib.SessionOpts{Audio: true, AudioRate: 8000, PTS0: 2 * time.Second, AudioCount: 10, AudioSize: 9}),
				b.Build(reclib.SessionOpts{Audio: true, AudioRate: 8000, Start: 3 * time.Second, PTS0: 7 * time.Second, AudioCount: 8, AudioSize: 9}),
			}})
	light = append(light, true, true)
	return hs, light
}

func ticksToNs(t int64, scale int64) int64 {
	return (t/scale)*int64(time.Second) + (t%scale)*int64(time.Second)/scale
}

// buildK derives the reference data of a corpus from the units sent and the parsed files.
func buildK(name, path string, h reclib.History, segs []reclib.SegFile) KCorpus {
	k := KCorpus{Name: name, Path: path, History: h}
	unitNTP := map[int]int64{}
	for _, s := range h.Sessions {
		for _, u := range s.Units {
			unitNTP[u.ID] = u.NTPns
		}
	}
	streams := map[string]int{}
	for si := range segs {
		sg := &segs[si]
		if _, ok := streams[sg.Info.StreamID]; !ok {
			streams[sg.Info.StreamID] = len(streams)
		}
		st := streams[sg.Info.StreamID]
		k.SegNs = append(k.SegNs, sg.Start.UnixNano())
		for _, p := range sg.Info.Parts {
			for _, s := range p.Samples {
				tr := sg.Info.Track(s.TrackID)
				k.Samples = append(k.Samples, RSample{
					TrackID: s.TrackID, Unit: s.UnitID, AbsNs: unitNTP[s.UnitID], DurNs: ticksToNs(int64(s.Dur), int64(tr.TimeScale)),
					Scale: int64(tr.TimeScale), Sync: s.Sync, Video: tr.Video, Stream: st, Seg: si, Sum: s.Sum, Size: s.Size,
				})
			}
		}
	}
	for st := 0; st < len(streams); st++ {
		sp := RSpan{Stream: st, StartNs: 1<<63 - 1, EndNs: absent}
		for _, s := range k.Samples {
			if s.Stream != st {
				continue
			}
			sp.StartNs = min(sp.StartNs, s.AbsNs)
			sp.EndNs = max(sp.EndNs, s.AbsNs+s.DurNs)
		}
		k.Spans = append(k.Spans, sp)
	}
	return k
}

func uniqSorted(v []int64) []int64 {
	sort.Slice(v, func(i, j int) bool { return v[i] < v[j] })
	var out []int64
	for i, x := range v {
		if i == 0 || x != v[i-1] {
			out = append(out, x)
		}
	}
	return out
}

// buildCases enumerates the windows of a corpus: the basic grid and the "size of the requested
// window" dimension. light = the corpus exists for its track time scales: its basic grid uses
// the structural boundaries only (its sample boundaries are used by the size dimension).
func buildCases(ki int, k *KCorpus, thorough, light bool) (basic, sized []Case) {
	const eps = int64(100 * time.Microsecond) // well beyond one tick of the 90 / 48 / 44.1 kHz tracks (11 / 21 / 23 us)
	var bounds []int64                        // sample boundaries
	for _, s := range k.Samples {
		if thorough || s.Video || len(k.Samples) < 80 || s.Unit%3 == 0 {
			bounds = append(bounds, s.AbsNs)
		}
	}
	for _, sp := range k.Spans {
		bounds = append(bounds, sp.StartNs, sp.EndNs)
	}
	bounds = append(bounds, k.SegNs...)
	bounds = uniqSorted(bounds)

	// ends "reaching each boundary": structural boundaries (segments, spans) and the next sample boundaries
	var structural []int64
	structural = append(structural, k.SegNs...)
	for _, sp := range k.Spans {
		structural = append(structural, sp.StartNs, sp.EndNs)
	}
	structural = uniqSorted(structural)

	var pts []int64 // start candidates of the basic grid
	gridBounds := bounds
	if light {
		gridBounds = structural
	}
	for _, b := range gridBounds {
		pts = append(pts, b-eps, b, b+eps)
	}
	for i := 0; i+1 < len(gridBounds); i++ {
		pts = append(pts, (gridBounds[i]+gridBounds[i+1])/2) // mid-sample (+1/2 sample)
	}
	first, last := bounds[0], bounds[len(bounds)-1]
	pts = append(pts, first-int64(time.Second), first-int64(30*time.Millisecond), last+int64(30*time.Millisecond), last+int64(time.Second))
	pts = uniqSorted(pts)

	seen := map[string]bool{}
	add := func(to *[]Case, c Case) {
		d := describe(c)
		if !seen[d] {
			seen[d] = true
			*to = append(*to, c)
		}
	}
	gridEnds := func(s int64) []int64 {
		var ends []int64
		ends = append(ends, s+int64(50*time.Microsecond), s+int64(time.Hour))
		n := 0
		for _, b := range bounds {
			if b > s && n < 3 {
				ends = append(ends, b-eps, b+eps)
				n++
			}
		}
		for _, b := range structural {
			if b > s {
				ends = append(ends, b-eps, b, b+eps)
			}
		}
		return uniqSorted(ends)
	}
	formats := []string{"fmp4", "mp4"}

	for _, s := range pts {
		for _, e := range gridEnds(s) {
			if e <= s {
				continue
			}
			for _, f := range formats {
				add(&basic, Case{Corpus: ki, Kind: "get", Format: f, StartNs: s, EndNs: e})
			}
		}
	}
	// list: start / end over the structural boundaries and a spread of sample boundaries
	var lpts []int64
	for _, b := range structural {
		lpts = append(lpts, b-eps, b, b+eps, b+int64(7*time.Millisecond), b-int64(7*time.Millisecond))
	}
	for i, b := range bounds {
		if i%4 == 0 || thorough {
			lpts = append(lpts, b+eps)
		}
	}
	lpts = append(lpts, first-int64(time.Second), last+int64(time.Second))
	lpts = uniqSorted(lpts)
	add(&basic, Case{Corpus: ki, Kind: "list", StartNs: absent, EndNs: absent})
	for _, s := range lpts {
		add(&basic, Case{Corpus: ki, Kind: "list", StartNs: s, EndNs: absent})
		add(&basic, Case{Corpus: ki, Kind: "list", StartNs: absent, EndNs: s})
		for _, e := range lpts {
			if e > s {
				add(&basic, Case{Corpus: ki, Kind: "list", StartNs: s, EndNs: e})
			}
		}
	}

	// ---- the "size of the requested window" dimension
	//
	// start instants: exactly the start of every segment (of every span), 1 ns before and after
	// it; every (selected) sample boundary, every span edge, the middle of every segment and gap
	// (thorough: every mid-sample point) and the points outside the recording of the basic grid.
	type startPt struct {
		ns int64
		at string
	}
	var segPts, wpts []startPt
	isSeg := map[int64]bool{}
	for _, g := range k.SegNs {
		segPts = append(segPts, startPt{g - 1, "seg-1ns"}, startPt{g, "seg"}, startPt{g + 1, "seg+1ns"})
		isSeg[g-1], isSeg[g], isSeg[g+1] = true, true, true
	}
	wpts = append(wpts, segPts...)
	var grid []int64
	grid = append(grid, bounds...)
	mids := structural // quick: one point in the middle of every segment / gap
	if thorough {
		mids = bounds // every mid-sample point
	}
	for i := 0; i+1 < len(mids); i++ {
		grid = append(grid, (mids[i]+mids[i+1])/2)
	}
	grid = append(grid, first-int64(time.Second), first-int64(30*time.Millisecond), last+int64(30*time.Millisecond))
	for _, g := range uniqSorted(grid) {
		if !isSeg[g] {
			wpts = append(wpts, startPt{g, "grid"})
		}
	}
	sizes := windowSizes(k)
	recEnd := k.Spans[0].EndNs
	for _, sp := range k.Spans {
		recEnd = max(recEnd, sp.EndNs)
	}
	for _, sp := range wpts {
		ws := sizes
		if sp.ns < recEnd {
			ws = append([]winSize{{"to-end+1ns", recEnd - sp.ns + 1, ""}}, sizes...)
		}
		for _, w := range ws {
			for _, f := range formats {
				add(&sized, Case{Corpus: ki, Kind: "get", Format: f, StartNs: sp.ns, EndNs: satAdd(sp.ns, w.DurNs),
					Win: w.Label, DurNs: w.DurNs, DurRaw: w.Raw, At: sp.at})
			}
		}
	}
	// the segment starts +-1 ns also with every end of the basic grid
	for _, sp := range segPts {
		for _, e := range gridEnds(sp.ns) {
			if e <= sp.ns {
				continue
			}
			for _, f := range formats {
				add(&sized, Case{Corpus: ki, Kind: "get", Format: f, StartNs: sp.ns, EndNs: e, Win: "grid", DurNs: e - sp.ns, At: sp.at})
			}
		}
	}
	// list: every start of {segment start, +-1 ns} and the structural points of the basic grid, with
	// end = start + every window size / the largest instant the parser accepts / every end of the
	// basic grid (segment starts only); (no start, end = segment start +-1 ns)
	lstarts := append([]startPt{}, segPts...)
	for _, b := range structural {
		for _, g := range []int64{b - eps, b, b + eps} {
			if !isSeg[g] {
				lstarts = append(lstarts, startPt{g, "grid"})
			}
		}
	}
	lstarts = append(lstarts, startPt{first - int64(time.Second), "grid"})
	for _, sp := range lstarts {
		for _, w := range sizes {
			if w.Label == "max-seconds" {
				continue // a get-only notion; max-go gives start + MaxInt64 ns
			}
			add(&sized, Case{Corpus: ki, Kind: "list", StartNs: sp.ns, EndNs: satAdd(sp.ns, w.DurNs), Win: w.Label, DurNs: w.DurNs, At: sp.at})
		}
		add(&sized, Case{Corpus: ki, Kind: "list", StartNs: sp.ns, EndNs: math.MaxInt64, Win: "max-instant", EndMax: true, At: sp.at})
		if sp.at == "grid" {
			continue
		}
		add(&sized, Case{Corpus: ki, Kind: "list", StartNs: sp.ns, EndNs: absent, Win: "grid", At: sp.at})
		add(&sized, Case{Corpus: ki, Kind: "list", StartNs: absent, EndNs: sp.ns, Win: "grid", At: sp.at})
		for _, e := range lpts {
			if e > sp.ns {
				add(&sized, Case{Corpus: ki, Kind: "list", StartNs: sp.ns, EndNs: e, Win: "grid", At: sp.at})
			}
		}
	}
	add(&sized, Case{Corpus: ki, Kind: "list", StartNs: absent, EndNs: math.MaxInt64, Win: "max-instant", EndMax: true, At: "grid"})
	return basic, sized
}

func main() {
	if reclib.IsWorker() {
		workerMain()
		return
	}
	r := vcommon.Start("C29", "exploration")
	r.Rule = "corpora recorded by the real recorder; windows: every start in {sample/part/segment/span boundary} x {-100us, 0, +100us, mid-sample} " +
		"plus points outside, every end in {start+50us, next 3 sample boundaries +-100us, every later segment/span boundary (-100us, 0, +100us), +1h}, " +
		"both get formats; list: (start, end) over structural boundaries x {0, +-100us, +-7ms} and a spread of sample boundaries, each optional. " +
		"Size of the requested window: every start in {start of every segment, 1 ns before / after it, every sample boundary, span edge, middle of every segment and gap (thorough: every mid-sample point), points outside} x " +
		"duration in {up to 1 ns past the end of the recording, length of the recording + 1 ns, 1 h, 24 h, 28 h, 29 h, 48 h, 60 h, 1000 h, the largest value the parser accepts (seconds and Go format)}, " +
		"segment starts +-1 ns also x every end of the basic grid; list: the same starts (structural ones) x end = start + every size / year 9999. " +
		"Track time scales 90000, 48000, 44100, 8000. " +
		"distinct = (corpus, request kind, status, number of spans | per track: pre-roll count, in-window count, first/last in-window sample class | window size, kind of start)"

	base, err := reclib.TempDir("c29")
	if err != nil {
		harnessErr("tempdir: %v", err)
	}
	scratchDir = base
	defer os.RemoveAll(base)
	recRoot := filepath.Join(base, "rec")

	corpus := &Corpus{}
	var basicCases, sizedCases []Case
	hists, light := corpora(r.Thorough())
	for ki, h := range hists {
		path := fmt.Sprintf("k%d", ki)
		dir := filepath.Join(recRoot, path)
		_ = os.MkdirAll(dir, 0o755)
		if _, err = reclib.Record(dir, path, h, nil); err != nil {
			harnessErr("corpus %q: %v", h.Name, err)
		}
		files, err2 := reclib.Snapshot(dir)
		if err2 != nil {
			harnessErr("snapshot: %v", err2)
		}
		segs, err2 := reclib.ParseCorpus(files)
		if err2 != nil {
			r.Violation("recording-unparsable", fmt.Sprintf("corpus %q: %v", h.Name, err2), map[string]any{"history": h})
			continue
		}
		bad := false
		for _, d := range reclib.CompareWithSent(h, segs) {
			bad = true
			r.Violation("recorded-media-differs:"+d.Key, fmt.Sprintf("corpus %q: %s", h.Name, d.What), map[string]any{"history": h})
		}
		if bad {
			continue
		}
		k := buildK(h.Name, path, h, segs)
		corpus.K = append(corpus.K, k)
		bc, sc := buildCases(len(corpus.K)-1, &corpus.K[len(corpus.K)-1], r.Thorough(), light[ki])
		basicCases = append(basicCases, bc...)
		sizedCases = append(sizedCases, sc...)
		scales := map[int64]bool{}
		for _, sm := range k.Samples {
			scales[sm.Scale] = true
		}
		var sl []int
		for sc := range scales {
			sl = append(sl, int(sc))
		}
		sort.Ints(sl)
		r.Set(fmt.Sprintf("corpus_%d", ki), fmt.Sprintf("%s: %d segments, %d samples, %d spans, time scales %s, %d requests of the basic grid + %d of the window-size dimension",
			h.Name, len(segs), len(k.Samples), len(k.Spans), joinInts(sl), len(bc), len(sc)))
	}
	// the window-size dimension is scheduled first (each part in spreading order)
	corpus.Cases = append(append([]Case{}, sizedCases...), basicCases...)
	nSized := len(sizedCases)
	{
		f, err2 := os.Create(filepath.Join(base, "corpus.gob"))
		if err2 != nil {
			harnessErr("corpus: %v", err2)
		}
		if err2 = gob.NewEncoder(f).Encode(corpus); err2 != nil {
			harnessErr("corpus: %v", err2)
		}
		f.Close()
	}
	if *flagReplay != "" {
		buf, err2 := os.ReadFile(*flagReplay)
		if err2 != nil {
			harnessErr("replay: %v", err2)
		}
		var rp struct {
			Replay map[string]any `json:"replay"`
		}
		if err2 = json.Unmarshal(buf, &rp); err2 != nil {
			harnessErr("replay: %v", err2)
		}
		t, _ := rp.Replay["request"].(string)
		if t == "" {
			harnessErr("replay: %s names no case", *flagReplay)
		}
		*flagOne = t
	}
	if *flagOne != "" {
		var cs []Case
		for _, c := range corpus.Cases {
			if strings.Contains(describe(c), *flagOne) {
				cs = append(cs, c)
			}
		}
		corpus.Cases = cs
		nSized = 0
		f, _ := os.Create(filepath.Join(base, "corpus.gob"))
		_ = gob.NewEncoder(f).Encode(corpus)
		f.Close()
	}
	total := len(corpus.Cases)
	n := total
	if *flagLimit > 0 && *flagLimit < n {
		n = *flagLimit
	}
	coprime := func(n int) int {
		st := 7919
		for n > 0 && gcd(st, n) != 1 {
			st++
		}
		return st
	}
	strideS, strideB := coprime(nSized), coprime(total-nSized)
	order := func(k int) int {
		if k < nSized {
			return int(int64(k) * int64(strideS) % int64(nSized))
		}
		return nSized + int(int64(k-nSized)*int64(strideB)%int64(total-nSized))
	}
	deadline := time.Now().Add(100 * time.Second)
	if r.Thorough() {
		deadline = time.Now().Add(13 * time.Minute)
	}
	if *flagBudget > 0 {
		deadline = time.Now().Add(time.Duration(*flagBudget) * time.Second)
	}
	kinds := map[string]int{}
	wins := map[string]int{}
	for _, c := range corpus.Cases {
		kinds[c.Kind+c.Format]++
		if c.Win != "" {
			wins[c.Kind+" "+c.Win]++
		}
	}
	handed, err := reclib.RunPool(reclib.PoolOpts{Workers: *flagWorkers, Arg: base, CaseTimeout: 60 * time.Second, Deadline: deadline,
		ExtraArgs: []string{"-tier", r.Tier},
		Order:     order}, n, func(cr reclib.CaseResult) {
		r.Eval(1)
		cs := corpus.Cases[cr.Index]
		rep := map[string]any{"corpus": corpus.K[cs.Corpus].Name, "request": describe(cs)}
		if cr.Death != nil {
			d := cr.Death
			r.Violation("crash:"+d.Key(), fmt.Sprintf("the playback process died (%s: %s at %s) during %s", d.Kind, d.Msg, d.Frame, describe(cs)), rep)
			return
		}
		var res Result
		if err2 := json.Unmarshal(cr.Data, &res); err2 != nil {
			harnessErr("worker answer: %v", err2)
		}
		r.Distinct(res.Class)
		if *flagOne != "" {
			fmt.Printf("%s\n   class: %s\n%s", describe(cs), res.Class, res.Debug)
			for _, v := range res.Viols {
				fmt.Printf("   VIOL %s: %s\n", v.Key, v.What)
			}
		}
		for _, v := range res.Viols {
			r.Violation(v.Key, v.What, rep)
		}
		if cr.Index%1999 == 0 {
			r.Sample(map[string]any{"request": describe(cs), "class": res.Class})
		}
	})
	if err != nil {
		harnessErr("worker pool: %v", err)
	}
	for k, v := range kinds {
		r.Set("requests_"+k, v)
	}
	r.Set("requests", total)
	r.Set("requests_window_size_dimension", nSized)
	{
		var ws []string
		for k, v := range wins {
			ws = append(ws, fmt.Sprintf("%s: %d", k, v))
		}
		sort.Strings(ws)
		r.Set("window_sizes", strings.Join(ws, "; "))
		fs, fns := maxFloatSeconds()
		r.Set("max_duration_parameters", fmt.Sprintf("seconds: %s (= %d ns); go format: 2562047h47m16.854775807s (= %d ns); list end: %s",
			fs, fns, int64(math.MaxInt64), listEndMax.Format(time.RFC3339Nano)))
	}
	r.Set("bound_completed", fmt.Sprintf("%d of %d requests", handed, total))
	r.Exhaustive = handed == total && *flagOne == ""
	r.Assumptions = []string{
		"absolute time of every unit = base + PTS exactly (no drift between clock and timestamps); PTS == DTS (no frame reordering)",
		"H.264 (90 kHz) and MPEG-4 audio (44.1, 48, 8 kHz) tracks; segment/part durations 100/250-300 ms so that every corpus has several segments and parts; the recordings are about 1 s long whatever the size of the requested window",
		"don't-cares: a sample within one tick of its track + file-name microsecond truncation (25 us; 127 us for the 8 kHz track) of a window edge may be in or out; " +
			"output timestamps are compared within 2 ticks; durations of the last sample of a track and of pre-roll samples are not compared; " +
			"spans/clippings shorter than 3 ms may be present or absent, span edges are compared within 2 ms (header durations are in milliseconds)",
		"get is required to serve the stream that contains the requested start; samples of a later stream (after a publisher restart) inside the window are optional, " +
			"and nothing is required when the start lies in a gap or before the first recording (even 1 ns before the first sample of a stream: the server answers 404 there, as for any start in a gap)",
		"the newest unit of every track at close time is held back by the recorder and is not part of the recorded media",
	}
	_ = os.RemoveAll(base)
	r.Finish()
}

func describe(c Case) string {
	f := func(ns int64) string {
		if ns == absent {
			return "-"
		}
		return time.Unix(0, ns).In(time.Local).Format("15:04:05.000000000")
	}
	if c.Kind == "list" {
		switch {
		case c.EndMax:
			return fmt.Sprintf("list k%d start=%s end=%s", c.Corpus, f(c.StartNs), listEndMax.Format(time.RFC3339Nano))
		case c.DurNs > 0:
			return fmt.Sprintf("list k%d start=%s end=start+%s", c.Corpus, f(c.StartNs), time.Duration(c.DurNs))
		}
		return fmt.Sprintf("list k%d start=%s end=%s", c.Corpus, f(c.StartNs), f(c.EndNs))
	}
	switch {
	case c.DurRaw != "":
		return fmt.Sprintf("get k%d %s start=%s duration=%s", c.Corpus, c.Format, f(c.StartNs), c.DurRaw)
	case c.DurNs > 0:
		return fmt.Sprintf("get k%d %s start=%s duration=%s", c.Corpus, c.Format, f(c.StartNs), time.Duration(c.DurNs))
	}
	return fmt.Sprintf("get k%d %s start=%s duration=%s", c.Corpus, c.Format, f(c.StartNs), time.Duration(c.EndNs-c.StartNs))
}

func gcd(a, b int) int {
	for b != 0 {
		a, b = b, a%b
	}
	return a
}

func workerMain() {
	base := reclib.WorkerArg()
	f, err := os.Open(filepath.Join(base, "corpus.gob"))
	if err != nil {
		fmt.Fprintln(os.Stderr, "worker: corpus:", err)
		os.Exit(3)
	}
	var c Corpus
	if err = gob.NewDecoder(f).Decode(&c); err != nil {
		fmt.Fprintln(os.Stderr, "worker: corpus:", err)
		os.Exit(3)
	}
	f.Close()
	dir, err := os.MkdirTemp(base, "w")
	if err != nil {
		fmt.Fprintln(os.Stderr, "worker: tempdir:", err)
		os.Exit(3)
	}
	var paths []string
	for _, k := range c.K {
		paths = append(paths, k.Path)
	}
	pb, err := reclib.StartPlaybackPaths(filepath.Join(base, "rec"), paths, filepath.Join(dir, "pb.sock"))
	if err != nil {
		fmt.Fprintln(os.Stderr, "worker: playback:", err)
		os.Exit(3)
	}
	reclib.WorkerMain(func(w *reclib.WorkerCtx, i int) any {
		cs := c.Cases[i]
		k := &c.K[cs.Corpus]
		pb.PathName = k.Path
		w.Probe(describe(cs))
		if cs.Kind == "list" {
			return evalList(pb, k, cs)
		}
		return evalGet(pb, k, cs)
	})
}

func joinInts(v []int) string {
	s := make([]string, len(v))
	for i, x := range v {
		s[i] = fmt.Sprint(x)
	}
	return strings.Join(s, ",")
}

var scratchDir string

// harnessErr removes the scratch directory and reports a harness error (exit 2).
func harnessErr(format string, a ...any) {
	if scratchDir != "" {
		_ = os.RemoveAll(scratchDir)
	}
	vcommon.Harness(format, a...)
}
