// C29: playback list/get return exactly the recorded media in range.
//
// Engine B. Corpora are recorded by the REAL recorder from generated streams (segment and part
// splits, a gap between two publisher sessions, two sessions adjacent in time, audio leading
// the first random-access video unit); the ground truth is what was sent (validated against the
// files with a reference parser). Every window of a stated grid is requested from the real
// playback server (list; get in fmp4 and mp4) and the answer is compared with a reference model
// written from the statement. The server runs in worker subprocesses.
package main

import (
	"encoding/gob"
	"encoding/json"
	"flag"
	"fmt"
	"os"
	"path/filepath"
	"sort"
	"strings"
	"time"

	"github.com/bluenviron/mediamtx/internal/zzverif/reclib"
	"github.com/bluenviron/mediamtx/internal/zzverif/vcommon"
)

var (
	flagLimit   = flag.Int("limit", 0, "debug: evaluate only the first N cases (in spreading order)")
	flagWorkers = flag.Int("workers", 16, "number of worker subprocesses")
	flagBudget  = flag.Int("budget", 0, "debug: override the internal deadline (seconds)")
	flagReplay  = flag.String("replay", "", "replay file written for a violation: run only its case, verbosely")
	flagOne     = flag.String("one", "", "debug: run only the requests whose description contains this text, verbosely")
)

// RSample is a recorded sample with its absolute time (from the unit that was sent).
type RSample struct {
	TrackID int
	Unit    int
	AbsNs   int64 // absolute timestamp of the unit that was sent
	DurNs   int64 // recorded duration
	Scale   int64
	Sync    bool
	Video   bool
	Stream  int
	Seg     int
	Sum     uint32
	Size    int
}

// RSpan is the recorded media of one stream (publisher session).
type RSpan struct {
	Stream  int
	StartNs int64
	EndNs   int64
}

// KCorpus is one recorded corpus.
type KCorpus struct {
	Name    string
	Path    string
	History reclib.History
	Samples []RSample // in file order
	Spans   []RSpan
	SegNs   []int64 // start of every segment
}

// Case is one request.
type Case struct {
	Corpus  int
	Kind    string // list | get
	Format  string
	StartNs int64 // list: math.MinInt64 = absent
	EndNs   int64 // list: end (absent = MinInt64); get: start+duration
}

const absent = int64(-1 << 63)

// Corpus is what the workers load.
type Corpus struct {
	K     []KCorpus
	Cases []Case
}

// Viol is one violation found by a worker.
type Viol struct {
	Key  string `json:"key"`
	What string `json:"what"`
}

// Result is a worker's answer.
type Result struct {
	Class string `json:"class"`
	Viols []Viol `json:"viols,omitempty"`
	Debug string `json:"debug,omitempty"`
}

func corpora(thorough bool) []reclib.History {
	b := reclib.NewBuilder(1)
	ms := time.Millisecond
	hs := []reclib.History{
		{Name: "video+audio, 5 segments, 1.3 s", PartDuration: 100 * ms, SegmentDuration: 250 * ms,
			Sessions: []reclib.Session{b.Build(reclib.SessionOpts{Video: true, Audio: true, PTS0: 2 * time.Second,
				VideoPeriod: 50 * ms, VideoCount: 27, GOP: 5, AudioCount: 58, VideoSize: 20, AudioSize: 6})}},
		{Name: "two sessions with a 2 s gap", PartDuration: 100 * ms, SegmentDuration: 250 * ms,
			Sessions: []reclib.Session{
				b.Build(reclib.SessionOpts{Video: true, Audio: true, PTS0: 1 * time.Second,
					VideoPeriod: 50 * ms, VideoCount: 12, GOP: 4, AudioCount: 25, VideoSize: 20, AudioSize: 6}),
				b.Build(reclib.SessionOpts{Video: true, Audio: true, Start: 2600 * ms, PTS0: 10 * time.Second,
					VideoPeriod: 50 * ms, VideoCount: 12, GOP: 4, AudioCount: 25, VideoSize: 20, AudioSize: 6}),
			}},
		{Name: "two sessions adjacent in time (no gap, different streams)", PartDuration: 100 * ms, SegmentDuration: 300 * ms,
			Sessions: []reclib.Session{
				b.Build(reclib.SessionOpts{Video: true, PTS0: 4 * time.Second,
					VideoPeriod: 50 * ms, VideoCount: 11, GOP: 3, VideoSize: 20}),
				// the first session's media ends at its 11th unit (held back): 4 s + 500 ms
				b.Build(reclib.SessionOpts{Video: true, Start: -500 * ms, PTS0: 5 * time.Second,
					VideoPeriod: 50 * ms, VideoCount: 11, GOP: 3, VideoSize: 20}),
			}},
		{Name: "audio leads, leading non-sync video units, long GOP", PartDuration: 100 * ms, SegmentDuration: 250 * ms,
			Sessions: []reclib.Session{b.Build(reclib.SessionOpts{Video: true, Audio: true, PTS0: 6 * time.Second, AudioLead: 80 * ms,
				VideoPeriod: 40 * ms, VideoCount: 24, GOP: 7, FirstIDR: 2, AudioCount: 44, VideoSize: 20, AudioSize: 6})}},
	}
	if thorough {
		hs = append(hs, reclib.History{Name: "audio only, 4 segments", PartDuration: 100 * ms, SegmentDuration: 300 * ms,
			Sessions: []reclib.Session{b.Build(reclib.SessionOpts{Audio: true, PTS0: 1 * time.Second, AudioCount: 50, AudioSize: 9})}})
	}
	return hs
}

func ticksToNs(t int64, scale int64) int64 {
	return (t/scale)*int64(time.Second) + (t%scale)*int64(time.Second)/scale
}

// buildK derives the reference data of a corpus from the units sent and the parsed files.
func buildK(name, path string, h reclib.History, segs []reclib.SegFile) KCorpus {
	k := KCorpus{Name: name, Path: path, History: h}
	unitNTP := map[int]int64{}
	for _, s := range h.Sessions {
		for _, u := range s.Units {
			unitNTP[u.ID] = u.NTPns
		}
	}
	streams := map[string]int{}
	for si := range segs {
		sg := &segs[si]
		if _, ok := streams[sg.Info.StreamID]; !ok {
			streams[sg.Info.StreamID] = len(streams)
		}
		st := streams[sg.Info.StreamID]
		k.SegNs = append(k.SegNs, sg.Start.UnixNano())
		for _, p := range sg.Info.Parts {
			for _, s := range p.Samples {
				tr := sg.Info.Track(s.TrackID)
				k.Samples = append(k.Samples, RSample{
					TrackID: s.TrackID, Unit: s.UnitID, AbsNs: unitNTP[s.UnitID], DurNs: ticksToNs(int64(s.Dur), int64(tr.TimeScale)),
					Scale: int64(tr.TimeScale), Sync: s.Sync, Video: tr.Video, Stream: st, Seg: si, Sum: s.Sum, Size: s.Size,
				})
			}
		}
	}
	for st := 0; st < len(streams); st++ {
		sp := RSpan{Stream: st, StartNs: 1<<63 - 1, EndNs: absent}
		for _, s := range k.Samples {
			if s.Stream != st {
				continue
			}
			sp.StartNs = min(sp.StartNs, s.AbsNs)
			sp.EndNs = max(sp.EndNs, s.AbsNs+s.DurNs)
		}
		k.Spans = append(k.Spans, sp)
	}
	return k
}

func uniqSorted(v []int64) []int64 {
	sort.Slice(v, func(i, j int) bool { return v[i] < v[j] })
	var out []int64
	for i, x := range v {
		if i == 0 || x != v[i-1] {
			out = append(out, x)
		}
	}
	return out
}

// buildCases enumerates the windows of a corpus.
func buildCases(ki int, k *KCorpus, thorough bool) []Case {
	const eps = int64(100 * time.Microsecond) // well beyond one tick of either track (11 / 23 us)
	var bounds []int64                         // sample boundaries
	for _, s := range k.Samples {
		if thorough || s.Video || len(k.Samples) < 80 || s.Unit%3 == 0 {
			bounds = append(bounds, s.AbsNs)
		}
	}
	for _, sp := range k.Spans {
		bounds = append(bounds, sp.StartNs, sp.EndNs)
	}
	bounds = append(bounds, k.SegNs...)
	bounds = uniqSorted(bounds)
	var pts []int64 // start candidates
	for _, b := range bounds {
		pts = append(pts, b-eps, b, b+eps)
	}
	for i := 0; i+1 < len(bounds); i++ {
		pts = append(pts, (bounds[i]+bounds[i+1])/2) // mid-sample (+1/2 sample)
	}
	first, last := bounds[0], bounds[len(bounds)-1]
	pts = append(pts, first-int64(time.Second), first-int64(30*time.Millisecond), last+int64(30*time.Millisecond), last+int64(time.Second))
	pts = uniqSorted(pts)

	// ends "reaching each boundary": structural boundaries (segments, spans) and the next sample boundaries
	var structural []int64
	structural = append(structural, k.SegNs...)
	for _, sp := range k.Spans {
		structural = append(structural, sp.StartNs, sp.EndNs)
	}
	structural = uniqSorted(structural)

	var cases []Case
	for _, s := range pts {
		var ends []int64
		ends = append(ends, s+int64(50*time.Microsecond), s+int64(time.Hour))
		n := 0
		for _, b := range bounds {
			if b > s && n < 3 {
				ends = append(ends, b-eps, b+eps)
				n++
			}
		}
		for _, b := range structural {
			if b > s {
				ends = append(ends, b-eps, b, b+eps)
			}
		}
		ends = uniqSorted(ends)
		for _, e := range ends {
			if e <= s {
				continue
			}
			for _, f := range []string{"fmp4", "mp4"} {
				cases = append(cases, Case{Corpus: ki, Kind: "get", Format: f, StartNs: s, EndNs: e})
			}
		}
	}
	// list: start / end over the structural boundaries and a spread of sample boundaries
	var lpts []int64
	for _, b := range structural {
		lpts = append(lpts, b-eps, b, b+eps, b+int64(7*time.Millisecond), b-int64(7*time.Millisecond))
	}
	for i, b := range bounds {
		if i%4 == 0 || thorough {
			lpts = append(lpts, b+eps)
		}
	}
	lpts = append(lpts, first-int64(time.Second), last+int64(time.Second))
	lpts = uniqSorted(lpts)
	cases = append(cases, Case{Corpus: ki, Kind: "list", StartNs: absent, EndNs: absent})
	for _, s := range lpts {
		cases = append(cases, Case{Corpus: ki, Kind: "list", StartNs: s, EndNs: absent})
		cases = append(cases, Case{Corpus: ki, Kind: "list", StartNs: absent, EndNs: s})
		for _, e := range lpts {
			if e > s {
				cases = append(cases, Case{Corpus: ki, Kind: "list", StartNs: s, EndNs: e})
			}
		}
	}
	return cases
}

func main() {
	if reclib.IsWorker() {
		workerMain()
		return
	}
	r := vcommon.Start("C29", "exploration")
	r.Rule = "corpora recorded by the real recorder; windows: every start in {sample/part/segment/span boundary} x {-100us, 0, +100us, mid-sample} " +
		"plus points outside, every end in {start+50us, next 3 sample boundaries +-100us, every later segment/span boundary (-100us, 0, +100us), +1h}, " +
		"both get formats; list: (start, end) over structural boundaries x {0, +-100us, +-7ms} and a spread of sample boundaries, each optional. " +
		"distinct = (corpus, request kind, status, number of spans | per track: pre-roll count, in-window count, first/last in-window sample class)"

	base, err := reclib.TempDir("c29")
	if err != nil {
		harnessErr("tempdir: %v", err)
	}
	scratchDir = base
	defer os.RemoveAll(base)
	recRoot := filepath.Join(base, "rec")

	corpus := &Corpus{}
	for ki, h := range corpora(r.Thorough()) {
		path := fmt.Sprintf("k%d", ki)
		dir := filepath.Join(recRoot, path)
		_ = os.MkdirAll(dir, 0o755)
		if _, err = reclib.Record(dir, path, h, nil); err != nil {
			harnessErr("corpus %q: %v", h.Name, err)
		}
		files, err2 := reclib.Snapshot(dir)
		if err2 != nil {
			harnessErr("snapshot: %v", err2)
		}
		segs, err2 := reclib.ParseCorpus(files)
		if err2 != nil {
			r.Violation("recording-unparsable", fmt.Sprintf("corpus %q: %v", h.Name, err2), map[string]any{"history": h})
			continue
		}
		bad := false
		for _, d := range reclib.CompareWithSent(h, segs) {
			bad = true
			r.Violation("recorded-media-differs:"+d.Key, fmt.Sprintf("corpus %q: %s", h.Name, d.What), map[string]any{"history": h})
		}
		if bad {
			continue
		}
		k := buildK(h.Name, path, h, segs)
		corpus.K = append(corpus.K, k)
		cs := buildCases(len(corpus.K)-1, &corpus.K[len(corpus.K)-1], r.Thorough())
		corpus.Cases = append(corpus.Cases, cs...)
		r.Set(fmt.Sprintf("corpus_%d", ki), fmt.Sprintf("%s: %d segments, %d samples, %d spans, %d requests", h.Name, len(segs), len(k.Samples), len(k.Spans), len(cs)))
	}
	{
		f, err2 := os.Create(filepath.Join(base, "corpus.gob"))
		if err2 != nil {
			harnessErr("corpus: %v", err2)
		}
		if err2 = gob.NewEncoder(f).Encode(corpus); err2 != nil {
			harnessErr("corpus: %v", err2)
		}
		f.Close()
	}
	if *flagReplay != "" {
		buf, err2 := os.ReadFile(*flagReplay)
		if err2 != nil {
			harnessErr("replay: %v", err2)
		}
		var rp struct {
			Replay map[string]any `json:"replay"`
		}
		if err2 = json.Unmarshal(buf, &rp); err2 != nil {
			harnessErr("replay: %v", err2)
		}
		t, _ := rp.Replay["request"].(string)
		if t == "" {
			harnessErr("replay: %s names no case", *flagReplay)
		}
		*flagOne = t
	}
	if *flagOne != "" {
		var cs []Case
		for _, c := range corpus.Cases {
			if strings.Contains(describe(c), *flagOne) {
				cs = append(cs, c)
			}
		}
		corpus.Cases = cs
		f, _ := os.Create(filepath.Join(base, "corpus.gob"))
		_ = gob.NewEncoder(f).Encode(corpus)
		f.Close()
	}
	total := len(corpus.Cases)
	n := total
	if *flagLimit > 0 && *flagLimit < n {
		n = *flagLimit
	}
	stride := 7919
	for gcd(stride, total) != 1 {
		stride++
	}
	deadline := time.Now().Add(100 * time.Second)
	if r.Thorough() {
		deadline = time.Now().Add(13 * time.Minute)
	}
	if *flagBudget > 0 {
		deadline = time.Now().Add(time.Duration(*flagBudget) * time.Second)
	}
	kinds := map[string]int{}
	for _, c := range corpus.Cases {
		kinds[c.Kind+c.Format]++
	}
	handed, err := reclib.RunPool(reclib.PoolOpts{Workers: *flagWorkers, Arg: base, CaseTimeout: 60 * time.Second, Deadline: deadline,
		ExtraArgs: []string{"-tier", r.Tier},
		Order:     func(k int) int { return int(int64(k) * int64(stride) % int64(total)) }}, n, func(cr reclib.CaseResult) {
		r.Eval(1)
		cs := corpus.Cases[cr.Index]
		rep := map[string]any{"corpus": corpus.K[cs.Corpus].Name, "request": describe(cs)}
		if cr.Death != nil {
			d := cr.Death
			r.Violation("crash:"+d.Key(), fmt.Sprintf("the playback process died (%s: %s at %s) during %s", d.Kind, d.Msg, d.Frame, describe(cs)), rep)
			return
		}
		var res Result
		if err2 := json.Unmarshal(cr.Data, &res); err2 != nil {
			harnessErr("worker answer: %v", err2)
		}
		r.Distinct(res.Class)
		if *flagOne != "" {
			fmt.Printf("%s\n   class: %s\n%s", describe(cs), res.Class, res.Debug)
			for _, v := range res.Viols {
				fmt.Printf("   VIOL %s: %s\n", v.Key, v.What)
			}
		}
		for _, v := range res.Viols {
			r.Violation(v.Key, v.What, rep)
		}
		if cr.Index%1999 == 0 {
			r.Sample(map[string]any{"request": describe(cs), "class": res.Class})
		}
	})
	if err != nil {
		harnessErr("worker pool: %v", err)
	}
	for k, v := range kinds {
		r.Set("requests_"+k, v)
	}
	r.Set("requests", total)
	r.Set("bound_completed", fmt.Sprintf("%d of %d requests", handed, total))
	r.Exhaustive = handed == total && *flagOne == ""
	r.Assumptions = []string{
		"absolute time of every unit = base + PTS exactly (no drift between clock and timestamps); PTS == DTS (no frame reordering)",
		"H.264 and MPEG-4 audio tracks; segment/part durations 100/250-300 ms so that every corpus has several segments and parts",
		"don't-cares: a sample within 25 us (one tick of either track + file-name microsecond truncation) of a window edge may be in or out; " +
			"output timestamps are compared within 2 ticks; durations of the last sample of a track and of pre-roll samples are not compared; " +
			"spans/clippings shorter than 3 ms may be present or absent, span edges are compared within 2 ms (header durations are in milliseconds)",
		"get is required to serve the stream that contains the requested start; samples of a later stream (after a publisher restart) inside the window are optional, " +
			"and nothing is required when the start lies in a gap or before the first recording",
		"the newest unit of every track at close time is held back by the recorder and is not part of the recorded media",
	}
	_ = os.RemoveAll(base)
	r.Finish()
}

func describe(c Case) string {
	f := func(ns int64) string {
		if ns == absent {
			return "-"
		}
		return time.Unix(0, ns).In(time.Local).Format("15:04:05.000000000")
	}
	if c.Kind == "list" {
		return fmt.Sprintf("list k%d start=%s end=%s", c.Corpus, f(c.StartNs), f(c.EndNs))
	}
	return fmt.Sprintf("get k%d %s start=%s duration=%s", c.Corpus, c.Format, f(c.StartNs), time.Duration(c.EndNs-c.StartNs))
}

func gcd(a, b int) int {
	for b != 0 {
		a, b = b, a%b
	}
	return a
}

func workerMain() {
	base := reclib.WorkerArg()
	f, err := os.Open(filepath.Join(base, "corpus.gob"))
	if err != nil {
		fmt.Fprintln(os.Stderr, "worker: corpus:", err)
		os.Exit(3)
	}
	var c Corpus
	if err = gob.NewDecoder(f).Decode(&c); err != nil {
		fmt.Fprintln(os.Stderr, "worker: corpus:", err)
		os.Exit(3)
	}
	f.Close()
	dir, err := os.MkdirTemp(base, "w")
	if err != nil {
		fmt.Fprintln(os.Stderr, "worker: tempdir:", err)
		os.Exit(3)
	}
	var paths []string
	for _, k := range c.K {
		paths = append(paths, k.Path)
	}
	pb, err := reclib.StartPlaybackPaths(filepath.Join(base, "rec"), paths, filepath.Join(dir, "pb.sock"))
	if err != nil {
		fmt.Fprintln(os.Stderr, "worker: playback:", err)
		os.Exit(3)
	}
	reclib.WorkerMain(func(w *reclib.WorkerCtx, i int) any {
		cs := c.Cases[i]
		k := &c.K[cs.Corpus]
		pb.PathName = k.Path
		w.Probe(describe(cs))
		if cs.Kind == "list" {
			return evalList(pb, k, cs)
		}
		return evalGet(pb, k, cs)
	})
}

func joinInts(v []int) string {
	s := make([]string, len(v))
	for i, x := range v {
		s[i] = fmt.Sprint(x)
	}
	return strings.Join(s, ",")
}

var scratchDir string

// harnessErr removes the scratch directory and reports a harness error (exit 2).
func harnessErr(format string, a ...any) {
	if scratchDir != "" {
		_ = os.RemoveAll(scratchDir)
	}
	vcommon.Harness(format, a...)
}
