package main

import (
	"fmt"
	"os"
	"sort"
	"strings"
	"time"

	"github.com/bluenviron/mediamtx/internal/zzverif/reclib"
)

// Reference model of list and get, written from the statement.

const (
	edgeTol   = int64(25 * time.Microsecond) // sample-vs-window-edge don't-care (1 tick of a >= 44.1 kHz track + microsecond truncation)
	spanTol   = int64(2 * time.Millisecond)  // span edges (header durations are stored in milliseconds)
	tinySpan  = int64(3 * time.Millisecond)  // clippings shorter than this may be present or absent
	tickSlack = 2                            // output timestamps, in ticks of the track
)

// tolFor is the sample-vs-window-edge don't-care of a track: one tick of the track plus the
// microsecond truncation of the file names (25 us for the 90 / 48 / 44.1 kHz tracks, 127 us at 8 kHz).
func tolFor(scale int64) int64 {
	if scale <= 0 {
		return edgeTol
	}
	return max(edgeTol, int64(time.Second)/scale+2000)
}

func winClass(cs Case) string {
	if cs.Win == "" {
		return ""
	}
	return " win=" + cs.Win + " at=" + cs.At
}

func tstr(ns int64) string { return time.Unix(0, ns).In(time.Local).Format("15:04:05.000000") }

// ---------------------------------------------------------------------------- list

type ival struct{ a, b int64 }

func evalList(pb *reclib.Playback, k *KCorpus, cs Case) Result {
	var res Result
	viol := func(key, what string) {
		res.Viols = append(res.Viols, Viol{Key: "list:" + key, What: what + " [" + describe(cs) + "]"})
	}
	var sp, ep *time.Time
	if cs.StartNs != absent {
		t := time.Unix(0, cs.StartNs)
		sp = &t
	}
	switch {
	case cs.EndMax:
		t := listEndMax
		ep = &t
	case cs.DurNs > 0: // the end instant may not be representable in ns
		t := time.Unix(0, cs.StartNs).Add(time.Duration(cs.DurNs))
		ep = &t
	case cs.EndNs != absent:
		t := time.Unix(0, cs.EndNs)
		ep = &t
	}
	status, spans, body, err := pb.List(sp, ep)
	if err != nil && status == 0 {
		viol("no-answer", err.Error())
		return res
	}
	if err != nil {
		viol("invalid-json", err.Error())
		return res
	}

	// reference: the recorded media of every stream, clipped to the requested interval
	lo, hi := absent, int64(1<<63-1)
	if cs.StartNs != absent {
		lo = cs.StartNs
	}
	if cs.EndNs != absent {
		hi = cs.EndNs // saturated at MaxInt64 when the end is beyond the representable instants
	}
	var must, may []ival // clipped spans that must / may be listed
	for _, s := range k.Spans {
		a, b := max(s.StartNs, lo), min(s.EndNs, hi)
		switch {
		case b-a >= tinySpan:
			must = append(must, ival{a, b})
		case b-a > -tinySpan:
			may = append(may, ival{a, b})
		}
	}

	var got []ival
	if status == 200 {
		for _, s := range spans {
			got = append(got, ival{s.Start.UnixNano(), s.End().UnixNano()})
		}
	}
	res.Class = fmt.Sprintf("k%s list status=%d spans=%d must=%d may=%d start=%v end=%v%s", k.Path, status, len(got), len(must), len(may), sp != nil, ep != nil, winClass(cs))

	if len(must) > 0 && status != 200 {
		viol("error-status", fmt.Sprintf("answers %d (%s) although %d spans of recorded media intersect the interval", status, strings.TrimSpace(string(body)), len(must)))
		return res
	}
	if status != 200 {
		return res
	}
	// time-ordered and non-overlapping
	for i := 1; i < len(got); i++ {
		if got[i].a < got[i-1].a {
			viol("not-time-ordered", fmt.Sprintf("span %d starts before span %d: %s", i, i-1, strings.TrimSpace(string(body))))
		}
		if got[i].a < got[i-1].b-spanTol {
			viol("overlapping", fmt.Sprintf("span %d overlaps span %d: %s", i, i-1, strings.TrimSpace(string(body))))
		}
	}
	// every listed span is a clipped recorded span (must or may), each at most once; every must span is listed
	usedMust := make([]bool, len(must))
	for gi, g := range got {
		ok := false
		for mi, m := range must {
			if !usedMust[mi] && abs64(g.a-m.a) <= spanTol && abs64(g.b-m.b) <= spanTol {
				usedMust[mi] = true
				ok = true
				break
			}
		}
		if !ok {
			for _, m := range may {
				if abs64(g.a-m.a) <= spanTol+tinySpan && abs64(g.b-m.b) <= spanTol+tinySpan {
					ok = true
					break
				}
			}
		}
		if !ok {
			// say how it differs
			what := "does not correspond to any stream's recorded media clipped to the interval"
			for _, m := range must {
				if abs64(g.a-m.a) <= spanTol {
					what = fmt.Sprintf("starts like the recorded span [%s, %s] but ends at %s (off by %s)", tstr(m.a), tstr(m.b), tstr(g.b), time.Duration(g.b-m.b))
				} else if abs64(g.b-m.b) <= spanTol {
					what = fmt.Sprintf("ends like the recorded span [%s, %s] but starts at %s (off by %s)", tstr(m.a), tstr(m.b), tstr(g.a), time.Duration(g.a-m.a))
				}
			}
			key := "span-not-recorded-media"
			// merged across streams?
			for _, m1 := range k.Spans {
				for _, m2 := range k.Spans {
					if m1.Stream != m2.Stream && g.a <= m1.StartNs+spanTol && g.b >= m2.EndNs-spanTol && m2.StartNs >= m1.EndNs-spanTol {
						key = "merges-different-streams"
					}
				}
			}
			viol(key, fmt.Sprintf("span %d [%s, %s] %s; expected %s", gi, tstr(g.a), tstr(g.b), what, ivals(must)))
		}
	}
	for mi, m := range must {
		if !usedMust[mi] {
			viol("recorded-span-missing", fmt.Sprintf("recorded media [%s, %s] is not listed; got %s", tstr(m.a), tstr(m.b), ivals(got)))
		}
	}
	return res
}

func ivals(v []ival) string {
	var s []string
	for _, i := range v {
		s = append(s, fmt.Sprintf("[%s, %s]", tstr(i.a), tstr(i.b)))
	}
	return "{" + strings.Join(s, " ") + "}"
}

func abs64(x int64) int64 {
	if x < 0 {
		return -x
	}
	return x
}

// ---------------------------------------------------------------------------- get

func evalGet(pb *reclib.Playback, k *KCorpus, cs Case) Result {
	var res Result
	viol := func(key, what string) {
		res.Viols = append(res.Viols, Viol{Key: "get:" + key, What: what + " [" + describe(cs) + "]"})
	}
	S, E := cs.StartNs, cs.EndNs
	var status int
	var body []byte
	var err error
	switch {
	case cs.DurRaw != "":
		status, body, err = pb.GetRaw(time.Unix(0, S).Format(time.RFC3339Nano), cs.DurRaw, cs.Format)
	case cs.DurNs > 0:
		status, body, err = pb.Get(time.Unix(0, S), time.Duration(cs.DurNs), cs.Format)
	default:
		status, body, err = pb.Get(time.Unix(0, S), time.Duration(E-S), cs.Format)
	}
	if err != nil && status == 0 {
		viol("no-answer", err.Error())
		return res
	}

	// the stream that contains the start
	// (a start before the first sample of a stream -- even 1 ns before it -- lies in a gap or
	// before the recording: nothing is required then, see the assumptions)
	stream := -1
	for _, sp := range k.Spans {
		if S >= sp.StartNs && S < sp.EndNs {
			stream = sp.Stream
		}
	}
	startsAtEdge := false
	for _, sp := range k.Spans {
		if abs64(S-sp.EndNs) <= spanTol || (S < sp.StartNs && S >= sp.StartNs-edgeTol) {
			startsAtEdge = true
		}
	}

	// reference classification of every recorded sample
	type cl int
	const (
		out cl = iota
		required
		edge // within the tolerance of a window edge: may be served or not
		optional
	)
	class := make([]cl, len(k.Samples))
	nReq := 0
	for i, s := range k.Samples {
		inWin := s.AbsNs >= S && s.AbsNs < E
		nearEdge := abs64(s.AbsNs-S) <= tolFor(s.Scale) || abs64(s.AbsNs-E) <= tolFor(s.Scale)
		switch {
		case nearEdge:
			class[i] = edge
		case !inWin:
			class[i] = out
		case s.Stream == stream:
			class[i] = required
			nReq++
		default:
			class[i] = optional // another stream inside the window
		}
	}

	var got []reclib.Sample
	var tracks []reclib.TrackInfo
	if status == 200 {
		var perr error
		if cs.Format == "mp4" {
			tracks, got, perr = reclib.ParseMP4Response(body)
		} else {
			tracks, got, perr = reclib.ParseFMP4Response(body)
		}
		if perr != nil {
			viol("invalid-answer", fmt.Sprintf("status 200 with %d bytes that are not a valid %s file: %v", len(body), cs.Format, perr))
			return res
		}
	}
	_ = tracks

	if nReq > 0 && status != 200 {
		// which tracks have samples in the window
		tr := map[int]bool{}
		for i, c := range class {
			if c == required {
				tr[k.Samples[i].TrackID] = true
			}
		}
		nTracks := map[int]bool{}
		for _, s := range k.Samples {
			nTracks[s.TrackID] = true
		}
		shape := "every-track-has-samples-in-window"
		if len(tr) < len(nTracks) {
			shape = "some-track-has-no-sample-in-window"
		}
		viol(fmt.Sprintf("%s:error-status-%d:%s", cs.Format, status, shape), fmt.Sprintf("answers %d (%s) although %d recorded samples of the stream containing the start fall in the window",
			status, strings.TrimSpace(string(body)), nReq))
		res.Class = fmt.Sprintf("k%s get-%s status=%d required=%d%s", k.Path, cs.Format, status, nReq, winClass(cs))
		return res
	}
	if status != 200 {
		res.Class = fmt.Sprintf("k%s get-%s status=%d required=0 stream=%v edge=%v%s", k.Path, cs.Format, status, stream >= 0, startsAtEdge, winClass(cs))
		return res
	}

	// index recorded samples by unit
	byUnit := map[int]int{}
	for i, s := range k.Samples {
		byUnit[s.Unit] = i
	}
	// per track, in served order
	trackIDs := []int{}
	servedBy := map[int][]reclib.Sample{}
	for _, g := range got {
		if _, ok := servedBy[g.TrackID]; !ok {
			trackIDs = append(trackIDs, g.TrackID)
		}
		servedBy[g.TrackID] = append(servedBy[g.TrackID], g)
	}
	sort.Ints(trackIDs)
	served := make([]bool, len(k.Samples))
	var classParts []string

	for _, tid := range trackIDs {
		// recorded samples of this track, in recorded order
		var rec []int
		for i, s := range k.Samples {
			if s.TrackID == tid {
				rec = append(rec, i)
			}
		}
		pos := map[int]int{}
		for p, i := range rec {
			pos[i] = p
		}
		gs := servedBy[tid]
		tol := edgeTol
		if len(rec) > 0 {
			tol = tolFor(k.Samples[rec[0]].Scale)
		}
		prevPos := -1
		nPre, nIn := 0, 0
		firstInIdx := -1
		var pre []int
		for gi, g := range gs {
			ri, ok := byUnit[g.UnitID]
			if !ok || g.UnitID < 0 || k.Samples[ri].TrackID != tid {
				viol("unknown-sample", fmt.Sprintf("track %d sample %d (unit %d) was never recorded on this track", tid, gi, g.UnitID))
				continue
			}
			rs := k.Samples[ri]
			if g.Sum != rs.Sum || g.Size != rs.Size {
				viol("payload-differs", fmt.Sprintf("track %d: payload of unit %d differs from what was recorded", tid, g.UnitID))
			}
			if g.Sync != rs.Sync {
				viol("sync-flag-differs", fmt.Sprintf("track %d: unit %d served with sync=%v, recorded with %v", tid, g.UnitID, g.Sync, rs.Sync))
			}
			if served[ri] {
				viol("sample-twice", fmt.Sprintf("track %d: unit %d served twice", tid, g.UnitID))
			}
			served[ri] = true
			// recorded order, without holes
			if prevPos >= 0 && pos[ri] != prevPos+1 {
				if pos[ri] <= prevPos {
					viol("order", fmt.Sprintf("track %d: unit %d served after unit %d, recorded before it", tid, g.UnitID, k.Samples[rec[prevPos]].Unit))
				} else {
					viol("hole", fmt.Sprintf("track %d: %d recorded samples skipped between unit %d and unit %d", tid, pos[ri]-prevPos-1, k.Samples[rec[prevPos]].Unit, g.UnitID))
				}
			}
			prevPos = pos[ri]
			// window classification
			switch {
			case rs.AbsNs < S-tol:
				nPre++
				pre = append(pre, ri)
				if firstInIdx >= 0 {
					viol("preroll-after-window-start", fmt.Sprintf("track %d: unit %d (before the start) follows in-window samples", tid, g.UnitID))
				}
			case rs.AbsNs-E >= tol: // (E may be MaxInt64)
				viol("sample-after-window", fmt.Sprintf("track %d: unit %d at %s is %s after the end of the window", tid, g.UnitID, tstr(rs.AbsNs), time.Duration(rs.AbsNs-E)))
			default:
				nIn++
				if firstInIdx < 0 {
					firstInIdx = ri
				}
				// relative to the requested start
				wantTicks := (rs.AbsNs - S) * rs.Scale / int64(time.Second)
				if abs64(rs.AbsNs-S) > tol && abs64(g.DTS-wantTicks) > tickSlack {
					viol("timestamp-not-relative-to-start", fmt.Sprintf("track %d: unit %d served at %d ticks, it lies %d ticks after the requested start",
						tid, g.UnitID, g.DTS, wantTicks))
				}
			}
		}
		// pre-roll: only the samples since the last random-access point before the start
		if nPre > 0 || (firstInIdx >= 0 && !k.Samples[firstInIdx].Sync) {
			// allowed pre-roll: from the last sync sample before S (of the same stream as what follows) to S
			var allowed []int
			for _, i := range rec {
				s := k.Samples[i]
				if s.AbsNs >= S-tol {
					break
				}
				if s.Sync {
					allowed = allowed[:0]
				}
				allowed = append(allowed, i)
			}
			// edge samples (within tolerance of S) may count on either side; compare modulo them
			same := len(pre) == len(allowed)
			if same {
				for i := range pre {
					if pre[i] != allowed[i] {
						same = false
					}
				}
			}
			needPre := firstInIdx >= 0 && !k.Samples[firstInIdx].Sync
			// when the pre-roll is not needed (no sample of the track in the window, or the first
			// one is a random-access sample) any part of the allowed pre-roll is "only samples since
			// the last random-access point" (contiguity is checked above)
			subset := true
			inAllowed := map[int]bool{}
			for _, i := range allowed {
				inAllowed[i] = true
			}
			for _, i := range pre {
				if !inAllowed[i] {
					subset = false
				}
			}
			switch {
			case same:
			case !needPre && subset:
			case len(pre) == 0 && !needPre:
			case len(pre) == 0 && needPre:
				viol("preroll-missing", fmt.Sprintf("track %d: the first sample in the window (unit %d) is not a random-access sample and nothing precedes it",
					tid, k.Samples[firstInIdx].Unit))
			default:
				var pu, au []int
				for _, i := range pre {
					pu = append(pu, k.Samples[i].Unit)
				}
				for _, i := range allowed {
					au = append(au, k.Samples[i].Unit)
				}
				viol("preroll-wrong", fmt.Sprintf("track %d: samples before the start are units [%s]; since the last random-access point before the start: [%s]",
					tid, joinInts(pu), joinInts(au)))
			}
		}
		fs := "-"
		if firstInIdx >= 0 {
			fs = "nonsync"
			if k.Samples[firstInIdx].Sync {
				fs = "sync"
			}
		}
		classParts = append(classParts, fmt.Sprintf("t%d:pre%d/in%s/first=%s", tid, min(nPre, 9), bucket(nIn), fs))
	}

	// every required sample is served
	missKey := ""
	var missing []int
	for i, c := range class {
		if c == required && !served[i] {
			missing = append(missing, k.Samples[i].Unit)
		}
	}
	if len(missing) > 0 {
		// are the missing samples the last in-window samples of their tracks?
		where := "at-the-end-of-the-window"
		for i, c := range class {
			if c == required && !served[i] {
				for j := i + 1; j < len(k.Samples); j++ {
					if k.Samples[j].TrackID == k.Samples[i].TrackID && class[j] == required && served[j] {
						where = "before-served-samples"
					}
				}
			}
		}
		missKey = "sample-in-window-missing:" + where
		sort.Ints(missing)
		if len(missing) > 12 {
			missing = missing[:12]
		}
		viol(missKey, fmt.Sprintf("%d recorded samples in the window are not served (units %s...)", len(missing), joinInts(missing)))
	}
	res.Class = fmt.Sprintf("k%s get-%s 200 %s stream=%v%s", k.Path, cs.Format, strings.Join(classParts, " "), stream >= 0, winClass(cs))
	if os.Getenv("C29_DEBUG") != "" {
		var sb strings.Builder
		for _, g := range got {
			ri := byUnit[g.UnitID]
			fmt.Fprintf(&sb, "   served t%d unit %d dts=%d dur=%d sync=%v abs=%s (rel %s)\n", g.TrackID, g.UnitID, g.DTS, g.Dur, g.Sync, tstr(k.Samples[ri].AbsNs), time.Duration(k.Samples[ri].AbsNs-S))
		}
		for i, c := range class {
			if c == required || c == edge {
				fmt.Fprintf(&sb, "   ref t%d unit %d class=%d abs=%s served=%v seg=%d\n", k.Samples[i].TrackID, k.Samples[i].Unit, c, tstr(k.Samples[i].AbsNs), served[i], k.Samples[i].Seg)
			}
		}
		res.Debug = sb.String()
	}
	return res
}

func bucket(n int) string {
	switch {
	case n <= 3:
		return fmt.Sprint(n)
	case n <= 10:
		return "4-10"
	default:
		return ">10"
	}
}
