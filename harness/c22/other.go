package main

import (
	"bytes"
	"fmt"
	"strings"

	"github.com/bluenviron/gortsplib/v5/pkg/format"

	"github.com/bluenviron/mediamtx/internal/unit"
	"github.com/bluenviron/mediamtx/internal/zzverif/vcommon"
)

// ---------- MPEG-4 Video ----------

type seg struct {
	name string
	b    []byte
}

var m4segs = []seg{
	{"VOP", []byte{0, 0, 1, 0xB6, 0x10}},
	{"GOV", []byte{0, 0, 1, 0xB3, 0x00}},
	{"VOS", []byte{0, 0, 1, 0xB0, 0x01}},
	{"VOL1", []byte{0, 0, 1, 0x20, 0xAA}},
	{"VOL2", []byte{0, 0, 1, 0x20, 0xBB}},
	{"VO", []byte{0, 0, 1, 0xB5, 0x09}},
	{"x", []byte{0x7F}},
}

var (
	m4VOS = []byte{0, 0, 1, 0xB0}
	m4GOV = []byte{0, 0, 1, 0xB3}
)

func m4Frame(l []int) ([]byte, string) {
	var b []byte
	n := make([]string, len(l))
	for i, s := range l {
		b = append(b, m4segs[s].b...)
		n[i] = m4segs[s].name
	}
	return b, strings.Join(n, ",")
}

// reference: a frame that starts with a visual-object-sequence start code and contains a GOV carries a
// configuration (everything before the first GOV): it becomes the current one and is taken off the frame;
// a frame that (then) contains a GOV gets the current configuration in front. Nothing else changes.
func m4Ref(cur []byte, frame []byte) (newCur []byte, out []byte) {
	body := frame
	if bytes.HasPrefix(frame, m4VOS) {
		if i := bytes.Index(frame[4:], m4GOV); i >= 0 {
			cur = frame[:i+4]
			body = frame[i+4:]
		}
	}
	if bytes.Contains(body, m4GOV) && cur != nil {
		return cur, append(append([]byte(nil), cur...), body...)
	}
	return cur, body
}

func runM4Sequence(vb *vbuf, init int, seq [][]int) {
	var cur []byte
	if init == 1 {
		cur = []byte{0, 0, 1, 0xB0, 0x01, 0, 0, 1, 0xB5, 0x09, 0, 0, 1, 0x20, 0xAA} // VOS,VO,VOL1
	}
	initCfg := cur
	// the initial configuration comes from a parsed session description: a sub-slice of a decode buffer with
	// spare capacity as well
	sdpAr := newArena(64, 1)
	var sdpCfg []byte
	if cur != nil {
		sdpCfg = sdpAr.carve(cur, "initial description configuration")
	}
	s := newSession(&format.MPEG4Video{PayloadTyp: 96, Config: sdpCfg})
	closed := false
	defer func() {
		if !closed {
			s.close()
		}
	}()
	names := make([]string, len(seq))
	frames := make([][]byte, len(seq))
	total := 0
	for i, l := range seq {
		frames[i], names[i] = m4Frame(l)
		total += len(frames[i])
	}
	// the publisher's receive buffer: every frame of the sequence is a sub-slice of it (cap > len)
	ar := newArena(total, len(seq))
	tr := &tracker{arenas: []*arena{ar, sdpAr}}
	for step := range seq {
		rep := map[string]any{"codec": "mpeg4video", "initial_config": fmt.Sprintf("%x", cur), "frames": names, "failing_frame_index": step}
		before := cur
		var want []byte
		cur, want = m4Ref(cur, frames[step])
		in := ar.carve(frames[step], fmt.Sprintf("input frame %d [%s]", step, names[step]))
		u := s.write(unit.PayloadMPEG4Video(in), int64(3000*(step+1)))
		r.Eval(1)
		if u == nil && s.panicked != "" {
			vb.add("mpeg4video:panic", fmt.Sprintf("mpeg4video frames %v: WriteUnit panicked on frame %d: %s", names, step, vcommon.Short(s.panicked, 300)), rep)
			return
		}
		if u == nil {
			vb.add("mpeg4video:unit-rejected", fmt.Sprintf("mpeg4video frames %v: frame %d rejected", names, step), rep)
			return
		}
		var got []byte
		if u.Payload != nil {
			p, ok := u.Payload.(unit.PayloadMPEG4Video)
			if !ok {
				vb.add("mpeg4video:payload-type", fmt.Sprintf("delivered payload has type %T", u.Payload), rep)
				return
			}
			got = p
		}
		if !bytes.Equal(got, want) {
			vb.add("mpeg4video:payload-mismatch", fmt.Sprintf("mpeg4video config %x, frame [%s]: delivered %x, reference %x (frames %v)",
				before, names[step], got, want, names), rep)
			return
		}
		desc := s.outFormat().(*format.MPEG4Video).Config
		if !bytes.Equal(desc, cur) {
			vb.add("mpeg4video:description-not-most-recent", fmt.Sprintf("mpeg4video config %x, frame [%s]: description reports %x, most recent configuration is %x (frames %v)",
				before, names[step], desc, cur, names), rep)
			return
		}
		// aliasing over time: what was delivered / handed over / reported before must still read the same
		tr.retainPayload(step, u.Payload)
		tr.retainDesc(step, [][]byte{desc})
		if f := tr.check(fmt.Sprintf("after frame %d [%s] was written", step, names[step])); f != nil {
			vb.add("mpeg4video:"+f.key, fmt.Sprintf("mpeg4video initial config %x, frames %v: %s", initCfg, names, f.what), rep)
			return
		}
		changed := !bytes.Equal(before, cur)
		if changed {
			count(&updates)
		}
		pre := bytes.Contains(want, m4GOV) && cur != nil
		if pre {
			count(&prefixed)
		}
		distinct(fmt.Sprintf("mpeg4video|cfg=%d|%s|update=%v|prefix=%v", len(before), names[step], changed, pre))
		if len(seq) == 1 && changed && pre && init == 1 {
			r.Sample(map[string]any{"codec": "mpeg4video", "frame": names[step], "delivered": fmt.Sprintf("%x", got), "description_after": fmt.Sprintf("%x", cur)})
		}
	}
	s.close()
	closed = true
	if f := tr.check("after the stream was closed"); f != nil {
		vb.add("mpeg4video:"+f.key, fmt.Sprintf("mpeg4video initial config %x, frames %v: %s", initCfg, names, f.what),
			map[string]any{"codec": "mpeg4video", "initial_config": fmt.Sprintf("%x", initCfg), "frames": names, "failing_frame_index": len(seq) - 1})
	}
}

func runMPEG4Video(thorough bool) int64 {
	l1, l2, ls := 2, 3, 4
	if thorough {
		l1, l2, ls = 3, 4, 5
	}
	first := allLists(len(m4segs), l1)
	second := allLists(len(m4segs), l2)
	var n int64
	for init := 0; init <= 1; init++ {
		vb := &vbuf{}
		for _, a := range allLists(len(m4segs), ls) {
			runM4Sequence(vb, init, [][]int{a})
			n++
		}
		vb.flush()
	}
	for init := 0; init <= 1; init++ {
		vbs := make([]vbuf, len(first))
		vcommon.Parallel(len(first), func(i int) {
			for _, b := range second {
				runM4Sequence(&vbs[i], init, [][]int{first[i], b})
			}
		})
		flushAll(vbs)
		n += int64(len(first) * len(second))
	}
	return n
}

// ---------- AV1 ----------

var av1syms = []sym{
	{"FRAME", []byte{0x32, 0x01}, clsOther, 0},    // OBU_FRAME
	{"TD", []byte{0x12, 0x00}, clsAUD, 0},         // temporal delimiter with size field
	{"SEQ", []byte{0x0a, 0x01}, clsOther, 0},      // sequence header
	{"TD1", []byte{0x10}, clsAUD, 0},              // temporal delimiter, 1 byte
	{"META", []byte{0x2a, 0x01}, clsOther, 0},     // metadata
	{"TILEGRP", []byte{0x22, 0x01}, clsOther, 0},  // tile group
	{"PADDING", []byte{0x7a, 0x01}, clsOther, 0},  // padding
	{"FRAMEHDR", []byte{0x1a, 0x01}, clsOther, 0}, // frame header
}

func runAV1(thorough bool) int64 {
	maxLen := 4
	if thorough {
		maxLen = 6
	}
	lists := allLists(len(av1syms), maxLen)
	// one real stream per chunk of lists: the AV1 remuxer is stateless, a fresh stream per list adds nothing;
	// the first 600 lists still get a fresh stream each.
	const chunk = 256
	nChunks := (len(lists) + chunk - 1) / chunk
	vbs := make([]vbuf, nChunks)
	vcommon.Parallel(nChunks, func(ci int) {
		var s *session
		var tr *tracker
		trStart := 0
		for li := ci * chunk; li < min((ci+1)*chunk, len(lists)); li++ {
			if s == nil || li < 600 {
				if s != nil {
					s.close()
				}
				s = newSession(&format.AV1{PayloadTyp: 96})
				tr = &tracker{}
				trStart = li
			}
			l := lists[li]
			var elems, want [][]byte
			names := make([]string, len(l))
			total := 0
			for i, si := range l {
				elems = append(elems, av1syms[si].b)
				total += len(av1syms[si].b)
				names[i] = av1syms[si].name
				if av1syms[si].cls != clsAUD {
					want = append(want, av1syms[si].b)
				}
			}
			// every OBU is a sub-slice of the publisher's receive buffer of this temporal unit (cap > len); the
			// units written earlier on the same stream stay retained and are re-compared after this one
			ar := newArena(total, len(l))
			tr.arenas = append(tr.arenas, ar)
			in := tr.carveList(ar, li, elems, names)
			rep := map[string]any{"codec": "av1", "obus": names}
			u := s.write(unit.PayloadAV1(in), int64(3000*(li+1)))
			r.Eval(1)
			if u == nil && s.panicked != "" {
				vbs[ci].add("av1:panic", fmt.Sprintf("av1 temporal unit %v: WriteUnit panicked: %s", names, vcommon.Short(s.panicked, 300)), rep)
				s.panicked = ""
				continue
			}
			if u == nil {
				vbs[ci].add("av1:unit-rejected", fmt.Sprintf("av1 temporal unit %v rejected", names), rep)
				continue
			}
			var got [][]byte
			if u.Payload != nil {
				p, ok := u.Payload.(unit.PayloadAV1)
				if !ok {
					vbs[ci].add("av1:payload-type", fmt.Sprintf("delivered payload has type %T", u.Payload), rep)
					continue
				}
				got = p
			}
			if !equalLists(got, want) {
				vbs[ci].add("av1:payload-mismatch", fmt.Sprintf("av1 temporal unit %v: delivered %s, reference %s", names, hexList(got), hexList(want)), rep)
			}
			tr.retainPayload(li, u.Payload)
			if f := tr.check(fmt.Sprintf("after temporal unit #%d %v was written", li, names)); f != nil {
				vbs[ci].add("av1:"+f.key, fmt.Sprintf("av1 (units are numbered by enumeration index; stream started at unit #%d): %s", trStart, f.what), rep)
				// start over on a fresh stream: what is retained is no longer trustworthy
				s.close()
				s = nil
			}
			if len(got) == 0 {
				count(&emptied)
			}
			shape := make([]byte, len(l))
			for i, si := range l {
				shape[i] = 'o'
				if av1syms[si].cls == clsAUD {
					shape[i] = 'T'
				}
			}
			distinct("av1|" + string(shape))
		}
		if s != nil {
			s.close()
			if f := tr.check("after the stream was closed"); f != nil {
				vbs[ci].add("av1:"+f.key, fmt.Sprintf("av1 (units are numbered by enumeration index; stream started at unit #%d): %s", trStart, f.what),
					map[string]any{"codec": "av1", "stream_started_at_enumeration_index": trStart})
			}
		}
	})
	flushAll(vbs)
	return int64(len(lists))
}

func ruleText(thorough bool) string {
	if thorough {
		return "H.264 (9 NALU symbols) and H.265 (12 symbols): x initial description parameters {none, all}: every single access unit of <=3 NALUs, " +
			"every pair (a1 of <=3 [H.265: <=2] NALUs, a2 of <=3), every triple (a1,a2 of 1 NALU, a3 of <=3); " +
			"MPEG-4 Video (7 segment symbols: VOP, GOV, VOS, VOL1, VOL2, VO, stray byte): every frame of <=5 segments and every pair (<=3, <=4) x initial config {none, VOS+VO+VOL1}; " +
			"AV1 (8 OBU symbols, 2 temporal delimiter forms): every temporal unit of <=6 OBUs. " +
			"Each sequence on a fresh real Stream; every input element is a sub-slice (cap > len) of one receive buffer per sequence, and every delivered payload, description copy, input list and receive buffer is re-compared with its snapshot after every later write and after Close; " +
			"distinct = (codec, parameter state before, unit shape by NALU class, parameters prepended, description changed, delivered length)"
	}
	return "H.264 (9 NALU symbols) and H.265 (12 symbols): x initial description parameters {none, all}: every single access unit of <=3 NALUs and " +
		"every pair (a1 of <=2 [H.265: 1] NALUs, a2 of <=3); " +
		"MPEG-4 Video (7 segment symbols: VOP, GOV, VOS, VOL1, VOL2, VO, stray byte): every frame of <=4 segments and every pair (<=2, <=3) x initial config {none, VOS+VO+VOL1}; " +
		"AV1 (8 OBU symbols, 2 temporal delimiter forms): every temporal unit of <=4 OBUs. " +
		"Each sequence on a fresh real Stream; every input element is a sub-slice (cap > len) of one receive buffer per sequence, and every delivered payload, description copy, input list and receive buffer is re-compared with its snapshot after every later write and after Close; " +
		"distinct = (codec, parameter state before, unit shape by NALU class, parameters prepended, description changed, delivered length)"
}
