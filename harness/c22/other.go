package main

import (
	"bytes"
	"fmt"
	"strings"

	"github.com/bluenviron/gortsplib/v5/pkg/format"

	"github.com/bluenviron/mediamtx/internal/unit"
	"github.com/bluenviron/mediamtx/internal/zzverif/vcommon"
)

// ---------- MPEG-4 Video ----------

type seg struct {
	name string
	b    []byte
}

var m4segs = []seg{
	{"VOP", []byte{0, 0, 1, 0xB6, 0x10}},
	{"GOV", []byte{0, 0, 1, 0xB3, 0x00}},
	{"VOS", []byte{0, 0, 1, 0xB0, 0x01}},
	{"VOL1", []byte{0, 0, 1, 0x20, 0xAA}},
	{"VOL2", []byte{0, 0, 1, 0x20, 0xBB}},
	{"VO", []byte{0, 0, 1, 0xB5, 0x09}},
	{"x", []byte{0x7F}},
}

var (
	m4VOS = []byte{0, 0, 1, 0xB0}
	m4GOV = []byte{0, 0, 1, 0xB3}
)

func m4Frame(l []int) ([]byte, string) {
	var b []byte
	n := make([]string, len(l))
	for i, s := range l {
		b = append(b, m4segs[s].b...)
		n[i] = m4segs[s].name
	}
	return b, strings.Join(n, ",")
}

// reference: a frame that starts with a visual-object-sequence start code and contains a GOV carries a
// configuration (everything before the first GOV): it becomes the current one and is taken off the frame;
// a frame that (then) contains a GOV gets the current configuration in front. Nothing else changes.
func m4Ref(cur []byte, frame []byte) (newCur []byte, out []byte) {
	body := frame
	if bytes.HasPrefix(frame, m4VOS) {
		if i := bytes.Index(frame[4:], m4GOV); i >= 0 {
			cur = frame[:i+4]
			body = frame[i+4:]
		}
	}
	if bytes.Contains(body, m4GOV) && cur != nil {
		return cur, append(append([]byte(nil), cur...), body...)
	}
	return cur, body
}

func runM4Sequence(vb *vbuf, init int, seq [][]int) {
	var cur []byte
	if init == 1 {
		cur = []byte{0, 0, 1, 0xB0, 0x01, 0, 0, 1, 0xB5, 0x09, 0, 0, 1, 0x20, 0xAA} // VOS,VO,VOL1
	}
	s := newSession(&format.MPEG4Video{PayloadTyp: 96, Config: cur})
	defer s.close()
	names := make([]string, len(seq))
	frames := make([][]byte, len(seq))
	for i, l := range seq {
		frames[i], names[i] = m4Frame(l)
	}
	for step := range seq {
		rep := map[string]any{"codec": "mpeg4video", "initial_config": fmt.Sprintf("%x", cur), "frames": names, "failing_frame_index": step}
		before := cur
		var want []byte
		cur, want = m4Ref(cur, frames[step])
		in := append([]byte(nil), frames[step]...)
		u := s.write(unit.PayloadMPEG4Video(in), int64(3000*(step+1)))
		r.Eval(1)
		if u == nil && s.panicked != "" {
			vb.add("mpeg4video:panic", fmt.Sprintf("mpeg4video frames %v: WriteUnit panicked on frame %d: %s", names, step, vcommon.Short(s.panicked, 300)), rep)
			return
		}
		if u == nil {
			vb.add("mpeg4video:unit-rejected", fmt.Sprintf("mpeg4video frames %v: frame %d rejected", names, step), rep)
			return
		}
		var got []byte
		if u.Payload != nil {
			p, ok := u.Payload.(unit.PayloadMPEG4Video)
			if !ok {
				vb.add("mpeg4video:payload-type", fmt.Sprintf("delivered payload has type %T", u.Payload), rep)
				return
			}
			got = p
		}
		if !bytes.Equal(got, want) {
			vb.add("mpeg4video:payload-mismatch", fmt.Sprintf("mpeg4video config %x, frame [%s]: delivered %x, reference %x (frames %v)",
				before, names[step], got, want, names), rep)
			return
		}
		desc := s.outFormat().(*format.MPEG4Video).Config
		if !bytes.Equal(desc, cur) {
			vb.add("mpeg4video:description-not-most-recent", fmt.Sprintf("mpeg4video config %x, frame [%s]: description reports %x, most recent configuration is %x (frames %v)",
				before, names[step], desc, cur, names), rep)
			return
		}
		if !bytes.Equal(in, frames[step]) {
			vb.add("mpeg4video:input-mutated", fmt.Sprintf("mpeg4video frame [%s]: input bytes modified", names[step]), rep)
		}
		changed := !bytes.Equal(before, cur)
		if changed {
			count(&updates)
		}
		pre := bytes.Contains(want, m4GOV) && cur != nil
		if pre {
			count(&prefixed)
		}
		distinct(fmt.Sprintf("mpeg4video|cfg=%d|%s|update=%v|prefix=%v", len(before), names[step], changed, pre))
		if len(seq) == 1 && changed && pre && init == 1 {
			r.Sample(map[string]any{"codec": "mpeg4video", "frame": names[step], "delivered": fmt.Sprintf("%x", got), "description_after": fmt.Sprintf("%x", cur)})
		}
	}
}

func runMPEG4Video(thorough bool) int64 {
	l1, l2, ls := 2, 3, 4
	if thorough {
		l1, l2, ls = 3, 4, 5
	}
	first := allLists(len(m4segs), l1)
	second := allLists(len(m4segs), l2)
	var n int64
	for init := 0; init <= 1; init++ {
		vb := &vbuf{}
		for _, a := range allLists(len(m4segs), ls) {
			runM4Sequence(vb, init, [][]int{a})
			n++
		}
		vb.flush()
	}
	for init := 0; init <= 1; init++ {
		vbs := make([]vbuf, len(first))
		vcommon.Parallel(len(first), func(i int) {
			for _, b := range second {
				runM4Sequence(&vbs[i], init, [][]int{first[i], b})
			}
		})
		flushAll(vbs)
		n += int64(len(first) * len(second))
	}
	return n
}

// ---------- AV1 ----------

var av1syms = []sym{
	{"FRAME", []byte{0x32, 0x01}, clsOther, 0},     // OBU_FRAME
	{"TD", []byte{0x12, 0x00}, clsAUD, 0},          // temporal delimiter with size field
	{"SEQ", []byte{0x0a, 0x01}, clsOther, 0},       // sequence header
	{"TD1", []byte{0x10}, clsAUD, 0},               // temporal delimiter, 1 byte
	{"META", []byte{0x2a, 0x01}, clsOther, 0},      // metadata
	{"TILEGRP", []byte{0x22, 0x01}, clsOther, 0},   // tile group
	{"PADDING", []byte{0x7a, 0x01}, clsOther, 0},   // padding
	{"FRAMEHDR", []byte{0x1a, 0x01}, clsOther, 0},  // frame header
}

func runAV1(thorough bool) int64 {
	maxLen := 4
	if thorough {
		maxLen = 6
	}
	lists := allLists(len(av1syms), maxLen)
	// one real stream per chunk of lists: the AV1 remuxer is stateless, a fresh stream per list adds nothing;
	// the first 600 lists still get a fresh stream each.
	const chunk = 256
	nChunks := (len(lists) + chunk - 1) / chunk
	vbs := make([]vbuf, nChunks)
	vcommon.Parallel(nChunks, func(ci int) {
		var s *session
		for li := ci * chunk; li < min((ci+1)*chunk, len(lists)); li++ {
			if s == nil || li < 600 {
				if s != nil {
					s.close()
				}
				s = newSession(&format.AV1{PayloadTyp: 96})
			}
			l := lists[li]
			var in, want [][]byte
			names := make([]string, len(l))
			for i, si := range l {
				in = append(in, av1syms[si].b)
				names[i] = av1syms[si].name
				if av1syms[si].cls != clsAUD {
					want = append(want, av1syms[si].b)
				}
			}
			rep := map[string]any{"codec": "av1", "obus": names}
			u := s.write(unit.PayloadAV1(in), int64(3000*(li+1)))
			r.Eval(1)
			if u == nil && s.panicked != "" {
				vbs[ci].add("av1:panic", fmt.Sprintf("av1 temporal unit %v: WriteUnit panicked: %s", names, vcommon.Short(s.panicked, 300)), rep)
				s.panicked = ""
				continue
			}
			if u == nil {
				vbs[ci].add("av1:unit-rejected", fmt.Sprintf("av1 temporal unit %v rejected", names), rep)
				continue
			}
			var got [][]byte
			if u.Payload != nil {
				p, ok := u.Payload.(unit.PayloadAV1)
				if !ok {
					vbs[ci].add("av1:payload-type", fmt.Sprintf("delivered payload has type %T", u.Payload), rep)
					continue
				}
				got = p
			}
			if !equalLists(got, want) {
				vbs[ci].add("av1:payload-mismatch", fmt.Sprintf("av1 temporal unit %v: delivered %s, reference %s", names, hexList(got), hexList(want)), rep)
			}
			if len(got) == 0 {
				count(&emptied)
			}
			shape := make([]byte, len(l))
			for i, si := range l {
				shape[i] = 'o'
				if av1syms[si].cls == clsAUD {
					shape[i] = 'T'
				}
			}
			distinct("av1|" + string(shape))
		}
		if s != nil {
			s.close()
		}
	})
	flushAll(vbs)
	return int64(len(lists))
}

func ruleText(thorough bool) string {
	if thorough {
		return "H.264 (9 NALU symbols) and H.265 (12 symbols): x initial description parameters {none, all}: every single access unit of <=3 NALUs, " +
			"every pair (a1 of <=3 [H.265: <=2] NALUs, a2 of <=3), every triple (a1,a2 of 1 NALU, a3 of <=3); " +
			"MPEG-4 Video (7 segment symbols: VOP, GOV, VOS, VOL1, VOL2, VO, stray byte): every frame of <=5 segments and every pair (<=3, <=4) x initial config {none, VOS+VO+VOL1}; " +
			"AV1 (8 OBU symbols, 2 temporal delimiter forms): every temporal unit of <=6 OBUs. " +
			"Each sequence on a fresh real Stream; distinct = (codec, parameter state before, unit shape by NALU class, parameters prepended, description changed, delivered length)"
	}
	return "H.264 (9 NALU symbols) and H.265 (12 symbols): x initial description parameters {none, all}: every single access unit of <=3 NALUs and " +
		"every pair (a1 of <=2 [H.265: 1] NALUs, a2 of <=3); " +
		"MPEG-4 Video (7 segment symbols: VOP, GOV, VOS, VOL1, VOL2, VO, stray byte): every frame of <=4 segments and every pair (<=2, <=3) x initial config {none, VOS+VO+VOL1}; " +
		"AV1 (8 OBU symbols, 2 temporal delimiter forms): every temporal unit of <=4 OBUs. " +
		"Each sequence on a fresh real Stream; distinct = (codec, parameter state before, unit shape by NALU class, parameters prepended, description changed, delivered length)"
}
