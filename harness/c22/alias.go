package main

// Aliasing over time ("nothing else is altered"): a delivered unit, the publisher's buffers and a description
// handed out earlier must keep their bytes while LATER units are processed. The per-unit oracle only looks at
// a payload at delivery time; the tracker below keeps every handed-out reference together with a deep-copied
// snapshot and re-compares all of them after every later write and at the end of the sequence.
//
// Inputs are built the way a real publisher hands them over: sub-slices of one larger receive buffer (arena),
// carved one after the other, each with its capacity reaching to the end of the arena (cap > len), so that an
// in-place append on any retained sub-slice has room and lands on a neighbour, a later unit or guard bytes.

import (
	"bytes"
	"fmt"

	"github.com/bluenviron/mediamtx/internal/unit"
)

const (
	arenaGuard = 0xEE // fill byte of gaps and of the spare capacity; no alphabet symbol contains it
	arenaGap   = 3    // guard bytes between two carved buffers
	arenaTail  = 96   // spare capacity after the last carved buffer
)

// arena is the publisher's receive buffer. Only carve() writes to it; shadow is what it must always contain.
type arena struct {
	buf    []byte
	shadow []byte
	off    int
	labels []arenaSpan
}

type arenaSpan struct {
	from, to int
	label    string
}

func newArena(payloadBytes, buffers int) *arena {
	n := payloadBytes + (buffers+1)*arenaGap + arenaTail
	a := &arena{buf: make([]byte, n), shadow: make([]byte, n), off: arenaGap}
	for i := range a.buf {
		a.buf[i] = arenaGuard
		a.shadow[i] = arenaGuard
	}
	return a
}

// carve copies b into the arena and returns the sub-slice holding it: len(b) bytes, capacity up to the end of
// the arena.
func (a *arena) carve(b []byte, label string) []byte {
	if a.off+len(b)+arenaGap+arenaTail > len(a.buf) {
		panic("C22 harness: arena too small")
	}
	copy(a.buf[a.off:], b)
	copy(a.shadow[a.off:], b)
	s := a.buf[a.off : a.off+len(b)]
	a.labels = append(a.labels, arenaSpan{a.off, a.off + len(b), label})
	a.off += len(b) + arenaGap
	return s
}

// altered returns a description of the first byte of the arena that is not what the publisher put there.
func (a *arena) altered() string {
	if bytes.Equal(a.buf, a.shadow) {
		return ""
	}
	if len(a.labels) == 0 {
		return fmt.Sprintf("unused buffer: now %x", a.buf)
	}
	i := 0
	for a.buf[i] == a.shadow[i] {
		i++
	}
	where := "spare capacity of the buffer that holds the " + a.labels[len(a.labels)-1].label
	for _, sp := range a.labels {
		if i >= sp.from && i < sp.to {
			where = fmt.Sprintf("%s (byte %d of %d)", sp.label, i-sp.from, sp.to-sp.from)
			break
		}
		if i < sp.from {
			where = "bytes of the buffer in front of the " + sp.label + " (spare capacity of what precedes it)"
			break
		}
	}
	j := len(a.buf)
	for a.buf[j-1] == a.shadow[j-1] {
		j--
	}
	return fmt.Sprintf("%s: buffer bytes [%d:%d] were %x and are now %x", where, i, j, a.shadow[i:j], a.buf[i:j])
}

// flatten gives the byte strings of a payload (nil payload: none).
func flatten(p unit.Payload) ([][]byte, bool) {
	switch v := p.(type) {
	case nil:
		return nil, true
	case unit.PayloadH264:
		return v, true
	case unit.PayloadH265:
		return v, true
	case unit.PayloadAV1:
		return v, true
	case unit.PayloadMPEG4Video:
		if v == nil {
			return nil, true
		}
		return [][]byte{v}, true
	}
	return nil, false
}

func deepCopy(l [][]byte) [][]byte {
	if l == nil {
		return nil
	}
	out := make([][]byte, len(l))
	for i, b := range l {
		if b != nil {
			out[i] = append(make([]byte, 0, len(b)), b...)
		}
	}
	return out
}

type retained struct {
	what string
	step int
	ref  func() [][]byte // reads the retained reference again
	snap [][]byte
}

// tracker holds what one sequence handed to and got from the real stream.
type tracker struct {
	arenas []*arena
	kept   []retained
}

// retainPayload keeps a delivered payload: the very reference the reader got and a snapshot of its bytes now.
func (t *tracker) retainPayload(step int, p unit.Payload) {
	l, ok := flatten(p)
	if !ok {
		return
	}
	t.kept = append(t.kept, retained{
		what: "delivered-unit", step: step,
		ref:  func() [][]byte { l2, _ := flatten(p); return l2 },
		snap: deepCopy(l),
	})
}

// retainDesc keeps parameter byte strings of a description copy handed out after a unit.
func (t *tracker) retainDesc(step int, params [][]byte) {
	t.kept = append(t.kept, retained{
		what: "description", step: step,
		ref:  func() [][]byte { return params },
		snap: deepCopy(params),
	})
}

// carveList builds the NALU/OBU list of one unit the way a publisher does: every element a sub-slice of the
// receive buffer, the list itself with spare capacity (an append on it must not be visible either). The list,
// including its spare slots, is retained and must keep pointing at the same bytes.
func (t *tracker) carveList(a *arena, step int, elems [][]byte, names []string) [][]byte {
	in := make([][]byte, len(elems), len(elems)+4)
	for i, e := range elems {
		in[i] = a.carve(e, fmt.Sprintf("input unit %d, element %d (%s)", step, i, names[i]))
	}
	full := in[:cap(in)]
	t.kept = append(t.kept, retained{
		what: "input-list", step: step,
		ref:  func() [][]byte { return full },
		snap: deepCopy(full),
	})
	return in
}

type aliasFinding struct {
	key  string // class key suffix
	what string
}

// check compares everything retained so far with its snapshot and every receive buffer with what the
// publisher put there.
func (t *tracker) check(when string) *aliasFinding {
	for _, k := range t.kept {
		cur := k.ref()
		if equalLists(cur, k.snap) {
			continue
		}
		if k.what == "input-list" {
			return &aliasFinding{"input-mutated", fmt.Sprintf(
				"the list of unit %d handed over by the publisher (with its spare slots) was %s and reads %s %s",
				k.step, hexList(k.snap), hexList(cur), when)}
		}
		if k.what == "description" {
			return &aliasFinding{"description-altered-later", fmt.Sprintf(
				"the description copy handed out after unit %d reported %s and reads %s %s",
				k.step, hexList(k.snap), hexList(cur), when)}
		}
		return &aliasFinding{"delivered-unit-altered-later", fmt.Sprintf(
			"the payload delivered for unit %d was %s and reads %s %s (a reader that is late or keeps the unit sees other bytes)",
			k.step, hexList(k.snap), hexList(cur), when)}
	}
	for _, a := range t.arenas {
		if d := a.altered(); d != "" {
			return &aliasFinding{"input-mutated", fmt.Sprintf("publisher's buffer altered %s: %s", when, d)}
		}
	}
	return nil
}
