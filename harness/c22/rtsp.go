package main

// The RTSP side of a Stream: Stream.RTSPStream(server) of a real, started gortsplib.Server (loopback, port
// chosen by the kernel), which is what the RTSP server of mediamtx calls when its first RTSP reader asks for the
// stream. What it publishes is observed the way a RTSP reader does: DESCRIBE over a real connection (one
// long-lived TCP connection per worker; the handler maps the worker's path to the stream under test). The answer
// is compared as text (the a=fmtp line of the SDP): the parameter sets of the alphabets are tokens that an SDP
// parser which decodes SPS/PPS would refuse.

import (
	"bufio"
	"fmt"
	"net"
	"strconv"
	"strings"
	"sync"
	"sync/atomic"
	"time"

	"github.com/bluenviron/gortsplib/v5"
	"github.com/bluenviron/gortsplib/v5/pkg/base"
	"github.com/bluenviron/gortsplib/v5/pkg/description"
	"github.com/bluenviron/gortsplib/v5/pkg/format"

	"github.com/bluenviron/mediamtx/internal/zzverif/vcommon"
)

type rtspHandler struct {
	streams sync.Map // path -> *gortsplib.ServerStream
}

func (h *rtspHandler) OnDescribe(ctx *gortsplib.ServerHandlerOnDescribeCtx) (*base.Response, *gortsplib.ServerStream, error) {
	v, ok := h.streams.Load(strings.TrimPrefix(ctx.Path, "/"))
	if !ok {
		return &base.Response{StatusCode: base.StatusNotFound}, nil, nil
	}
	return &base.Response{StatusCode: base.StatusOK}, v.(*gortsplib.ServerStream), nil
}

var (
	rtspOnce    sync.Once
	rtspSrv     *gortsplib.Server
	rtspH       = &rtspHandler{}
	rtspPoolMu  sync.Mutex
	rtspPool    []*rtspWorker
	rtspWorkers atomic.Int64
)

func rtspServer() *gortsplib.Server {
	rtspOnce.Do(func() {
		rtspSrv = &gortsplib.Server{Handler: rtspH, RTSPAddress: "127.0.0.1:0"}
		if err := rtspSrv.Start(); err != nil {
			vcommon.Harness("C22: starting the RTSP server on loopback: %v", err)
		}
	})
	return rtspSrv
}

func closeRTSP() {
	rtspPoolMu.Lock()
	for _, w := range rtspPool {
		w.conn.Close()
	}
	rtspPool = nil
	rtspPoolMu.Unlock()
	if rtspSrv != nil {
		rtspSrv.Close()
	}
}

type rtspWorker struct {
	path  string
	conn  net.Conn
	br    *bufio.Reader
	url   *base.URL
	cseq  int
	cache map[string]string
}

func getRTSPWorker() *rtspWorker {
	rtspPoolMu.Lock()
	if n := len(rtspPool); n > 0 {
		w := rtspPool[n-1]
		rtspPool = rtspPool[:n-1]
		rtspPoolMu.Unlock()
		return w
	}
	rtspPoolMu.Unlock()
	srv := rtspServer()
	w := &rtspWorker{path: fmt.Sprintf("w%d", rtspWorkers.Add(1)), cache: map[string]string{}}
	host := srv.NetListener().Addr().String()
	u, err := base.ParseURL("rtsp://" + host + "/" + w.path)
	if err != nil {
		vcommon.Harness("C22: %v", err)
	}
	w.url = u
	w.conn, err = net.DialTimeout("tcp", host, 10*time.Second)
	if err != nil {
		vcommon.Harness("C22: connecting to the RTSP server: %v", err)
	}
	w.br = bufio.NewReader(w.conn)
	return w
}

func putRTSPWorker(w *rtspWorker) {
	rtspPoolMu.Lock()
	rtspPool = append(rtspPool, w)
	rtspPoolMu.Unlock()
}

// attach creates the RTSP side of the stream, as the first RTSP reader of a path does.
func (w *rtspWorker) attach(s *csess) {
	st, err := s.strm.RTSPStream(rtspServer())
	if err != nil {
		vcommon.Harness("C22: Stream.RTSPStream: %v", err)
	}
	s.rtsp = st
	rtspH.streams.Store(w.path, st)
}

func (w *rtspWorker) detach() { rtspH.streams.Delete(w.path) }

func fmtpLine(sdp []byte) string {
	for _, l := range strings.Split(string(sdp), "\n") {
		l = strings.TrimRight(l, "\r")
		if strings.HasPrefix(l, "a=fmtp:") {
			return l
		}
	}
	return "(no a=fmtp line)"
}

// describe asks the real server for the description of the stream attached to this worker and returns the
// a=fmtp line of the answer.
func (w *rtspWorker) describe() string {
	count(&consDescribes)
	w.cseq++
	req := base.Request{Method: base.Describe, URL: w.url, Header: base.Header{
		"CSeq": base.HeaderValue{strconv.Itoa(w.cseq)}, "Accept": base.HeaderValue{"application/sdp"}}}
	byts, err := req.Marshal()
	if err != nil {
		vcommon.Harness("C22: DESCRIBE request: %v", err)
	}
	w.conn.SetDeadline(time.Now().Add(60 * time.Second))
	if _, err = w.conn.Write(byts); err != nil {
		vcommon.Harness("C22: DESCRIBE request: %v", err)
	}
	var res base.Response
	if err = res.Unmarshal(w.br); err != nil {
		vcommon.Harness("C22: DESCRIBE response: %v", err)
	}
	if res.StatusCode != base.StatusOK {
		return fmt.Sprintf("DESCRIBE answered with status %d %s", res.StatusCode, res.StatusMessage)
	}
	return fmtpLine(res.Body)
}

// expectedDescribe: the a=fmtp line of the SDP form (gortsplib's own marshalling) of a description holding params.
// SDP cannot carry every partial parameter state (e.g. a H.264 SPS without PPS); both sides lose the same.
func (w *rtspWorker) expectedDescribe(c *cCodec, params [][]byte) string {
	key := c.name + hexList(params)
	if v, ok := w.cache[key]; ok {
		return v
	}
	d := description.Session{Medias: []*description.Media{{Type: description.MediaTypeVideo, Formats: []format.Format{c.fromDesc(cloneList(params))}}}}
	byts, err := d.Marshal()
	if err != nil {
		vcommon.Harness("C22: SDP form of %s parameters %s cannot be computed: %v", c.name, hexList(params), err)
	}
	out := fmtpLine(byts)
	w.cache[key] = out
	return out
}
