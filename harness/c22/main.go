// C22: remuxing preserves media and injects current parameters at keyframes.
// Engine B: bounded-exhaustive enumeration of access-unit sequences written through the real
// stream.Stream / SubStream.WriteUnit / Reader (one writer, the reader drained after each write) and
// OutDescCopy(), against a reference remuxer written from the property statement.
package main

import (
	"bytes"
	"fmt"
	"runtime/debug"
	"strings"
	"sync"
	"time"

	"github.com/bluenviron/gortsplib/v5/pkg/description"
	"github.com/bluenviron/gortsplib/v5/pkg/format"

	"github.com/bluenviron/mediamtx/internal/logger"
	"github.com/bluenviron/mediamtx/internal/stream"
	"github.com/bluenviron/mediamtx/internal/unit"
	"github.com/bluenviron/mediamtx/internal/zzverif/vcommon"
)

type nilLogger struct{}

func (nilLogger) Log(logger.Level, string, ...any) {}

// session is one real Stream with one format, one non-RTP publisher and one reader.
type session struct {
	strm  *stream.Stream
	sub   *stream.SubStream
	rd    *stream.Reader
	medi  *description.Media
	forma format.Format
	ch    chan *unit.Unit

	panicked string // set when WriteUnit panicked
}

func newSession(forma format.Format) *session {
	s := &session{forma: forma, ch: make(chan *unit.Unit, 4)}
	s.medi = &description.Media{Type: description.MediaTypeVideo, Formats: []format.Format{forma}}
	desc := &description.Session{Medias: []*description.Media{s.medi}}
	s.strm = &stream.Stream{OrigDesc: desc, WriteQueueSize: 8, RTPMaxPayloadSize: 1450, Parent: nilLogger{}}
	if err := s.strm.Initialize(); err != nil {
		vcommon.Harness("C22: Stream.Initialize: %v", err)
	}
	s.sub = &stream.SubStream{Stream: s.strm, UseRTPPackets: false}
	if err := s.sub.Initialize(); err != nil {
		vcommon.Harness("C22: SubStream.Initialize: %v", err)
	}
	s.rd = &stream.Reader{Parent: nilLogger{}}
	s.rd.OnData(s.medi, forma, func(u *unit.Unit) error {
		s.ch <- u
		return nil
	})
	s.strm.AddReader(s.rd)
	return s
}

// write writes one unit and drains the reader. delivered==nil means the write was counted as a processing error
// (nothing reaches the readers).
func (s *session) write(p unit.Payload, pts int64) *unit.Unit {
	before := s.strm.InboundFramesInError()
	if pv, stack := vcommon.Recover(func() {
		s.sub.WriteUnit(s.medi, s.forma, &unit.Unit{PTS: pts, Payload: p})
	}); pv != nil {
		s.panicked = fmt.Sprintf("%v\n%s", pv, stack)
		return nil
	}
	if s.strm.InboundFramesInError() != before {
		return nil
	}
	select {
	case u := <-s.ch:
		return u
	case <-time.After(30 * time.Second):
		vcommon.Harness("C22: reader callback not invoked within 30 s after WriteUnit")
		return nil
	}
}

func (s *session) outFormat() format.Format {
	return s.strm.OutDescCopy().Medias[0].Formats[0]
}

func (s *session) close() {
	s.strm.RemoveReader(s.rd)
	s.strm.Close()
}

var (
	r *vcommon.Run

	locMu    sync.Mutex
	locDist  = map[string]struct{}{}
	prefixed int64 // units that got parameters prepended
	updates  int64 // units that changed the description
	emptied  int64 // units that became empty
)

func distinct(k string) {
	locMu.Lock()
	locDist[k] = struct{}{}
	locMu.Unlock()
}

func count(p *int64) {
	locMu.Lock()
	*p++
	locMu.Unlock()
}

func hexList(l [][]byte) string {
	var sb strings.Builder
	sb.WriteByte('[')
	for i, b := range l {
		if i > 0 {
			sb.WriteByte(' ')
		}
		if b == nil {
			sb.WriteString("nil")
		} else {
			fmt.Fprintf(&sb, "%x", b)
		}
	}
	sb.WriteByte(']')
	return sb.String()
}

func equalLists(a, b [][]byte) bool {
	if len(a) != len(b) {
		return false
	}
	for i := range a {
		if !bytes.Equal(a[i], b[i]) {
			return false
		}
	}
	return true
}

// allLists returns all non-empty lists over n symbols of length <= maxLen, shortest first.
func allLists(n, maxLen int) [][]int {
	var out [][]int
	var cur []int
	var rec func(l int)
	for l := 1; l <= maxLen; l++ {
		rec = func(left int) {
			if left == 0 {
				out = append(out, append([]int(nil), cur...))
				return
			}
			for s := 0; s < n; s++ {
				cur = append(cur, s)
				rec(left - 1)
				cur = cur[:len(cur)-1]
			}
		}
		rec(l)
	}
	return out
}

func main() {
	r = vcommon.Start("C22", "exploration")
	th := r.Thorough()
	debug.SetGCPercent(400) // hundreds of thousands of short-lived streams; the live heap stays small
	t0 := time.Now()

	nH264 := runNALU(h264Codec(), th)
	nH265 := runNALU(h265Codec(), th)
	nM4 := runMPEG4Video(th)
	nAV1 := runAV1(th)
	baseDone := time.Since(t0)

	// consumer dimension: kind of publisher x who consumes while the units are written (consumers.go)
	nC264 := runConsumerDimension(naluConsumerCodec(h264Codec()), th)
	nC265 := runConsumerDimension(naluConsumerCodec(h265Codec()), th)
	nCM4 := runConsumerDimension(m4ConsumerCodec(), th)
	closeRTSP()
	consDone := time.Since(t0) - baseDone

	for k := range locDist {
		r.Distinct(k)
	}
	r.Set("h264_sequences", nH264)
	r.Set("h265_sequences", nH265)
	r.Set("mpeg4video_sequences", nM4)
	r.Set("av1_units", nAV1)
	r.Set("units_with_parameters_prepended", prefixed)
	r.Set("units_changing_description", updates)
	r.Set("units_becoming_empty", emptied)
	r.Set("consumer_dimension_h264_sequences_x_publishers", nC264)
	r.Set("consumer_dimension_h265_sequences_x_publishers", nC265)
	r.Set("consumer_dimension_mpeg4video_sequences_x_publishers", nCM4)
	r.Set("consumer_dimension_real_streams", consRuns)
	r.Set("consumer_dimension_rtp_packets_written", consPacketsWritten)
	r.Set("consumer_dimension_plans_description_changed_while_no_reader", consLearnedUnseen)
	r.Set("consumer_dimension_key_frames_delivered_to_late_reader_with_parameters_sent_before_attach", consLateKeyFrames)
	r.Set("consumer_dimension_rtsp_describes", consDescribes)
	r.Set("seconds_base_enumeration", int64(baseDone.Seconds()))
	r.Set("seconds_consumer_dimension", int64(consDone.Seconds()))
	r.Rule = ruleText(th) + consumerRuleText(th)
	r.Exhaustive = true
	r.Assumptions = []string{
		"base enumeration: non-RTP publisher (UseRTPPackets=false), one format per stream, one reader attached from the start, sequential writes",
		"consumer dimension: RTP publishers write well-formed, in-order packets of at most a few dozen bytes (no fragmentation units, no loss, no re-encoding because of oversized packets, H.264 packetization-mode 1); the Reader attaches between access units, never between the packets of one; the RTSP side is the real ServerStream of a started gortsplib.Server without any RTSP session reading from it, observed through DESCRIBE; expected DESCRIBE answer = gortsplib's own SDP marshal/unmarshal of the reference parameters; always-available streams are not enumerated",
		"NAL unit contents are 2-byte tokens (one 1-byte NALU); parameter sets are told apart by type only, as the property does",
		"don't-cares: parameter sets placed after the key frame NALU inside the same unit may or may not be the ones prepended; when only part of the parameter sets is known, prepending nothing or the known ones are both accepted; a unit that becomes empty may be delivered empty or not at all",
		"aliasing over time is judged by content (retained reference vs deep-copied snapshot; receive buffer vs what the publisher wrote): an in-place write of identical bytes is invisible; retained references stand for a late reader or one that keeps units",
		"MPEG-4 Video: 'configuration' = bytes from a leading visual-object-sequence start code up to the first group-of-VOP start code; the configuration is expected in front of the frame that contains the GOV",
	}
	r.Finish()
}
