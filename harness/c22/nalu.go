package main

import (
	"bytes"
	"fmt"
	"strings"

	"github.com/bluenviron/gortsplib/v5/pkg/format"

	"github.com/bluenviron/mediamtx/internal/unit"
	"github.com/bluenviron/mediamtx/internal/zzverif/vcommon"
)

type symClass int

const (
	clsOther symClass = iota
	clsAUD
	clsKey
	clsParam // + kind
)

type sym struct {
	name string
	b    []byte
	cls  symClass
	kind int // parameter kind for clsParam
}

type naluCodec struct {
	name      string
	kinds     []string
	syms      []sym
	newFormat func(params [][]byte) format.Format
	getParams func(format.Format) [][]byte
	wrap      func([][]byte) unit.Payload
	unwrap    func(unit.Payload) ([][]byte, bool)
}

func h264Codec() *naluCodec {
	return &naluCodec{
		name:  "h264",
		kinds: []string{"SPS", "PPS"},
		syms: []sym{
			{"IDR", []byte{0x65, 0x88}, clsKey, 0},
			{"nonIDR", []byte{0x41, 0x9a}, clsOther, 0},
			{"SPS1", []byte{0x67, 0x01}, clsParam, 0},
			{"PPS1", []byte{0x68, 0x01}, clsParam, 1},
			{"SPS2", []byte{0x67, 0x02}, clsParam, 0},
			{"PPS2", []byte{0x68, 0x02}, clsParam, 1},
			{"AUD", []byte{0x09, 0xf0}, clsAUD, 0},
			{"SEI", []byte{0x06, 0x05}, clsOther, 0},
			{"one", []byte{0x0c}, clsOther, 0}, // 1-byte NALU (filler data)
		},
		newFormat: func(p [][]byte) format.Format {
			return &format.H264{PayloadTyp: 96, PacketizationMode: 1, SPS: p[0], PPS: p[1]}
		},
		getParams: func(f format.Format) [][]byte {
			h := f.(*format.H264)
			return [][]byte{h.SPS, h.PPS}
		},
		wrap: func(l [][]byte) unit.Payload { return unit.PayloadH264(l) },
		unwrap: func(p unit.Payload) ([][]byte, bool) {
			if p == nil {
				return nil, true
			}
			v, ok := p.(unit.PayloadH264)
			return v, ok
		},
	}
}

func h265Codec() *naluCodec {
	n := func(typ byte, x byte) []byte { return []byte{typ << 1, x} }
	return &naluCodec{
		name:  "h265",
		kinds: []string{"VPS", "SPS", "PPS"},
		syms: []sym{
			{"IDR_W_RADL", n(19, 1), clsKey, 0},
			{"TRAIL", n(1, 1), clsOther, 0},
			{"VPS1", n(32, 1), clsParam, 0},
			{"SPS1", n(33, 1), clsParam, 1},
			{"PPS1", n(34, 1), clsParam, 2},
			{"VPS2", n(32, 2), clsParam, 0},
			{"SPS2", n(33, 2), clsParam, 1},
			{"PPS2", n(34, 2), clsParam, 2},
			{"AUD", n(35, 1), clsAUD, 0},
			{"IDR_N_LP", n(20, 1), clsKey, 0},
			{"CRA", n(21, 1), clsKey, 0},
			{"SEI", n(39, 1), clsOther, 0},
		},
		newFormat: func(p [][]byte) format.Format {
			return &format.H265{PayloadTyp: 96, VPS: p[0], SPS: p[1], PPS: p[2]}
		},
		getParams: func(f format.Format) [][]byte {
			h := f.(*format.H265)
			return [][]byte{h.VPS, h.SPS, h.PPS}
		},
		wrap: func(l [][]byte) unit.Payload { return unit.PayloadH265(l) },
		unwrap: func(p unit.Payload) ([][]byte, bool) {
			if p == nil {
				return nil, true
			}
			v, ok := p.(unit.PayloadH265)
			return v, ok
		},
	}
}

// refStep is the reference remuxer for one access unit. cur is updated in place to the most recent
// parameter sets in stream order. It returns the accepted delivered payloads.
func (c *naluCodec) refStep(cur [][]byte, au []int) (accepted [][][]byte, hasKey bool, dupParam bool) {
	var body [][]byte
	var atKey [][]byte
	seenKind := make([]int, len(c.kinds))
	for _, si := range au {
		s := &c.syms[si]
		switch s.cls {
		case clsParam:
			cur[s.kind] = s.b // most recent seen in-band
			seenKind[s.kind]++
			if seenKind[s.kind] > 1 {
				dupParam = true
			}
		case clsAUD:
		case clsKey:
			if !hasKey {
				hasKey = true
				atKey = append([][]byte(nil), cur...)
			}
			body = append(body, s.b)
		default:
			body = append(body, s.b)
		}
	}
	if !hasKey {
		return [][][]byte{body}, false, dupParam
	}
	for _, p := range [][][]byte{cur, atKey} {
		known := 0
		var some [][]byte
		for _, x := range p {
			if x != nil {
				known++
				some = append(some, x)
			}
		}
		switch known {
		case len(p):
			accepted = append(accepted, append(append([][]byte(nil), p...), body...))
		case 0:
			accepted = append(accepted, body)
		default: // partially known: the statement leaves it open
			accepted = append(accepted, body, append(some, body...))
		}
	}
	return accepted, true, dupParam
}

func (c *naluCodec) auName(au []int) string {
	n := make([]string, len(au))
	for i, s := range au {
		n[i] = c.syms[s].name
	}
	return strings.Join(n, ",")
}

func (c *naluCodec) stateName(cur [][]byte) string {
	var sb strings.Builder
	for i, p := range cur {
		if p == nil {
			sb.WriteString(c.kinds[i] + "-")
		} else {
			fmt.Fprintf(&sb, "%s%d", c.kinds[i], p[len(p)-1])
		}
	}
	return sb.String()
}

// shape abstracts an access unit to the classes the code distinguishes.
func (c *naluCodec) shape(au []int) string {
	var sb strings.Builder
	for _, s := range au {
		switch c.syms[s].cls {
		case clsParam:
			sb.WriteString(c.kinds[c.syms[s].kind][:1])
		case clsAUD:
			sb.WriteByte('a')
		case clsKey:
			sb.WriteByte('K')
		default:
			sb.WriteByte('o')
		}
	}
	return sb.String()
}

// runSequence runs one sequence on a fresh real stream and compares every step with the reference.
func (c *naluCodec) runSequence(vb *vbuf, init int, seq [][]int) {
	cur := make([][]byte, len(c.kinds))
	if init == 1 {
		for k := range cur {
			for i := range c.syms {
				if c.syms[i].cls == clsParam && c.syms[i].kind == k {
					cur[k] = c.syms[i].b // the "1" variant comes first in the alphabet
					break
				}
			}
		}
	}
	// the initial parameters come from a parsed session description: sub-slices of a decode buffer with spare
	// capacity as well (base64 decoding returns such slices)
	sdpAr := newArena(64, len(cur))
	initParams := make([][]byte, len(cur))
	for k, p := range cur {
		if p != nil {
			initParams[k] = sdpAr.carve(p, "initial description parameter "+c.kinds[k])
		}
	}
	s := newSession(c.newFormat(initParams))
	closed := false
	defer func() {
		if !closed {
			s.close()
		}
	}()

	// the publisher's receive buffer: every NALU of every unit of the sequence is a sub-slice of it
	total, elems := 0, 0
	for _, au := range seq {
		for _, si := range au {
			total += len(c.syms[si].b)
			elems++
		}
	}
	ar := newArena(total, elems)
	tr := &tracker{arenas: []*arena{ar, sdpAr}}

	replay := func(step int) map[string]any {
		names := make([]string, len(seq))
		for i, au := range seq {
			names[i] = c.auName(au)
		}
		return map[string]any{"codec": c.name, "initial_parameters": map[int]string{0: "none", 1: "all (variant 1)"}[init],
			"access_units": names, "failing_unit_index": step}
	}

	for step, au := range seq {
		before := c.stateName(cur)
		beforeCopy := append([][]byte(nil), cur...)
		accepted, hasKey, dup := c.refStep(cur, au)
		elemsB := make([][]byte, len(au))
		elemsN := make([]string, len(au))
		for i, si := range au {
			elemsB[i] = c.syms[si].b
			elemsN[i] = c.syms[si].name
		}
		in := tr.carveList(ar, step, elemsB, elemsN)
		u := s.write(c.wrap(in), int64(3000*(step+1)))
		r.Eval(1)
		suffix := ""
		if dup {
			suffix = ":same-type-parameter-sets-twice-in-unit"
		}
		if u == nil && s.panicked != "" {
			vb.add(c.name+":panic"+suffix, fmt.Sprintf("%s init=%d units=%v: WriteUnit panicked on unit %d [%s]: %s",
				c.name, init, replay(step)["access_units"], step, c.auName(au), vcommon.Short(s.panicked, 300)), replay(step))
			return
		}
		if u == nil {
			vb.add(c.name+":unit-rejected"+suffix, fmt.Sprintf("%s init=%d units=%v: unit %d [%s] was counted as a processing error, nothing delivered",
				c.name, init, replay(step)["access_units"], step, c.auName(au)), replay(step))
			return
		}
		got, ok := c.unwrap(u.Payload)
		if !ok {
			vb.add(c.name+":payload-type", fmt.Sprintf("%s: delivered payload has type %T", c.name, u.Payload), replay(step))
			return
		}
		match := false
		for _, a := range accepted {
			if equalLists(got, a) {
				match = true
				break
			}
		}
		if !match {
			vb.add(c.name+":payload-mismatch"+suffix, fmt.Sprintf("%s state %s, unit [%s]: delivered %s, reference %s (sequence %v, initial parameters %d)",
				c.name, before, c.auName(au), hexList(got), hexList(accepted[0]), replay(step)["access_units"], init), replay(step))
			return // the real state may have diverged from the reference: later units of this sequence are not judged
		}
		desc := c.getParams(s.outFormat())
		for k := range cur {
			if !bytes.Equal(desc[k], cur[k]) || (desc[k] == nil) != (cur[k] == nil) {
				vb.add(c.name+":description-not-most-recent"+suffix,
					fmt.Sprintf("%s state %s, unit [%s]: description reports %s=%x, most recent seen is %x (sequence %v, initial parameters %d)",
						c.name, before, c.auName(au), c.kinds[k], desc[k], cur[k], replay(step)["access_units"], init), replay(step))
				return // state diverged: later units of this sequence are not judged
			}
		}
		// aliasing over time: what was delivered / handed over / reported before must still read the same
		tr.retainPayload(step, u.Payload)
		tr.retainDesc(step, desc)
		if f := tr.check(fmt.Sprintf("after unit %d [%s] was written", step, c.auName(au))); f != nil {
			vb.add(c.name+":"+f.key+suffix, fmt.Sprintf("%s initial parameters %d, sequence %v: %s", c.name, init, replay(step)["access_units"], f.what), replay(step))
			return
		}
		changed := !equalLists(beforeCopy, cur)
		if changed {
			count(&updates)
		}
		nPrefix := 0
		if hasKey {
			allKnown := true
			for _, p := range cur {
				if p == nil {
					allKnown = false
				}
			}
			if allKnown {
				nPrefix = len(cur)
				count(&prefixed)
			}
		}
		if len(got) == 0 {
			count(&emptied)
		}
		distinct(fmt.Sprintf("%s|%s|%s|prefix=%d|update=%v|out=%d", c.name, before, c.shape(au), nPrefix, changed, len(got)))
		if len(seq) == 1 && hasKey && changed && nPrefix > 0 {
			r.Sample(map[string]any{"codec": c.name, "state_before": before, "unit": c.auName(au), "delivered": hexList(got), "description_after": c.stateName(cur)})
		}
	}
	s.close()
	closed = true
	if f := tr.check("after the stream was closed"); f != nil {
		vb.add(c.name+":"+f.key, fmt.Sprintf("%s initial parameters %d, sequence %v: %s", c.name, init, replay(len(seq) - 1)["access_units"], f.what), replay(len(seq)-1))
	}
}

// runNALU enumerates: every single access unit of length <= L2, every pair (a1 of length <= L1, a2 of length <= L2)
// and (thorough) every triple of access units of length <= L3, x initial parameters {none, all}.
func runNALU(c *naluCodec, thorough bool) int64 {
	pristine := make([][]byte, len(c.syms))
	for i := range c.syms {
		pristine[i] = append([]byte(nil), c.syms[i].b...)
	}
	l1, l2, l3 := 2, 3, 0
	if thorough {
		l1, l2, l3 = 3, 3, 1
		if len(c.syms) > 10 {
			l1 = 2 // h265: 12 symbols
		}
	} else if len(c.syms) > 10 {
		l1 = 1 // h265 quick
	}
	first := allLists(len(c.syms), l1)
	second := allLists(len(c.syms), l2)
	var n int64
	for init := 0; init <= 1; init++ {
		vb := &vbuf{}
		for _, a := range second {
			c.runSequence(vb, init, [][]int{a})
			n++
		}
		vb.flush()
	}
	for init := 0; init <= 1; init++ {
		vbs := make([]vbuf, len(first))
		vcommon.Parallel(len(first), func(i int) {
			for _, b := range second {
				c.runSequence(&vbs[i], init, [][]int{first[i], b})
			}
		})
		flushAll(vbs)
		n += int64(len(first) * len(second))
		if l3 > 0 {
			third := allLists(len(c.syms), l3)
			vbs = make([]vbuf, len(third)*len(third))
			vcommon.Parallel(len(third)*len(third), func(i int) {
				a, b := third[i/len(third)], third[i%len(third)]
				for _, d := range second {
					c.runSequence(&vbs[i], init, [][]int{a, b, d})
				}
			})
			flushAll(vbs)
			n += int64(len(third) * len(third) * len(second))
		}
	}
	for i := range c.syms {
		if !bytes.Equal(pristine[i], c.syms[i].b) {
			r.Violation(c.name+":input-mutated", fmt.Sprintf("%s: the bytes of input NALU %s were modified", c.name, c.syms[i].name), nil)
		}
	}
	return n
}
