package main

// Consumer dimension: WHO IS CONSUMING WHILE THE UNITS ARE WRITTEN.
//
// The statement of C22 makes the delivered unit and the published description a function of the access-unit
// sequence and the initial parameters only. Neither the kind of publisher (payload units vs RTP packets that
// the stream decodes itself) nor the set of consumers present while a unit is written appears in it. The code
// has shortcuts on exactly these: rtpDecoder (nil for payload publishers), rtpEncoder (nil for RTP publishers
// with small packets), onDatas (empty while nobody reads), rtspStream (nil until a RTSP reader asked for it).
//
// Every sequence a_1..a_n of the alphabets below, followed by a probe key frame that carries no parameters, is
// written on fresh real Streams
//   - by three kinds of publisher: payload units; RTP packets exactly as gortsplib's encoder of the format
//     emits them for the access unit (SubStream.UseRTPPackets=true, one WriteUnit per packet, as the RTSP and
//     WebRTC publishers do, every packet far below RTPMaxPayloadSize); RTP with one packet per NALU, marker
//     on the last one (the units of the packets in front carry no payload);
//   - through every plan (pre, k): the first k units (k = 0..n, EVERY split point) are written while no
//     stream.Reader is attached, pre in {nobody at all, only the RTSP side: Stream.RTSPStream() of a real
//     started gortsplib.Server}; the Reader attaches right before unit k (k = n: right before the probe).
//
// Oracle (differential): plan (nobody, k=0) -- a Reader attached from the very start -- is the reference run;
// it is judged against the reference remuxer like every sequence of the base enumeration. In every other plan,
// after EVERY write, OutDescCopy() must report what the reference run reported after the same unit, a unit is
// rejected iff the reference run rejected it, every unit written from the moment the Reader is attached
// (the probe key frame at the latest) must be delivered exactly as in the reference run, and while the RTSP
// side exists a real DESCRIBE over a real connection must answer with the SDP form of the same parameters.

import (
	"bytes"
	"fmt"
	"strings"
	"time"

	"github.com/bluenviron/gortsplib/v5"
	"github.com/bluenviron/gortsplib/v5/pkg/description"
	"github.com/bluenviron/gortsplib/v5/pkg/format"
	"github.com/bluenviron/gortsplib/v5/pkg/format/rtpfragmented"
	"github.com/bluenviron/gortsplib/v5/pkg/format/rtph264"
	"github.com/bluenviron/gortsplib/v5/pkg/format/rtph265"
	"github.com/pion/rtp"

	"github.com/bluenviron/mediamtx/internal/stream"
	"github.com/bluenviron/mediamtx/internal/unit"
	"github.com/bluenviron/mediamtx/internal/zzverif/vcommon"
)

type pubKind int

const (
	pubPayload  pubKind = iota
	pubRTP              // packets as the format's gortsplib encoder emits them for the whole access unit
	pubRTPSplit         // one packet per NALU, marker on the last
)

var pubNames = []string{"payload-publisher", "rtp-publisher", "rtp-publisher-one-packet-per-nalu"}

const (
	preNone = 0 // nobody consumes during the prefix
	preRTSP = 1 // only the RTSP side exists during the prefix (and stays)
)

var preNames = []string{"nobody", "rtsp-stream-only"}

const rtpMaxPayload = 1450

var (
	consRuns           int64 // real streams of the consumer dimension
	consLearnedUnseen  int64 // plans in which the description had to change while no Reader was attached
	consLateKeyFrames  int64 // key frames delivered to a Reader that attached after the parameters now in front of them had been sent
	consDescribes      int64 // DESCRIBE requests answered by the real RTSP server
	consPacketsWritten int64
)

// cCodec is what the consumer dimension needs to know about a codec.
type cCodec struct {
	name      string
	nSyms     int
	pubs      []pubKind
	newFormat func(init int) format.Format // own copies of the initial parameters
	fromDesc  func(params [][]byte) format.Format
	getParams func(format.Format) [][]byte
	elems     func(u []int) [][]byte // fresh copies of the elements of one unit
	payload   func(elems [][]byte) unit.Payload
	// newPacketizer returns a function producing the RTP packets of one unit (timestamps not yet set).
	newPacketizer func() func(elems [][]byte, split bool) ([]*rtp.Packet, error)
	decodeCheck   func() func(*rtp.Packet) ([][]byte, error) // independent gortsplib decoder (self check only)
	unitName      func(u []int) string
	multi         func(u []int) bool // more than one element: pubRTPSplit differs from pubRTP
	probe         []int
	// newModel returns the reference: step(u) = accepted deliveries, parameters the description must report
	// after the unit, class-key suffix, (has key frame, parameters all known)
	newModel func(init int) func(u []int) (accepted [][][]byte, desc [][]byte, suffix string, key bool, known bool)
}

func cloneList(l [][]byte) [][]byte {
	out := make([][]byte, len(l))
	for i, b := range l {
		if b != nil {
			out[i] = bytes.Clone(b)
		}
	}
	return out
}

func u32(v uint32) *uint32 { return &v }
func u16(v uint16) *uint16 { return &v }

// splitPackets encodes every element on its own and leaves the marker on the last packet only.
func splitPackets(elems [][]byte, enc func([][]byte) ([]*rtp.Packet, error)) ([]*rtp.Packet, error) {
	var out []*rtp.Packet
	for _, e := range elems {
		p, err := enc([][]byte{e})
		if err != nil {
			return nil, err
		}
		out = append(out, p...)
	}
	for i, p := range out {
		p.Marker = i == len(out)-1
	}
	return out, nil
}

func naluConsumerCodec(c *naluCodec) *cCodec {
	firstOf := func(kind int) []byte {
		for i := range c.syms {
			if c.syms[i].cls == clsParam && c.syms[i].kind == kind {
				return c.syms[i].b
			}
		}
		return nil
	}
	initParams := func(init int) [][]byte {
		p := make([][]byte, len(c.kinds))
		if init == 1 {
			for k := range p {
				p[k] = bytes.Clone(firstOf(k))
			}
		}
		return p
	}
	cc := &cCodec{
		name:      c.name,
		nSyms:     len(c.syms),
		pubs:      []pubKind{pubPayload, pubRTP, pubRTPSplit},
		newFormat: func(init int) format.Format { return c.newFormat(initParams(init)) },
		fromDesc:  func(p [][]byte) format.Format { return c.newFormat(p) },
		getParams: c.getParams,
		elems: func(u []int) [][]byte {
			l := make([][]byte, len(u))
			for i, si := range u {
				l[i] = bytes.Clone(c.syms[si].b)
			}
			return l
		},
		payload:  c.wrap,
		unitName: c.auName,
		multi:    func(u []int) bool { return len(u) > 1 },
		probe:    []int{0}, // the first key-frame symbol, alone
		newModel: func(init int) func(u []int) ([][][]byte, [][]byte, string, bool, bool) {
			cur := initParams(init)
			return func(u []int) ([][][]byte, [][]byte, string, bool, bool) {
				accepted, hasKey, dup := c.refStep(cur, u)
				suffix := ""
				if dup {
					suffix = ":same-type-parameter-sets-twice-in-unit"
				}
				known := true
				for _, p := range cur {
					if p == nil {
						known = false
					}
				}
				return accepted, append([][]byte(nil), cur...), suffix, hasKey, known
			}
		},
	}
	switch c.name {
	case "h264":
		cc.newPacketizer = func() func([][]byte, bool) ([]*rtp.Packet, error) {
			enc := &rtph264.Encoder{PayloadType: 96, PacketizationMode: 1, SSRC: u32(0x22C22C22), InitialSequenceNumber: u16(100)}
			if err := enc.Init(); err != nil {
				vcommon.Harness("C22: rtph264 encoder: %v", err)
			}
			return func(elems [][]byte, split bool) ([]*rtp.Packet, error) {
				if split {
					return splitPackets(elems, enc.Encode)
				}
				return enc.Encode(elems)
			}
		}
		cc.decodeCheck = func() func(*rtp.Packet) ([][]byte, error) {
			dec := &rtph264.Decoder{PacketizationMode: 1}
			if err := dec.Init(); err != nil {
				vcommon.Harness("C22: rtph264 decoder: %v", err)
			}
			return dec.Decode
		}
	case "h265":
		cc.newPacketizer = func() func([][]byte, bool) ([]*rtp.Packet, error) {
			enc := &rtph265.Encoder{PayloadType: 96, SSRC: u32(0x22C22C22), InitialSequenceNumber: u16(100)}
			if err := enc.Init(); err != nil {
				vcommon.Harness("C22: rtph265 encoder: %v", err)
			}
			return func(elems [][]byte, split bool) ([]*rtp.Packet, error) {
				if split {
					return splitPackets(elems, enc.Encode)
				}
				return enc.Encode(elems)
			}
		}
		cc.decodeCheck = func() func(*rtp.Packet) ([][]byte, error) {
			dec := &rtph265.Decoder{}
			if err := dec.Init(); err != nil {
				vcommon.Harness("C22: rtph265 decoder: %v", err)
			}
			return dec.Decode
		}
	default:
		vcommon.Harness("C22: no RTP packetizer for %s", c.name)
	}
	return cc
}

var m4InitCfg = []byte{0, 0, 1, 0xB0, 0x01, 0, 0, 1, 0xB5, 0x09, 0, 0, 1, 0x20, 0xAA} // VOS,VO,VOL1

func m4ConsumerCodec() *cCodec {
	initCfg := func(init int) []byte {
		if init == 1 {
			return bytes.Clone(m4InitCfg)
		}
		return nil
	}
	return &cCodec{
		name:      "mpeg4video",
		nSyms:     len(m4segs),
		pubs:      []pubKind{pubPayload, pubRTP},
		newFormat: func(init int) format.Format { return &format.MPEG4Video{PayloadTyp: 96, Config: initCfg(init)} },
		fromDesc:  func(p [][]byte) format.Format { return &format.MPEG4Video{PayloadTyp: 96, Config: p[0]} },
		getParams: func(f format.Format) [][]byte { return [][]byte{f.(*format.MPEG4Video).Config} },
		elems: func(u []int) [][]byte {
			b, _ := m4Frame(u)
			return [][]byte{b} // one element: the frame
		},
		payload: func(e [][]byte) unit.Payload { return unit.PayloadMPEG4Video(e[0]) },
		newPacketizer: func() func([][]byte, bool) ([]*rtp.Packet, error) {
			enc := &rtpfragmented.Encoder{PayloadType: 96, SSRC: u32(0x22C22C22), InitialSequenceNumber: u16(100)}
			if err := enc.Init(); err != nil {
				vcommon.Harness("C22: rtpfragmented encoder: %v", err)
			}
			return func(elems [][]byte, _ bool) ([]*rtp.Packet, error) { return enc.Encode(elems[0]) }
		},
		decodeCheck: func() func(*rtp.Packet) ([][]byte, error) {
			dec := &rtpfragmented.Decoder{}
			if err := dec.Init(); err != nil {
				vcommon.Harness("C22: rtpfragmented decoder: %v", err)
			}
			return func(p *rtp.Packet) ([][]byte, error) {
				f, err := dec.Decode(p)
				if err != nil {
					return nil, err
				}
				return [][]byte{f}, nil
			}
		},
		unitName: func(u []int) string { _, n := m4Frame(u); return n },
		multi:    func([]int) bool { return false },
		probe:    []int{1, 0}, // GOV,VOP: a key frame without configuration
		newModel: func(init int) func(u []int) ([][][]byte, [][]byte, string, bool, bool) {
			cur := initCfg(init)
			return func(u []int) ([][][]byte, [][]byte, string, bool, bool) {
				frame, _ := m4Frame(u)
				var want []byte
				cur, want = m4Ref(cur, frame)
				return [][][]byte{{want}}, [][]byte{cur}, "", bytes.Contains(want, m4GOV), cur != nil
			}
		},
	}
}

// ---------- one real stream with a changing consumer set ----------

type csess struct {
	strm  *stream.Stream
	sub   *stream.SubStream
	medi  *description.Media
	forma format.Format
	rd    *stream.Reader
	ch    chan *unit.Unit
	rtsp  *gortsplib.ServerStream
}

func newCSess(forma format.Format, useRTP bool) *csess {
	s := &csess{forma: forma, ch: make(chan *unit.Unit, 8)}
	s.medi = &description.Media{Type: description.MediaTypeVideo, Formats: []format.Format{forma}}
	desc := &description.Session{Medias: []*description.Media{s.medi}}
	s.strm = &stream.Stream{OrigDesc: desc, WriteQueueSize: 8, RTPMaxPayloadSize: rtpMaxPayload, Parent: nilLogger{}}
	if err := s.strm.Initialize(); err != nil {
		vcommon.Harness("C22: Stream.Initialize: %v", err)
	}
	s.sub = &stream.SubStream{Stream: s.strm, UseRTPPackets: useRTP}
	if err := s.sub.Initialize(); err != nil {
		vcommon.Harness("C22: SubStream.Initialize: %v", err)
	}
	count(&consRuns)
	return s
}

func (s *csess) attachReader() {
	s.rd = &stream.Reader{Parent: nilLogger{}}
	s.rd.OnData(s.medi, s.forma, func(u *unit.Unit) error {
		s.ch <- u
		return nil
	})
	s.strm.AddReader(s.rd)
}

func (s *csess) close() {
	if s.rd != nil {
		s.strm.RemoveReader(s.rd)
	}
	s.strm.Close()
}

// stepRes is what one written access unit led to.
type stepRes struct {
	rejected  bool     // a WriteUnit of the access unit was counted as a processing error
	panicked  string   // a WriteUnit panicked
	delivered [][]byte // elements of the payloads handed to the Reader for this access unit (nil: no Reader)
	badType   string
	desc      [][]byte // parameters reported by OutDescCopy() after the access unit
	describe  string   // a=fmtp line answered by DESCRIBE (RTSP side present)
	described bool
}

func (s *csess) writeUnits(us []*unit.Unit) (res stepRes) {
	for _, u := range us {
		before := s.strm.InboundFramesInError()
		if pv, stack := vcommon.Recover(func() { s.sub.WriteUnit(s.medi, s.forma, u) }); pv != nil {
			res.panicked = fmt.Sprintf("%v\n%s", pv, stack)
			return res
		}
		if s.strm.InboundFramesInError() != before {
			res.rejected = true
			continue
		}
		if s.rd == nil {
			continue
		}
		select {
		case got := <-s.ch:
			l, ok := flatten(got.Payload)
			if !ok {
				res.badType = fmt.Sprintf("%T", got.Payload)
			}
			res.delivered = append(res.delivered, l...)
		case <-time.After(30 * time.Second):
			vcommon.Harness("C22: reader callback not invoked within 30 s after WriteUnit")
		}
	}
	return res
}

// plan: the first k units are written without Reader; pre says who else is there.
type plan struct {
	pre int
	k   int
}

func (p plan) String() string {
	if p.k == 0 && p.pre == preNone {
		return "Reader attached from the start"
	}
	if p.k == 0 {
		return "RTSP side and Reader attached from the start"
	}
	return fmt.Sprintf("units 0..%d written with %s consuming, Reader attached before unit %d", p.k-1, preNames[p.pre], p.k)
}

// runPlan writes seq (the probe included) on a fresh stream. It stops at the first unit for which stop says so.
func (c *cCodec) runPlan(init int, pub pubKind, seq [][]int, p plan, w *rtspWorker, describeAt []bool, each func(step int, res *stepRes) bool) {
	s := newCSess(c.newFormat(init), pub != pubPayload)
	defer s.close()
	if p.pre == preRTSP {
		w.attach(s)
		defer w.detach()
	}
	var packetize func([][]byte, bool) ([]*rtp.Packet, error)
	if pub != pubPayload {
		packetize = c.newPacketizer()
	}
	for step, u := range seq {
		if step == p.k {
			s.attachReader()
		}
		pts := int64(3000 * (step + 1))
		el := c.elems(u)
		var us []*unit.Unit
		if pub == pubPayload {
			us = []*unit.Unit{{PTS: pts, Payload: c.payload(el)}}
		} else {
			pkts, err := packetize(el, pub == pubRTPSplit)
			if err != nil {
				vcommon.Harness("C22: packetizing %s [%s]: %v", c.name, c.unitName(u), err)
			}
			for _, pkt := range pkts {
				if len(pkt.Payload) > rtpMaxPayload {
					vcommon.Harness("C22: harness produced an oversized packet (%d bytes)", len(pkt.Payload))
				}
				pkt.Timestamp += uint32(pts)
				us = append(us, &unit.Unit{PTS: pts, RTPPackets: []*rtp.Packet{pkt}})
				count(&consPacketsWritten)
			}
		}
		res := s.writeUnits(us)
		r.Eval(1)
		if res.panicked == "" {
			res.desc = cloneList(c.getParams(s.strm.OutDescCopy().Medias[0].Formats[0]))
			if p.pre == preRTSP && describeAt[step] {
				res.describe = w.describe()
				res.described = true
			}
		}
		if !each(step, &res) {
			return
		}
	}
}

func paramsEqual(a, b [][]byte) bool {
	if len(a) != len(b) {
		return false
	}
	for i := range a {
		if !bytes.Equal(a[i], b[i]) || (a[i] == nil) != (b[i] == nil) {
			return false
		}
	}
	return true
}

func (c *cCodec) seqNames(seq [][]int) []string {
	n := make([]string, len(seq))
	for i, u := range seq {
		n[i] = c.unitName(u)
	}
	return n
}

// runConsumers runs one sequence (without the probe) by one kind of publisher through every plan.
func (c *cCodec) runConsumers(vb *vbuf, w *rtspWorker, init int, pub pubKind, seq0 [][]int) {
	seq := append(append([][]int(nil), seq0...), c.probe)
	n := len(seq0)
	names := c.seqNames(seq)
	initName := map[int]string{0: "none", 1: "all (variant 1)"}[init]
	replay := func(p plan, step int) map[string]any {
		return map[string]any{"codec": c.name, "publisher": pubNames[pub], "initial_parameters": initName,
			"units": names, "last_unit_is_probe_key_frame": true, "plan": p.String(), "failing_unit_index": step}
	}
	ctx := fmt.Sprintf("%s %s, initial parameters %s, units %v", c.name, pubNames[pub], initName, names)

	// reference run: a Reader attached from the very start; judged against the reference remuxer
	ref := make([]stepRes, 0, len(seq))
	model := c.newModel(init)
	refPlan := plan{preNone, 0}
	ok := true
	var learnedAt []bool // the description had to change at this unit
	var keyKnown []bool
	prev := c.getParams(c.newFormat(init))
	c.runPlan(init, pub, seq, refPlan, w, nil, func(step int, res *stepRes) bool {
		accepted, desc, suffix, hasKey, known := model(seq[step])
		fail := func(key, what string) bool {
			vb.add(c.name+":"+key+suffix, ctx+": "+what, replay(refPlan, step))
			ok = false
			return false
		}
		switch {
		case res.panicked != "":
			return fail("panic", fmt.Sprintf("WriteUnit panicked on unit %d [%s]: %s", step, names[step], vcommon.Short(res.panicked, 300)))
		case res.rejected:
			return fail("unit-rejected", fmt.Sprintf("unit %d [%s] was counted as a processing error", step, names[step]))
		case res.badType != "":
			return fail("payload-type", "delivered payload has type "+res.badType)
		}
		match := false
		for _, a := range accepted {
			if equalLists(res.delivered, a) {
				match = true
			}
		}
		if !match {
			return fail("payload-mismatch", fmt.Sprintf("unit %d [%s]: delivered %s, reference %s", step, names[step], hexList(res.delivered), hexList(accepted[0])))
		}
		if !paramsEqual(res.desc, desc) {
			return fail("description-not-most-recent", fmt.Sprintf("after unit %d [%s] the description reports %s, most recent seen is %s",
				step, names[step], hexList(res.desc), hexList(desc)))
		}
		learnedAt = append(learnedAt, !paramsEqual(prev, desc))
		keyKnown = append(keyKnown, hasKey && known)
		prev = desc
		ref = append(ref, *res)
		return true
	})
	if !ok {
		return // the existing per-sequence oracle has spoken; the differential needs a sound reference
	}

	// DESCRIBE is asked after every unit at which the description has to change (after the probe if there is none)
	describeAt := append([]bool(nil), learnedAt...)
	describeAt[n] = true
	for _, l := range learnedAt {
		if l {
			describeAt[n] = false
		}
	}

	for pre := preNone; pre <= preRTSP; pre++ {
		for k := 0; k <= n; k++ {
			p := plan{pre, k}
			if p == refPlan {
				continue
			}
			learnedUnseen := false
			for i := 0; i < k; i++ {
				learnedUnseen = learnedUnseen || learnedAt[i]
			}
			clean, descReported := true, false
			c.runPlan(init, pub, seq, p, w, describeAt, func(step int, res *stepRes) bool {
				fail := func(key, what string) bool {
					vb.add(c.name+":"+pubNames[pub]+":"+key, fmt.Sprintf("%s; plan: %s: %s", ctx, p, what), replay(p, step))
					clean = false
					return false
				}
				rf := &ref[step]
				if res.panicked != "" {
					return fail("panic-depends-on-consumers", fmt.Sprintf("WriteUnit panicked on unit %d [%s] (not in the run with a Reader from the start): %s",
						step, names[step], vcommon.Short(res.panicked, 300)))
				}
				if res.rejected != rf.rejected {
					return fail("unit-rejected-depends-on-consumers", fmt.Sprintf("unit %d [%s] was counted as a processing error, with a Reader attached from the start it is not",
						step, names[step]))
				}
				if !paramsEqual(res.desc, rf.desc) && !descReported {
					// not the end of this plan: what the Reader gets for the key frames that follow is judged too
					descReported = true
					fail("description-depends-on-consumers", fmt.Sprintf("after unit %d [%s] the description reports %s; with a Reader attached from the start (and by the reference) it reports %s",
						step, names[step], hexList(res.desc), hexList(rf.desc)))
				}
				if res.described && !descReported { // a stale OutDescCopy is reported once; the SDP is built from the same formats
					if want := w.expectedDescribe(c, rf.desc); res.describe != want {
						return fail("rtsp-describe-not-most-recent", fmt.Sprintf("after unit %d [%s] DESCRIBE answers %q, the SDP form of the most recent parameters %s is %q",
							step, names[step], res.describe, hexList(rf.desc), want))
					}
				}
				if step >= k {
					if res.badType != "" {
						return fail("payload-type", "delivered payload has type "+res.badType)
					}
					if !equalLists(res.delivered, rf.delivered) {
						return fail("delivery-depends-on-consumers", fmt.Sprintf("unit %d [%s] is delivered as %s to the Reader; a Reader attached from the start gets %s",
							step, names[step], hexList(res.delivered), hexList(rf.delivered)))
					}
					if keyKnown[step] && learnedUnseen {
						count(&consLateKeyFrames)
					}
				}
				return true
			})
			if clean {
				if learnedUnseen {
					count(&consLearnedUnseen)
				}
				late := false
				for i := k; i < len(seq); i++ {
					late = late || keyKnown[i]
				}
				distinct(fmt.Sprintf("consumers|%s|%s|init=%d|%s|n=%d|k=%d|learned-unseen=%v|keyframe-with-parameters-after-attach=%v",
					c.name, pubNames[pub], init, preNames[pre], n, k, learnedUnseen, late))
			}
		}
	}
}

// selfCheckPackets: the packets the harness writes decode (independent gortsplib decoder) to the access unit.
func (c *cCodec) selfCheckPackets(units [][]int) {
	for _, split := range []bool{false, true} {
		pk := c.newPacketizer()
		dec := c.decodeCheck()
		for i, u := range units {
			el := c.elems(u)
			pkts, err := pk(el, split)
			if err != nil {
				vcommon.Harness("C22 self check: packetizing %s [%s]: %v", c.name, c.unitName(u), err)
			}
			var got [][]byte
			for j, p := range pkts {
				p.Timestamp += uint32(3000 * (i + 1))
				g, err := dec(p)
				if j < len(pkts)-1 {
					if err == nil {
						vcommon.Harness("C22 self check: %s [%s] split=%v: packet %d of %d already completes the unit", c.name, c.unitName(u), split, j, len(pkts))
					}
					continue
				}
				if err != nil {
					vcommon.Harness("C22 self check: %s [%s] split=%v: %v", c.name, c.unitName(u), split, err)
				}
				got = g
			}
			if !equalLists(got, el) {
				vcommon.Harness("C22 self check: %s [%s] split=%v: packets decode to %s", c.name, c.unitName(u), split, hexList(got))
			}
		}
	}
}

// consSpace bounds the sequences of the consumer dimension for one codec (lengths in elements per unit).
type consSpace struct {
	single     int  // every unit of <= single elements alone
	big, small int  // every pair (a1 <= big, a2 <= small) and (a1 <= small, a2 <= big)
	triples    bool // every triple of 1-element units
	oneWay     bool // only the pairs (a1 <= big, a2 <= small)
}

func (sp consSpace) String() string {
	s := fmt.Sprintf("every unit of <=%d elements alone, every pair (a1 <=%d, a2 <=%d)", sp.single, sp.big, sp.small)
	if sp.big != sp.small && !sp.oneWay {
		s += fmt.Sprintf(" and (a1 <=%d, a2 <=%d)", sp.small, sp.big)
	}
	if sp.triples {
		s += ", every triple of 1-element units"
	}
	return s
}

func consumerSpace(codec string, thorough bool) consSpace {
	switch {
	case codec == "h264" && !thorough:
		return consSpace{2, 2, 1, false, false}
	case codec == "h265" && !thorough:
		return consSpace{2, 2, 1, false, true}
	case codec != "mpeg4video":
		return consSpace{2, 2, 2, true, false}
	case !thorough:
		return consSpace{3, 2, 1, false, false}
	}
	return consSpace{3, 3, 1, true, false}
}

// consumerSequences: all sequences of the consumer dimension for one codec.
func consumerSequences(nSyms int, sp consSpace) [][][]int {
	var out [][][]int
	for _, a := range allLists(nSyms, sp.single) {
		out = append(out, [][]int{a})
	}
	big := allLists(nSyms, sp.big)
	small := allLists(nSyms, sp.small)
	for _, a := range big {
		for _, b := range small {
			out = append(out, [][]int{a, b})
		}
	}
	for _, a := range small {
		for _, b := range big {
			if len(b) > sp.small && !sp.oneWay { // else already listed above
				out = append(out, [][]int{a, b})
			}
		}
	}
	if sp.triples {
		one := allLists(nSyms, 1)
		for _, a := range one {
			for _, b := range one {
				for _, d := range one {
					out = append(out, [][]int{a, b, d})
				}
			}
		}
	}
	return out
}

func runConsumerDimension(c *cCodec, thorough bool) int64 {
	sp := consumerSpace(c.name, thorough)
	c.selfCheckPackets(allLists(c.nSyms, max(sp.single, sp.big)))
	seqs := consumerSequences(c.nSyms, sp)
	const chunk = 16
	nChunks := (len(seqs) + chunk - 1) / chunk
	var n int64
	for init := 0; init <= 1; init++ {
		for _, pub := range c.pubs {
			if pub == pubRTPSplit && c.name == "h265" && !thorough {
				continue // quick: the one-packet-per-NALU publisher is enumerated for H.264 only
			}
			vbs := make([]vbuf, nChunks)
			var done = make([]int64, nChunks)
			vcommon.Parallel(nChunks, func(ci int) {
				w := getRTSPWorker()
				defer putRTSPWorker(w)
				for si := ci * chunk; si < min((ci+1)*chunk, len(seqs)); si++ {
					seq := seqs[si]
					if pub == pubRTPSplit {
						multi := false
						for _, u := range seq {
							multi = multi || c.multi(u)
						}
						if !multi {
							continue // the same packets as pubRTP
						}
					}
					c.runConsumers(&vbs[ci], w, init, pub, seq)
					done[ci]++
				}
			})
			flushAll(vbs)
			for _, d := range done {
				n += d
			}
		}
	}
	return n
}

func consumerRuleText(thorough bool) string {
	var sb strings.Builder
	sb.WriteString(" CONSUMER DIMENSION, initial parameters {none, all}: ")
	for _, c := range []string{"h264", "h265", "mpeg4video"} {
		fmt.Fprintf(&sb, "%s: %s; ", c, consumerSpace(c, thorough))
		if c == "h265" && !thorough {
			sb.WriteString("(h265 quick: without the one-packet-per-NALU publisher) ")
		}
	}
	sb.WriteString("each sequence followed by a probe key frame without parameters, x publisher {payload units, RTP packets from gortsplib's encoder of the format, RTP one packet per NALU} " +
		"x every plan (who consumes during the prefix in {nobody, RTSP side only}) x (every split point k=0..n: Reader attached right before unit k); " +
		"plan (nobody, k=0) is the reference run (judged against the reference remuxer), every other plan must report the same description after every write " +
		"(OutDescCopy; with the RTSP side also a real DESCRIBE after every unit at which the description has to change, after the probe if it never has to) and deliver the same payloads from the attach on; " +
		"distinct = (codec, publisher, initial parameters, prefix consumers, n, k, description had to change while no Reader was attached, key frame with known parameters delivered after the attach)")
	return sb.String()
}
