package main

// vbuf collects the violations of one enumeration task; tasks are flushed in task order after a parallel
// phase, so the counterexample reported for a class is the same (the simplest) on every run.
type vrec struct {
	key, what string
	rep       any
	count     int
}

type vbuf struct {
	recs  map[string]*vrec
	order []string
}

func (v *vbuf) add(key, what string, rep any) {
	if v.recs == nil {
		v.recs = map[string]*vrec{}
	}
	x := v.recs[key]
	if x == nil {
		x = &vrec{key: key, what: what, rep: rep}
		v.recs[key] = x
		v.order = append(v.order, key)
	}
	x.count++
}

func (v *vbuf) flush() {
	for _, k := range v.order {
		x := v.recs[k]
		for i := 0; i < x.count; i++ {
			r.Violation(x.key, x.what, x.rep)
		}
	}
	v.recs, v.order = nil, nil
}

func flushAll(vbs []vbuf) {
	for i := range vbs {
		vbs[i].flush()
	}
}
