package main

import (
	"bytes"
	"go/ast"
	"go/parser"
	"go/printer"
	"go/token"
	"io/fs"
	"os"
	"path/filepath"
	"regexp"
	"strings"

	"github.com/bluenviron/mediamtx/internal/zzverif/vcommon"
)

// same patterns as: grep -rn "func multiplyAndDivide\|func timestampToDuration\|func durationToTimestamp\|
// func durationGoToMp4\|func durationMp4ToGo" $VERIF_REPO/internal
var copyRe = regexp.MustCompile(`func (multiplyAndDivide\w*|timestampToDuration\w*|durationToTimestamp\w*|durationGoToMp4\w*|durationMp4ToGo\w*)`)

func funcText(path, name string) string {
	fset := token.NewFileSet()
	f, err := parser.ParseFile(fset, path, nil, 0)
	if err != nil {
		vcommon.Harness("C24: cannot parse %s: %v", path, err)
	}
	for _, d := range f.Decls {
		if fd, ok := d.(*ast.FuncDecl); ok && fd.Recv == nil && fd.Name.Name == name {
			var buf bytes.Buffer
			if err := printer.Fprint(&buf, fset, fd); err != nil {
				vcommon.Harness("C24: cannot print %s.%s: %v", path, name, err)
			}
			return buf.String()
		}
	}
	vcommon.Harness("C24: function %s not found in %s", name, path)
	return ""
}

// checkCoverage fails with HARNESS-ERROR when the tree holds a copy of a scaling helper that this
// harness does not execute (or prove textually identical to an executed one).
func checkCoverage() int {
	repo := os.Getenv("VERIF_REPO")
	if repo == "" {
		vcommon.Harness("C24: VERIF_REPO is not set (run through tools/check)")
	}
	known := map[string]bool{}
	for _, t := range targets {
		known[t.file+":"+t.fname] = false
	}
	for _, c := range identical {
		known[c.file+":"+c.fname] = false
	}
	found := 0
	root := filepath.Join(repo, "internal")
	err := filepath.WalkDir(root, func(p string, d fs.DirEntry, err error) error {
		if err != nil {
			return err
		}
		if d.IsDir() || !d.Type().IsRegular() {
			return nil
		}
		buf, err := os.ReadFile(p)
		if err != nil {
			return err
		}
		if !bytes.Contains(buf, []byte("func ")) {
			return nil
		}
		rel, _ := filepath.Rel(repo, p)
		for _, line := range strings.Split(string(buf), "\n") {
			m := copyRe.FindStringSubmatch(line)
			if m == nil {
				continue
			}
			found++
			key := rel + ":" + m[1]
			if _, ok := known[key]; !ok {
				vcommon.Harness("C24: uncovered copy of a timestamp scaling helper: %s in %s (add it to harness/c24 targets and a shim)", m[1], rel)
			}
			known[key] = true
		}
		return nil
	})
	if err != nil {
		vcommon.Harness("C24: scanning %s: %v", root, err)
	}
	for k, seen := range known {
		if !seen {
			vcommon.Harness("C24: helper %s is in the harness table but was not found in the tree", k)
		}
	}
	for _, c := range identical {
		a := funcText(filepath.Join(repo, c.file), c.fname)
		b := funcText(filepath.Join(repo, c.sameAsFile), c.sameAsFname)
		if a != b {
			vcommon.Harness("C24: %s in %s cannot be compiled on this architecture and is no longer textually identical to the executed copy in %s",
				c.fname, c.file, c.sameAsFile)
		}
	}
	return found
}
