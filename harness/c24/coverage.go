package main

import (
	"bytes"
	"go/ast"
	"go/parser"
	"go/printer"
	"go/token"
	"io/fs"
	"os"
	"path/filepath"
	"regexp"
	"strings"

	"github.com/bluenviron/mediamtx/internal/zzverif/vcommon"
)

// same patterns as: grep -rn "func multiplyAndDivide\|func timestampToDuration\|func durationToTimestamp\|
// func durationGoToMp4\|func durationMp4ToGo" $VERIF_REPO/internal
var copyRe = regexp.MustCompile(`func (multiplyAndDivide\w*|timestampToDuration\w*|durationToTimestamp\w*|durationGoToMp4\w*|durationMp4ToGo\w*)`)

func funcText(path, name string) string {
	fset := token.NewFileSet()
	f, err := parser.ParseFile(fset, path, nil, 0)
	if err != nil {
		vcommon.Harness("C24: cannot parse %s: %v", path, err)
	}
	for _, d := range f.Decls {
		if fd, ok := d.(*ast.FuncDecl); ok && fd.Recv == nil && fd.Name.Name == name {
			var buf bytes.Buffer
			if err := printer.Fprint(&buf, fset, fd); err != nil {
				vcommon.Harness("C24: cannot print %s.%s: %v", path, name, err)
			}
			return buf.String()
		}
	}
	vcommon.Harness("C24: function %s not found in %s", name, path)
	return ""
}

// checkCoverage fails with HARNESS-ERROR when the tree holds a copy of a scaling helper that this
// harness does not execute (or prove textually identical to an executed one).
func checkCoverage() int {
	repo := os.Getenv("VERIF_REPO")
	if repo == "" {
		vcommon.Harness("C24: VERIF_REPO is not set (run through tools/check)")
	}
	known := map[string]bool{}
	for _, t := range targets {
		known[t.file+":"+t.fname] = false
	}
	for _, c := range identical {
		known[c.file+":"+c.fname] = false
	}
	found := 0
	root := filepath.Join(repo, "internal")
	err := filepath.WalkDir(root, func(p string, d fs.DirEntry, err error) error {
		if err != nil {
			return err
		}
		if d.IsDir() || !d.Type().IsRegular() {
			return nil
		}
		buf, err := os.ReadFile(p)
		if err != nil {
			return err
		}
		if !bytes.Contains(buf, []byte("func ")) {
			return nil
		}
		rel, _ := filepath.Rel(repo, p)
		for _, line := range strings.Split(string(buf), "\n") {
			m := copyRe.FindStringSubmatch(line)
			if m == nil {
				continue
			}
			found++
			key := rel + ":" + m[1]
			if _, ok := known[key]; !ok {
				vcommon.Harness("C24: uncovered copy of a timestamp scaling helper: %s in %s (add it to harness/c24 targets and a shim)", m[1], rel)
			}
			known[key] = true
		}
		return nil
	})
	if err != nil {
		vcommon.Harness("C24: scanning %s: %v", root, err)
	}
	for k, seen := range known {
		if !seen {
			vcommon.Harness("C24: helper %s is in the harness table but was not found in the tree", k)
		}
	}
	for _, c := range identical {
		a := funcText(filepath.Join(repo, c.file), c.fname)
		b := funcText(filepath.Join(repo, c.sameAsFile), c.sameAsFname)
		if a != b {
			vcommon.Harness("C24: %s in %s cannot be compiled on this architecture and is no longer textually identical to the executed copy in %s",
				c.fname, c.file, c.sameAsFile)
		}
	}
	return found
}

// ---- call sites that split one unit into separately stamped pieces ----

// same patterns as: grep -rn "ac3.SamplesPerFrame\|mpeg4audio.SamplesPerAccessUnit\|PacketDuration2\|SampleCount()" $VERIF_REPO/internal
var splitRe = regexp.MustCompile(`ac3\.SamplesPerFrame|mpeg4audio\.SamplesPerAccessUnit|PacketDuration2|\.SampleCount\(\)`)

// (file, piece-length token) pairs of the tree and the call-site ids of sites_impl.go that drive them.
var splitCovered = map[string][]string{
	"internal/protocols/mpegts/from_stream.go|ac3.SamplesPerFrame":           {"mpegts.FromStream/AC3"},
	"internal/protocols/mpegts/to_stream.go|mpeg4audio.SamplesPerAccessUnit": {"mpegts.ToStream/MPEG4AudioLATM"},
	"internal/recorder/format_mpegts.go|ac3.SamplesPerFrame":                 {"recorder.formatMPEGTS/AC3"},
	"internal/recorder/format_fmp4.go|ac3.SamplesPerFrame":                   {"recorder.formatFMP4/AC3"},
	"internal/recorder/format_fmp4.go|mpeg4audio.SamplesPerAccessUnit":       {"recorder.formatFMP4/MPEG4Audio"},
	"internal/recorder/format_fmp4.go|PacketDuration2":                       {"recorder.formatFMP4/Opus"},
	"internal/recorder/format_fmp4.go|.SampleCount()":                        {"recorder.formatFMP4/MPEG1Audio"},
	"internal/protocols/rtmp/from_stream.go|ac3.SamplesPerFrame":             {"rtmp.FromStream/AC3"},
	"internal/protocols/rtmp/from_stream.go|mpeg4audio.SamplesPerAccessUnit": {"rtmp.FromStream/MPEG4Audio"},
	"internal/protocols/rtmp/from_stream.go|PacketDuration2":                 {"rtmp.FromStream/Opus"},
	"internal/protocols/rtmp/from_stream.go|.SampleCount()":                  {"rtmp.FromStream/MPEG1Audio"},
	"internal/protocols/moq/from_stream.go|mpeg4audio.SamplesPerAccessUnit":  {"moq.FromStream/MPEG4Audio"},
	"internal/protocols/moq/from_stream.go|PacketDuration2":                  {"moq.FromStream/Opus"}, // absent today (the packets are not advanced), present once fixed
	"internal/protocols/webrtc/from_stream.go|PacketDuration2":               {"webrtc.setupAudioTrack/Opus"},
	// not a split of one unit into stamped pieces:
	"internal/stream/offline_sub_stream_track.go|mpeg4audio.SamplesPerAccessUnit": nil, // generator of whole units paced by the wall clock
	"internal/stream/rtp_encoder.go|PacketDuration2":                              nil, // RTP packetization on the format's own clock: property C23
}

// checkSiteCoverage fails with HARNESS-ERROR when the tree derives piece timestamps from a piece length in a
// file the call-site family does not drive.
func checkSiteCoverage() {
	repo := os.Getenv("VERIF_REPO")
	if repo == "" {
		vcommon.Harness("C24: VERIF_REPO is not set (run through tools/check)")
	}
	ids := map[string]bool{}
	for i := range sites {
		ids[sites[i].id] = true
	}
	for k, v := range splitCovered {
		for _, id := range v {
			if !ids[id] {
				vcommon.Harness("C24: coverage table names call site %s (%s) that is not in the site table", id, k)
			}
		}
	}
	root := filepath.Join(repo, "internal")
	err := filepath.WalkDir(root, func(p string, d fs.DirEntry, err error) error {
		if err != nil {
			return err
		}
		if d.IsDir() || !d.Type().IsRegular() || !strings.HasSuffix(p, ".go") || strings.HasSuffix(p, "_test.go") {
			return nil
		}
		buf, err := os.ReadFile(p)
		if err != nil {
			return err
		}
		rel, _ := filepath.Rel(repo, p)
		for _, m := range splitRe.FindAllString(string(buf), -1) {
			if _, ok := splitCovered[rel+"|"+m]; !ok {
				vcommon.Harness("C24: %s derives timestamps from %s but no call site of harness/c24/sites_impl.go drives it (add a site or an explicit exemption)", rel, m)
			}
		}
		return nil
	})
	if err != nil {
		vcommon.Harness("C24: scanning %s: %v", root, err)
	}
}
