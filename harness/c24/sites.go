// C24, call-site family: every place of /repo where ONE unit carrying several frames / access units / packets /
// sample blocks is split and each piece gets its own timestamp is driven through its real entry point
// (mpegts.FromStream, mpegts.ToStream, rtmp.FromStream, moq.FromStream, the audio half of webrtc.FromStream, the
// running recorder formats) with hand-made units, and the timestamp of every piece is compared with the exact
// per-piece conversion trunc((pts + i*samplesPerPiece) * outRate / inRate) computed with math/big (product, then
// quotient) -- never a sum of separately truncated conversions.
package main

import (
	"fmt"
	"math/big"
	"sort"
	"time"

	"github.com/bluenviron/mediamtx/internal/zzverif/vcommon"
)

// ---- the oracle ----

// conv is trunc(v*m/d) (toward zero) in math/big.
func conv(v, m, d int64) int64 {
	a := new(big.Int).Mul(big.NewInt(v), big.NewInt(m))
	a.Quo(a, big.NewInt(d))
	if !a.IsInt64() {
		vcommon.Harness("C24: call-site oracle left int64: %d*%d/%d", v, m, d)
	}
	return a.Int64()
}

// ---- cases ----

type siteCase struct {
	rate    int   // the clock rate / sample rate dimension of the site
	k       int   // pieces in the unit (1..6)
	base    int64 // timestamp of the unit
	variant int   // site-specific extra dimension (piece-length pattern, channel count)
}

// obs is one observed timestamp of one piece.
type obs struct {
	name  string // observable: pts, dts, ntp, rtp, count ...
	class string // observable class used in the violation key (empty: name); e.g. every dts-derived observable is "dts"
	piece int
	got   int64
	want  []int64 // exact value(s); more than one where the statement leaves the clock of the offset open
	// hoisted is what a conversion hoisted out of the per-piece loop (convert the unit timestamp once, convert the
	// piece length once, add i times) would give; only used to MEASURE that the alphabet separates it from want.
	hoisted  int64
	hasHoist bool
	mod      int64 // compare modulo this (33-bit MPEG-TS timestamps, 32-bit RTP timestamps); 0: plain
	formula  string
}

func (o *obs) ok() bool {
	for _, w := range o.want {
		if o.mod != 0 {
			if (o.got-w)%o.mod == 0 {
				return true
			}
		} else if o.got == w {
			return true
		}
	}
	return false
}

type site struct {
	id       string
	file     string // file of /repo holding the call site
	what     string
	rates    []int
	variants int
	bases    func(rate int) []int64
	run      func(c siteCase) ([]obs, error)
}

var (
	allRates = []int{8000, 11025, 16000, 22050, 32000, 44100, 48000, 90000}
	ntpBase  = time.Unix(1700000000, 123456789)
)

// basesFor: 0, small, not a multiple of the piece length, one second + 1, large (20 h), negative.
func basesFor(spp int64, negative bool) func(rate int) []int64 {
	return func(rate int) []int64 {
		r := int64(rate)
		b := []int64{0, 7, spp - 1, r + 1, r*72000 + 12345}
		if negative {
			b = append(b, -(r + 7))
		}
		return b
	}
}

func baseClass(c siteCase, bases []int64) string {
	for i, b := range bases {
		if b == c.base {
			return [...]string{"zero", "small", "piece-1", "second+1", "large", "negative"}[i]
		}
	}
	return "?"
}

type siteOut struct {
	evals     int
	pieces    int
	distinct  map[string]struct{}
	viols     []*violRec
	vidx      map[string]*violRec
	separated int // observed pieces whose hoisted value differs from the exact one
	wall      time.Duration
	sample    any
}

func (so *siteOut) violation(key, what string, rep any) {
	v := so.vidx[key]
	if v == nil {
		v = &violRec{key: key, what: what, rep: rep}
		so.vidx[key] = v
		so.viols = append(so.viols, v)
	}
	v.count++
}

// runSite runs the cases of one (site, rate) job.
func runSite(s *site, rates []int) *siteOut {
	so := &siteOut{distinct: map[string]struct{}{}, vidx: map[string]*violRec{}}
	t0 := time.Now()
	defer func() { so.wall = time.Since(t0) }()
	nv := max(s.variants, 1)
	for _, rate := range rates {
		bases := s.bases(rate)
		for k := 1; k <= 6; k++ {
			for _, base := range bases {
				for variant := 0; variant < nv; variant++ {
					c := siteCase{rate: rate, k: k, base: base, variant: variant}
					so.evals++
					rep := map[string]any{"site": s.id, "file": s.file, "rate": rate, "pieces": k, "unit_timestamp": base, "variant": variant}
					var res []obs
					var err error
					p, stack := vcommon.Recover(func() { res, err = s.run(c) })
					if p != nil {
						rep["stack"] = stack
						so.violation("callsite:"+s.id+":panic",
							fmt.Sprintf("%s panicked on a unit of %d pieces (rate %d, timestamp %d): %v", s.id, k, rate, base, p), rep)
						continue
					}
					if err != nil {
						rep["error"] = err.Error()
						so.violation("callsite:"+s.id+":error",
							fmt.Sprintf("%s failed on a unit of %d pieces (rate %d, timestamp %d): %v", s.id, k, rate, base, err), rep)
						continue
					}
					sep := false
					for i := range res {
						o := &res[i]
						so.pieces++
						if o.hasHoist && o.hoisted != o.want[0] {
							sep = true
							so.separated++
						}
						if !o.ok() {
							rep2 := map[string]any{}
							for kk, vv := range rep {
								rep2[kk] = vv
							}
							rep2["observable"] = o.name
							rep2["piece"] = o.piece
							rep2["got"] = o.got
							rep2["want"] = o.want
							rep2["formula"] = o.formula
							cls := o.class
							if cls == "" {
								cls = o.name
							}
							so.violation("callsite:"+s.id+":"+cls+"-inexact",
								fmt.Sprintf("%s (%s): unit of %d pieces, rate %d, unit timestamp %d: %s of piece %d = %d, exact %v (%s)",
									s.id, s.file, k, rate, base, o.name, o.piece, o.got, o.want, o.formula), rep2)
						}
					}
					so.distinct[fmt.Sprintf("callsite|%s|rate=%d|k=%d|base=%s|v=%d|separates-hoisted=%v", s.id, rate, k, baseClass(c, bases), variant, sep)] = struct{}{}
					if so.sample == nil && sep && len(res) > 0 {
						last := res[len(res)-1]
						so.sample = map[string]any{"site": s.id, "rate": rate, "pieces": k, "unit_timestamp": base,
							"observable": last.name, "piece": last.piece, "got": last.got, "exact": last.want[0], "hoisted_conversion_would_give": last.hoisted}
					}
				}
			}
		}
	}
	return so
}

// runSites runs every call site and merges the results into r (deterministic order).
func runSites() {
	checkSiteCoverage()
	defer cleanupSites()
	type siteJob struct{ site, rate int }
	var jobs []siteJob
	for i := range sites {
		for _, rate := range sites[i].rates {
			jobs = append(jobs, siteJob{i, rate})
		}
	}
	jouts := make([]*siteOut, len(jobs))
	t0 := time.Now()
	vcommon.Parallel(len(jobs), func(i int) { jouts[i] = runSite(&sites[jobs[i].site], []int{jobs[i].rate}) })
	// merge the jobs of one site in job order (deterministic)
	outs := make([]*siteOut, len(sites))
	for i, jo := range jouts {
		so := outs[jobs[i].site]
		if so == nil {
			outs[jobs[i].site] = jo
			continue
		}
		so.evals += jo.evals
		so.pieces += jo.pieces
		so.separated += jo.separated
		so.wall += jo.wall
		for k := range jo.distinct {
			so.distinct[k] = struct{}{}
		}
		for _, v := range jo.viols {
			if have := so.vidx[v.key]; have != nil {
				have.count += v.count
			} else {
				so.vidx[v.key] = v
				so.viols = append(so.viols, v)
			}
		}
		if so.sample == nil {
			so.sample = jo.sample
		}
	}
	totalCases, totalPieces, totalSep := 0, 0, 0
	perSite := map[string]any{}
	var sepSites []string
	for i, so := range outs {
		s := &sites[i]
		r.Eval(so.evals)
		totalCases += so.evals
		totalPieces += so.pieces
		totalSep += so.separated
		perSite[s.id] = map[string]any{"units": so.evals, "piece_timestamps_compared": so.pieces,
			"piece_timestamps_where_a_hoisted_conversion_differs": so.separated, "cpu_wall_s": so.wall.Seconds()}
		if so.separated > 0 {
			sepSites = append(sepSites, s.id)
		}
		for k := range so.distinct {
			r.Distinct(k)
		}
		for _, v := range so.viols {
			for n := 0; n < v.count; n++ {
				r.Violation(v.key, v.what, v.rep)
			}
		}
		if so.sample != nil && (s.id == "mpegts.FromStream/AC3" || s.id == "rtmp.FromStream/MPEG4Audio") {
			r.Sample(so.sample)
		}
	}
	sort.Strings(sepSites)
	r.Set("call_sites_wall_s", time.Since(t0).Seconds())
	r.Set("call_sites_driven", len(sites))
	r.Set("call_site_units", totalCases)
	r.Set("call_site_piece_timestamps_compared", totalPieces)
	r.Set("call_site_piece_timestamps_where_a_hoisted_conversion_differs", totalSep)
	r.Set("call_sites_per_site", perSite)
	r.Set("call_sites_whose_alphabet_separates_a_hoisted_conversion", sepSites)
}
