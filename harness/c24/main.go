// C24: timestamp scaling is exact.
// Engine B: bounded-exhaustive enumeration of (value, multiplier, divisor) on every private copy of the
// scaling helpers of /repo (export shims, one per package), against trunc(v*m/d) computed with math/big,
// judged only where the exact result fits int64.
package main

import (
	"fmt"
	"math"
	"math/big"
	"math/bits"
	"sort"
	"sync"
	"time"

	"github.com/bluenviron/mediamtx/internal/ntpestimator"
	"github.com/bluenviron/mediamtx/internal/playback"
	"github.com/bluenviron/mediamtx/internal/protocols/hls"
	"github.com/bluenviron/mediamtx/internal/protocols/mpegts"
	"github.com/bluenviron/mediamtx/internal/protocols/rtmp"
	"github.com/bluenviron/mediamtx/internal/protocols/webrtc"
	"github.com/bluenviron/mediamtx/internal/recorder"
	"github.com/bluenviron/mediamtx/internal/stream"
	"github.com/bluenviron/mediamtx/internal/zzverif/vcommon"
)

type kind int

const (
	generic   kind = iota // f(v, m, d): everything free
	ticksToNs             // f(v, rate): m = 10^9, d = rate
	nsToTicks             // f(v, rate): m = rate, d = 10^9
)

func (k kind) String() string { return [...]string{"generic", "ticksToNs", "nsToTicks"}[k] }

const nsPerSec = int64(time.Second)

type target struct {
	id      string // package.function
	file    string // file of /repo (relative) holding the copy
	fname   string
	kind    kind
	maxRate int64 // largest rate the signature can express inside 1..2^32
	call    func(v, m, d int64) int64
}

func dur3(f func(v, m, d time.Duration) time.Duration) func(v, m, d int64) int64 {
	return func(v, m, d int64) int64 { return int64(f(time.Duration(v), time.Duration(m), time.Duration(d))) }
}

func t2d(f func(t int64, clockRate int) time.Duration) func(v, m, d int64) int64 {
	return func(v, _, d int64) int64 { return int64(f(v, int(d))) }
}

var targets = []target{
	{"stream.multiplyAndDivide", "internal/stream/stream_format.go", "multiplyAndDivide", generic, 1 << 32, stream.VerifC24MultiplyAndDivide},
	{"stream.multiplyAndDivide2", "internal/stream/offline_sub_stream.go", "multiplyAndDivide2", generic, 1 << 32, dur3(stream.VerifC24MultiplyAndDivide2)},
	{"recorder.multiplyAndDivide", "internal/recorder/format_mpegts.go", "multiplyAndDivide", generic, 1 << 32, recorder.VerifC24MultiplyAndDivide},
	{"recorder.multiplyAndDivide2", "internal/recorder/format_mpegts.go", "multiplyAndDivide2", generic, 1 << 32, dur3(recorder.VerifC24MultiplyAndDivide2)},
	{"recorder.timestampToDuration", "internal/recorder/format_mpegts.go", "timestampToDuration", ticksToNs, 1 << 32, t2d(recorder.VerifC24TimestampToDuration)},
	{"rtmp.multiplyAndDivide", "internal/protocols/rtmp/to_stream.go", "multiplyAndDivide", generic, 1 << 32, rtmp.VerifC24MultiplyAndDivide},
	{"rtmp.durationToTimestamp", "internal/protocols/rtmp/to_stream.go", "durationToTimestamp", nsToTicks, 1 << 32,
		func(v, m, _ int64) int64 { return rtmp.VerifC24DurationToTimestamp(time.Duration(v), int(m)) }},
	{"rtmp.multiplyAndDivide2", "internal/protocols/rtmp/from_stream.go", "multiplyAndDivide2", generic, 1 << 32, dur3(rtmp.VerifC24MultiplyAndDivide2)},
	{"rtmp.timestampToDuration", "internal/protocols/rtmp/from_stream.go", "timestampToDuration", ticksToNs, 1 << 32, t2d(rtmp.VerifC24TimestampToDuration)},
	{"mpegts.multiplyAndDivide", "internal/protocols/mpegts/from_stream.go", "multiplyAndDivide", generic, 1 << 32, mpegts.VerifC24MultiplyAndDivide},
	{"webrtc.multiplyAndDivide2", "internal/protocols/webrtc/from_stream.go", "multiplyAndDivide2", generic, 1 << 32, dur3(webrtc.VerifC24MultiplyAndDivide2)},
	{"webrtc.timestampToDuration", "internal/protocols/webrtc/from_stream.go", "timestampToDuration", ticksToNs, 1 << 32, t2d(webrtc.VerifC24TimestampToDuration)},
	{"hls.multiplyAndDivide", "internal/protocols/hls/to_stream.go", "multiplyAndDivide", generic, 1 << 32, hls.VerifC24MultiplyAndDivide},
	{"ntpestimator.multiplyAndDivide", "internal/ntpestimator/estimator.go", "multiplyAndDivide", generic, 1 << 32, dur3(ntpestimator.VerifC24MultiplyAndDivide)},
	{"playback.durationGoToMp4", "internal/playback/segment_fmp4.go", "durationGoToMp4", nsToTicks, 1<<32 - 1,
		func(v, m, _ int64) int64 { return playback.VerifC24DurationGoToMp4(time.Duration(v), uint32(m)) }},
	{"playback.durationMp4ToGo", "internal/playback/segment_fmp4.go", "durationMp4ToGo", ticksToNs, 1<<32 - 1,
		func(v, _, d int64) int64 { return int64(playback.VerifC24DurationMp4ToGo(v, uint32(d))) }},
}

// copies that cannot be compiled on this architecture: covered by textual identity with an executed copy.
var identical = []struct{ file, fname, sameAsFile, sameAsFname string }{
	{"internal/staticsources/rpicamera/camera_arm_.go", "multiplyAndDivide", "internal/stream/stream_format.go", "multiplyAndDivide"},
}

// boundary grid of clock rates / time scales (1..2^32).
var gridRates = []int64{1, 2, 3, 7, 10, 25, 30, 60, 1000, 8000, 11025, 16000, 22050, 24000, 32000, 44100, 48000, 88200,
	90000, 96000, 192000, 1000000, 10000000, 27000000, 1000000000, 1<<31 - 1, 1 << 31, 1<<31 + 1,
	3037000499, 3037000500, 1<<32 - 2, 1<<32 - 1, 1 << 32}

type violRec struct {
	key, what string
	rep       any
	count     int
}

type worker struct {
	a, b, q  big.Int
	distinct map[string]struct{}
	evals    int
	samples  []any
	viols    map[string]*violRec // first occurrence per key in this job (jobs are reported in job order: deterministic)
	vorder   []string
	overflow bool
}

func (w *worker) violation(key, what string, rep any) {
	v := w.viols[key]
	if v == nil {
		v = &violRec{key: key, what: what, rep: rep}
		w.viols[key] = v
		w.vorder = append(w.vorder, key)
	}
	v.count++
}

var (
	r      *vcommon.Run
	merged = map[string]struct{}{}
	// copies for which the remainder-product overflow was observed
	overflowCopies = map[string]int{}
)

// eval runs one case. Returns false when the exact result is not representable (not judged).
func (w *worker) eval(t *target, v, m, d int64) {
	w.evals++
	w.a.SetInt64(v)
	w.b.SetInt64(m)
	w.a.Mul(&w.a, &w.b)
	naiveOverflow := !w.a.IsInt64() // the one-step v*m would not fit int64
	w.b.SetInt64(d)
	w.q.Quo(&w.a, &w.b) // truncated toward zero
	if !w.q.IsInt64() {
		w.distinct[t.id+"|unrepresentable"] = struct{}{}
		return // exact result not representable: not judged
	}
	want := w.q.Int64()
	got := t.call(v, m, d)

	rem := v % d
	absRem := uint64(rem)
	if rem < 0 {
		absRem = uint64(-rem)
	}
	hi, lo := bits.Mul64(absRem, uint64(m))
	remOverflow := hi != 0 || lo > math.MaxInt64

	sign := "0"
	if v > 0 {
		sign = "+"
	} else if v < 0 {
		sign = "-"
	}
	w.distinct[fmt.Sprintf("%s|v%s|rem0=%v|res2^%d|naiveovf=%v|removf=%v", t.id, sign, rem == 0,
		(bits.Len64(absU(want))+7)/8*8, naiveOverflow, remOverflow)] = struct{}{}

	if got != want {
		rep := map[string]any{"function": t.id, "file": t.file, "v": v, "m": m, "d": d, "got": got, "want": want}
		if remOverflow {
			// (v mod d) * m does not fit int64: the two-step formula's second product wraps
			w.overflow = true
			cls := "generic-muldiv:remainder-product-overflow"
			if t.kind != generic {
				cls = t.id + ":remainder-product-overflow"
			}
			w.violation(cls, fmt.Sprintf("%s(v=%d, m=%d, d=%d) = %d, exact trunc(v*m/d) = %d; |v mod d|*m = %d*%d >= 2^63 wraps",
				t.id, v, m, d, got, want, absRem, m), rep)
		} else {
			w.violation(t.id+":inexact", fmt.Sprintf("%s(v=%d, m=%d, d=%d) = %d, exact trunc(v*m/d) = %d", t.id, v, m, d, got, want), rep)
		}
	} else if len(w.samples) < 1 && naiveOverflow && rem != 0 && v != math.MinInt64 && (d == 44100 || d == 90000 || m == 48000) {
		w.samples = append(w.samples, map[string]any{"function": t.id, "v": v, "m": m, "d": d, "result": got})
	}
}

func absU(v int64) uint64 {
	if v < 0 {
		return uint64(-v) // correct for MinInt64 too (wraps to 2^63)
	}
	return uint64(v)
}

// boundaryValues returns the v alphabet of the boundary grid for one (m, d).
func boundaryValues(m, d int64) []int64 {
	set := map[int64]struct{}{}
	add := func(x *big.Int) {
		if x.IsInt64() {
			set[x.Int64()] = struct{}{}
			set[-x.Int64()] = struct{}{} // -MinInt64 wraps to MinInt64: fine, still a value
		}
	}
	B := func(x int64) *big.Int { return big.NewInt(x) }
	around := func(x *big.Int, k int64) {
		for dl := -k; dl <= k; dl++ {
			add(new(big.Int).Add(x, B(dl)))
		}
	}
	bm, bd := B(m), B(d)
	around(B(0), 3)
	for _, k := range []int64{1, 2, 3, 7, 1000, 1 << 20} {
		around(new(big.Int).Mul(B(k), bd), 2) // k*d +- 2
	}
	for _, p := range []uint{15, 16, 31, 32, 33, 52, 53, 62} {
		around(new(big.Int).Lsh(B(1), p), 1)
	}
	around(B(math.MaxInt64), 0)
	add(B(math.MaxInt64 - 1))
	add(B(math.MinInt64))
	add(B(math.MinInt64 + 1))
	// where the naive product v*m starts to overflow
	around(new(big.Int).Quo(B(math.MaxInt64), bm), 2)
	// where (v/d)*m and the result approach MaxInt64: v ~ MaxInt64*d/m, and the multiples of d next to it
	lim := new(big.Int).Quo(new(big.Int).Mul(B(math.MaxInt64), bd), bm)
	around(lim, 2)
	limd := new(big.Int).Mul(new(big.Int).Quo(lim, bd), bd)
	around(limd, 2)
	around(new(big.Int).Sub(limd, bd), 2)
	// largest remainder next to large quotients: q*d + (d-1)
	for _, q := range []int64{0, 1, 1000, 1 << 31} {
		around(new(big.Int).Add(new(big.Int).Mul(B(q), bd), B(d-1)), 1)
	}
	// tick boundaries: smallest v with trunc(v*m/d) = k, and its neighbours
	for _, k := range []int64{1, 2, 3, 1000, 1 << 31, 1 << 40} {
		c := new(big.Int).Mul(B(k), bd)
		c.Add(c, new(big.Int).Sub(bm, B(1)))
		c.Quo(c, bm) // ceil(k*d/m)
		around(c, 1)
	}
	out := make([]int64, 0, len(set))
	for v := range set {
		out = append(out, v)
	}
	sort.Slice(out, func(i, j int) bool {
		ai, aj := absU(out[i]), absU(out[j])
		if ai != aj {
			return ai < aj
		}
		return out[i] > out[j]
	})
	return out
}

type job struct {
	t     *target
	scope string
	m, d  int64 // boundary: the pair; small: see run
	lo    int64
	hi    int64
}

func main() {
	r = vcommon.Start("C24", "exploration")
	covered := checkCoverage()
	runSites() // call-site family (sites.go): first, on an idle machine

	smallV, smallR := int64(1024), int64(32)
	convV, convR, convK := int64(2048), int64(256), int64(48)
	if r.Thorough() {
		smallV, smallR = 4096, 64
		convV, convR, convK = 4096, 2048, 64
	}
	r.Rule = fmt.Sprintf("for each of the %d compiled helper copies: (A) complete small scope: generic helpers v in [-%d,%d] x m,d in [1,%d]; "+
		"ticks->ns helpers v in [-%d,%d] x rate in [1,%d]; ns->ticks helpers every tick boundary ceil(k*10^9/rate)+{-1,0,1}, |k|<=%d, rate in [1,%d]; "+
		"(B) boundary grid: %d rates (1..2^32) for every free rate dimension x ~150 boundary values of v per (m,d) "+
		"(0, k*d+-2, 2^p+-1, MaxInt64/m+-2, MaxInt64*d/m+-2, q*d+(d-1), tick boundaries, Min/MaxInt64). "+
		"distinct = (copy, sign of v, remainder zero?, magnitude byte-bucket of the result, naive v*m overflows?, (v mod d)*m overflows?). "+
		"(C) call sites: each of the %d places that split ONE unit into separately stamped pieces (AC-3 / MPEG-1/2 audio frames, MPEG-4 audio access units, "+
		"LATM elements, Opus packets, G.711/G.722/LPCM packets) is driven through its real entry point with every clock rate the format allows out of "+
		"{8000,11025,16000,22050,32000,44100,48000,90000} x units of 1..6 pieces x 6 unit timestamps (0, 7, piece length-1, one second+1, 20 h, negative / next to the 32-bit wrap) "+
		"[x piece-length pattern or channel count]; every piece timestamp is compared with trunc((pts + samples before piece i) * outRate / inRate) in math/big; "+
		"distinct = (site, rate, pieces, timestamp class, variant, does a conversion hoisted out of the per-piece loop give another value?)",
		len(targets), smallV, smallV, smallR, convV, convV, convR, convK, convR, len(gridRates), len(sites))

	var jobs []job
	for i := range targets {
		t := &targets[i]
		switch t.kind {
		case generic:
			for m := int64(1); m <= smallR; m++ {
				jobs = append(jobs, job{t: t, scope: "small", m: m})
			}
			for _, m := range gridRates {
				for _, d := range gridRates {
					jobs = append(jobs, job{t: t, scope: "grid", m: m, d: d})
				}
			}
		case ticksToNs:
			for lo := int64(1); lo <= convR; lo += 16 {
				jobs = append(jobs, job{t: t, scope: "small", lo: lo, hi: min(lo+15, convR)})
			}
			for _, d := range gridRates {
				if d <= t.maxRate {
					jobs = append(jobs, job{t: t, scope: "grid", m: nsPerSec, d: d})
				}
			}
		case nsToTicks:
			for lo := int64(1); lo <= convR; lo += 16 {
				jobs = append(jobs, job{t: t, scope: "small", lo: lo, hi: min(lo+15, convR)})
			}
			for _, m := range gridRates {
				if m <= t.maxRate {
					jobs = append(jobs, job{t: t, scope: "grid", m: m, d: nsPerSec})
				}
			}
		}
	}

	var gridCases, smallCases int64
	var cm sync.Mutex
	workers := make([]*worker, len(jobs))
	vcommon.Parallel(len(jobs), func(i int) {
		j := jobs[i]
		w := &worker{distinct: map[string]struct{}{}, viols: map[string]*violRec{}}
		workers[i] = w
		p, stack := vcommon.Recover(func() {
			switch {
			case j.scope == "grid":
				for _, v := range boundaryValues(j.m, j.d) {
					w.eval(j.t, v, j.m, j.d)
				}
			case j.t.kind == generic:
				for d := int64(1); d <= smallR; d++ {
					for v := -smallV; v <= smallV; v++ {
						w.eval(j.t, v, j.m, d)
					}
				}
			case j.t.kind == ticksToNs:
				for rate := j.lo; rate <= j.hi; rate++ {
					for v := -convV; v <= convV; v++ {
						w.eval(j.t, v, nsPerSec, rate)
					}
				}
			case j.t.kind == nsToTicks:
				for rate := j.lo; rate <= j.hi; rate++ {
					for k := -convK; k <= convK; k++ {
						// smallest |v| with |v*rate/10^9| >= |k|
						c := (absI(k)*nsPerSec + rate - 1) / rate
						if k < 0 {
							c = -c
						}
						for dl := int64(-1); dl <= 1; dl++ {
							w.eval(j.t, c+dl, rate, nsPerSec)
						}
					}
				}
			}
		})
		if p != nil {
			w.violation(j.t.id+":panic", fmt.Sprintf("%s panicked in scope %s m=%d d=%d: %v", j.t.id, j.scope, j.m, j.d, p),
				map[string]any{"function": j.t.id, "scope": j.scope, "m": j.m, "d": j.d, "stack": stack})
		}
		r.Eval(w.evals)
		cm.Lock()
		if j.scope == "grid" {
			gridCases += int64(w.evals)
		} else {
			smallCases += int64(w.evals)
		}
		for k := range w.distinct {
			merged[k] = struct{}{}
		}
		cm.Unlock()
	})
	for i, w := range workers { // job order: the reported counterexample and the samples are the same on every run
		for _, k := range w.vorder {
			v := w.viols[k]
			for n := 0; n < v.count; n++ {
				r.Violation(v.key, v.what, v.rep)
			}
		}
		if w.overflow {
			overflowCopies[jobs[i].t.id]++
		}
		if jobs[i].scope == "grid" {
			for _, s := range w.samples {
				r.Sample(s)
			}
		}
	}
	for k := range merged {
		r.Distinct(k)
	}
	r.Set("helper_copies_executed", len(targets))
	r.Set("helper_copies_found_by_grep", covered)
	r.Set("helper_copies_covered_by_textual_identity", len(identical))
	r.Set("small_scope_cases", smallCases)
	r.Set("boundary_grid_cases", gridCases)
	if len(overflowCopies) > 0 {
		ids := make([]string, 0, len(overflowCopies))
		for k := range overflowCopies {
			ids = append(ids, k)
		}
		sort.Strings(ids)
		r.Set("copies_with_remainder_product_overflow", ids)
	}
	r.Exhaustive = true
	r.Assumptions = []string{
		"exhaustive inside the stated small scope and boundary grid, not over all 2^64 values",
		"multiplier and divisor are positive (clock rates / time scales 1..2^32, or the constant 10^9); rate 0 and negative rates are outside the property's domain",
		"uint32 signatures (playback) cannot express 2^32: their grid stops at 2^32-1",
		"internal/staticsources/rpicamera/camera_arm_.go only compiles on linux/arm: its copy is covered by requiring its source text to be identical to the executed copy in internal/stream",
		"inline conversions that do not go through a helper (e.g. segment_fmp4.go mvhd duration) are only covered where they stamp the pieces of one unit (call-site family)",
		"call-site family: the per-format callback registered by the real entry point is invoked synchronously with hand-made units (export shim on stream.Reader); piece payloads are minimal valid frames, the clock rate comes from the format",
		"call-site family: MPEG-TS outputs are read back with mediacommon's demuxer and compared modulo 2^33; the webrtc branches expose only the last packet of a unit (RTCP sender statistics) and the fMP4 recorder only the absolute time of the first and last piece, so piece i is judged as the last piece of the unit with i+1 pieces; dts of every piece is judged through the sample durations",
		"call-site family: units of 1..6 pieces; an error that needs more pieces to reach one tick (rtmp MPEG-1 audio adds trunc(1152*90000/44100) per frame: first off at the 50th frame of one unit) is outside the alphabet",
		"call-site family: where the statement leaves the clock of an offset open (MPEG-1/2 audio: 90 kHz ticks or samples) both exact values are accepted",
		"sites that hand a whole multi-piece unit with ONE timestamp to a library (mpegts Opus/MPEG-4 audio PES, HLS muxer, RTP packetizers: property C23) and generators of whole units (offline sub-stream) are not split sites; the harness re-runs the grep for piece-length constants and exits HARNESS-ERROR for a file it does not drive",
	}
	r.Finish()
}

func absI(v int64) int64 {
	if v < 0 {
		return -v
	}
	return v
}
