package main

import (
	"bufio"
	"bytes"
	"fmt"
	"net"
	"os"
	"path/filepath"
	"sync"
	"time"

	"github.com/bluenviron/gortmplib/pkg/amf0"
	"github.com/bluenviron/gortmplib/pkg/message"
	"github.com/bluenviron/gortsplib/v5/pkg/description"
	"github.com/bluenviron/gortsplib/v5/pkg/format"
	"github.com/bluenviron/gortsplib/v5/pkg/format/rtplpcm"
	"github.com/bluenviron/mediacommon/v2/pkg/codecs/mpeg1audio"
	"github.com/bluenviron/mediacommon/v2/pkg/codecs/mpeg4audio"
	"github.com/bluenviron/mediacommon/v2/pkg/codecs/opus"
	mcmpegts "github.com/bluenviron/mediacommon/v2/pkg/formats/mpegts"
	tscodecs "github.com/bluenviron/mediacommon/v2/pkg/formats/mpegts/codecs"
	srt "github.com/datarhei/gosrt"
	"github.com/pion/rtp"

	"github.com/bluenviron/mediamtx/internal/conf"
	"github.com/bluenviron/mediamtx/internal/logger"
	"github.com/bluenviron/mediamtx/internal/protocols/moq"
	"github.com/bluenviron/mediamtx/internal/protocols/mpegts"
	"github.com/bluenviron/mediamtx/internal/protocols/rtmp"
	"github.com/bluenviron/mediamtx/internal/protocols/webrtc"
	"github.com/bluenviron/mediamtx/internal/recorder"
	"github.com/bluenviron/mediamtx/internal/stream"
	"github.com/bluenviron/mediamtx/internal/unit"
	"github.com/bluenviron/mediamtx/internal/zzverif/vcommon"
)

const (
	ac3Samples  = 1536 // samples of one AC-3 frame (ATSC A/52)
	aacSamples  = 1024 // samples of one MPEG-4 audio access unit
	tsMod       = int64(1) << 33
	rtpMod      = int64(1) << 32
	tsClock     = 90000
	nsPerSecond = int64(time.Second)
)

type nilLogger struct{}

func (nilLogger) Log(logger.Level, string, ...any) {}

type fakeSRT struct{ srt.Conn }

func (fakeSRT) SetWriteDeadline(time.Time) error { return nil }

type fakeNet struct{ net.Conn }

func (fakeNet) SetWriteDeadline(time.Time) error { return nil }

var (
	siteTmpOnce sync.Once
	siteTmp     string
)

func siteDir() string {
	siteTmpOnce.Do(func() {
		d, err := os.MkdirTemp("", "verif-c24-")
		if err != nil {
			vcommon.Harness("C24: temp dir: %v", err)
		}
		siteTmp = d
	})
	return siteTmp
}

func cleanupSites() {
	if siteTmp != "" {
		os.RemoveAll(siteTmp)
	}
}

// ---- pieces ----

// a valid AC-3 frame: 48 kHz, frmsizecod 0 (128 bytes), bsid 8, acmod 2 (stereo). The clock rate of every call site
// comes from the FORMAT (format.AC3.SampleRate), never from the frame.
func ac3Frame() []byte {
	f := make([]byte, 128)
	f[0], f[1] = 0x0B, 0x77
	f[4] = 0
	f[5] = 8 << 3
	f[6] = 2 << 5
	return f
}

func ac3Payload(k int) unit.PayloadAC3 {
	p := make(unit.PayloadAC3, k)
	for i := range p {
		p[i] = ac3Frame()
	}
	return p
}

func aacPayload(k int) unit.PayloadMPEG4Audio {
	p := make(unit.PayloadMPEG4Audio, k)
	for i := range p {
		p[i] = []byte{0x21, 0x10, 0x04, 0x60, 0x8c, 0x1c}
	}
	return p
}

func aacFormat(rate int) *format.MPEG4Audio {
	return &format.MPEG4Audio{PayloadTyp: 96, SizeLength: 13, IndexLength: 3, IndexDeltaLength: 3,
		Config: &mpeg4audio.AudioSpecificConfig{Type: mpeg4audio.ObjectTypeAACLC, SampleRate: rate, ChannelConfig: 2, ChannelCount: 2}}
}

// Opus packets: the TOC byte fixes the duration (RFC 6716 3.1). variant 0: 20 ms each; 1: 2.5 ms each; 2: mixed.
var opusTOCs = [][]byte{
	{0xF8, 0xF8, 0xF8, 0xF8, 0xF8, 0xF8}, // CELT FB 20 ms: 960
	{0x80, 0x80, 0x80, 0x80, 0x80, 0x80}, // CELT NB 2.5 ms: 120
	{0x80, 0x98, 0x10, 0x88, 0x18, 0x90}, // 120, 960, 1920, 240, 2880, 480
}

var opusTOCSamples = map[byte]int64{0xF8: 960, 0x80: 120, 0x98: 960, 0x10: 1920, 0x88: 240, 0x18: 2880, 0x90: 480}

func opusPackets(k, variant int) ([][]byte, []int64) {
	pk := make([][]byte, k)
	off := make([]int64, k) // offset of piece i from the unit timestamp, in 48 kHz samples
	acc := int64(0)
	for i := range pk {
		toc := opusTOCs[variant][i]
		pk[i] = []byte{toc, 0xFF, 0xFE}
		off[i] = acc
		d := opus.PacketDuration2(pk[i])
		if d != opusTOCSamples[toc] {
			vcommon.Harness("C24: opus.PacketDuration2(TOC %#x) = %d, RFC 6716 says %d", toc, d, opusTOCSamples[toc])
		}
		acc += d
	}
	return pk, off
}

// MPEG-1/2 layer III frames.
func mp3Frame(sampleRate int) ([]byte, int64) {
	var b1, b2 byte
	switch sampleRate {
	case 44100:
		b1, b2 = 0xFB, 9<<4|0<<2
	case 48000:
		b1, b2 = 0xFB, 9<<4|1<<2
	case 32000:
		b1, b2 = 0xFB, 9<<4|2<<2
	case 22050:
		b1, b2 = 0xF3, 8<<4|0<<2
	case 24000:
		b1, b2 = 0xF3, 8<<4|1<<2
	case 16000:
		b1, b2 = 0xF3, 8<<4|2<<2
	default:
		vcommon.Harness("C24: no MPEG audio frame for %d Hz", sampleRate)
	}
	hdr := []byte{0xFF, b1, b2, 0x00, 0x00}
	var h mpeg1audio.FrameHeader
	if err := h.Unmarshal(hdr); err != nil || h.SampleRate != sampleRate || h.Layer != 3 {
		vcommon.Harness("C24: MPEG audio header for %d Hz: %v %+v", sampleRate, err, h)
	}
	f := make([]byte, h.FrameLen())
	copy(f, hdr)
	want := int64(1152)
	if h.MPEG2 {
		want = 576
	}
	if int64(h.SampleCount()) != want {
		vcommon.Harness("C24: SampleCount %d for %d Hz", h.SampleCount(), sampleRate)
	}
	return f, want
}

func mp3Payload(k, sampleRate int) (unit.PayloadMPEG1Audio, int64) {
	p := make(unit.PayloadMPEG1Audio, k)
	var spf int64
	for i := range p {
		p[i], spf = mp3Frame(sampleRate)
	}
	return p, spf
}

// ---- observation helpers ----

// extra: trailing timestamps of following units that may (or may not yet) have been released by a demuxer.
func evenObs(name string, c siteCase, spp, in, out int64, got []int64, mod int64, extra int, formula string) []obs {
	var res []obs
	n := min(len(got), c.k)
	for i := 0; i < n; i++ {
		res = append(res, obs{name: name, piece: i, got: got[i],
			want:    []int64{conv(c.base+int64(i)*spp, out, in)},
			hoisted: conv(c.base, out, in) + int64(i)*conv(spp, out, in), hasHoist: true, mod: mod, formula: formula})
	}
	if len(got) < c.k || len(got) > c.k+extra {
		res = append(res, obs{name: "piece-count", piece: -1, got: int64(len(got)), want: []int64{int64(c.k)}, formula: "one timestamp per piece"})
	}
	return res
}

func offsetObs(name string, c siteCase, off []int64, in, out int64, got []int64, formula string) []obs {
	var res []obs
	n := min(len(got), c.k)
	for i := 0; i < n; i++ {
		h := conv(c.base, out, in)
		for j := 0; j < i; j++ {
			h += conv(off[j+1]-off[j], out, in)
		}
		res = append(res, obs{name: name, piece: i, got: got[i], want: []int64{conv(c.base+off[i], out, in)},
			hoisted: h, hasHoist: true, formula: formula})
	}
	if len(got) != c.k {
		res = append(res, obs{name: "piece-count", piece: -1, got: int64(len(got)), want: []int64{int64(c.k)}, formula: "one timestamp per piece"})
	}
	return res
}

func oneMedia(forma format.Format) (*description.Media, *description.Session) {
	medi := &description.Media{Type: description.MediaTypeAudio, Formats: []format.Format{forma}}
	return medi, &description.Session{Medias: []*description.Media{medi}}
}

func callback(rd *stream.Reader, medi *description.Media, forma format.Format, site string) stream.OnDataFunc {
	cb := stream.VerifC24ReaderCallback(rd, medi, forma)
	if cb == nil {
		vcommon.Harness("C24: %s registered no callback for %T", site, forma)
	}
	return cb
}

// ---- MPEG-TS ----

func demuxAC3(buf []byte) ([]int64, error) {
	mr := &mcmpegts.Reader{R: bytes.NewReader(buf)}
	if err := mr.Initialize(); err != nil {
		return nil, fmt.Errorf("demuxing what the call site wrote: %w", err)
	}
	if len(mr.Tracks()) != 1 {
		return nil, fmt.Errorf("%d tracks in what the call site wrote", len(mr.Tracks()))
	}
	var got []int64
	var derr error
	mr.OnDecodeError(func(err error) { derr = err })
	mr.OnDataAC3(mr.Tracks()[0], func(pts int64, _ []byte) error {
		got = append(got, pts)
		return nil
	})
	for mr.Read() == nil {
	}
	if derr != nil {
		return nil, fmt.Errorf("demuxing what the call site wrote: %w", derr)
	}
	return got, nil
}

const ac3Formula = "trunc((pts + i*1536) * 90000 / rate), mod 2^33"

func runMpegtsFromStreamAC3(c siteCase) ([]obs, error) {
	forma := &format.AC3{PayloadTyp: 96, SampleRate: c.rate, ChannelCount: 2}
	medi, desc := oneMedia(forma)
	var buf bytes.Buffer
	bw := bufio.NewWriter(&buf)
	rd := &stream.Reader{Parent: nilLogger{}}
	if err := mpegts.FromStream(desc, rd, bw, fakeSRT{}, 10*time.Second); err != nil {
		return nil, err
	}
	cb := callback(rd, medi, forma, "mpegts.FromStream")
	if err := cb(&unit.Unit{PTS: c.base, NTP: ntpBase, Payload: ac3Payload(c.k)}); err != nil {
		return nil, err
	}
	// a following unit, so that the demuxer releases the last frame of the judged one
	if err := cb(&unit.Unit{PTS: c.base + 8*ac3Samples, NTP: ntpBase, Payload: ac3Payload(1)}); err != nil {
		return nil, err
	}
	bw.Flush()
	got, err := demuxAC3(buf.Bytes())
	if err != nil {
		return nil, err
	}
	return evenObs("pts", c, ac3Samples, int64(c.rate), tsClock, got, tsMod, 1, ac3Formula), nil
}

// ---- the running recorder ----

type recCtx struct {
	strm  *stream.Stream
	rec   *recorder.Recorder
	cb    stream.OnDataFunc
	mu    sync.Mutex
	paths []string
	dir   string
}

func newRec(recFormat conf.RecordFormat, forma format.Format, site string) (*recCtx, error) {
	medi, desc := oneMedia(forma)
	x := &recCtx{}
	x.strm = &stream.Stream{OrigDesc: desc, WriteQueueSize: 8, RTPMaxPayloadSize: 1450, Parent: nilLogger{}}
	if err := x.strm.Initialize(); err != nil {
		return nil, err
	}
	var err error
	x.dir, err = os.MkdirTemp(siteDir(), "rec-")
	if err != nil {
		vcommon.Harness("C24: temp dir: %v", err)
	}
	x.rec = &recorder.Recorder{
		PathFormat:      filepath.Join(x.dir, "%path/%Y-%m-%d_%H-%M-%S-%f"),
		Format:          recFormat,
		PartDuration:    time.Duration(1) << 60,
		MaxPartSize:     50 * 1024 * 1024,
		SegmentDuration: time.Duration(1) << 60,
		PathName:        "c24",
		Stream:          x.strm,
		OnSegmentCreate: func(p string) {
			x.mu.Lock()
			x.paths = append(x.paths, p)
			x.mu.Unlock()
		},
		Parent: nilLogger{},
	}
	x.rec.Initialize()
	x.cb = callback(recorder.VerifC24Reader(x.rec), medi, forma, site)
	return x, nil
}

func (x *recCtx) close() {
	x.rec.Close()
	x.strm.Close()
}

func (x *recCtx) remove() { os.RemoveAll(x.dir) }

func runRecorderMPEGTSAC3(c siteCase) ([]obs, error) {
	forma := &format.AC3{PayloadTyp: 96, SampleRate: c.rate, ChannelCount: 2}
	x, err := newRec(conf.RecordFormatMPEGTS, forma, "recorder.formatMPEGTS")
	if err != nil {
		return nil, err
	}
	defer x.remove()
	err = x.cb(&unit.Unit{PTS: c.base, NTP: ntpBase, Payload: ac3Payload(c.k)})
	if err == nil {
		err = x.cb(&unit.Unit{PTS: c.base + 8*ac3Samples,
			NTP: ntpBase.Add(time.Duration(conv(8*ac3Samples, nsPerSecond, int64(c.rate)))), Payload: ac3Payload(1)})
	}
	x.close()
	if err != nil {
		return nil, err
	}
	if len(x.paths) != 1 {
		return nil, fmt.Errorf("%d segments created for two units", len(x.paths))
	}
	buf, err := os.ReadFile(x.paths[0])
	if err != nil {
		return nil, err
	}
	got, err := demuxAC3(buf)
	if err != nil {
		return nil, err
	}
	return evenObs("pts", c, ac3Samples, int64(c.rate), tsClock, got, tsMod, 1, ac3Formula), nil
}

// fmp4Obs judges what the fMP4 format holds after ONE unit: dts[i] is the exact timestamp of piece i in the track
// time scale, ntpOff[i] the exact offset(s) of its absolute time from the unit's.
func fmp4Obs(c siteCase, st recorder.VerifC24FMP4State, timeScale int64, dts []int64, ntpOff [][]int64, hoistNTP []int64, dtsFormula, ntpFormula string) []obs {
	var res []obs
	k := c.k
	if int64(st.TimeScale) != timeScale {
		res = append(res, obs{name: "time-scale", piece: -1, got: int64(st.TimeScale), want: []int64{timeScale}, formula: "track time scale = clock rate of the format"})
	}
	if !st.HasLast {
		return append(res, obs{name: "piece-count", piece: -1, got: 0, want: []int64{int64(k)}, formula: "one sample per piece"})
	}
	if len(st.Durations) != k-1 {
		res = append(res, obs{name: "piece-count", piece: -1, got: int64(len(st.Durations) + 1), want: []int64{int64(k)}, formula: "one sample per piece"})
	}
	if k >= 2 && st.HasSegment {
		res = append(res, obs{name: "first-dts-ns", class: "dts", piece: 0, got: int64(st.SegmentStartDTS),
			want: []int64{conv(dts[0], nsPerSecond, timeScale)}, formula: "trunc(dts of piece 0 * 10^9 / time scale)"})
		res = append(res, obs{name: "ntp", piece: 0, got: int64(st.SegmentStartNTP.Sub(ntpBase)), want: []int64{0}, formula: "piece 0 carries the unit's absolute time"})
	}
	for i := 0; i < min(len(st.Durations), k-1); i++ {
		res = append(res, obs{name: "sample-duration", class: "dts", piece: i, got: int64(st.Durations[i]),
			want: []int64{dts[i+1] - dts[i]}, formula: "dts of piece i+1 - dts of piece i; " + dtsFormula})
	}
	res = append(res, obs{name: "dts", piece: k - 1, got: st.LastDTS, want: []int64{dts[k-1]}, formula: dtsFormula})
	res = append(res, obs{name: "ntp", piece: k - 1, got: int64(st.LastNTP.Sub(ntpBase)), want: ntpOff[k-1],
		hoisted: hoistNTP[k-1], hasHoist: true, formula: ntpFormula})
	return res
}

func runFMP4(c siteCase, forma format.Format, payload unit.Payload, site string) (recorder.VerifC24FMP4State, error) {
	var st recorder.VerifC24FMP4State
	x, err := newRec(conf.RecordFormatFMP4, forma, site)
	if err != nil {
		return st, err
	}
	defer x.remove()
	err = x.cb(&unit.Unit{PTS: c.base, NTP: ntpBase, Payload: payload})
	var ok bool
	st, ok = recorder.VerifC24FMP4(x.rec)
	x.close()
	if err != nil {
		return st, err
	}
	if !ok {
		return st, fmt.Errorf("the recorder did not set up a fMP4 track for %T", forma)
	}
	return st, nil
}

// sameClock: pieces every spp samples (or at off[]) of the format's own clock; dts stays in that clock, ntp in ns.
func sameClockFMP4(c siteCase, st recorder.VerifC24FMP4State, off []int64) []obs {
	rate := int64(c.rate)
	dts := make([]int64, c.k)
	ntp := make([][]int64, c.k)
	hoist := make([]int64, c.k)
	h := int64(0)
	for i := 0; i < c.k; i++ {
		dts[i] = c.base + off[i]
		ntp[i] = []int64{conv(off[i], nsPerSecond, rate)}
		if i > 0 {
			h += conv(off[i]-off[i-1], nsPerSecond, rate)
		}
		hoist[i] = h
	}
	return fmp4Obs(c, st, rate, dts, ntp, hoist, "pts + offset of piece i in samples", "unit NTP + trunc(offset of piece i in samples * 10^9 / rate)")
}

func evenOff(k int, spp int64) []int64 {
	off := make([]int64, k)
	for i := range off {
		off[i] = int64(i) * spp
	}
	return off
}

func runRecorderFMP4AC3(c siteCase) ([]obs, error) {
	forma := &format.AC3{PayloadTyp: 96, SampleRate: c.rate, ChannelCount: 2}
	st, err := runFMP4(c, forma, ac3Payload(c.k), "recorder.formatFMP4")
	if err != nil {
		return nil, err
	}
	return sameClockFMP4(c, st, evenOff(c.k, ac3Samples)), nil
}

func runRecorderFMP4AAC(c siteCase) ([]obs, error) {
	st, err := runFMP4(c, aacFormat(c.rate), aacPayload(c.k), "recorder.formatFMP4")
	if err != nil {
		return nil, err
	}
	return sameClockFMP4(c, st, evenOff(c.k, aacSamples)), nil
}

func runRecorderFMP4Opus(c siteCase) ([]obs, error) {
	pk, off := opusPackets(c.k, c.variant)
	st, err := runFMP4(c, &format.Opus{PayloadTyp: 96, ChannelCount: 2}, unit.PayloadOpus(pk), "recorder.formatFMP4")
	if err != nil {
		return nil, err
	}
	return sameClockFMP4(c, st, off), nil
}

// MPEG-1/2 audio: the unit timestamp runs on the 90 kHz clock of the RTP payload type, the pieces are frames of spf
// samples at the frame's sample rate. Piece i starts trunc(i*spf*90000/sr) ticks after the unit.
func mp3Ticks(i int, spf int64, sr int) int64 { return conv(int64(i)*spf, tsClock, int64(sr)) }

func runRecorderFMP4MP3(c siteCase) ([]obs, error) {
	payload, spf := mp3Payload(c.k, c.rate)
	st, err := runFMP4(c, &format.MPEG1Audio{}, payload, "recorder.formatFMP4")
	if err != nil {
		return nil, err
	}
	dts := make([]int64, c.k)
	ntp := make([][]int64, c.k)
	hoist := make([]int64, c.k)
	for i := 0; i < c.k; i++ {
		t := mp3Ticks(i, spf, c.rate)
		dts[i] = c.base + t
		// the statement leaves open whether the offset is converted from the 90 kHz ticks or from the samples
		ntp[i] = []int64{conv(t, nsPerSecond, tsClock), conv(int64(i)*spf, nsPerSecond, int64(c.rate))}
		hoist[i] = int64(i) * conv(spf, nsPerSecond, int64(c.rate))
	}
	return fmp4Obs(c, st, tsClock, dts, ntp, hoist, "pts + trunc(i*samplesPerFrame*90000/sampleRate)",
		"unit NTP + trunc(offset of piece i * 10^9 / its clock)"), nil
}

// ---- RTMP ----

type capConn struct{ msgs []message.Message }

func (c *capConn) BytesReceived() uint64 { return 0 }
func (c *capConn) BytesSent() uint64     { return 0 }
func (c *capConn) Read() (message.Message, error) {
	return nil, fmt.Errorf("C24: nothing to read")
}

func (c *capConn) Write(m message.Message) error {
	c.msgs = append(c.msgs, m)
	return nil
}

func rtmpDTS(m message.Message) (int64, bool) {
	switch m := m.(type) {
	case *message.Audio:
		return int64(m.DTS), true
	case *message.AudioExCodedFrames:
		return int64(m.DTS), true
	case *message.AudioExMultitrack:
		return rtmpDTS(m.Wrapped)
	}
	return 0, false
}

func fourCC(c message.FourCC) string {
	return string([]byte{byte(c >> 24), byte(c >> 16), byte(c >> 8), byte(c)})
}

var rtmpFourCCs = amf0.StrictArray{fourCC(message.FourCCOpus), fourCC(message.FourCCAC3), fourCC(message.FourCCMP4A), fourCC(message.FourCCMP3)}

// runRTMP maps desc with rtmp.FromStream onto a capturing connection and hands ONE unit to the callback of forma.
func runRTMP(desc *description.Session, medi *description.Media, forma format.Format, u *unit.Unit) ([]int64, error) {
	conn := &capConn{}
	rd := &stream.Reader{Parent: nilLogger{}}
	if err := rtmp.FromStream(desc, desc, rd, conn, fakeNet{}, 10*time.Second, rtmpFourCCs); err != nil {
		return nil, err
	}
	conn.msgs = nil // track announcements
	cb := callback(rd, medi, forma, "rtmp.FromStream")
	if err := cb(u); err != nil {
		return nil, err
	}
	var got []int64
	for _, m := range conn.msgs {
		d, ok := rtmpDTS(m)
		if !ok {
			return nil, fmt.Errorf("unexpected RTMP message %T for an audio unit", m)
		}
		got = append(got, d)
	}
	return got, nil
}

func runRTMPAC3(c siteCase) ([]obs, error) {
	forma := &format.AC3{PayloadTyp: 96, SampleRate: c.rate, ChannelCount: 2}
	medi, desc := oneMedia(forma)
	got, err := runRTMP(desc, medi, forma, &unit.Unit{PTS: c.base, NTP: ntpBase, Payload: ac3Payload(c.k)})
	if err != nil {
		return nil, err
	}
	return evenObs("dts-ns", c, ac3Samples, int64(c.rate), nsPerSecond, got, 0, 0, "trunc((pts + i*1536) * 10^9 / rate)"), nil
}

func runRTMPAAC(c siteCase) ([]obs, error) {
	forma := aacFormat(c.rate)
	medi, desc := oneMedia(forma)
	got, err := runRTMP(desc, medi, forma, &unit.Unit{PTS: c.base, NTP: ntpBase, Payload: aacPayload(c.k)})
	if err != nil {
		return nil, err
	}
	return evenObs("dts-ns", c, aacSamples, int64(c.rate), nsPerSecond, got, 0, 0, "trunc((pts + i*1024) * 10^9 / rate)"), nil
}

func runRTMPOpus(c siteCase) ([]obs, error) {
	forma := &format.Opus{PayloadTyp: 96, ChannelCount: 2}
	medi, desc := oneMedia(forma)
	pk, off := opusPackets(c.k, c.variant)
	got, err := runRTMP(desc, medi, forma, &unit.Unit{PTS: c.base, NTP: ntpBase, Payload: unit.PayloadOpus(pk)})
	if err != nil {
		return nil, err
	}
	return offsetObs("dts-ns", c, off, 48000, nsPerSecond, got, "trunc((pts + samples of the packets before i) * 10^9 / 48000)"), nil
}

func runRTMPMP3(c siteCase) ([]obs, error) {
	// a second audio track, so that the MPEG-1 audio track is written as an enhanced-RTMP multitrack message
	// (the legacy message only exists for 44100 Hz)
	first := aacFormat(44100)
	forma := &format.MPEG1Audio{}
	m0 := &description.Media{Type: description.MediaTypeAudio, Formats: []format.Format{first}}
	m1 := &description.Media{Type: description.MediaTypeAudio, Formats: []format.Format{forma}}
	desc := &description.Session{Medias: []*description.Media{m0, m1}}
	payload, spf := mp3Payload(c.k, c.rate)
	got, err := runRTMP(desc, m1, forma, &unit.Unit{PTS: c.base, NTP: ntpBase, Payload: payload})
	if err != nil {
		return nil, err
	}
	var res []obs
	for i := 0; i < min(len(got), c.k); i++ {
		res = append(res, obs{name: "dts-ns", piece: i, got: got[i],
			want:    []int64{conv(c.base+mp3Ticks(i, spf, c.rate), nsPerSecond, tsClock)},
			hoisted: conv(c.base, nsPerSecond, tsClock) + int64(i)*conv(conv(spf, tsClock, int64(c.rate)), nsPerSecond, tsClock), hasHoist: true,
			formula: "trunc((pts + trunc(i*1152*90000/sampleRate)) * 10^9 / 90000)"})
	}
	if len(got) != c.k {
		res = append(res, obs{name: "piece-count", piece: -1, got: int64(len(got)), want: []int64{int64(c.k)}, formula: "one message per frame"})
	}
	return res, nil
}

// ---- MoQ (pieces keep the clock of the format: out rate = in rate) ----

func runMoQ(forma format.Format, u *unit.Unit) ([]int64, error) {
	medi, desc := oneMedia(forma)
	_, setups, err := moq.FromStream(desc)
	if err != nil {
		return nil, err
	}
	if len(setups) != 1 {
		return nil, fmt.Errorf("%d MoQ tracks for one format", len(setups))
	}
	rd := &stream.Reader{Parent: nilLogger{}}
	var got []int64
	setups[0](rd, func(_ []byte, pts int64) error {
		got = append(got, pts)
		return nil
	})
	cb := callback(rd, medi, forma, "moq.FromStream")
	if err := cb(u); err != nil {
		return nil, err
	}
	return got, nil
}

func runMoQAAC(c siteCase) ([]obs, error) {
	got, err := runMoQ(aacFormat(c.rate), &unit.Unit{PTS: c.base, NTP: ntpBase, Payload: aacPayload(c.k)})
	if err != nil {
		return nil, err
	}
	return evenObs("timestamp", c, aacSamples, int64(c.rate), int64(c.rate), got, 0, 0, "pts + i*1024 (object timestamps run on the clock of the track)"), nil
}

func runMoQOpus(c siteCase) ([]obs, error) {
	pk, off := opusPackets(c.k, c.variant)
	got, err := runMoQ(&format.Opus{PayloadTyp: 96, ChannelCount: 2}, &unit.Unit{PTS: c.base, NTP: ntpBase, Payload: unit.PayloadOpus(pk)})
	if err != nil {
		return nil, err
	}
	return offsetObs("timestamp", c, off, 48000, 48000, got, "pts + samples of the packets before i (object timestamps run on the 48 kHz clock of the track)"), nil
}

// ---- WebRTC (audio half of FromStream): per packet RTP time (same clock) and absolute time (ns) ----

type rtcCase struct {
	forma   format.Format
	u       *unit.Unit
	off     []int64 // sample offset of packet i from the first one
	rate    int64
	rewrite bool // the branch recomputes the RTP time of the packets
}

func runWebRTC(c siteCase, x rtcCase) ([]obs, error) {
	medi, desc := oneMedia(x.forma)
	rd := &stream.Reader{Parent: nilLogger{}}
	track, err := webrtc.VerifC24SetupAudioTrack(desc, rd)
	if err != nil {
		return nil, err
	}
	if track == nil {
		return nil, fmt.Errorf("no audio track for %T", x.forma)
	}
	if err = webrtc.VerifC24ProbeTrack(track); err != nil {
		return nil, err
	}
	defer webrtc.VerifC24CloseTrack(track)
	cb := callback(rd, medi, x.forma, "webrtc.setupAudioTrack")
	if err = cb(x.u); err != nil {
		return nil, err
	}
	lastRTP, lastNTP, sent, ok := webrtc.VerifC24TrackLast(track)
	k := len(x.off)
	var res []obs
	if !ok || int(sent) != k {
		return append(res, obs{name: "piece-count", piece: -1, got: int64(sent), want: []int64{int64(k)}, formula: "one packet per piece"}), nil
	}
	last := k - 1
	h := int64(0)
	for j := 1; j <= last; j++ {
		h += conv(x.off[j]-x.off[j-1], nsPerSecond, x.rate)
	}
	res = append(res, obs{name: "rtp", piece: last, got: int64(lastRTP), want: []int64{(c.base + x.off[last]) % rtpMod}, mod: rtpMod,
		formula: "RTP time of the first packet + samples of the packets before i, mod 2^32"})
	res = append(res, obs{name: "ntp", piece: last, got: int64(lastNTP.Sub(ntpBase)), want: []int64{conv(x.off[last], nsPerSecond, x.rate)},
		hoisted: h, hasHoist: true, formula: "unit NTP + trunc(samples of the packets before i * 10^9 / rate)"})
	return res, nil
}

func rtpPkt(ts int64, seq int, payload []byte) *rtp.Packet {
	return &rtp.Packet{Header: rtp.Header{Version: 2, PayloadType: 96, SequenceNumber: uint16(seq), Timestamp: uint32(ts), SSRC: 1}, Payload: payload}
}

func runWebRTCOpus(c siteCase) ([]obs, error) {
	pk, off := opusPackets(c.k, c.variant)
	u := &unit.Unit{PTS: c.base, NTP: ntpBase, Payload: unit.PayloadOpus(pk)}
	for i, p := range pk {
		u.RTPPackets = append(u.RTPPackets, rtpPkt(c.base+77*int64(i), i, p)) // inbound times are recomputed by the branch
	}
	return runWebRTC(c, rtcCase{forma: &format.Opus{PayloadTyp: 96, ChannelCount: 2}, u: u, off: off, rate: 48000})
}

func runWebRTCG722(c siteCase) ([]obs, error) {
	off := evenOff(c.k, 160)
	u := &unit.Unit{PTS: c.base, NTP: ntpBase, Payload: unit.PayloadG711(make([]byte, 160))}
	for i := range off {
		u.RTPPackets = append(u.RTPPackets, rtpPkt(c.base+off[i], i, make([]byte, 160)))
	}
	return runWebRTC(c, rtcCase{forma: &format.G722{}, u: u, off: off, rate: 8000})
}

func runWebRTCG711(c siteCase) ([]obs, error) {
	ch := c.variant + 1
	forma := &format.G711{PayloadTyp: 96, MULaw: c.variant == 0, SampleRate: 8000, ChannelCount: ch}
	if ch == 1 {
		forma.PayloadTyp = 0
	}
	sizes := []int64{160, 80, 240, 160, 33, 160} // samples per packet
	off := make([]int64, c.k)
	u := &unit.Unit{PTS: c.base, NTP: ntpBase, Payload: unit.PayloadG711(make([]byte, 160*ch))}
	acc := int64(0)
	for i := range off {
		off[i] = acc
		u.RTPPackets = append(u.RTPPackets, rtpPkt(c.base+5*int64(i), i, make([]byte, int(sizes[i])*ch)))
		acc += sizes[i]
	}
	return runWebRTC(c, rtcCase{forma: forma, u: u, off: off, rate: 8000})
}

// lpcmSplit asks the dependency's packetizer (same parameters as the branch) how a payload is cut into packets.
func lpcmSplit(lpcm []byte, ch int) ([]int64, error) {
	enc := &rtplpcm.Encoder{PayloadType: 96, PayloadMaxSize: webrtc.VerifC24PayloadMaxSize, BitDepth: 16, ChannelCount: ch}
	if err := enc.Init(); err != nil {
		return nil, err
	}
	pkts, err := enc.Encode(lpcm)
	if err != nil {
		return nil, err
	}
	off := make([]int64, len(pkts))
	acc := int64(0)
	for i, p := range pkts {
		off[i] = acc
		acc += int64(len(p.Payload) / 2 / ch)
	}
	return off, nil
}

// lpcmSamples: a sample count that the packetizer cuts into exactly k packets (the last one short).
func lpcmSamples(k, ch int) int {
	perPkt := webrtc.VerifC24PayloadMaxSize / (2 * ch)
	return (k-1)*perPkt + 37
}

func runWebRTCG711L16(c siteCase) ([]obs, error) {
	ch := c.variant + 1
	forma := &format.G711{PayloadTyp: 96, MULaw: c.variant == 0, SampleRate: c.rate, ChannelCount: ch}
	n := lpcmSamples(c.k, ch)
	off, err := lpcmSplit(make([]byte, n*ch*2), ch)
	if err != nil || len(off) != c.k {
		vcommon.Harness("C24: rtplpcm cut %d samples into %d packets, wanted %d (%v)", n, len(off), c.k, err)
	}
	u := &unit.Unit{PTS: c.base, NTP: ntpBase, Payload: unit.PayloadG711(make([]byte, n*ch)),
		RTPPackets: []*rtp.Packet{rtpPkt(c.base, 0, make([]byte, 10))}}
	return runWebRTC(c, rtcCase{forma: forma, u: u, off: off, rate: int64(c.rate)})
}

func runWebRTCLPCM(c siteCase) ([]obs, error) {
	ch := c.variant + 1
	forma := &format.LPCM{PayloadTyp: 96, BitDepth: 16, SampleRate: c.rate, ChannelCount: ch}
	n := lpcmSamples(c.k, ch)
	off, err := lpcmSplit(make([]byte, n*ch*2), ch)
	if err != nil || len(off) != c.k {
		vcommon.Harness("C24: rtplpcm cut %d samples into %d packets, wanted %d (%v)", n, len(off), c.k, err)
	}
	u := &unit.Unit{PTS: c.base, NTP: ntpBase, Payload: unit.PayloadLPCM(make([]byte, n*ch*2)),
		RTPPackets: []*rtp.Packet{rtpPkt(c.base, 0, make([]byte, 10))}}
	return runWebRTC(c, rtcCase{forma: forma, u: u, off: off, rate: int64(c.rate)})
}

// ---- MPEG-TS -> stream: LATM elements of one PES packet ----

func latmElement(cfg *mpeg4audio.StreamMuxConfig) ([]byte, error) {
	el := mpeg4audio.AudioMuxElement{MuxConfigPresent: true, StreamMuxConfig: cfg, UseSameStreamMux: false,
		Payloads: [][][][]byte{{{{0x21, 0x10, 0x04, 0x60, 0x8c, 0x1c}}}}}
	return el.Marshal()
}

func runMpegtsToStreamLATM(c siteCase) ([]obs, error) {
	cfg := &mpeg4audio.StreamMuxConfig{Programs: []*mpeg4audio.StreamMuxConfigProgram{{Layers: []*mpeg4audio.StreamMuxConfigLayer{{
		AudioSpecificConfig: &mpeg4audio.AudioSpecificConfig{Type: mpeg4audio.ObjectTypeAACLC, SampleRate: c.rate, ChannelConfig: 2, ChannelCount: 2},
		LatmBufferFullness:  255,
	}}}}}
	el, err := latmElement(cfg)
	if err != nil {
		vcommon.Harness("C24: LATM element for %d Hz: %v", c.rate, err)
	}
	els := func(n int) [][]byte {
		o := make([][]byte, n)
		for i := range o {
			o[i] = el
		}
		return o
	}
	// three PES packets: the first fixes the origin of the decoded time (ToStream counts from the first timestamp),
	// the second is the judged one (k elements, `base` ticks later), the third releases it from the demuxer.
	const origin = int64(900000)
	var ts bytes.Buffer
	track := &mcmpegts.Track{Codec: &tscodecs.MPEG4AudioLATM{}}
	mw := &mcmpegts.Writer{W: &ts, Tracks: []*mcmpegts.Track{track}}
	if err = mw.Initialize(); err != nil {
		vcommon.Harness("C24: MPEG-TS writer: %v", err)
	}
	for _, p := range []struct {
		pts int64
		n   int
	}{{origin, 1}, {origin + c.base, c.k}, {origin + c.base + 90000, 1}} {
		if err = mw.WriteMPEG4AudioLATM(track, p.pts, els(p.n)); err != nil {
			vcommon.Harness("C24: MPEG-TS writer: %v", err)
		}
	}

	er := &mpegts.EnhancedReader{R: bytes.NewReader(ts.Bytes())}
	if err = er.Initialize(); err != nil {
		return nil, err
	}
	var sub *stream.SubStream
	medias, err := mpegts.ToStream(er, &sub, nilLogger{})
	if err != nil {
		return nil, err
	}
	if len(medias) != 1 || len(medias[0].Formats) != 1 {
		return nil, fmt.Errorf("ToStream: %d medias", len(medias))
	}
	if medias[0].Formats[0].ClockRate() != c.rate {
		return nil, fmt.Errorf("ToStream: clock rate %d for a %d Hz LATM track", medias[0].Formats[0].ClockRate(), c.rate)
	}
	strm := &stream.Stream{OrigDesc: &description.Session{Medias: medias}, WriteQueueSize: 64, RTPMaxPayloadSize: 1450, Parent: nilLogger{}}
	if err = strm.Initialize(); err != nil {
		return nil, err
	}
	defer strm.Close()
	sub = &stream.SubStream{Stream: strm, UseRTPPackets: false}
	if err = sub.Initialize(); err != nil {
		return nil, err
	}
	ch := make(chan int64, 64)
	rd := &stream.Reader{Parent: nilLogger{}}
	rd.OnData(medias[0], medias[0].Formats[0], func(u *unit.Unit) error {
		ch <- u.PTS
		return nil
	})
	strm.AddReader(rd)
	defer strm.RemoveReader(rd)
	for er.Read() == nil {
	}
	if n := strm.InboundFramesInError(); n != 0 {
		return nil, fmt.Errorf("the stream counted %d units of the LATM track as erroneous", n)
	}
	var all []int64
	for len(all) < c.k+2 {
		select {
		case p := <-ch:
			all = append(all, p)
		case <-time.After(20 * time.Second):
			vcommon.Harness("C24: mpegts.ToStream delivered %d of %d LATM units within 20 s", len(all), c.k+2)
		}
	}
	var res []obs
	res = append(res, obs{name: "pts", piece: -1, got: all[0], want: []int64{0}, formula: "the first PES packet is the origin"})
	rate := int64(c.rate)
	for i := 0; i < c.k; i++ {
		res = append(res, obs{name: "pts", piece: i, got: all[1+i], want: []int64{conv(c.base, rate, tsClock) + int64(i)*aacSamples},
			// the shortcut on this side: add the 1024 samples BEFORE the conversion, on the 90 kHz clock
			hoisted: conv(c.base+int64(i)*conv(aacSamples, tsClock, rate), rate, tsClock), hasHoist: true,
			formula: "trunc(pts90k * rate / 90000) + i*1024"})
	}
	return res, nil
}

// ---- the table ----

var (
	aacRates  = allRates
	ac3Bases  = basesFor(ac3Samples, true)
	aacBases  = basesFor(aacSamples, true)
	opusBases = basesFor(960, true)
	// distance (90 kHz ticks) of the judged PES packet from the first one; the decoder of 33-bit MPEG-TS timestamps
	// reads a step of 2^32 or more as a step backwards, so "large" is 11 h here
	latmBases = func(int) []int64 { return []int64{0, 7, 1919, 90001, 90000*40000 + 12345, -90007} }
	// inbound RTP time of the first packet of a unit: 0, small, odd, one second + 1, large, next to the 32-bit wrap
	rtpBases = func(rate int) []int64 {
		return []int64{0, 7, 959, int64(rate) + 1, int64(rate)*72000 + 12345, 1<<32 - 200}
	}
)

var sites = []site{
	{id: "mpegts.FromStream/AC3", file: "internal/protocols/mpegts/from_stream.go", rates: allRates, bases: ac3Bases, run: runMpegtsFromStreamAC3,
		what: "AC-3 frames of one unit -> PES packets, sample-rate clock -> 90 kHz"},
	{id: "recorder.formatMPEGTS/AC3", file: "internal/recorder/format_mpegts.go", rates: allRates, bases: ac3Bases, run: runRecorderMPEGTSAC3,
		what: "AC-3 frames of one unit -> PES packets of the recorded segment, sample-rate clock -> 90 kHz"},
	{id: "rtmp.FromStream/AC3", file: "internal/protocols/rtmp/from_stream.go", rates: allRates, bases: ac3Bases, run: runRTMPAC3,
		what: "AC-3 frames of one unit -> RTMP messages, sample-rate clock -> ns"},
	{id: "rtmp.FromStream/MPEG4Audio", file: "internal/protocols/rtmp/from_stream.go", rates: aacRates, bases: aacBases, run: runRTMPAAC,
		what: "access units of one unit -> RTMP messages, sample-rate clock -> ns"},
	{id: "rtmp.FromStream/Opus", file: "internal/protocols/rtmp/from_stream.go", rates: []int{48000}, variants: 3, bases: opusBases, run: runRTMPOpus,
		what: "Opus packets of one unit -> RTMP messages, 48 kHz -> ns"},
	{id: "rtmp.FromStream/MPEG1Audio", file: "internal/protocols/rtmp/from_stream.go", rates: []int{32000, 44100, 48000}, bases: basesFor(2351, true), run: runRTMPMP3,
		what: "MPEG-1 layer III frames of one unit -> RTMP messages, samples -> 90 kHz -> ns"},
	{id: "recorder.formatFMP4/AC3", file: "internal/recorder/format_fmp4.go", rates: allRates, bases: ac3Bases, run: runRecorderFMP4AC3,
		what: "AC-3 frames of one unit -> fMP4 samples (dts in the sample-rate clock, absolute time in ns)"},
	{id: "recorder.formatFMP4/MPEG4Audio", file: "internal/recorder/format_fmp4.go", rates: aacRates, bases: aacBases, run: runRecorderFMP4AAC,
		what: "access units of one unit -> fMP4 samples (dts in the sample-rate clock, absolute time in ns)"},
	{id: "recorder.formatFMP4/Opus", file: "internal/recorder/format_fmp4.go", rates: []int{48000}, variants: 3, bases: opusBases, run: runRecorderFMP4Opus,
		what: "Opus packets of one unit -> fMP4 samples (dts at 48 kHz, absolute time in ns)"},
	{id: "recorder.formatFMP4/MPEG1Audio", file: "internal/recorder/format_fmp4.go", rates: []int{16000, 22050, 24000, 32000, 44100, 48000}, bases: basesFor(2351, true), run: runRecorderFMP4MP3,
		what: "MPEG-1/2 layer III frames of one unit -> fMP4 samples (samples -> 90 kHz dts, absolute time in ns)"},
	{id: "moq.FromStream/MPEG4Audio", file: "internal/protocols/moq/from_stream.go", rates: aacRates, bases: aacBases, run: runMoQAAC,
		what: "access units of one unit -> MoQ objects (timestamp property on the sample-rate clock)"},
	{id: "moq.FromStream/Opus", file: "internal/protocols/moq/from_stream.go", rates: []int{48000}, variants: 3, bases: opusBases, run: runMoQOpus,
		what: "Opus packets of one unit -> MoQ objects (timestamp property at 48 kHz)"},
	{id: "webrtc.setupAudioTrack/Opus", file: "internal/protocols/webrtc/from_stream.go", rates: []int{48000}, variants: 3, bases: rtpBases, run: runWebRTCOpus,
		what: "Opus packets of one unit -> RTP time (48 kHz) and absolute time (ns) of each packet"},
	{id: "webrtc.setupAudioTrack/G722", file: "internal/protocols/webrtc/from_stream.go", rates: []int{8000}, bases: rtpBases, run: runWebRTCG722,
		what: "G.722 packets of one unit -> absolute time (ns) of each packet"},
	{id: "webrtc.setupAudioTrack/G711", file: "internal/protocols/webrtc/from_stream.go", rates: []int{8000}, variants: 2, bases: rtpBases, run: runWebRTCG711,
		what: "8 kHz G.711 packets of one unit -> RTP time and absolute time (ns) of each packet"},
	{id: "webrtc.setupAudioTrack/G711-as-L16", file: "internal/protocols/webrtc/from_stream.go", rates: []int{16000, 32000, 48000}, variants: 2, bases: rtpBases, run: runWebRTCG711L16,
		what: "G.711 sample block above 8 kHz -> L16 packets, RTP time and absolute time (ns) of each packet"},
	{id: "webrtc.setupAudioTrack/LPCM", file: "internal/protocols/webrtc/from_stream.go", rates: []int{8000, 16000, 32000, 48000}, variants: 2, bases: rtpBases, run: runWebRTCLPCM,
		what: "LPCM sample block -> L16 packets, RTP time and absolute time (ns) of each packet"},
	{id: "mpegts.ToStream/MPEG4AudioLATM", file: "internal/protocols/mpegts/to_stream.go", rates: aacRates, bases: latmBases, run: runMpegtsToStreamLATM,
		what: "LATM elements of one PES packet -> units, 90 kHz -> sample-rate clock"},
}
