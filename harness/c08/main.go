// C08: configuration survives encode/decode round trips.
//
// Engine B. Valid configurations are built the way an API client builds them (default configuration +
// PatchGlobal / PatchPathDefaults / AddPath of a JSON document decoded by the real jsonwrapper) for every
// field of conf.Conf and conf.Path x the type-directed text alphabet of conflib (single-field deviations;
// thorough: all pairs of fields of one struct over a reduced alphabet). On every configuration that the real
// Validate accepts, each Control API configuration resource is read (json.Marshal of what the GET handler
// returns) and written back the way the API does (jsonwrapper.Decode into Optional*, Clone, Patch*/ReplacePath,
// Validate); the result must be accepted and equal to the original.
package main

import (
	"bytes"
	"encoding/json"
	"fmt"
	"reflect"
	"sort"
	"sync"

	"github.com/bluenviron/mediamtx/internal/conf"
	"github.com/bluenviron/mediamtx/internal/conf/jsonwrapper"
	"github.com/bluenviron/mediamtx/internal/zzverif/conflib"
	"github.com/bluenviron/mediamtx/internal/zzverif/vcommon"
)

// an edit: where a field is set, as an API client would.
type edit struct {
	level string // "global" | "pathDefaults" | "path"
	key   string
	val   *conflib.Node
}

type tcase struct {
	edits    []edit
	pathName string
}

func (c tcase) label() string {
	s := ""
	for i, e := range c.edits {
		if i > 0 {
			s += " & "
		}
		s += e.level + "." + e.key + "=" + e.val.Label()
	}
	if c.pathName != "p" {
		s += " [path " + c.pathName + "]"
	}
	return s
}

func (c tcase) replay() map[string]any {
	var es []map[string]string
	for _, e := range c.edits {
		es = append(es, map[string]string{"level": e.level, "key": e.key, "json": e.val.JSON()})
	}
	return map[string]any{"edits": es, "path": c.pathName}
}

func decodeInto(doc string, dest any) error {
	return jsonwrapper.Decode(bytes.NewReader([]byte(doc)), dest)
}

// build constructs the configuration of a case from scratch. ok=false: not a valid configuration.
func build(c tcase) (*conf.Conf, string) {
	// the default configuration, loaded once by the real conf.Load; every case starts from a copy of it
	// (the default configuration has no paths, lists and maps only: Clone is sufficient here)
	cf := pristine.Clone()
	var err error
	pathDoc := conflib.M()
	for _, e := range c.edits {
		switch e.level {
		case "global":
			var og conf.OptionalGlobal
			if err = decodeInto(conflib.M(e.key, e.val).JSON(), &og); err != nil {
				return nil, "decode: " + err.Error()
			}
			cf.PatchGlobal(&og)
		case "pathDefaults":
			var op conf.OptionalPath
			if err = decodeInto(conflib.M(e.key, e.val).JSON(), &op); err != nil {
				return nil, "decode: " + err.Error()
			}
			cf.PatchPathDefaults(&op)
		case "path":
			pathDoc = pathDoc.With(e.key, e.val)
		}
	}
	var op conf.OptionalPath
	if err = decodeInto(pathDoc.JSON(), &op); err != nil {
		return nil, "decode: " + err.Error()
	}
	if err = cf.AddPath(c.pathName, &op); err != nil {
		return nil, "addpath: " + err.Error()
	}
	if err = cf.Validate(nil); err != nil {
		return nil, "validate: " + err.Error()
	}
	return cf, ""
}

// view is what equality is judged on: every global parameter, the path defaults and the effective paths.
// (OptionalPaths - which parameters of a path are explicit - necessarily changes when a whole effective path is
// written back, and is not part of "an equal configuration".)
func view(c *conf.Conf) reflect.Value {
	cp := *c
	cp.OptionalPaths = nil
	return reflect.ValueOf(cp)
}

type writeback struct {
	name string
	get  func(c *conf.Conf, pathName string) any
	put  func(c *conf.Conf, pathName string, body []byte) error
}

var writebacks = []writeback{
	{
		"global",
		func(c *conf.Conf, _ string) any { return c.Global() },
		func(c *conf.Conf, _ string, body []byte) error {
			var in conf.OptionalGlobal
			if err := jsonwrapper.Decode(bytes.NewReader(body), &in); err != nil {
				return err
			}
			c.PatchGlobal(&in)
			return nil
		},
	},
	{
		"pathdefaults",
		func(c *conf.Conf, _ string) any { return c.PathDefaults },
		func(c *conf.Conf, _ string, body []byte) error {
			var in conf.OptionalPath
			if err := jsonwrapper.Decode(bytes.NewReader(body), &in); err != nil {
				return err
			}
			c.PatchPathDefaults(&in)
			return nil
		},
	},
	{
		"path-replace",
		func(c *conf.Conf, n string) any { return c.Paths[n] },
		func(c *conf.Conf, n string, body []byte) error {
			var in conf.OptionalPath
			if err := jsonwrapper.Decode(bytes.NewReader(body), &in); err != nil {
				return err
			}
			return c.ReplacePath(n, &in)
		},
	},
	{
		"path-patch",
		func(c *conf.Conf, n string) any { return c.Paths[n] },
		func(c *conf.Conf, n string, body []byte) error {
			var in conf.OptionalPath
			if err := jsonwrapper.Decode(bytes.NewReader(body), &in); err != nil {
				return err
			}
			return c.PatchPath(n, &in)
		},
	},
}

type stats struct {
	mu       sync.Mutex
	valid    int
	invalid  int
	byReason map[string]int
	byType   map[string]int
}

func typeName(t reflect.Type) string {
	p := ""
	for t.Kind() == reflect.Pointer {
		t = t.Elem()
		p = "*"
	}
	if t.Name() != "" {
		return p + t.Name()
	}
	return p + t.String()
}

var pristine *conf.Conf

func main() {
	r := vcommon.Start("C08", "exploration")
	conflib.ClearConfEnv()
	var err error
	pristine, _, err = conf.Load("", nil, nil)
	if err != nil {
		vcommon.Harness("default configuration does not load: %v", err)
	}
	if again, _, _ := conf.Load("", nil, nil); again == nil || conflib.Fingerprint(again, true) != conflib.Fingerprint(pristine.Clone(), true) {
		vcommon.Harness("a copy of the default configuration differs from a freshly loaded one")
	}
	thorough := r.Thorough()

	var cases []tcase
	fieldType := map[string]reflect.Type{}
	single := func(level string, fs []conflib.Field, pathName string) {
		for _, f := range fs {
			fieldType[level+"."+f.Key] = f.Type
			for _, v := range conflib.FieldAlphabet(f, thorough) {
				cases = append(cases, tcase{edits: []edit{{level, f.Key, v}}, pathName: pathName})
			}
		}
	}
	single("global", conflib.GlobalFields(), "p")
	single("pathDefaults", conflib.PathFields(), "p")
	single("path", conflib.PathFields(), "p")
	nSingle := len(cases)
	if thorough {
		// regular-expression path and the catch-all path (static sources need sourceOnDemand there: paired below)
		for _, pn := range []string{"~^r(.*)$", "all_others"} {
			for _, f := range conflib.PathFields() {
				for _, v := range conflib.FieldAlphabet(f, false) {
					cases = append(cases, tcase{edits: []edit{{"path", f.Key, v}}, pathName: pn})
					if f.Key == "source" {
						cases = append(cases, tcase{edits: []edit{{"path", f.Key, v}, {"path", "sourceOnDemand", conflib.L("true")}}, pathName: pn})
					}
				}
			}
		}
		// all pairs of fields within one struct, reduced alphabet (first 3 values of each field's quick alphabet)
		pairs := func(level string, fs []conflib.Field) {
			red := make([][]*conflib.Node, len(fs))
			for i, f := range fs {
				a := conflib.FieldAlphabet(f, false)
				if len(a) > 3 {
					a = a[:3]
				}
				red[i] = a
			}
			for i := range fs {
				for j := i + 1; j < len(fs); j++ {
					for _, vi := range red[i] {
						for _, vj := range red[j] {
							cases = append(cases, tcase{edits: []edit{{level, fs[i].Key, vi}, {level, fs[j].Key, vj}}, pathName: "p"})
						}
					}
				}
			}
		}
		pairs("global", conflib.GlobalFields())
		pairs("path", conflib.PathFields())
		// a path-level value against a different path default of the same field and of every other field is covered
		// by the two levels being merged in newPath; pair the same field across levels
		for _, f := range conflib.PathFields() {
			a := conflib.FieldAlphabet(f, false)
			if len(a) > 4 {
				a = a[:4]
			}
			for _, v1 := range a {
				for _, v2 := range a {
					cases = append(cases, tcase{edits: []edit{{"pathDefaults", f.Key, v1}, {"path", f.Key, v2}}, pathName: "p"})
				}
			}
		}
	}

	r.Rule = "cases = (level in global|pathDefaults|path) x field (by reflection over conf.Conf / conf.Path) x conflib.FieldAlphabet value" +
		" [thorough: + regexp/all_others path names, + all field pairs of one struct over the first 3 values, + same field at both levels];" +
		" a case counts when the real Validate accepts the configuration; for each such configuration 4 write-backs" +
		" (global patch, pathdefaults patch, path replace, path patch) are evaluated;" +
		" distinct = (level, field(s), value(s)) of accepted configurations"

	st := &stats{byReason: map[string]int{}, byType: map[string]int{}}

	vcommon.Parallel(len(cases), func(i int) {
		c := cases[i]
		var orig, ref *conf.Conf
		var why string
		if p, _ := vcommon.Recover(func() { orig, why = build(c) }); p != nil {
			r.Violation("panic:build", fmt.Sprintf("%s: panic while building: %v", c.label(), p), c.replay())
			return
		}
		if orig == nil {
			st.mu.Lock()
			st.invalid++
			st.byReason[conflib.Slug(why, 5)]++
			st.mu.Unlock()
			r.Eval(1)
			return
		}
		ref, _ = build(c) // independent second construction: the reference the result is compared with
		if ref == nil {
			vcommon.Harness("construction of %s is not deterministic", c.label())
		}
		if p, _ := conflib.Diff(view(orig), view(ref)); p != "" {
			vcommon.Harness("construction of %s is not deterministic at %s", c.label(), p)
		}
		st.mu.Lock()
		st.valid++
		for _, e := range c.edits {
			st.byType[typeName(fieldType[e.level+"."+e.key])]++
		}
		st.mu.Unlock()
		r.Distinct(c.label())
		if i%97 == 0 {
			r.Sample(map[string]any{"case": c.label()})
		}

		for _, wb := range writebacks {
			r.Eval(1)
			rep := c.replay()
			rep["writeback"] = wb.name
			body, err := json.Marshal(wb.get(orig, c.pathName))
			if err != nil {
				r.Violation("encode-error:"+wb.name+":"+conflib.Slug(err.Error(), 6),
					fmt.Sprintf("%s: %s cannot be encoded: %v", c.label(), wb.name, err), rep)
				continue
			}
			rep["body"] = vcommon.Short(string(body), 4000)
			var res *conf.Conf
			var werr error
			p, stack := vcommon.Recover(func() {
				res = orig.Clone()
				werr = wb.put(res, c.pathName, body)
				if werr == nil {
					werr = res.Validate(nil)
				}
			})
			if p != nil {
				r.Violation("panic:writeback:"+wb.name, fmt.Sprintf("%s: panic during %s write-back: %v\n%s", c.label(), wb.name, p, stack), rep)
				continue
			}
			if werr != nil {
				r.Violation("writeback-rejected:"+conflib.Slug(werr.Error(), 7),
					fmt.Sprintf("%s: what %s GET returned is rejected when written back: %v", c.label(), wb.name, werr), rep)
				continue
			}
			if dp, leaf := conflib.Diff(view(ref), view(res)); dp != "" {
				key := "lossy:" + leaf
				if leaf == "" || leaf == "Conf" || leaf == "Path" {
					key = "lossy:" + conflib.StripIndices(dp)
				}
				a, b := valueAt(view(ref), view(res), dp)
				r.Violation(key, fmt.Sprintf("%s: after %s write-back %s differs: was %s, becomes %s", c.label(), wb.name, dp, a, b), rep)
				continue
			}
			// consequence of equality: reading again gives the same bytes
			body2, err := json.Marshal(wb.get(res, c.pathName))
			if err != nil || !bytes.Equal(body, body2) {
				r.Violation("reread-differs:"+wb.name, fmt.Sprintf("%s: second read of %s differs from the first", c.label(), wb.name), rep)
			}
		}
	})

	r.Set("cases", len(cases))
	r.Set("single_field_cases", nSingle)
	r.Set("valid_configurations", st.valid)
	r.Set("not_valid_skipped", st.invalid)
	r.Set("skip_reasons", topN(st.byReason, 12))
	r.Set("valid_by_field_type", st.byType)
	if st.valid < 100 {
		vcommon.Harness("vacuous: only %d valid configurations", st.valid)
	}
	r.Exhaustive = true
	r.Assumptions = []string{
		"configurations are default + 1 (thorough: 2) edited parameters + one path; value alphabets as listed in harness/conflib/alphabet.go",
		"credentials are round-tripped without the API's <redacted> substitution (that substitution is C07's subject)",
		"equality: every global parameter, pathDefaults and every effective path (conf.Paths); nil and empty lists are equal; OptionalPaths (which parameters are explicit) is not compared",
		"non-finite floats (reachable through the environment only) cannot be encoded as JSON and are outside the alphabet",
	}
	r.Finish()
}

// valueAt renders both sides near the differing path (best effort: fingerprints of the top-level field).
func valueAt(a, b reflect.Value, path string) (string, string) {
	// path looks like .Field... : take the first component
	name := ""
	for i := 1; i < len(path); i++ {
		if path[i] == '.' || path[i] == '[' || path[i] == '<' {
			name = path[1:i]
			break
		}
	}
	if name == "" && len(path) > 1 {
		name = path[1:]
	}
	fa, fb := a.FieldByName(name), b.FieldByName(name)
	if !fa.IsValid() {
		return "?", "?"
	}
	if name == "Paths" || name == "PathDefaults" {
		// too large: descend one more level if possible
		return vcommon.Short(diffLeaf(fa, fb), 300), ""
	}
	return vcommon.Short(conflib.FingerprintValue(fa, true), 200), vcommon.Short(conflib.FingerprintValue(fb, true), 200)
}

func diffLeaf(a, b reflect.Value) string {
	for a.Kind() == reflect.Pointer || a.Kind() == reflect.Interface {
		if a.IsNil() || b.IsNil() {
			return "nil-ness differs"
		}
		a, b = a.Elem(), b.Elem()
	}
	switch a.Kind() {
	case reflect.Map:
		for _, k := range a.MapKeys() {
			av, bv := a.MapIndex(k), b.MapIndex(k)
			if bv.IsValid() && conflib.FingerprintValue(av, true) != conflib.FingerprintValue(bv, true) {
				return diffLeaf(av, bv)
			}
		}
	case reflect.Struct:
		for i := 0; i < a.NumField(); i++ {
			fa, fb := conflib.FingerprintValue(a.Field(i), true), conflib.FingerprintValue(b.Field(i), true)
			if fa != fb {
				return fmt.Sprintf("%s: %s -> %s", a.Type().Field(i).Name, vcommon.Short(fa, 120), vcommon.Short(fb, 120))
			}
		}
	}
	return "?"
}

func topN(m map[string]int, n int) map[string]int {
	type kv struct {
		k string
		v int
	}
	var kvs []kv
	for k, v := range m {
		kvs = append(kvs, kv{k, v})
	}
	sort.Slice(kvs, func(i, j int) bool { return kvs[i].v > kvs[j].v || kvs[i].v == kvs[j].v && kvs[i].k < kvs[j].k })
	out := map[string]int{}
	for i, e := range kvs {
		if i >= n {
			break
		}
		out[e.k] = e.v
	}
	return out
}
