package main

import (
	"encoding/json"
	"fmt"
	"os"
	"runtime/pprof"
	"strings"
	"syscall"
	"time"
)

// bench times the phases of a Core life (diagnostic, not part of the check).
func bench() {
	dir, _ := os.MkdirTemp("", "verif-c12b-")
	defer os.RemoveAll(dir)
	_ = os.Chdir(dir)
	_ = os.MkdirAll(dir+"/exp", 0o755)
	w := &workerState{dir: dir, port: 24990, expMemo: map[string]*expected{}, names: pathNames}
	w.base = baseConf(w.port)
	cpu := func() time.Duration {
		var ru syscall.Rusage
		_ = syscall.Getrusage(syscall.RUSAGE_SELF, &ru)
		return time.Duration(ru.Utime.Nano() + ru.Stime.Nano())
	}
	{
		l, _ := w.start(bases()[0])
		l.barrier()
		pf, _ := os.Create("/tmp/c12-cpu.prof")
		_ = pprof.StartCPUProfile(pf)
		c0, t0 := cpu(), time.Now()
		for i := 0; i < 100; i++ {
			l.observe()
		}
		pprof.StopCPUProfile()
		pf.Close()
		fmt.Fprintf(os.Stderr, "100 observe: cpu %v wall %v\n", cpu()-c0, time.Since(t0))
		c0, t0 = cpu(), time.Now()
		for i := 0; i < 100; i++ {
			l.do("PATCH", "/v3/config/paths/patch/p1", `{"recordPath":"bad"}`)
			l.barrier()
		}
		fmt.Fprintf(os.Stderr, "100 rejected patch+barrier: cpu %v wall %v\n", cpu()-c0, time.Since(t0))
		c0, t0 = cpu(), time.Now()
		for i := 0; i < 100; i++ {
			snapOf(l.p.APIConfigSnapshot())
		}
		fmt.Fprintf(os.Stderr, "100 snapOf: cpu %v wall %v\n", cpu()-c0, time.Since(t0))
		c0, t0 = cpu(), time.Now()
		for i := 0; i < 20; i++ {
			w.expectUncached(initialModel())
		}
		fmt.Fprintf(os.Stderr, "20 expect: cpu %v wall %v\n", cpu()-c0, time.Since(t0))
		l.close()
		c0, t0 = cpu(), time.Now()
		for i := 0; i < 20; i++ {
			l, _ := w.start(bases()[0])
			l.barrier()
			l.close()
		}
		fmt.Fprintf(os.Stderr, "20 start+close: cpu %v wall %v\n", cpu()-c0, time.Since(t0))
		ents, _ := os.ReadDir("/proc/self/fd")
		n := 0
		for _, e := range ents {
			if t, err := os.Readlink("/proc/self/fd/" + e.Name()); err == nil && t == "anon_inode:inotify" {
				n++
			}
		}
		fmt.Fprintf(os.Stderr, "inotify fds open after all Cores were closed: cpu %d of %d fds\n", n, len(ents))
	}
	for i := 0; i < 1; i++ {
		t0 := time.Now()
		l, err := w.start(bases()[0])
		if err != nil {
			fmt.Println(err)
			return
		}
		t1 := time.Now()
		l.barrier()
		t2 := time.Now()
		o := l.observe()
		t3 := time.Now()
		st, _, _ := l.do("PATCH", "/v3/config/paths/patch/p1", `{"maxReaders":2}`)
		t4 := time.Now()
		l.barrier()
		t5 := time.Now()
		e := w.expectUncached(initialModel())
		t6 := time.Now()
		l.close()
		t7 := time.Now()
		fmt.Fprintf(os.Stderr, "start %v barrier %v observe %v patch(%d) %v barrier %v expect %v close %v (snap %d bytes, valid %v)\n",
			t1.Sub(t0), t2.Sub(t1), t3.Sub(t2), st, t4.Sub(t3), t5.Sub(t4), t6.Sub(t5), t7.Sub(t6), len(o.Snap), e.valid)
	}
}

// replay runs one history in this process and prints what happens (diagnostic, not part of the check).
func replay(js string) {
	var ops []Op
	if err := json.Unmarshal([]byte(js), &ops); err != nil {
		fmt.Println("bad history:", err)
		return
	}
	dir, _ := os.MkdirTemp("", "verif-c12r-")
	defer os.RemoveAll(dir)
	_ = os.Chdir(dir)
	_ = os.MkdirAll(dir+"/exp", 0o755)
	w := &workerState{dir: dir, port: 24991, expMemo: map[string]*expected{}}
	w.base = baseConf(w.port)
	b := bases()[0]
	for _, x := range bases() {
		if x.ID == *flagReplayBase {
			b = x
		}
	}
	w.names = b.names()
	fmt.Printf("REPLAY base %s\n%s\n", b.ID, b.fileContent(w.base))
	l, err := w.start(b)
	if err != nil {
		fmt.Println(err)
		return
	}
	fmt.Printf("REPLAY   list: %s\n", c12short(l.get("/v3/config/paths/list"), 150))
	showStored := func() {
		line := strings.SplitN(snapOf(l.p.APIConfigSnapshot()), "\n", 2)[0]
		if i := strings.Index(line, `"paths":`); i >= 0 {
			fmt.Printf("REPLAY   running configuration, optional paths as stored: %s\n", c12short(line[i:], 200))
		}
	}
	showStored()
	for _, op := range ops {
		m, p := op.Request()
		st, body, err := l.do(m, p, op.Payload)
		alive := l.barrier()
		fmt.Printf("REPLAY %v -> %d %s err=%v alive=%v\n", op, st, c12short(body, 200), err, alive)
		if op.Kind == "global" {
			l.tr.CloseIdleConnections()
		}
		if !alive {
			break
		}
		fmt.Printf("REPLAY   list: %s\n", c12short(l.get("/v3/config/paths/list"), 150))
		showStored()
	}
	l.close()
}
