// C12: API configuration edits are exact and atomic.
//
// Engine X: breadth-first explicit-state search over histories of Control API edits on a REAL core.Core
// (only the API listener enabled), driven over HTTP: JSON decoding, gin handlers, Core.doAPIConfig*,
// Conf.Patch*/AddPath/ReplacePath/RemovePath, Validate and reloadConf are all the real code.
// A state is the operation history that reaches it; a successor is "fresh Core, replay the history, apply
// one more edit"; states are merged when the canonical JSON of the running configuration
// (Core.APIConfigSnapshot, including the optional per-path values the read endpoints do not show) and the
// reference state are equal. The reference model (model.go) is three maps of JSON fields updated literally
// as the statement says; validity and the expected reads are obtained differentially by rendering the
// reference state to a file and loading it from scratch with conf.Load.
// The search has several roots: the historical base (the reference state rendered as JSON) and the base
// configurations of bases.go, YAML texts in the shapes a configuration file can have (paths declared with an
// empty body, {}, null, ...), loaded by the real Core; the latter are expanded first and followed to -basedepth.
package main

import (
	"encoding/json"
	"flag"
	"fmt"
	"os"
	"regexp"
	"sort"
	"strings"
	"time"

	"github.com/bluenviron/mediamtx/internal/zzverif/c12lib"
	"github.com/bluenviron/mediamtx/internal/zzverif/vcommon"
)

var (
	flagWorker     = flag.Int("worker", -1, "internal: run as worker i")
	flagWTmp       = flag.String("wtmp", "", "internal: worker temp dir")
	flagDepth      = flag.Int("depth", 0, "history depth (0 = tier default)")
	flagProcs      = flag.Int("procs", 0, "worker processes (0 = one per core, max 16)")
	flagReplay     = flag.String("replay-history", "", "debug: JSON array of ops to run in-process on one Core, printing every answer")
	flagBench      = flag.Bool("bench", false, "internal: time the phases of one Core life")
	flagBudget     = flag.Duration("budget", 0, "internal deadline (0 = tier default)")
	flagBaseDepth  = flag.Int("basedepth", 2, "history depth from the base configurations loaded from a YAML text")
	flagReplayBase = flag.String("replay-base", "", "debug: id of the base configuration -replay-history starts from")
)

type node struct {
	id       int
	prefix   []Op
	prefKeys []string
	model    *Model
	implKey  string
	taint    string
	depth    int
	base     *BaseConf // the configuration file the history starts from
	remain   int       // levels of edits still to apply below this state (0 = reached, not expanded)
}

// crashText keeps the head of a worker death report and, when the log tail contains one, the panic message (the
// tail of the log is where the cause is; the Core's request log comes before it).
func crashText(c string) string {
	for _, mark := range []string{"\npanic: ", "\nfatal error: "} {
		if i := strings.LastIndex(c, mark); i >= 0 {
			return vcommon.Short(c, 120) + " […] " + vcommon.Short(strings.TrimSpace(c[i:]), 700)
		}
	}
	return vcommon.Short(c, 600)
}

var (
	goroutineRe = regexp.MustCompile(`(?m)^goroutine \d+ \[running\]:\n`)
	frameRe     = regexp.MustCompile(`(?m)^github\.com/bluenviron/mediamtx/internal/((?:[^\s(]|\(\*)+)\(`)
)

// crashKey is the class key of a worker death: the innermost function of the repository on the stack of the
// panicking goroutine ("worker-crash" when there is none, or when it is the harness itself).
func crashKey(c string) string {
	i := strings.LastIndex(c, "\npanic: ")
	if i < 0 {
		i = strings.LastIndex(c, "\nfatal error: ")
	}
	if i < 0 {
		return "worker-crash"
	}
	t := c[i:]
	if loc := goroutineRe.FindStringIndex(t); loc != nil {
		t = t[loc[1]:]
	}
	m := frameRe.FindStringSubmatch(t)
	if m == nil || strings.HasPrefix(m[1], "zzverif/") {
		return "worker-crash"
	}
	return "process-death:" + m[1]
}

func main() {
	flag.Parse()
	if *flagWorker >= 0 {
		workerMain(*flagWorker, *flagWTmp)
		return
	}
	if *flagBench {
		bench()
		return
	}
	if *flagReplay != "" {
		replay(*flagReplay)
		return
	}
	r := vcommon.Start("C12", "model_checking")
	depth := 3
	budget := 50 * time.Second
	if r.Thorough() {
		depth = 4
		budget = 12 * time.Minute
	}
	if *flagDepth > 0 {
		depth = *flagDepth
	}
	if *flagBudget > 0 {
		budget = *flagBudget
	}
	deadline := time.Now().Add(budget)
	ops := alphabet(r.Thorough())
	bs := bases()
	baseDepth := min(*flagBaseDepth, depth)
	// the edits on a name that only some bases declare are applied in the states reached from those bases
	opsOf := map[string][]int{}
	for _, b := range bs {
		for i, o := range ops {
			if o.Only == "" || b.declares(o.Only) {
				opsOf[b.ID] = append(opsOf[b.ID], i)
			}
		}
	}
	allIdx := opsOf[bs[0].ID]
	pick := func(idx []int) []Op {
		out := make([]Op, len(idx))
		for i, x := range idx {
			out[i] = ops[x]
		}
		return out
	}

	tmp, err := os.MkdirTemp("", "verif-c12-")
	if err != nil {
		vcommon.Harness("mkdtemp: %v", err)
	}
	defer os.RemoveAll(tmp)
	pool := c12lib.NewPool(*flagProcs, tmp, "-tier", r.Tier)
	defer pool.Close()
	fail := func(format string, a ...any) {
		pool.Close()
		os.RemoveAll(tmp)
		vcommon.Harness(format, a...)
	}

	r.Rule = fmt.Sprintf("BFS over histories of Control API edits, alphabet of %d edits (add/patch/replace x 4 names x payloads, delete x 4 names, "+
		"global and pathdefaults patches, valid and invalid, incl. fields present with the zero value of their type: 0, false, empty list; "+
		"%d more edits on the name all_others where the base declares it), "+
		"every edit tried in every reached state up to depth %d from the rendered base, and up to depth %d from each of %d base configurations LOADED FROM A YAML FILE TEXT "+
		"(paths declared with an empty body / {} / null / ~ / one setting, paths absent / {} / empty, pathDefaults empty / {} / one setting, regexp and all_others entries "+
		"with an empty body, all of them in one file); "+
		"distinct = (file base when the edit is applied to the loaded base itself, kind, name, shape of the target before the edit, payload, outcome) classes",
		len(allIdx), len(ops)-len(allIdx), depth, baseDepth, len(bs)-1)

	root := &node{id: 0, model: initialModel(), depth: 0, base: bs[0], remain: depth}
	frontier := []*node{root}
	nodes := 1
	for _, b := range bs[1:] {
		// the loaded file bases are roots of the same search: expanded at the first level, before anything else can
		// consume the deadline
		frontier = append(frontier, &node{id: nodes, model: b.Model, depth: 0, base: b, remain: baseDepth})
		nodes++
	}
	seen := map[string]bool{}
	startKeys := map[string]string{} // base id -> key of the state the Core starts in
	baseEdits, baseStates := 0, 0
	taintedNotReproduced := 0
	transitions := 0
	cores := 0
	undos := 0
	harnessRetries := 0
	requests := 0
	stale, early := 0, 0
	completedDepth := 0
	outcomes := map[string]int{}
	levelSizes := []int{len(frontier)}
	exhaustive := true
	leafEdits := 0
	crashFollowUps, crashesNotReproduced := 0, 0
	confirmJob := map[int]bool{}  // jobs that execute again, alone, the edit during which a worker died
	replayDeath := map[int]bool{} // jobs whose worker died before the node's state was reached
	jobSeq := 1
	nLeaf := 0
	for _, i := range allIdx {
		if ops[i].Leaf {
			nLeaf++
		}
	}

	// determinism discipline: the root is expanded twice and must give identical results
	{
		j := &Job{Node: 0, Base: *root.base, Model: root.model, Ops: pick(allIdx), OpIdx: allIdx}
		a := pool.Run([]any{j, j})
		if a[0].Crash != "" || a[1].Crash != "" {
			fail("worker crashed on the root state: %s%s", a[0].Crash, a[1].Crash)
		}
		var r0, r1 JobResult
		_ = json.Unmarshal(a[0].Raw, &r0)
		_ = json.Unmarshal(a[1].Raw, &r1)
		if r0.HarnessError != "" {
			fail("root: %s", r0.HarnessError)
		}
		r0.Cores, r1.Cores, r0.Requests, r1.Requests = 0, 0, 0, 0
		r0.StaleReads, r1.StaleReads, r0.Undos, r1.Undos = 0, 0, 0, 0
		b0, _ := json.Marshal(r0)
		b1, _ := json.Marshal(r1)
		if string(b0) != string(b1) {
			if len(r0.Viols) == 0 && len(r1.Viols) == 0 {
				fail("nondeterministic: two expansions of the initial state differ")
			}
			// a harness error is for differences without a verdict: here the property is violated, and what the broken
			// edit leaves behind is not a function of the request (e.g. fields decoded in map order before a refusal)
			r.Note("the two expansions of the initial state differ and report violations: the outcome of a violating edit is not deterministic")
		}
		startKeys[root.base.ID] = r0.StartKey
		root.implKey = r0.NodeKey
		seen[root.implKey+"|"+root.model.Key()+"|"] = true
	}

	for d := 0; d < depth && len(frontier) > 0; d++ {
		if time.Now().After(deadline) {
			exhaustive = false
			break
		}
		// a state's edits are split over several jobs when there are fewer states than workers
		parts := (2*pool.N + len(frontier) - 1) / len(frontier)
		if parts < 1 {
			parts = 1
		}
		if parts > 8 {
			parts = 8
		}
		var jobs []any
		var jobNode []*node
		for _, n := range frontier {
			idx := opsOf[n.base.ID]
			per := (len(idx) + parts - 1) / parts
			for lo := 0; lo < len(idx); lo += per {
				hi := min(lo+per, len(idx))
				jobSeq++
				jobs = append(jobs, &Job{ID: jobSeq - 1, Node: n.id, Base: *n.base, Prefix: n.prefix, PrefKeys: n.prefKeys, StartKey: startKeys[n.base.ID],
					Model: n.model, Taint: n.taint, Ops: pick(idx[lo:hi]), OpIdx: idx[lo:hi]})
				jobNode = append(jobNode, n)
			}
		}
		// the deadline is checked between chunks so that a level that does not fit ends cleanly
		var results []c12lib.Result
		chunk := pool.N * 2
		aborted := false
		for lo := 0; lo < len(jobs); lo += chunk {
			if time.Now().After(deadline) {
				aborted = true
				break
			}
			hi := lo + chunk
			if hi > len(jobs) {
				hi = len(jobs)
			}
			results = append(results, pool.Run(jobs[lo:hi])...)
		}
		// A death of the worker process is attributed to ONE edit. The worker leaves a progress file (the results of
		// the edits it completed); the edit that was in progress is executed again alone (fresh process, fresh Core, same
		// history): if the process dies again the death is that edit's, otherwise it is counted, not judged. The
		// completed edits keep their verdicts, the remaining ones are executed as a new job.
		nJobs, nDone := len(jobs), len(results)
		{
			var rj []any
			var rn []*node
			var rr []c12lib.Result
			type crashed struct {
				job *Job
				n   *node
				res c12lib.Result
			}
			var cur []crashed
			for i := range results {
				if results[i].Crash != "" {
					cur = append(cur, crashed{jobs[i].(*Job), jobNode[i], results[i]})
				} else {
					rj, rn, rr = append(rj, jobs[i]), append(rn, jobNode[i]), append(rr, results[i])
				}
			}
			for len(cur) > 0 {
				var follow []any
				var followNode []*node
				for _, c := range cur {
					if confirmJob[c.job.ID] {
						rj, rn, rr = append(rj, c.job), append(rn, c.n), append(rr, c.res)
						continue
					}
					part, ok := readProgress(tmp, c.job.ID)
					if !ok {
						// died before the node's state was reached: nothing to attribute to an edit
						replayDeath[c.job.ID] = true
						rj, rn, rr = append(rj, c.job), append(rn, c.n), append(rr, c.res)
						continue
					}
					done := len(part.Results)
					if done >= len(c.job.Ops) {
						// died after the last edit was judged: that edit is the one executed again
						done = len(c.job.Ops) - 1
						part.Results = part.Results[:done]
						var vs []Viol
						for _, v := range part.Viols {
							if v.OpIdx != c.job.OpIdx[done] {
								vs = append(vs, v)
							}
						}
						part.Viols = vs
					}
					if done > 0 {
						a := *c.job
						a.Ops, a.OpIdx = c.job.Ops[:done], c.job.OpIdx[:done]
						raw, _ := json.Marshal(part)
						rj, rn, rr = append(rj, &a), append(rn, c.n), append(rr, c12lib.Result{Raw: raw})
					}
					one := *c.job
					one.ID = jobSeq
					jobSeq++
					one.Ops, one.OpIdx = c.job.Ops[done:done+1], c.job.OpIdx[done:done+1]
					confirmJob[one.ID] = true
					follow, followNode = append(follow, &one), append(followNode, c.n)
					if done+1 < len(c.job.Ops) {
						rest := *c.job
						rest.ID = jobSeq
						jobSeq++
						rest.Ops, rest.OpIdx = c.job.Ops[done+1:], c.job.OpIdx[done+1:]
						follow, followNode = append(follow, &rest), append(followNode, c.n)
					}
				}
				cur = nil
				if len(follow) == 0 {
					break
				}
				crashFollowUps += len(follow)
				rs := pool.Run(follow)
				for i := range rs {
					job := follow[i].(*Job)
					if rs[i].Crash != "" {
						cur = append(cur, crashed{job, followNode[i], rs[i]})
						continue
					}
					if confirmJob[job.ID] {
						crashesNotReproduced++
					}
					rj, rn, rr = append(rj, job), append(rn, followNode[i]), append(rr, rs[i])
				}
			}
			jobs, jobNode, results = rj, rn, rr
		}
		var next []*node
		newStates := 0
		for i, res := range results {
			n := jobNode[i]
			if res.Crash != "" {
				job := jobs[i].(*Job)
				what := fmt.Sprintf("the process died while replaying history %v", n.prefix)
				rep := map[string]any{"base": n.base.describe(), "history": n.prefix}
				if !replayDeath[job.ID] {
					what = fmt.Sprintf("the server process died: history %v then %v", n.prefix, job.Ops[0])
					rep["edit"] = job.Ops[0]
					rep["how"] = "start mediamtx with the base configuration, send the history then the edit to the Control API"
				}
				r.Violation(crashKey(res.Crash), what+": "+crashText(res.Crash), rep)
				if !replayDeath[job.ID] {
					transitions++
					r.Eval(1)
					outcomes[job.Ops[0].Kind+"/process-death"]++
				}
				continue
			}
			var jr JobResult
			if err := json.Unmarshal(res.Raw, &jr); err != nil {
				fail("bad worker answer: %v", err)
			}
			for retry := 0; jr.HarnessError != "" && retry < 3 && !strings.Contains(jr.HarnessError, "nondeterministic"); retry++ {
				// a harness error is never a verdict: the machine may have refused a resource (ports, inotify instances,
				// processes are shared with other checks); the job is executed again, a persistent error still aborts
				harnessRetries++
				time.Sleep(time.Duration(500*(retry+1)) * time.Millisecond)
				again := pool.Run([]any{jobs[i]})[0]
				if again.Crash != "" {
					continue
				}
				jr = JobResult{}
				if err := json.Unmarshal(again.Raw, &jr); err != nil {
					fail("bad worker answer: %v", err)
				}
			}
			if n.taint != "" && (strings.Contains(jr.HarnessError, "nondeterministic") || (jr.HarnessError == "" && jr.NodeKey != n.implKey)) {
				// the history already violated (reported under its key) and does not lead to the same state twice:
				// there is no state to apply one more edit to
				taintedNotReproduced++
				continue
			}
			if jr.HarnessError != "" {
				fail("base %s, history %v: %s", n.base.ID, n.prefix, jr.HarnessError)
			}
			if jr.BaseNote != "" {
				// not a verdict on the edits: the loader (or the table of bases) is what differs
				fail("base configuration %s (%q) does not read back as its reference state %s: %s", n.base.ID, n.base.Text, n.model.Key(), jr.BaseNote)
			}
			if n.implKey == "" && len(n.prefix) == 0 {
				// first answer about a file base: the state the Core starts in
				n.implKey = jr.NodeKey
				startKeys[n.base.ID] = jr.StartKey
				seen[n.implKey+"|"+n.model.Key()+"|"] = true
			}
			if jr.NodeKey != n.implKey {
				fail("nondeterministic: history %v reached %s, recorded %s", n.prefix, jr.NodeKey, n.implKey)
			}
			cores += jr.Cores
			undos += jr.Undos
			requests += jr.Requests
			stale += jr.StaleReads
			early += jr.EarlyReads
			for _, v := range jr.Viols {
				op := ops[v.OpIdx]
				r.Violation(v.Key, v.What+" "+v.Detail, map[string]any{
					"base": n.base.describe(), "history": n.prefix, "edit": op,
					"how": "start mediamtx with the base configuration, send the history then the edit to the Control API"})
			}
			var job *Job = jobs[i].(*Job)
			for ri, or := range jr.Results {
				oi := job.OpIdx[ri]
				transitions++
				r.Eval(1)
				r.Distinct(or.Class)
				if !n.base.Rendered && len(n.prefix) == 0 {
					baseEdits++
				}
				oc := "rejected"
				if or.Accepted {
					oc = "accepted"
				}
				outcomes[ops[oi].Kind+"/"+oc]++
				if or.NewModel == nil {
					continue
				}
				taint := n.taint
				if taint == "" && or.Tainted {
					for _, v := range jr.Viols {
						if v.OpIdx == oi {
							taint = v.Key
							break
						}
					}
				}
				if n.taint != "" {
					// the consequences of a first violation are shown by one more edit, not explored further
					continue
				}
				if ops[oi].Leaf {
					// judged in this state like every edit, but its successor state is not expanded (model.go)
					leafEdits++
					continue
				}
				key := or.NewKey + "|" + or.NewModel.Key() + "|" + taint
				if seen[key] {
					continue
				}
				seen[key] = true
				child := &node{id: nodes, model: or.NewModel, implKey: or.NewKey, taint: taint, depth: n.depth + 1, base: n.base, remain: n.remain - 1}
				child.prefix = append(append([]Op(nil), n.prefix...), ops[oi])
				child.prefKeys = append(append([]string(nil), n.prefKeys...), or.NewKey)
				nodes++
				newStates++
				if !n.base.Rendered {
					baseStates++
				}
				if child.remain > 0 {
					next = append(next, child)
				}
				if d+1 <= 3 {
					r.Sample(map[string]any{"history": fmt.Sprint(child.prefix), "state": or.NewKey})
				}
			}
		}
		if aborted {
			exhaustive = false
			r.Note("deadline reached while expanding depth %d: %d of %d jobs of that level done", d, nDone, nJobs)
			break
		}
		completedDepth = d + 1
		levelSizes = append(levelSizes, newStates)
		// the states with more levels below them come first: a state reached both ways is created (and kept) with the
		// larger remainder, since the jobs of a level are judged in this order
		sort.SliceStable(next, func(i, j int) bool { return next[i].remain > next[j].remain })
		frontier = next
	}
	pool.Close()

	r.Set("states", nodes)
	r.Set("transitions", transitions)
	r.Set("traces_validated_against_impl", cores)
	r.Set("http_requests", requests)
	r.Set("returns_by_inverse_edit", undos)
	bound := fmt.Sprintf("all histories of length <= %d (every edit of the alphabet in every state reached by < %d edits)", completedDepth, completedDepth)
	if nLeaf > 0 {
		bound = fmt.Sprintf("all histories of length <= %d whose edits but the last are among the %d non-leaf edits (every one of the %d edits, incl. the %d "+
			"leaf edits (zero-valued fields, refusals by the decoder), in every state reached by < %d non-leaf edits)", completedDepth, len(allIdx)-nLeaf, len(allIdx), nLeaf, completedDepth)
	}
	bound += fmt.Sprintf("; from each of the %d configurations loaded from a YAML text: all histories of length <= %d", len(bs)-1, min(completedDepth, baseDepth))
	r.Set("bound_completed", bound)
	r.Set("file_bases", len(bs)-1)
	r.Set("edits_applied_to_a_loaded_file_base", baseEdits)
	r.Set("new_states_reached_only_from_file_bases", baseStates)
	r.Set("leaf_edits_in_alphabet", nLeaf)
	r.Set("leaf_edit_successors_not_expanded", leafEdits)
	r.Set("new_states_per_depth", levelSizes)
	r.Set("alphabet_size", len(allIdx))
	r.Set("alphabet_size_where_all_others_is_declared", len(ops))
	var ocs []string
	for k, v := range outcomes {
		ocs = append(ocs, fmt.Sprintf("%s=%d", k, v))
	}
	sort.Strings(ocs)
	r.Set("outcomes", ocs)
	r.Set("worker_crashes", pool.Crashed.Load())
	r.Set("jobs_executed_to_attribute_worker_deaths", crashFollowUps)
	r.Set("worker_deaths_not_reproduced", crashesNotReproduced)
	r.Set("jobs_reexecuted_after_an_environment_error", harnessRetries)
	r.Set("jobs_skipped_violating_history_not_reproducible", taintedNotReproduced)
	r.Note("informational, not a verdict: %d of %d reads issued right after a 200 answer (before the reload was known to be complete) "+
		"differed from the read after quiescence", stale, early)
	var baseIDs []string
	for _, b := range bs[1:] {
		baseIDs = append(baseIDs, fmt.Sprintf("%s=%q", b.ID, b.Text))
	}
	r.Set("file_base_texts", baseIDs)
	r.Exhaustive = exhaustive && completedDepth == depth
	r.Assumptions = []string{
		"reads are compared after the reload triggered by the edit has completed (barrier through Core.run); the window between the 200 answer and conf.Store is not judged",
		"validity and expected reads of the reference state come from conf.Load on the rendered reference state (conf.Load/Validate trusted as the definition of a valid configuration)",
		"patch or replace of a missing name: the statement is silent, failure (nothing changes) and creation with exactly the given fields are both accepted",
		"failure = any 4xx status; null and [] are equal in JSON comparisons; the private API port is masked",
		"alphabet: 4 names x the listed payloads; credentials, nested structures (forward) and explicit nulls are outside the alphabet",
		"file bases: the reference state of a base is written by hand next to its YAML text; a base whose reads do not equal that state is a harness error, not a verdict (loading is not this property)",
		"quick tier: the zero-valued edits (0 / false / empty list in a present field) and the payloads refused by the decoder are leaves: applied and judged in every reached state, their successor states are not expanded (thorough: full members)",
		"states are merged on the running configuration as encoded (nil and empty path entries are different states); running configurations are COMPARED with nil = empty for the map of paths and for a path entry (representation, not observable through the API)",
		"besides the differential expectation, every accepted edit is judged without conf.Load: each field of the reference state must be contained in the corresponding read, every other field of a path read must equal the path defaults read",
	}
	if len(outcomes) < 6 {
		fail("vacuous: only %d outcome classes", len(outcomes))
	}
	pool.Close()
	os.RemoveAll(tmp) // Finish exits the process: deferred calls do not run
	r.Finish()
}
