package main

import (
	"bytes"
	"crypto/sha1"
	"encoding/hex"
	"encoding/json"
	"fmt"
	"io"
	"net/http"
	"net/url"
	"os"
	"path/filepath"
	"regexp"
	"sort"
	"strings"
	"time"

	"github.com/bluenviron/mediamtx/internal/conf"
	"github.com/bluenviron/mediamtx/internal/core"
	"github.com/bluenviron/mediamtx/internal/zzverif/c12lib"
)

// Job: expand one state. The worker starts a fresh Core, replays Prefix, then applies every op of Ops
// to that state (an op that changes the running configuration costs a fresh Core + replay for the next op).
type Job struct {
	ID       int      `json:"id"` // names the progress file
	Node     int      `json:"node"`
	Base     BaseConf `json:"base"` // the configuration file the Core is started from (bases.go)
	Prefix   []Op     `json:"prefix"`
	PrefKeys []string `json:"prefKeys"` // implementation state key expected after each prefix op
	StartKey string   `json:"startKey"` // key of the initial state ("" = unknown, first job)
	Model    *Model   `json:"model"`    // reference state of this node
	Taint    string   `json:"taint"`    // key of the first violation on the history ("" = none)
	Ops      []Op     `json:"ops"`
	OpIdx    []int    `json:"opIdx"` // index of each op in the alphabet
}

// Viol is a violation found by the worker.
type Viol struct {
	Key    string `json:"key"`
	What   string `json:"what"`
	OpIdx  int    `json:"opIdx"`
	Detail string `json:"detail,omitempty"`
}

// OpResult is the outcome of one op in the node's state.
type OpResult struct {
	Status   int    `json:"status"`
	Accepted bool   `json:"accepted"`
	Changed  bool   `json:"changed"`            // the implementation state key changed
	NewKey   string `json:"newKey,omitempty"`   // implementation key after the op
	NewModel *Model `json:"newModel,omitempty"` // reference state after the op (when it changed)
	Class    string `json:"class"`              // outcome class for the coverage statistics
	Tainted  bool   `json:"tainted,omitempty"`  // a violation occurred on this op
}

// JobResult is the answer to a Job.
type JobResult struct {
	Node         int        `json:"node"`
	StartKey     string     `json:"startKey"`
	NodeKey      string     `json:"nodeKey"`
	BaseNote     string     `json:"baseNote,omitempty"` // a base configuration that does not read back as its reference state
	Results      []OpResult `json:"results"`
	Viols        []Viol     `json:"viols"`
	Cores        int        `json:"cores"` // real Core executions
	Undos        int        `json:"undos"` // accepted edits followed by their inverse edit instead of a fresh Core
	Requests     int        `json:"requests"`
	HarnessError string     `json:"harness_error,omitempty"`
	StaleReads   int        `json:"staleReads"` // informational, see main.go
	EarlyReads   int        `json:"earlyReads"`
}

type workerState struct {
	idx     int
	dir     string
	port    int
	base    map[string]any
	confFn  string
	cores   int
	reqs    int
	expSeq  int
	expMemo map[string]*expected
	names   []string // path names read in the current job (pathNames + the extra names of the job's base)
}

// logTail returns the last warning/error lines of this worker's log (the Core logs to stdout).
func (w *workerState) logTail() string {
	f, err := os.Open(filepath.Join(filepath.Dir(w.dir), fmt.Sprintf("worker-%d.log", w.idx)))
	if err != nil {
		return ""
	}
	defer f.Close()
	st, _ := f.Stat()
	off := st.Size() - 64<<10
	if off < 0 {
		off = 0
	}
	buf := make([]byte, st.Size()-off)
	_, _ = f.ReadAt(buf, off)
	lines := strings.Split(strings.TrimSpace(string(buf)), "\n")
	var out []string
	for i := len(lines) - 1; i >= 0 && len(out) < 4; i-- {
		if strings.Contains(lines[i], " ERR ") || strings.Contains(lines[i], " WAR ") {
			out = append(out, lines[i])
		}
	}
	return strings.Join(out, " / ")
}

// baseConf is the fixed part of the configuration: only the API listener is enabled.
func baseConf(port int) map[string]any {
	return map[string]any{
		"api": true, "apiAddress": fmt.Sprintf("127.0.0.1:%d", port),
		"rtsp": false, "rtmp": false, "hls": false, "webrtc": false, "srt": false, "moq": false,
	}
}

func initialModel() *Model {
	return &Model{Global: fields{}, Defaults: fields{}, Paths: map[string]fields{
		"p1": {"maxReaders": json.RawMessage("1")},
	}}
}

// ---- canonical JSON ---------------------------------------------------------------------------------

// canon re-encodes JSON with sorted keys; null and [] are the same value (design: oracle don't-cares).
func canon(b []byte) string {
	var v any
	d := json.NewDecoder(bytes.NewReader(b))
	d.UseNumber()
	if err := d.Decode(&v); err != nil {
		return "!!not-json:" + string(b)
	}
	v = normalize(v)
	out, _ := json.Marshal(v)
	return string(out)
}

func normalize(v any) any {
	switch t := v.(type) {
	case nil:
		return []any{}
	case []any:
		for i := range t {
			t[i] = normalize(t[i])
		}
		return t
	case map[string]any:
		for k := range t {
			t[k] = normalize(t[k])
		}
		return t
	}
	return v
}

func hashOf(parts ...string) string {
	h := sha1.New()
	for _, p := range parts {
		io.WriteString(h, p)
		h.Write([]byte{0})
	}
	return hex.EncodeToString(h.Sum(nil))[:16]
}

// ---- a live Core and its observation ----------------------------------------------------------------

type live struct {
	w    *workerState
	p    *core.Core
	tr   *http.Transport
	hc   *http.Client
	dead bool
}

func (w *workerState) start(b *BaseConf) (*live, error) {
	fn := filepath.Join(w.dir, "run.yml")
	if err := os.WriteFile(fn, b.fileContent(w.base), 0o644); err != nil {
		return nil, err
	}
	p, ok := c12lib.StartCore(fn, 10)
	if !ok {
		return nil, fmt.Errorf("core.New failed; log: %s", w.logTail())
	}
	w.cores++
	tr := &http.Transport{}
	return &live{w: w, p: p, tr: tr, hc: &http.Client{Transport: tr, Timeout: 20 * time.Second}}, nil
}

func (l *live) close() {
	l.tr.CloseIdleConnections()
	l.p.Close()
}

// barrier returns when every reload started by earlier edits is complete: Core.run handles one request
// at a time and reloads inside the handling, so a further (failing, side-effect free) request through the
// same loop returns only after the previous reload. It reports false when the Core has terminated.
func (l *live) barrier() bool {
	err := l.p.APIConfigPathsDelete("\x00verif-barrier")
	if err != nil && err.Error() == "terminated" {
		l.dead = true
		return false
	}
	return true
}

func (l *live) do(method, path string, body string) (int, string, error) {
	var rd io.Reader
	if method != "GET" && method != "DELETE" {
		rd = strings.NewReader(body)
	}
	req, err := http.NewRequest(method, fmt.Sprintf("http://127.0.0.1:%d%s", l.w.port, path), rd)
	if err != nil {
		return 0, "", err
	}
	l.w.reqs++
	res, err := l.hc.Do(req)
	if err != nil {
		return 0, "", err
	}
	defer res.Body.Close()
	b, err := io.ReadAll(res.Body)
	return res.StatusCode, string(b), err
}

func (l *live) get(path string) string {
	st, body, err := l.do("GET", path, "")
	if err != nil {
		// one retry on a fresh connection (the API listener may have been recreated by a reload)
		l.tr.CloseIdleConnections()
		st, body, err = l.do("GET", path, "")
		if err != nil {
			return "ERR " + err.Error()
		}
	}
	return fmt.Sprintf("%d %s", st, hidePort(strings.TrimSpace(body)))
}

// obs is everything observable about the configuration of a live Core.
type obs struct {
	Snap  string            // canonical JSON of the running configuration (Core.APIConfigSnapshot), with Paths
	Reads map[string]string // read endpoint -> "status canonical-body"
}

func (o *obs) key() string { return hashOf(o.Snap) }

func readEndpoints(names []string) []string {
	eps := []string{"/v3/config/global/get", "/v3/config/pathdefaults/get", "/v3/config/paths/list"}
	for _, n := range names {
		eps = append(eps, "/v3/config/paths/get/"+url.PathEscape(n))
	}
	return eps
}

// portRe hides the worker's private API port: state keys must not depend on the worker.
var portRe = regexp.MustCompile(`127\.0\.0\.1:2[0-9]{4}`)

func hidePort(s string) string { return portRe.ReplaceAllString(s, "127.0.0.1:API") }

func snapOf(c *conf.Conf) string {
	return hidePort(snapOf2(c))
}

func snapOf2(c *conf.Conf) string {
	b1, err := json.Marshal(c)
	if err != nil {
		return "!!" + err.Error()
	}
	b2, err := json.Marshal(c.Paths)
	if err != nil {
		return "!!" + err.Error()
	}
	return string(b1) + "\n" + string(b2)
}

// snapSame compares two running configurations (two-line snapshots). Besides what same() ignores, two differences
// of REPRESENTATION are not differences of configuration: a configuration loaded from a file without a paths
// section holds a nil map of optional paths, one whose last path was deleted (or that was written "paths: {}") an
// empty one (encoded null and {}); a path declared with an empty body may be held as a nil entry or as an entry
// without values (encoded null and {}). The state KEYS are taken on the text as encoded (the search keeps such
// states apart: what a later edit does with a nil entry is exactly what the file bases are for).
func snapSame(a, b string) bool {
	return a == b || canonSnap(a) == canonSnap(b)
}

func canonSnap(s string) string {
	lines := strings.SplitN(s, "\n", 2)
	var v map[string]any
	d := json.NewDecoder(strings.NewReader(lines[0]))
	d.UseNumber()
	if d.Decode(&v) == nil {
		p, _ := v["paths"].(map[string]any)
		if p == nil {
			p = map[string]any{}
		}
		for k, e := range p {
			if e == nil {
				p[k] = map[string]any{}
			}
		}
		v["paths"] = p
		out, _ := json.Marshal(normalize(v))
		lines[0] = string(out)
	} else {
		lines[0] = canon([]byte(lines[0]))
	}
	if len(lines) > 1 {
		lines[1] = canon([]byte(lines[1]))
	}
	return strings.Join(lines, "\n")
}

// same compares two JSON texts (or "status body" reads, or two-line snapshots): equal as text, or equal after
// canonicalization (sorted keys, null = []).
func same(a, b string) bool {
	if a == b {
		return true
	}
	return canonText(a) == canonText(b)
}

func canonText(s string) string {
	var out []string
	for _, line := range strings.Split(s, "\n") {
		pre := ""
		if len(line) > 4 && line[3] == ' ' && line[0] >= '0' && line[0] <= '9' {
			pre, line = line[:4], line[4:]
		}
		out = append(out, pre+canon([]byte(line)))
	}
	return strings.Join(out, "\n")
}

func (l *live) observe() *obs {
	o := &obs{Reads: map[string]string{}}
	o.Snap = snapOf(l.p.APIConfigSnapshot())
	for _, ep := range readEndpoints(l.w.names) {
		o.Reads[ep] = l.get(ep)
	}
	return o
}

// observeAfterFailure reads the three endpoints that together show the whole configuration (global, path
// defaults, list of all paths); the per-name reads are functions of the same snapshot and are re-read only
// if one of these or the running configuration changed.
func (l *live) observeAfterFailure(pre *obs) *obs {
	o := &obs{Reads: map[string]string{}}
	o.Snap = snapOf(l.p.APIConfigSnapshot())
	changed := o.Snap != pre.Snap
	for _, ep := range readEndpoints(l.w.names)[:3] {
		o.Reads[ep] = l.get(ep)
		if o.Reads[ep] != pre.Reads[ep] {
			changed = true
		}
	}
	for _, ep := range readEndpoints(l.w.names)[3:] {
		if changed {
			o.Reads[ep] = l.get(ep)
		} else {
			o.Reads[ep] = pre.Reads[ep]
		}
	}
	return o
}

// ---- expectation from the reference model, differentially ----------------------------------------------

type expected struct {
	valid bool
	err   string
	snap  string
	reads map[string]string
}

// expect renders the model state to a file and loads it from scratch with conf.Load.
func (w *workerState) expect(m *Model) *expected {
	k := m.Key()
	if e, ok := w.expMemo[k]; ok {
		return e
	}
	e := w.expectUncached(m)
	if len(w.expMemo) > 5000 {
		w.expMemo = map[string]*expected{}
	}
	w.expMemo[k] = e
	return e
}

func (w *workerState) expectUncached(m *Model) *expected {
	w.expSeq++
	fn := filepath.Join(w.dir, "exp", "expect.yml")
	if err := os.WriteFile(fn, m.Render(w.base), 0o644); err != nil {
		return &expected{err: "write: " + err.Error()}
	}
	c, _, err := conf.Load(fn, nil, nil)
	if err != nil {
		return &expected{valid: false, err: err.Error()}
	}
	e := &expected{valid: true, reads: map[string]string{}}
	e.snap = snapOf(c)
	mj := func(v any) string {
		b, _ := json.Marshal(v)
		return hidePort(string(b))
	}
	e.reads["/v3/config/global/get"] = "200 " + mj(c.Global())
	e.reads["/v3/config/pathdefaults/get"] = "200 " + mj(c.PathDefaults)
	names := make([]string, 0, len(c.Paths))
	for n := range c.Paths {
		names = append(names, n)
	}
	sort.Strings(names)
	items := make([]any, 0, len(names))
	for _, n := range names {
		items = append(items, c.Paths[n])
	}
	pc := 0
	if len(items) > 0 {
		pc = 1
	}
	e.reads["/v3/config/paths/list"] = "200 " + mj(map[string]any{"itemCount": len(items), "pageCount": pc, "items": items})
	for _, n := range allNames() {
		ep := "/v3/config/paths/get/" + url.PathEscape(n)
		if pc, ok := c.Paths[n]; ok {
			e.reads[ep] = "200 " + mj(pc)
		} else {
			e.reads[ep] = "404 " + mj(map[string]any{"status": "error", "error": "path configuration not found"})
		}
	}
	return e
}

// diffReads compares every read that was taken (got) with the expectation (want has at least those endpoints).
func diffReads(got, want map[string]string) (string, string) {
	var eps []string
	for ep := range got {
		eps = append(eps, ep)
	}
	sort.Strings(eps)
	for _, ep := range eps {
		if !same(got[ep], want[ep]) {
			return ep, firstDiff(canonText(got[ep]), canonText(want[ep]))
		}
	}
	return "", ""
}

func firstDiff(a, b string) string {
	i := 0
	for i < len(a) && i < len(b) && a[i] == b[i] {
		i++
	}
	lo := i - 60
	if lo < 0 {
		lo = 0
	}
	cut := func(s string) string {
		hi := i + 80
		if hi > len(s) {
			hi = len(s)
		}
		if lo > len(s) {
			return ""
		}
		return s[lo:hi]
	}
	return fmt.Sprintf("got …%s… want …%s…", cut(a), cut(b))
}

// ---- expectation from the reference model, directly -----------------------------------------------------
//
// "a successful edit is what subsequent reads return", "exactly the fields present", without any code of the
// repository in the oracle: every field of the reference state is contained in the read of its section (global,
// path defaults, path), and every field of a path read that the reference path does not set equals the same
// field of the path defaults read. Containment: scalars equal, lists of equal length with contained elements,
// objects field by field (the implementation may complete a structure with defaulted members).

func parseRead(s string) (int, map[string]any) {
	st := 0
	_, _ = fmt.Sscanf(s, "%d", &st)
	i := strings.IndexByte(s, ' ')
	if i < 0 {
		return st, nil
	}
	d := json.NewDecoder(strings.NewReader(s[i+1:]))
	d.UseNumber()
	var v map[string]any
	if d.Decode(&v) != nil {
		return st, nil
	}
	return st, v
}

func contains(want, got any) bool {
	switch w := want.(type) {
	case nil:
		g, ok := got.([]any)
		return got == nil || (ok && len(g) == 0)
	case map[string]any:
		g, ok := got.(map[string]any)
		if !ok {
			return false
		}
		for k, v := range w {
			gv, ok := g[k]
			if !ok || !contains(v, gv) {
				return false
			}
		}
		return true
	case []any:
		if got == nil && len(w) == 0 {
			return true
		}
		g, ok := got.([]any)
		if !ok || len(g) != len(w) {
			return false
		}
		for i := range w {
			if !contains(w[i], g[i]) {
				return false
			}
		}
		return true
	}
	a, _ := json.Marshal(want)
	b, _ := json.Marshal(got)
	return string(a) == string(b)
}

func decodeField(raw json.RawMessage) any {
	d := json.NewDecoder(bytes.NewReader(raw))
	d.UseNumber()
	var v any
	_ = d.Decode(&v)
	return v
}

func sortedFieldNames(f fields) []string {
	var out []string
	for k := range f {
		out = append(out, k)
	}
	sort.Strings(out)
	return out
}

func echoSection(f fields, got map[string]any) string {
	for _, k := range sortedFieldNames(f) {
		gv, ok := got[k]
		if !ok {
			return fmt.Sprintf("field %s was set to %s, the read does not have it", k, f[k])
		}
		if !contains(decodeField(f[k]), gv) {
			b, _ := json.Marshal(gv)
			return fmt.Sprintf("field %s was set to %s, the read returns %s", k, f[k], c12short(string(b), 200))
		}
	}
	return ""
}

// echoDiff returns the first read endpoint that does not return the reference state m, "" if all do.
func echoDiff(m *Model, reads map[string]string, names []string) (string, string) {
	ep := "/v3/config/global/get"
	st, g := parseRead(reads[ep])
	if st != 200 || g == nil {
		return ep, "not a 200 answer with a JSON object: " + c12short(reads[ep], 120)
	}
	if d := echoSection(m.Global, g); d != "" {
		return ep, d
	}
	ep = "/v3/config/pathdefaults/get"
	st, defs := parseRead(reads[ep])
	if st != 200 || defs == nil {
		return ep, "not a 200 answer with a JSON object: " + c12short(reads[ep], 120)
	}
	if d := echoSection(m.Defaults, defs); d != "" {
		return ep, d
	}
	for _, n := range names {
		ep = "/v3/config/paths/get/" + url.PathEscape(n)
		st, p := parseRead(reads[ep])
		f, ok := m.Paths[n]
		if !ok {
			if st != 404 {
				return ep, fmt.Sprintf("the path does not exist, status %d", st)
			}
			continue
		}
		if st != 200 || p == nil {
			return ep, "the path exists, the read is not a 200 answer with a JSON object: " + c12short(reads[ep], 120)
		}
		if d := echoSection(f, p); d != "" {
			return ep, d
		}
		var keys []string
		for k := range p {
			keys = append(keys, k)
		}
		sort.Strings(keys)
		for _, k := range keys {
			if _, set := f[k]; set || k == "name" {
				continue
			}
			a, _ := json.Marshal(normalize(p[k]))
			b, _ := json.Marshal(normalize(defs[k]))
			if string(a) != string(b) {
				return ep, fmt.Sprintf("field %s is not set on the path: the read returns %s, the path defaults have %s", k, a, b)
			}
		}
	}
	return "", ""
}

func epClass(ep string) string {
	switch {
	case strings.Contains(ep, "/global/"):
		return "global-get"
	case strings.Contains(ep, "/pathdefaults/"):
		return "pathdefaults-get"
	case strings.Contains(ep, "/paths/list"):
		return "paths-list"
	}
	return "paths-get"
}

// ---- job execution --------------------------------------------------------------------------------

// reach starts a fresh Core and replays the prefix, checking that the implementation goes through the
// recorded states (determinism discipline: a divergence is a harness error, never a verdict).
func (w *workerState) reach(job *Job, res *JobResult) (*live, *obs, error) {
	l, err := w.start(&job.Base)
	if err != nil {
		return nil, nil, err
	}
	if !l.barrier() {
		l.close()
		return nil, nil, fmt.Errorf("core terminated at start; log: %s", w.logTail())
	}
	k0 := hashOf(snapOf(l.p.APIConfigSnapshot()))
	if res.StartKey == "" {
		res.StartKey = k0
	}
	if job.StartKey != "" && job.StartKey != k0 {
		l.close()
		return nil, nil, fmt.Errorf("nondeterministic: initial state key %s != %s", k0, job.StartKey)
	}
	for i, op := range job.Prefix {
		method, path := op.Request()
		if _, _, err = l.do(method, path, op.Payload); err != nil {
			l.close()
			return nil, nil, fmt.Errorf("replay %v: %v", op, err)
		}
		if !l.barrier() {
			l.close()
			return nil, nil, fmt.Errorf("core terminated while replaying %v; log: %s", op, w.logTail())
		}
		if op.Kind == "global" {
			l.tr.CloseIdleConnections()
		}
		if i < len(job.PrefKeys) {
			k := hashOf(snapOf(l.p.APIConfigSnapshot()))
			if k != job.PrefKeys[i] {
				l.close()
				return nil, nil, fmt.Errorf("nondeterministic: replaying %v step %d reached state %s, recorded %s", job.Prefix, i, k, job.PrefKeys[i])
			}
		}
	}
	return l, l.observe(), nil
}

func (w *workerState) run(job *Job) *JobResult {
	res := &JobResult{Node: job.Node}
	w.names = job.Base.names()
	defer func() {
		res.Cores = w.cores
		res.Requests = w.reqs
		w.cores, w.reqs = 0, 0
	}()
	l, pre, err := w.reach(job, res)
	if err != nil {
		res.HarnessError = err.Error()
		return res
	}
	res.NodeKey = pre.key()
	nodeObs := pre
	where := ""
	if !job.Base.Rendered {
		where = "base " + job.Base.ID + " (" + strings.TrimSpace(strings.ReplaceAll(job.Base.Text, "\n", "\\n")) + "), "
		if len(job.Prefix) == 0 {
			// the loaded file must read back as the reference state written next to its text, or every verdict
			// that follows would be about the loader (or about this table), not about the edits
			exp := w.expect(job.Model)
			if !exp.valid {
				res.BaseNote = "conf.Load refuses the rendered reference state: " + exp.err
			} else if ep, d := diffReads(pre.Reads, exp.reads); ep != "" {
				res.BaseNote = "GET " + ep + ": " + d
			} else if ep, d := echoDiff(job.Model, pre.Reads, w.names); ep != "" {
				res.BaseNote = "GET " + ep + ": " + d
			}
			if res.BaseNote != "" {
				l.close()
				return res
			}
		}
	}
	// progress file: what the parent needs to attribute a death of this process to one edit (see main.go)
	progFn := filepath.Join(w.dir, fmt.Sprintf("progress-%d.jsonl", job.ID))
	prog, _ := os.Create(progFn)
	progLine := func(v any) {
		if prog != nil {
			b, _ := json.Marshal(v)
			_, _ = prog.Write(append(b, '\n'))
		}
	}
	progLine(map[string]any{"nodeKey": res.NodeKey, "startKey": res.StartKey})
	defer func() {
		if prog != nil {
			prog.Close()
			os.Remove(progFn)
		}
	}()
	emit := func(or OpResult, nViolBefore int) {
		res.Results = append(res.Results, or)
		progLine(map[string]any{"result": or, "viols": res.Viols[nViolBefore:]})
	}
	addViol := func(i int, key, what, detail string) {
		if job.Taint != "" {
			// the implementation already left the reference model on this history: everything that follows is
			// a consequence of that first violation, reported under its own (single) key
			key = "after[" + job.Taint + "]/later-edit-diverges"
		}
		res.Viols = append(res.Viols, Viol{Key: key, What: what, OpIdx: job.OpIdx[i], Detail: detail})
	}

	// in an untainted node the state itself must be what the model says (also checked when it was reached)
	for i, op := range job.Ops {
		if l == nil {
			l, pre, err = w.reach(job, res)
			if err != nil {
				res.HarnessError = err.Error()
				return res
			}
			if pre.key() != res.NodeKey {
				res.HarnessError = fmt.Sprintf("nondeterministic: node %d reached with key %s then %s", job.Node, res.NodeKey, pre.key())
				l.close()
				return res
			}
			nodeObs = pre
		}
		cand, vd, why := job.Model.Candidate(op)
		var exp *expected
		if cand != nil {
			exp = w.expect(cand)
		}
		method, path := op.Request()
		status, body, err := l.do(method, path, op.Payload)
		if err != nil {
			res.HarnessError = fmt.Sprintf("request %v: %v", op, err)
			l.close()
			return res
		}
		// informational only (never a verdict): a read issued right after the answer, before the reload is
		// known to be complete
		early := ""
		if status == 200 && op.Kind != "global" {
			early = l.get("/v3/config/paths/list")
		}
		alive := l.barrier()
		if op.Kind == "global" {
			l.tr.CloseIdleConnections()
		}
		or := OpResult{Status: status, Accepted: status == 200}
		nViolBefore := len(res.Viols)
		hist := fmt.Sprintf("%shistory %v then %v -> %d %s", where, job.Prefix, op, status, c12short(body, 160))
		if !alive {
			addViol(i, op.Kind+"/core-terminated", "the Core terminated after "+hist, "")
			or.Class = op.Kind + "|core-terminated"
			or.Tainted = true
			emit(or, nViolBefore)
			l.close()
			l = nil
			continue
		}
		var post *obs
		if status == 200 {
			post = l.observe()
		} else {
			post = l.observeAfterFailure(pre)
		}
		or.Changed = post.key() != pre.key()
		or.NewKey = post.key()
		if early != "" {
			res.EarlyReads++
			if !same(early, post.Reads["/v3/config/paths/list"]) {
				res.StaleReads++
			}
		}
		success := status == 200
		failure := status >= 400 && status < 500
		if !success && !failure {
			addViol(i, op.Kind+"/unexpected-status", fmt.Sprintf("status %d is neither 200 nor 4xx: %s", status, hist), "")
		}

		// 1. outcome
		wantSuccess := false
		switch vd {
		case mustFail:
			wantSuccess = false
		case mustValidate:
			wantSuccess = exp.valid
		case dontCare:
			wantSuccess = success && exp.valid
			if success && !exp.valid {
				addViol(i, op.Kind+"/accepted-invalid", "an edit that makes the configuration invalid was accepted ("+exp.err+"): "+hist, "")
			}
		}
		switch {
		case success && !wantSuccess && vd == mustFail:
			addViol(i, op.Kind+"/"+strings.ReplaceAll(why, " ", "-")+"-accepted", why+" succeeded: "+hist, "")
		case success && !wantSuccess && vd == mustValidate:
			addViol(i, op.Kind+"/accepted-invalid", "an edit that makes the configuration invalid was accepted ("+exp.err+"): "+hist, "")
		case !success && wantSuccess:
			addViol(i, op.Kind+"/rejected-valid", "a valid edit was rejected: "+hist, "")
		}

		// 2. state after the edit
		newModel := job.Model
		if len(res.Viols) > nViolBefore {
			// the outcome itself is wrong: the state that follows is not judged a second time
		} else if success && cand != nil && exp.valid {
			newModel = cand
			// a successful edit is what subsequent reads return
			if ep, d := diffReads(post.Reads, exp.reads); ep != "" {
				addViol(i, op.Kind+"/accepted-"+epClass(ep)+"-differs",
					fmt.Sprintf("after the accepted edit, GET %s does not return the edited configuration: %s", ep, hist), d)
			} else if !snapSame(post.Snap, exp.snap) {
				addViol(i, op.Kind+"/accepted-running-conf-differs",
					"after the accepted edit, the running configuration is not the edited configuration: "+hist,
					firstDiff(canonSnap(post.Snap), canonSnap(exp.snap)))
			} else if ep, d := echoDiff(cand, post.Reads, w.names); ep != "" {
				// the same sentence of the statement judged without conf.Load (which shares the merge code with the
				// API edits): the fields of the reference state must come back from the reads
				addViol(i, op.Kind+"/accepted-"+epClass(ep)+"-lacks-edited-field",
					fmt.Sprintf("after the accepted edit, GET %s does not return the fields that were set: %s", ep, hist), d)
			}
		} else {
			// a failed (or wrongly accepted) edit leaves the running configuration unchanged
			if ep, d := diffReads(post.Reads, pre.Reads); ep != "" {
				addViol(i, op.Kind+"/rejected-changed-"+epClass(ep),
					fmt.Sprintf("after the rejected edit, GET %s changed: %s", ep, hist), d)
			} else if !snapSame(post.Snap, pre.Snap) {
				addViol(i, op.Kind+"/rejected-changed-running-conf",
					"the rejected edit changed the running configuration: "+hist, firstDiff(canonSnap(post.Snap), canonSnap(pre.Snap)))
			}
		}
		or.Tainted = len(res.Viols) > nViolBefore
		if or.Changed || newModel != job.Model {
			or.NewModel = newModel
		}
		// coverage class: kind, shape of the target before the edit, request, outcome
		shape := "-"
		if op.Name != "" {
			if f, ok := job.Model.Paths[op.Name]; ok {
				shape = fmt.Sprintf("exists/%d", len(f))
			} else {
				shape = "missing"
			}
		}
		outcome := "rejected"
		switch {
		case success:
			outcome = "accepted"
		case vd == mustFail:
			outcome = "failed:" + why
		case exp != nil && !exp.valid:
			outcome = "rejected-invalid"
		}
		or.Class = fmt.Sprintf("%s|%s|%s|%s|%s", op.Kind, op.Name, shape, op.Payload, outcome)
		if !job.Base.Rendered && len(job.Prefix) == 0 {
			// the new dimension: the edit applied directly to a configuration loaded from a file text
			or.Class = "base=" + job.Base.ID + "|" + or.Class
		}
		emit(or, nViolBefore)

		switch {
		case !or.Changed:
			pre = post
		case i == len(job.Ops)-1:
			l.close()
			l = nil
		case job.Taint == "" && !or.Tainted && newModel != job.Model && w.undo(l, job, op, newModel, res.NodeKey):
			// back in this node's state through the inverse edit (verified on the state key, the same
			// criterion by which the search merges states): the next op needs no fresh Core
			res.Undos++
			pre = nodeObs
		default:
			// the next op needs this node's state again
			l.close()
			l = nil
		}
	}
	if l != nil {
		l.close()
	}
	return res
}

// defaults of the fields the alphabet patches globally / in the path defaults (for inverse edits only)
var fieldDefaults = map[string]string{
	"readTimeout": `"10s"`, "logLevel": `"info"`, "writeQueueSize": `512`,
	"maxReaders": `0`, "record": `false`, "sourceOnDemand": `false`, "recordDeleteAfter": `"24h"`,
	"logFile": `"mediamtx.log"`, "webrtcIPsFromInterfaces": `true`, "apiAllowOrigins": `["*"]`, "rtspUDPSourcePortRange": `[32768,60999]`, "rpiCameraAWBGains": `[0,0]`,
}

// inverse returns the edit that leads from after (= before + op) back to before, if there is one in the API.
func inverse(before *Model, op Op) (Op, bool) {
	fieldsJSON := func(f fields) string {
		b, _ := json.Marshal(f)
		return string(b)
	}
	back := func(cur fields, payload string) (string, bool) {
		var req fields
		if json.Unmarshal([]byte(payload), &req) != nil {
			return "", false
		}
		out := fields{}
		for k := range req {
			if v, ok := cur[k]; ok {
				out[k] = v
			} else if d, ok := fieldDefaults[k]; ok {
				out[k] = json.RawMessage(d)
			} else {
				return "", false
			}
		}
		return fieldsJSON(out), true
	}
	switch op.Kind {
	case "add":
		return Op{Kind: "delete", Name: op.Name}, true
	case "delete":
		return Op{Kind: "add", Name: op.Name, Payload: fieldsJSON(before.Paths[op.Name])}, true
	case "patch", "replace":
		if old, ok := before.Paths[op.Name]; ok {
			return Op{Kind: "replace", Name: op.Name, Payload: fieldsJSON(old)}, true
		}
		return Op{Kind: "delete", Name: op.Name}, true
	case "global":
		p, ok := back(before.Global, op.Payload)
		return Op{Kind: "global", Payload: p}, ok
	case "pathdefaults":
		p, ok := back(before.Defaults, op.Payload)
		return Op{Kind: "pathdefaults", Payload: p}, ok
	}
	return Op{}, false
}

// undo sends the inverse edit and reports whether the Core is back in the node's state.
func (w *workerState) undo(l *live, job *Job, op Op, after *Model, nodeKey string) bool {
	inv, ok := inverse(job.Model, op)
	if !ok {
		return false
	}
	method, path := inv.Request()
	st, _, err := l.do(method, path, inv.Payload)
	if err != nil || st != 200 {
		return false
	}
	if !l.barrier() {
		return false
	}
	if inv.Kind == "global" {
		l.tr.CloseIdleConnections()
	}
	return hashOf(snapOf(l.p.APIConfigSnapshot())) == nodeKey
}

// readProgress returns what a dead worker completed of job id: ok is false when the node's state was not reached.
func readProgress(tmp string, id int) (*JobResult, bool) {
	files, _ := filepath.Glob(filepath.Join(tmp, "w*", fmt.Sprintf("progress-%d.jsonl", id)))
	if len(files) == 0 {
		return nil, false
	}
	buf, err := os.ReadFile(files[0])
	for _, f := range files {
		os.Remove(f)
	}
	if err != nil {
		return nil, false
	}
	res := &JobResult{}
	ok := false
	for _, line := range bytes.Split(buf, []byte("\n")) {
		var l struct {
			NodeKey  string    `json:"nodeKey"`
			StartKey string    `json:"startKey"`
			Result   *OpResult `json:"result"`
			Viols    []Viol    `json:"viols"`
		}
		if json.Unmarshal(line, &l) != nil {
			continue // the line that was being written
		}
		if l.Result == nil {
			if l.NodeKey != "" {
				res.NodeKey, res.StartKey, ok = l.NodeKey, l.StartKey, true
			}
			continue
		}
		res.Results = append(res.Results, *l.Result)
		res.Viols = append(res.Viols, l.Viols...)
	}
	return res, ok
}

func c12short(s string, n int) string {
	s = strings.TrimSpace(s)
	if len(s) > n {
		return s[:n] + "…"
	}
	return s
}

func workerMain(idx int, tmp string) {
	dir := filepath.Join(tmp, fmt.Sprintf("w%d", idx))
	if err := os.MkdirAll(dir, 0o755); err != nil {
		fmt.Fprintln(os.Stderr, err)
		os.Exit(2)
	}
	_ = os.Chdir(dir)
	_ = os.MkdirAll(filepath.Join(dir, "exp"), 0o755)
	port, err := c12lib.PickBlock(24000, idx, 4, 1)
	w := &workerState{idx: idx, dir: dir, port: port, expMemo: map[string]*expected{}}
	w.base = baseConf(port)
	c12lib.WorkerLoop(func(raw json.RawMessage) any {
		if err != nil {
			return &JobResult{HarnessError: err.Error()}
		}
		var job Job
		if e := json.Unmarshal(raw, &job); e != nil {
			return &JobResult{HarnessError: "bad job: " + e.Error()}
		}
		return w.run(&job)
	})
}
