package main

import (
	"encoding/json"
	"fmt"
	"net/url"
	"sort"
)

// ---- operation alphabet -------------------------------------------------------------------------

// Op is one Control API configuration edit.
type Op struct {
	Kind    string `json:"kind"` // add | patch | replace | delete | global | pathdefaults
	Name    string `json:"name,omitempty"`
	Payload string `json:"payload,omitempty"` // JSON text sent as request body
	// Leaf edits are applied in every reached state like all the others, but the states they lead to are
	// not expanded further (quick tier only; in the thorough tier every edit is a full member of the alphabet).
	Leaf bool `json:"leaf,omitempty"`
	// Only: the edit addresses a path name outside pathNames and is applied only in the states reached from a
	// base configuration that declares that name (bases.go); "" = applied everywhere.
	Only string `json:"only,omitempty"`
}

func (o Op) String() string {
	switch o.Kind {
	case "delete":
		return fmt.Sprintf("delete(%s)", o.Name)
	case "global", "pathdefaults":
		return fmt.Sprintf("%s%s", o.Kind, o.Payload)
	}
	return fmt.Sprintf("%s(%s)%s", o.Kind, o.Name, o.Payload)
}

// Method and URL path of the edit.
func (o Op) Request() (method, path string) {
	n := url.PathEscape(o.Name)
	switch o.Kind {
	case "add":
		return "POST", "/v3/config/paths/add/" + n
	case "patch":
		return "PATCH", "/v3/config/paths/patch/" + n
	case "replace":
		return "POST", "/v3/config/paths/replace/" + n
	case "delete":
		return "DELETE", "/v3/config/paths/delete/" + n
	case "global":
		return "PATCH", "/v3/config/global/patch"
	case "pathdefaults":
		return "PATCH", "/v3/config/pathdefaults/patch"
	}
	panic("bad op kind " + o.Kind)
}

var pathNames = []string{"p1", "p2", "~^r(.*)$", "bad name"}

func alphabet(thorough bool) []Op {
	pathPayloads := []string{
		`{}`,
		`{"maxReaders":2}`,
		`{"record":true}`,
		`{"recordPath":"bad"}`, // invalid whatever the rest is
		`{"source":"rtsp://h/$G1","sourceOnDemand":true}`,
		`{"sourceOnDemand":true}`, // invalid on a publisher path, valid on top of a static source
		`{"unknownField":1}`,      // not decodable
	}
	globalPayloads := []string{
		`{"readTimeout":"5s"}`,
		`{"readTimeout":"0s"}`, // invalid
		`{"logLevel":"debug"}`,
		`{"unknownField":1}`,
	}
	defaultsPayloads := []string{
		`{"maxReaders":3}`,
		`{"recordDeleteAfter":"1s"}`, // invalid with the default segment duration
		`{"sourceOnDemand":true}`,    // invalid as long as one path has source publisher
	}
	if thorough {
		pathPayloads = append(pathPayloads,
			`{"rtspUDPSourcePortRange":[10000,10100]}`,                            // slice-valued field
			`{"maxReaders":2,"recordPath":"bad"}`,                                 // valid and invalid field in one request
			`{"alwaysAvailable":true,"alwaysAvailableTracks":[{"codec":"H264"}]}`, // nested value; invalid on a regexp path only
			`{"source":"rtsp://127.0.0.1:9/x"}`,                                   // completes an earlier {"sourceOnDemand":true}
		)
		globalPayloads = append(globalPayloads, `{"writeQueueSize":1024}`, `{"writeQueueSize":1000}`)
		defaultsPayloads = append(defaultsPayloads, `{"record":true}`)
	}
	// Fields that are PRESENT in the request with the zero value of their type (0, false, "", empty list): "changes
	// exactly the fields present" makes them overwrite like any other value, while a merge that decides presence
	// by looking at the value (nil/zero/empty = absent) drops them. The fields are chosen so that the value they
	// must replace is non-zero in the base configuration already (rpiCameraAWBGains defaults to [0, 0],
	// rtspUDPSourcePortRange to [32768, 60999], apiAllowOrigins to ["*"], logFile to "mediamtx.log",
	// webrtcIPsFromInterfaces to true; maxReaders is 1 in the base path) and that the zero value is a valid
	// configuration without an effect on the (disabled) servers. rpiCameraAWBGains is only looked at by Validate and by
	// the server when the source is a camera. An empty rtspUDPSourcePortRange (thorough tier) passes Validate whatever
	// the source is, although a running RTSP source cannot work with it.
	zeroPath := []string{`{"maxReaders":0,"record":false,"rpiCameraAWBGains":[]}`}
	zeroGlobal := []string{`{"logFile":"","webrtcIPsFromInterfaces":false,"apiAllowOrigins":[]}`}
	zeroDefaults := []string{`{"maxReaders":0,"rpiCameraAWBGains":[]}`}
	if thorough {
		zeroPath = []string{
			`{"rpiCameraAWBGains":[]}`,      // list of scalars: replaces the default [0,0]
			`{"rtspUDPSourcePortRange":[]}`, // the same, replaces [10000,10100] or the default; read by a running RTSP source
			`{"maxReaders":0,"record":false}`,
			`{"alwaysAvailableTracks":[]}`, // list of structures: invalid on top of {"alwaysAvailable":true}
		}
		zeroGlobal = []string{`{"apiAllowOrigins":[]}`, `{"apiAllowOrigins":["https://a.example"]}`, `{"logFile":"","webrtcIPsFromInterfaces":false}`}
		zeroDefaults = []string{`{"rtspUDPSourcePortRange":[]}`, `{"maxReaders":0,"rpiCameraAWBGains":[]}`}
	}
	var ops []Op
	for _, k := range []string{"add", "patch", "replace"} {
		for _, n := range pathNames {
			for pi, p := range pathPayloads {
				if !thorough {
					// quick tier: the regexp name only with the payloads whose validity depends on it, the invalid
					// name only where a name is introduced (for patch and delete it is one more missing name)
					if n == "~^r(.*)$" && pi != 0 && pi != 4 && pi != 5 {
						continue
					}
					if n == "bad name" && (pi != 0 || k == "patch") {
						continue
					}
				}
				ops = append(ops, Op{Kind: k, Name: n, Payload: p})
			}
		}
	}
	for _, n := range pathNames {
		if !thorough && n == "bad name" {
			continue
		}
		ops = append(ops, Op{Kind: "delete", Name: n})
	}
	for _, p := range globalPayloads {
		ops = append(ops, Op{Kind: "global", Payload: p})
	}
	for _, p := range defaultsPayloads {
		ops = append(ops, Op{Kind: "pathdefaults", Payload: p})
	}
	// the zero-valued edits come last (the indices of the other edits do not depend on them); in the quick tier they
	// are leaves and are sent to the two plain names only
	leaf := !thorough
	for _, k := range []string{"add", "patch", "replace"} {
		for _, n := range pathNames {
			if !thorough && n != "p1" && n != "p2" {
				continue
			}
			for _, p := range zeroPath {
				ops = append(ops, Op{Kind: k, Name: n, Payload: p, Leaf: leaf})
			}
		}
	}
	for _, p := range zeroGlobal {
		ops = append(ops, Op{Kind: "global", Payload: p, Leaf: leaf})
	}
	for _, p := range zeroDefaults {
		ops = append(ops, Op{Kind: "pathdefaults", Payload: p, Leaf: leaf})
	}
	// a payload refused by the DECODER (a value of the wrong type) that also carries a valid field: the request must
	// fail as a whole. For patch, global and pathdefaults a refused payload that carries nothing else is invisible
	// when a handler goes on after the refusal (an empty patch changes nothing); add and replace show it with
	// {"unknownField":1} alone. An unknown field is refused before anything is decoded, a wrong type while the
	// fields are being decoded (in no fixed order: on a broken tree the valid field is applied in some states and
	// not in others; on a correct one the answer is always a failure that changes nothing). Failing edits have no
	// successor: leaf or not is the same.
	ops = append(ops,
		Op{Kind: "patch", Name: "p1", Payload: `{"maxReaders":2,"record":"x"}`, Leaf: leaf},
		Op{Kind: "global", Payload: `{"logLevel":"debug","rtsp":"x"}`, Leaf: leaf}, // the zero value left behind by the refused field is valid
		Op{Kind: "pathdefaults", Payload: `{"maxReaders":3,"record":"x"}`, Leaf: leaf})
	// edits on the names that only some base configurations declare (bases.go); they come after everything else so
	// that the indices of the other edits do not depend on them. all_others is an alias of the regexp ~^.*$.
	for _, n := range extraNames {
		pl := pathPayloads
		if !thorough {
			pl = []string{pathPayloads[0], pathPayloads[1], pathPayloads[3], pathPayloads[4], pathPayloads[5], pathPayloads[6]}
		}
		for _, k := range []string{"add", "patch", "replace"} {
			for _, p := range pl {
				ops = append(ops, Op{Kind: k, Name: n, Payload: p, Only: n})
			}
		}
		ops = append(ops, Op{Kind: "delete", Name: n, Only: n})
		for _, k := range []string{"patch", "replace"} {
			ops = append(ops, Op{Kind: k, Name: n, Payload: zeroPath[0], Leaf: leaf, Only: n})
		}
	}
	return ops
}

// ---- reference model: written from the statement only -----------------------------------------------
//
// The configuration is three maps of JSON fields. An edit produces a candidate configuration:
//   global / pathdefaults / path patch: the fields present in the request overwrite, nothing else changes;
//   add: fails on an existing name, otherwise the path has exactly the given fields;
//   replace: the path has exactly the given fields;
//   delete: fails on a missing name.
// The candidate is committed iff it is a valid configuration (decided differentially: rendered to a
// file and loaded from scratch by conf.Load, see worker.go); otherwise nothing changes.

type fields map[string]json.RawMessage

// Model is the reference configuration state.
type Model struct {
	Global   fields            `json:"global"`
	Defaults fields            `json:"defaults"`
	Paths    map[string]fields `json:"paths"`
}

func (m *Model) clone() *Model {
	c := &Model{Global: fields{}, Defaults: fields{}, Paths: map[string]fields{}}
	for k, v := range m.Global {
		c.Global[k] = v
	}
	for k, v := range m.Defaults {
		c.Defaults[k] = v
	}
	for n, f := range m.Paths {
		nf := fields{}
		for k, v := range f {
			nf[k] = v
		}
		c.Paths[n] = nf
	}
	return c
}

// Key is a canonical rendering of the model state.
func (m *Model) Key() string {
	buf, _ := json.Marshal(m) // maps are marshaled with sorted keys
	return string(buf)
}

type verdict int

const (
	mustFail     verdict = iota // the statement requires the edit to fail and to change nothing
	mustValidate                // the edit succeeds iff the candidate is valid
	dontCare                    // the statement leaves the outcome open: follow the implementation,
	// but a success must produce exactly the candidate and a failure must change nothing
)

// Candidate computes what the statement says about op in state m.
// It returns the candidate state (nil when the edit must fail) and the verdict class.
func (m *Model) Candidate(op Op) (*Model, verdict, string) {
	var req fields
	if op.Kind != "delete" {
		if err := json.Unmarshal([]byte(op.Payload), &req); err != nil {
			return nil, mustFail, "payload is not a JSON object"
		}
	}
	c := m.clone()
	switch op.Kind {
	case "global":
		for k, v := range req {
			c.Global[k] = v
		}
		return c, mustValidate, ""
	case "pathdefaults":
		for k, v := range req {
			c.Defaults[k] = v
		}
		return c, mustValidate, ""
	case "add":
		if _, ok := m.Paths[op.Name]; ok {
			return nil, mustFail, "add on an existing name"
		}
		c.Paths[op.Name] = req
		return c, mustValidate, ""
	case "patch":
		cur, ok := c.Paths[op.Name]
		if !ok {
			// the statement does not say what a patch of a missing name does
			c.Paths[op.Name] = req
			return c, dontCare, "patch of a missing name"
		}
		for k, v := range req {
			cur[k] = v
		}
		return c, mustValidate, ""
	case "replace":
		_, existed := c.Paths[op.Name]
		c.Paths[op.Name] = req
		if !existed {
			// the statement does not say whether replace creates a missing path
			return c, dontCare, "replace of a missing name"
		}
		return c, mustValidate, ""
	case "delete":
		if _, ok := m.Paths[op.Name]; !ok {
			return nil, mustFail, "delete of a missing name"
		}
		delete(c.Paths, op.Name)
		return c, mustValidate, ""
	}
	panic("bad op")
}

// Render produces the configuration file content (a JSON document, which is YAML) of the model state
// on top of the fixed base settings.
func (m *Model) Render(base map[string]any) []byte {
	doc := map[string]any{}
	for k, v := range base {
		doc[k] = v
	}
	for k, v := range m.Global {
		doc[k] = v
	}
	if len(m.Defaults) > 0 {
		doc["pathDefaults"] = m.Defaults
	}
	paths := map[string]any{}
	for n, f := range m.Paths {
		paths[n] = f
	}
	doc["paths"] = paths
	buf, err := json.Marshal(doc)
	if err != nil {
		panic(err)
	}
	return buf
}

func sortedNames(m map[string]fields) []string {
	var out []string
	for n := range m {
		out = append(out, n)
	}
	sort.Strings(out)
	return out
}
