package main

import (
	"encoding/json"
	"fmt"
	"sort"
	"strings"
)

// ---- base configurations: the shape in which the configuration the edits start from was WRITTEN -------------
//
// The statement quantifies over edit sequences; it does not say from where. A server is started from a FILE, and
// the same set of paths can be written in several ways that the loader does not treat alike internally: a path
// declared with an empty body ("cam:", which is "cam: null") leaves a nil entry in the map of optional paths that
// Conf.Validate has to complete, "cam: {}" and a path with one setting do not; "paths:" can be absent, null or an
// empty map; the same for pathDefaults; the stock file ends with "all_others:" (empty body). Every base below is a
// YAML TEXT loaded by the real Core (core.New -> conf.Load -> yamlwrapper -> Validate), next to the historical
// base (the reference state rendered as a JSON document). The reference state of a base is written here by hand
// from the meaning of the YAML text (a path that is declared has exactly the fields written in its body).
//
// Every edit of the alphabet is applied to the loaded base (always), and in every state reached from it by
// fewer than baseDepth edits; states are merged with the ones of the main search when both the running
// configuration and the reference state are equal.

// extraNames are the path names, beyond pathNames, that some base configurations declare. The edits on them
// (Op.Only) are applied only in the states reached from those bases, and their reads are taken only there.
var extraNames = []string{"all_others"}

// BaseConf is one starting configuration.
type BaseConf struct {
	ID string `json:"id"`
	// Rendered: the base is the reference state rendered as a JSON document (the historical base of this check).
	Rendered bool `json:"rendered,omitempty"`
	// Text is the YAML text that follows the fixed header (API listener only) in the configuration file.
	Text  string   `json:"text,omitempty"`
	Extra []string `json:"extra,omitempty"`
	Model *Model   `json:"-"` // reference state of the loaded base (the search's root state for this base)
}

func (b *BaseConf) describe() string {
	if b.Rendered {
		return "api only, paths: {p1: {maxReaders: 1}}"
	}
	return fmt.Sprintf("configuration file (YAML, base %s): api only, then %q", b.ID, b.Text)
}

func (b *BaseConf) names() []string {
	return append(append([]string(nil), pathNames...), b.Extra...)
}

func (b *BaseConf) declares(name string) bool {
	for _, n := range b.Extra {
		if n == name {
			return true
		}
	}
	return false
}

func allNames() []string {
	return append(append([]string(nil), pathNames...), extraNames...)
}

// headerYAML is the fixed part of a YAML base: block style, one setting per line.
func headerYAML(base map[string]any) string {
	var keys []string
	for k := range base {
		keys = append(keys, k)
	}
	sort.Strings(keys)
	var sb strings.Builder
	sb.WriteString("# C12 base configuration\n")
	for _, k := range keys {
		fmt.Fprintf(&sb, "%s: %v\n", k, base[k])
	}
	sb.WriteString("\n")
	return sb.String()
}

const regexpName = "~^r(.*)$"

func bases() []*BaseConf {
	num := func(s string) json.RawMessage { return json.RawMessage(s) }
	mk := func(id, text string, defaults fields, paths map[string]fields, extra ...string) *BaseConf {
		m := &Model{Global: fields{}, Defaults: fields{}, Paths: map[string]fields{}}
		for k, v := range defaults {
			m.Defaults[k] = v
		}
		for n, f := range paths {
			nf := fields{}
			for k, v := range f {
				nf[k] = v
			}
			m.Paths[n] = nf
		}
		return &BaseConf{ID: id, Text: text, Model: m, Extra: extra}
	}
	none := map[string]fields{}
	p1Empty := map[string]fields{"p1": {}}
	p1One := map[string]fields{"p1": {"maxReaders": num("1")}}
	return []*BaseConf{
		{ID: "rendered-json", Rendered: true, Model: initialModel()},
		// one path, no setting: the four ways to write it
		mk("p1-empty-body", "paths:\n  p1:\n", nil, p1Empty),
		mk("p1-empty-map", "paths:\n  p1: {}\n", nil, p1Empty),
		mk("p1-null", "paths:\n  p1: null\n", nil, p1Empty),
		mk("p1-tilde", "paths:\n  p1: ~\n", nil, p1Empty),
		// one path, one setting, block style (the rendered base is the same state written as JSON)
		mk("p1-one-setting", "paths:\n  p1:\n    maxReaders: 1\n", nil, p1One),
		// no path at all: the three ways to write it
		mk("paths-absent", "# no paths section\n", nil, none),
		mk("paths-empty-map", "paths: {}\n", nil, none),
		mk("paths-empty-body", "paths:\n", nil, none),
		// pathDefaults empty body / empty map / one setting, each with a path without settings
		mk("pathdefaults-empty-body", "pathDefaults:\npaths:\n  p1:\n", nil, p1Empty),
		mk("pathdefaults-empty-map", "pathDefaults: {}\npaths:\n  p1: {}\n", nil, p1Empty),
		mk("pathdefaults-one-setting", "pathDefaults:\n  maxReaders: 3\npaths:\n  p1:\n", fields{"maxReaders": num("3")}, p1Empty),
		// a regular expression entry and the catch-all entry with an empty body (the stock file ends like this)
		mk("regexp-empty-body", "paths:\n  \""+regexpName+"\":\n", nil, map[string]fields{regexpName: {}}),
		mk("all_others-empty-body", "paths:\n  all_others:\n", nil, map[string]fields{"all_others": {}}, "all_others"),
		mk("stock-shape", "paths:\n  p1:\n    maxReaders: 1\n\n  # settings under all_others are applied to all paths not matched by another entry\n  all_others:\n",
			nil, map[string]fields{"p1": {"maxReaders": num("1")}, "all_others": {}}, "all_others"),
		// all the shapes in one file
		mk("mixed", "paths:\n  p1:\n  p2:\n    maxReaders: 1\n  \""+regexpName+"\": {}\n  all_others: null\n",
			nil, map[string]fields{"p1": {}, "p2": {"maxReaders": num("1")}, regexpName: {}, "all_others": {}}, "all_others"),
	}
}

// fileContent is what is written to the configuration file the Core is started from.
func (b *BaseConf) fileContent(base map[string]any) []byte {
	if b.Rendered {
		return initialModel().Render(base)
	}
	return []byte(headerYAML(base) + b.Text)
}
