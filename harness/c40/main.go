// C40: concurrent operation is deadlock-free (every operation, including shutdown, completes) -- decided by
// Engine S on the real pathManager + path + stream + staticsources.Handler -- and race-free -- NOT decidable by
// this family: the same bodies are run un-instrumented under the Go race detector (a report is a real race,
// silence proves nothing).
package main

import (
	"github.com/bluenviron/mediamtx/internal/zzverif/pmlib"
	"github.com/bluenviron/mediamtx/internal/zzverif/vcommon"
	"github.com/bluenviron/mediamtx/internal/zzverif/vexplore"
)

func main() {
	static := pmlib.LoadConf("paths:\n  p:\n    overridePublisher: yes\n")
	staticCold := pmlib.LoadConf("paths:\n  p:\n    overridePublisher: yes\n    maxReaders: 9\n")
	staticHot := pmlib.LoadConf("paths:\n  p:\n    overridePublisher: yes\n    recordPath: /tmp/verif-never/%path/%Y-%m-%d_%H-%M-%S-%f\n")
	re := pmlib.LoadConf("paths:\n  \"~^p\":\n    overridePublisher: yes\n")
	none := pmlib.LoadConf("paths: {}\n")
	bg := []string{"dumper.go"}
	mk := func(name, desc string, sp pmlib.ConcSpec, qb, tb int) *vexplore.Scenario {
		return &vexplore.Scenario{Name: name, Desc: desc, Body: pmlib.ConcBody(sp), Check: pmlib.CheckCompletes,
			QuickBound: qb, ThoroughBound: tb, Horizon: 30000, Bg: bg}
	}
	staticHot2 := pmlib.LoadConf("paths:\n  p:\n    overridePublisher: yes\n    recordPath: /tmp/verif-never/two/%path/%Y-%m-%d_%H-%M-%S-%f\n")
	scn := []*vexplore.Scenario{
		mk("two-hot-reloads-vs-attach", "two hot reloads back to back while a publisher attaches (the path calls back into the manager), a reader and an API get arrive; then shutdown",
			pmlib.ConcSpec{Base: static, Reload: staticHot, Reload2: staticHot2, Name: "p", Publisher: true, Reader: true, APIGet: true}, 2, 3),
		mk("params-vs-api", "publisher writing key frames with changing in-band parameters while the API reads the path (description copy); mainly for the race pass",
			pmlib.ConcSpec{Base: static, Name: "p", PrePublish: true, Publisher: true, Params: true, APIGet: true, APIList: true}, 1, 2),
		mk("recreate-vs-clients", "publisher+reader attached; concurrently: recreating reload, new publisher, new reader, API list, API get; then shutdown",
			pmlib.ConcSpec{Base: static, Reload: staticCold, Name: "p", PrePublish: true, Publisher: true, Reader: true, APIList: true, APIGet: true}, 1, 2),
		mk("hot-reload-vs-kick", "publisher+reader attached; concurrently: hot reload, kick of both, describe, API list; then shutdown",
			pmlib.ConcSpec{Base: static, Reload: staticHot, Name: "p", PrePublish: true, Kick: true, Describe: true, APIList: true}, 1, 2),
		mk("shutdown-vs-everything", "publisher+reader attached; shutdown races with a new publisher, reader, describe, API get and a recreating reload",
			pmlib.ConcSpec{Base: static, Reload: staticCold, Name: "p", PrePublish: true, Publisher: true, Reader: true, Describe: true, APIGet: true, CloseAtOnce: true}, 1, 2),
		mk("regexp-idle-close", "regexp path: describe/reader/publisher/API list race with the path closing itself when idle; then shutdown",
			pmlib.ConcSpec{Base: re, Name: "px", Publisher: true, Reader: true, Describe: true, APIList: true}, 2, 3),
		mk("conf-removed-vs-clients", "publisher+reader attached on a regexp path; the configuration is removed while a publisher, a reader and an API get arrive",
			pmlib.ConcSpec{Base: re, Reload: none, Name: "px", PrePublish: true, Publisher: true, Reader: true, APIGet: true}, 1, 2),
	}
	od := pmlib.LoadConf("paths:\n  p:\n    runOnDemand: vcmd demand\n    runOnDemandStartTimeout: 10s\n    runOnDemandCloseAfter: 10s\n")
	odCold := pmlib.LoadConf("paths:\n  p:\n    maxReaders: 9\n    runOnDemand: vcmd demand\n    runOnDemandStartTimeout: 10s\n    runOnDemandCloseAfter: 10s\n")
	scn = append(scn,
		mk("ondemand-held-vs-recreate", "runOnDemand path: a reader and a describe request are put on hold; concurrently a reload recreates the path, a publisher arrives, the API reads the path; then shutdown",
			pmlib.ConcSpec{Base: od, Reload: odCold, Name: "p", Reader: true, Describe: true, Publisher: true, APIGet: true}, 1, 2),
		mk("ondemand-held-vs-removed", "same, the configuration of the path is removed",
			pmlib.ConcSpec{Base: od, Reload: none, Name: "p", Reader: true, Describe: true, APIList: true}, 2, 3),
		mk("ondemand-held-vs-shutdown", "runOnDemand path: shutdown races with requests being put on hold",
			pmlib.ConcSpec{Base: od, Name: "p", Reader: true, Describe: true, CloseAtOnce: true}, 2, 3),
	)
	stConf := pmlib.LoadConf("paths:\n  p:\n    source: rpiCamera\n    sourceOnDemand: yes\n    sourceOnDemandStartTimeout: 10s\n    sourceOnDemandCloseAfter: 10s\n")
	scn = append(scn, &vexplore.Scenario{Name: "ondemand-static-source-fails", Desc: "on-demand static source that serves a reader and a describe request and then FAILS (its own Run reports not-ready and returns an error, as the real protocol clients do); a late reader; shutdown",
		Body: pmlib.DemandBody(stConf, pmlib.DemandSpec{Static: true, Blocking: true, Fails: true, Source: true, SourceGoes: true, Describe: true, Late: true}), Check: pmlib.CheckCompletes,
		QuickBound: 1, ThoroughBound: 2, Horizon: 30000, Bg: bg, BgTimers: []string{"staticsources/handler.go"}})
	for _, s := range scn[len(scn)-4:] {
		s.NoRacePass = true // start timeouts are real time there
	}
	extra := func(r *vcommon.Run) (int64, int64, int64, string) {
		reps := 40
		if r.Thorough() {
			reps = 300
		}
		vexplore.RacePass(r, reps)
		return 0, 0, 0, "race pass (not model checking): the same scenario bodies un-instrumented under -race, free-running, " +
			"runs are reported as race_pass_runs; a race report fails the check, absence of a report is not a proof"
	}
	vexplore.MainWith("C40", scn, []string{
		"completion/deadlock-freedom is decided on the instrumented real code within the deviation bound",
		"data-race freedom is NOT decided by model checking here: memory accesses are not scheduling points; the free-running -race pass can only refute",
		"clients are fake sessions; the protocol servers' own goroutines are outside the harness",
	}, extra)
}
