// Package vexplore is the stateless, deviation-bounded depth-first explorer of Engine S and its
// process-sharded driver. A harness registers Scenarios (a body run as task 0 on the real,
// instrumented repository code, an oracle on the observation trace, optionally an invariant
// evaluated after every scheduler step) and calls Main.
//
// Every execution is a real run of the implementation under vsched's controlled scheduler;
// alternative 0 at each choice point continues the running task (or the lowest task id / the
// earliest timer); every other alternative is a *deviation* (a preemption, a timer landing
// first, a non-first ready select case). All executions with at most `bound` deviations are
// enumerated exactly once, bounds are iterated 0,1,2,...
package vexplore

import (
	"bufio"
	"encoding/json"
	"fmt"
	"hash/fnv"
	"os"
	"os/exec"
	"runtime"
	"sort"
	"strings"
	"sync"
	"syscall"
	"time"

	"github.com/bluenviron/mediamtx/internal/zzverif/vcommon"
	"github.com/bluenviron/mediamtx/zzverif/vsched"
)

// Scenario is one closed system to explore.
type Scenario struct {
	Name          string
	Desc          string
	QuickBound    int
	ThoroughBound int
	Horizon       int
	Bg            []string
	BgTimers      []string
	// MinOutcomes: the run is rejected as vacuous if fewer distinct outcomes are reached (0 = no such check).
	MinOutcomes int
	// Body runs as task 0 on a fresh fixture it creates itself.
	Body func()
	// Invariant (optional) is evaluated after every scheduler step while all tasks are parked.
	Invariant func() string
	// Check is the oracle on a completed execution: returns a stable violation class key and a
	// description, or "" if the property held. Scheduler failures (deadlock, panic, horizon) are
	// passed in o.Failure; Check decides whether they violate the property.
	Check func(o *vsched.Outcome) (key, what string)
	// OutcomeKey (optional) canonicalises an execution for the distinct-outcome count
	// (default: the whole observation trace).
	OutcomeKey func(o *vsched.Outcome) string
	// QuickBudget / ThoroughBudget: wall-clock budget of the exploration; when exceeded the run
	// stops with exhaustive=false at the last completed bound (never a failure).
	QuickBudget, ThoroughBudget time.Duration
	// ThoroughOnly scenarios are skipped by the quick tier. Quiet scenarios print no per-scenario line and are
	// summarised by family (the part of the name before "::") in the evidence.
	ThoroughOnly, Quiet bool
	// NoRacePass: skipped by the free-running race pass (scenarios that wait for timers, which are real there).
	NoRacePass bool
}

type failure struct {
	Key        string   `json:"key"`
	What       string   `json:"what"`
	Choices    []int    `json:"choices"`
	Trace      []string `json:"trace"`
	Deviations int      `json:"deviations"`
	Confirmed  int      `json:"confirmed"`
	Scenario   string   `json:"scenario"`
}

type job struct {
	Scn    string `json:"scn"`
	Prefix []int  `json:"prefix"`
	Used   int    `json:"used"`
	Bound  int    `json:"bound"`
	Det    bool   `json:"det,omitempty"` // whole-scenario job: also run the determinism double-run
}

type result struct {
	Execs     int64              `json:"execs"`
	Steps     int64              `json:"steps"`
	Points    int64              `json:"points"`
	MaxPoints int                `json:"maxpoints"`
	Outcomes  map[uint64]string  `json:"outcomes"` // hash -> short sample (only first few carry text)
	Fails     map[string]failure `json:"fails"`
	Hist      map[int]int64      `json:"hist"`
	Err       string             `json:"err,omitempty"`
}

func newResult() *result {
	return &result{Outcomes: map[uint64]string{}, Fails: map[string]failure{}, Hist: map[int]int64{}}
}

func (r *result) merge(o *result) {
	r.Execs += o.Execs
	r.Steps += o.Steps
	r.Points += o.Points
	if o.MaxPoints > r.MaxPoints {
		r.MaxPoints = o.MaxPoints
	}
	for k, v := range o.Outcomes {
		if old, ok := r.Outcomes[k]; !ok || (old == "" && v != "") {
			r.Outcomes[k] = v
		}
	}
	for k, f := range o.Fails {
		if old, ok := r.Fails[k]; !ok || f.Deviations < old.Deviations {
			r.Fails[k] = f
		}
	}
	for k, v := range o.Hist {
		r.Hist[k] += v
	}
	if o.Err != "" && r.Err == "" {
		r.Err = o.Err
	}
}

func opts(s *Scenario, labels bool) vsched.Options {
	return vsched.Options{Horizon: s.Horizon, Bg: s.Bg, BgTimers: s.BgTimers, Invariant: s.Invariant, Labels: labels}
}

func hashStr(s string) uint64 {
	h := fnv.New64a()
	h.Write([]byte(s))
	return h.Sum64()
}

func outcomeKey(s *Scenario, o *vsched.Outcome) string {
	if s.OutcomeKey != nil {
		return s.OutcomeKey(o)
	}
	k := strings.Join(o.Trace, "|")
	if o.Failure != "" {
		k += "|FAIL:" + firstLine(o.Failure)
	}
	return k
}

func firstLine(s string) string {
	if i := strings.IndexByte(s, '\n'); i >= 0 {
		return s[:i]
	}
	return s
}

// judge runs the oracle on one execution and records it.
func judge(s *Scenario, o *vsched.Outcome, used int, res *result) {
	res.Execs++
	res.Steps += int64(o.Steps)
	res.Points += int64(len(o.Choices))
	if len(o.Choices) > res.MaxPoints {
		res.MaxPoints = len(o.Choices)
	}
	res.Hist[used]++
	ok := outcomeKey(s, o)
	h := hashStr(ok)
	if _, seen := res.Outcomes[h]; !seen {
		if len(res.Outcomes) < 4 || os.Getenv("VEXPLORE_DUMP") != "" {
			res.Outcomes[h] = vcommon.Short(ok, 600)
		} else {
			res.Outcomes[h] = ""
		}
	}
	if strings.HasPrefix(o.Failure, "HARNESS:") {
		if res.Err == "" {
			res.Err = fmt.Sprintf("%s (scenario %s, choices %v)", o.Failure, s.Name, o.Choices)
		}
		return
	}
	key, what := s.Check(o)
	if key == "" {
		return
	}
	if old, have := res.Fails[key]; have && old.Deviations <= used {
		return
	}
	f := failure{Key: key, What: what, Choices: append([]int(nil), o.Choices...), Trace: o.Trace, Deviations: used, Scenario: s.Name}
	// re-execute the schedule 5 times: the same schedule must fail the same way every time
	for i := 0; i < 5; i++ {
		o2 := vsched.RunOnce(f.Choices, s.Body, opts(s, false))
		k2, _ := s.Check(o2)
		if k2 == key {
			f.Confirmed++
		}
	}
	res.Fails[key] = f
}

// detCheck: the default schedule run twice must give identical observations and points.
func detCheck(s *Scenario) string {
	o1 := vsched.RunOnce(nil, s.Body, opts(s, false))
	o2 := vsched.RunOnce(nil, s.Body, opts(s, false))
	if strings.Join(o1.Trace, "|") != strings.Join(o2.Trace, "|") || fmt.Sprint(o1.Alts) != fmt.Sprint(o2.Alts) || firstLine(o1.Failure) != firstLine(o2.Failure) {
		return fmt.Sprintf("nondeterministic: scenario %s gives different observations for the same schedule:\n%v\n%v\n%v\n%v\nfailure1=%q\nfailure2=%q", s.Name, o1.Trace, o2.Trace, o1.Alts, o2.Alts, o1.Failure, o2.Failure)
	}
	return ""
}

// exploreBatch explores many small scenarios, one whole scenario per worker job, in parallel.
func exploreBatch(scn []*Scenario, bound func(*Scenario) int) (map[string]*result, error) {
	out := map[string]*result{}
	var mu sync.Mutex
	next := 0
	var firstErr error
	var wg sync.WaitGroup
	nw := runtime.NumCPU()
	if nw > len(scn) {
		nw = len(scn)
	}
	for k := 0; k < nw; k++ {
		wg.Add(1)
		go func() {
			defer wg.Done()
			w, err := getWorker()
			if err != nil {
				mu.Lock()
				firstErr = err
				mu.Unlock()
				return
			}
			for {
				mu.Lock()
				if next >= len(scn) || firstErr != nil {
					mu.Unlock()
					break
				}
				s := scn[next]
				next++
				mu.Unlock()
				r, err := w.do(job{Scn: s.Name, Bound: bound(s), Det: true})
				mu.Lock()
				if err != nil {
					firstErr = err
					mu.Unlock()
					w.stop()
					return
				}
				out[s.Name] = r
				mu.Unlock()
			}
			putWorker(w)
		}()
	}
	wg.Wait()
	return out, firstErr
}

// explore enumerates the subtree below prefix (which already contains `used` deviations).
func explore(s *Scenario, prefix []int, used, bound int, res *result, deadline time.Time) bool {
	o := vsched.RunOnce(prefix, s.Body, opts(s, false))
	judge(s, o, used, res)
	if res.Err != "" {
		return false
	}
	if used >= bound {
		return true
	}
	for i := len(prefix); i < len(o.Choices); i++ {
		for alt := 1; alt < o.Alts[i]; alt++ {
			if !deadline.IsZero() && time.Now().After(deadline) {
				return false
			}
			np := make([]int, i+1)
			copy(np, o.Choices[:i])
			np[i] = alt
			if !explore(s, np, used+1, bound, res, deadline) {
				return false
			}
		}
	}
	return true
}

var registry = map[string]*Scenario{}

// workerMain serves jobs on stdin/stdout.
func workerMain() {
	in := bufio.NewReaderSize(os.Stdin, 1<<20)
	// the protocol owns the original stdout; whatever the code under exploration prints to fd 1 goes to /dev/null
	proto := os.Stdout
	if fd, err := syscall.Dup(1); err == nil {
		if dn, err := os.OpenFile(os.DevNull, os.O_WRONLY, 0); err == nil {
			if syscall.Dup2(int(dn.Fd()), 1) == nil {
				proto = os.NewFile(uintptr(fd), "proto")
			}
		}
	}
	out := bufio.NewWriter(proto)
	for {
		line, err := in.ReadBytes('\n')
		if len(line) > 0 {
			var j job
			if e := json.Unmarshal(line, &j); e != nil {
				fmt.Fprintf(os.Stderr, "worker: bad job: %v\n", e)
				os.Exit(3)
			}
			s := registry[j.Scn]
			res := newResult()
			if s == nil {
				res.Err = "HARNESS: unknown scenario " + j.Scn
			} else {
				if j.Det {
					if msg := detCheck(s); msg != "" {
						res.Err = "HARNESS: " + msg
					}
				}
				if res.Err == "" && j.Det {
					// whole-scenario job: iterate the bound so that the first counterexample has the fewest
					// deviations and a failing scenario is not explored any deeper
					for b := 0; b <= j.Bound; b++ {
						rb := newResult()
						explore(s, nil, 0, b, rb, time.Time{})
						if b == j.Bound || len(rb.Fails) > 0 || rb.Err != "" {
							res = rb
							break
						}
					}
				} else if res.Err == "" {
					explore(s, j.Prefix, j.Used, j.Bound, res, time.Time{})
				}
			}
			b, _ := json.Marshal(res)
			out.Write(b)
			out.WriteByte('\n')
			out.Flush()
		}
		if err != nil {
			return
		}
	}
}

type worker struct {
	cmd  *exec.Cmd
	in   *bufio.Writer
	out  *bufio.Reader
	jobs int
}

// idle workers are kept across bounds and scenarios (process start-up is the dominant cost of small jobs)
var (
	poolMu sync.Mutex
	pool   []*worker
)

func getWorker() (*worker, error) {
	poolMu.Lock()
	if n := len(pool); n > 0 {
		w := pool[n-1]
		pool = pool[:n-1]
		poolMu.Unlock()
		return w, nil
	}
	poolMu.Unlock()
	return startWorker()
}

func putWorker(w *worker) {
	poolMu.Lock()
	pool = append(pool, w)
	poolMu.Unlock()
}

func stopPool() {
	poolMu.Lock()
	for _, w := range pool {
		w.stop()
	}
	pool = nil
	poolMu.Unlock()
}

func startWorker() (*worker, error) {
	cmd := exec.Command(os.Args[0])
	cmd.Env = append(os.Environ(), "VSCHED_WORKER=1", "GOMAXPROCS=2")
	cmd.Stderr = os.Stderr
	wi, err := cmd.StdinPipe()
	if err != nil {
		return nil, err
	}
	ro, err := cmd.StdoutPipe()
	if err != nil {
		return nil, err
	}
	if err := cmd.Start(); err != nil {
		return nil, err
	}
	return &worker{cmd: cmd, in: bufio.NewWriter(wi), out: bufio.NewReaderSize(ro, 1<<20)}, nil
}

func (w *worker) do(j job) (*result, error) {
	b, _ := json.Marshal(j)
	w.in.Write(b)
	w.in.WriteByte('\n')
	if err := w.in.Flush(); err != nil {
		return nil, err
	}
	line, err := w.out.ReadBytes('\n')
	if err != nil {
		return nil, fmt.Errorf("worker died while exploring %s prefix %v: %v", j.Scn, j.Prefix, err)
	}
	res := newResult()
	if err := json.Unmarshal(line, res); err != nil {
		return nil, err
	}
	return res, nil
}

func (w *worker) stop() {
	w.cmd.Process.Kill()
	w.cmd.Wait()
}

// exploreSharded explores scenario s up to `bound` deviations: the coordinator runs the tree down
// to splitDepth deviations itself and hands the subtrees below to worker processes.
func exploreSharded(s *Scenario, bound int, deadline time.Time) (*result, bool, error) {
	res := newResult()
	splitDepth := 1
	if bound >= 3 {
		splitDepth = 2
	}
	if bound == 0 {
		explore(s, nil, 0, 0, res, time.Time{})
		return res, true, nil
	}
	var jobs []job
	var rec func(prefix []int, used int)
	rec = func(prefix []int, used int) {
		o := vsched.RunOnce(prefix, s.Body, opts(s, false))
		judge(s, o, used, res)
		if used >= bound || res.Err != "" {
			return
		}
		for i := len(prefix); i < len(o.Choices); i++ {
			for alt := 1; alt < o.Alts[i]; alt++ {
				np := make([]int, i+1)
				copy(np, o.Choices[:i])
				np[i] = alt
				if used+1 >= splitDepth {
					jobs = append(jobs, job{Scn: s.Name, Prefix: np, Used: used + 1, Bound: bound})
				} else {
					rec(np, used+1)
				}
			}
		}
	}
	rec(nil, 0)
	if res.Err != "" {
		return res, false, nil
	}
	nw := runtime.NumCPU()
	if nw > len(jobs) {
		nw = len(jobs)
	}
	if nw == 0 {
		return res, true, nil
	}
	var mu sync.Mutex
	next := 0
	complete := true
	var firstErr error
	var wg sync.WaitGroup
	for k := 0; k < nw; k++ {
		wg.Add(1)
		go func() {
			defer wg.Done()
			w, err := getWorker()
			if err != nil {
				mu.Lock()
				firstErr = err
				mu.Unlock()
				return
			}
			defer func() {
				if w != nil {
					putWorker(w)
				}
			}()
			for {
				mu.Lock()
				if next >= len(jobs) || firstErr != nil || res.Err != "" {
					mu.Unlock()
					return
				}
				if !deadline.IsZero() && time.Now().After(deadline) {
					complete = false
					mu.Unlock()
					return
				}
				j := jobs[next]
				next++
				mu.Unlock()
				r, err := w.do(j)
				mu.Lock()
				if err != nil {
					firstErr = err
					mu.Unlock()
					w.stop()
					w = nil
					return
				}
				res.merge(r)
				mu.Unlock()
				w.jobs++
				if w.jobs%500 == 0 { // recycle: contains whatever a long-lived process accumulates
					w.stop()
					w, err = startWorker()
					if err != nil {
						mu.Lock()
						firstErr = err
						mu.Unlock()
						w = nil
						return
					}
				}
			}
		}()
	}
	wg.Wait()
	return res, complete, firstErr
}

// Replay re-runs one recorded schedule and prints it.
func replay(path string) {
	b, err := os.ReadFile(path)
	if err != nil {
		vcommon.Harness("replay: %v", err)
	}
	var doc struct {
		Replay failure `json:"replay"`
	}
	if err := json.Unmarshal(b, &doc); err != nil {
		vcommon.Harness("replay: %v", err)
	}
	s := registry[doc.Replay.Scenario]
	if s == nil {
		vcommon.Harness("replay: unknown scenario %q", doc.Replay.Scenario)
	}
	o := vsched.RunOnce(doc.Replay.Choices, s.Body, opts(s, true))
	fmt.Printf("scenario %s, %d choice points, %d steps, virtual time %v\n", s.Name, len(o.Choices), o.Steps, o.VirtualT)
	for i, c := range o.Choices {
		mark := ""
		if c != 0 {
			mark = "   <== deviation"
		}
		fmt.Printf("  point %3d: %d/%d %s%s\n", i, c, o.Alts[i], o.Labels[i][c], mark)
	}
	fmt.Println("trace:")
	for _, l := range o.Trace {
		fmt.Println("  " + l)
	}
	if o.Failure != "" {
		fmt.Println("scheduler failure:", o.Failure)
	}
	key, what := s.Check(o)
	if key != "" {
		fmt.Printf("VIOLATION property=%s replay=%s\n  key=%s: %s\n", os.Getenv("VERIF_CHECK_ID"), path, key, what)
		os.Exit(1)
	}
	fmt.Println("property holds on this schedule")
	os.Exit(0)
}

// Main runs the check: registers the scenarios, serves as a worker when asked to, otherwise explores.
func Main(id string, scenarios []*Scenario, assumptions []string) {
	MainWith(id, scenarios, assumptions, nil)
}

// Extra lets a harness add a sequential (history) enumeration of its own, run with vsched.RunOnce on the
// default schedule, to the same check: it reports violations through r and returns what it covered.
type Extra func(r *vcommon.Run) (states, transitions, execs int64, rule string)

// RacePass: see vcommon.RacePass (kept here for the Engine S harnesses that call it through this package).
func RacePass(r *vcommon.Run, reps int) (runs int64) { return vcommon.RacePass(r, reps) }

// MainWith is Main plus an extra enumeration.
func MainWith(id string, scenarios []*Scenario, assumptions []string, extra Extra) {
	for _, s := range scenarios {
		registry[s.Name] = s
	}
	if os.Getenv("VSCHED_WORKER") != "" {
		workerMain()
		return
	}
	if n := os.Getenv("VSCHED_RACEPASS"); n != "" {
		// free-running pass for the race detector: the same bodies, no scheduler (vsched is pass-through)
		reps := 1
		fmt.Sscanf(n, "%d", &reps)
		for _, s := range scenarios {
			if s.NoRacePass {
				continue
			}
			for i := 0; i < reps; i++ {
				done := make(chan struct{})
				go func() { s.Body(); close(done) }()
				select {
				case <-done:
				case <-time.After(2 * time.Minute):
					fmt.Fprintf(os.Stderr, "RACEPASS-HANG scenario %s run %d\n", s.Name, i)
					os.Exit(3)
				}
			}
			fmt.Fprintf(os.Stderr, "RACEPASS-DONE %s x%d\n", s.Name, reps)
		}
		os.Exit(0)
	}
	for i, a := range os.Args {
		if a == "--replay" && i+1 < len(os.Args) {
			p := os.Args[i+1]
			os.Args = append(os.Args[:i], os.Args[i+2:]...)
			vcommon.Start(id, "model_checking")
			replay(p)
		}
	}
	r := vcommon.Start(id, "model_checking")
	r.Assumptions = assumptions
	var totalExecs, totalSteps, totalPoints int64
	allComplete := true
	var rules []string
	perScn := map[string]any{}
	quietN, quietExecs, quietMin := 0, int64(0), -1
	boundOf := func(s *Scenario) int {
		if r.Thorough() {
			return s.ThoroughBound
		}
		return s.QuickBound
	}
	var quiet []*Scenario
	for _, s := range scenarios {
		if only := os.Getenv("VEXPLORE_ONLY"); only != "" && !strings.Contains(s.Name, only) {
			continue
		}
		if s.Quiet && !(s.ThoroughOnly && !r.Thorough()) {
			quiet = append(quiet, s)
		}
	}
	pre, err := exploreBatch(quiet, boundOf)
	if err != nil {
		vcommon.Harness("%v", err)
	}
	for _, s := range scenarios {
		if only := os.Getenv("VEXPLORE_ONLY"); only != "" && !strings.Contains(s.Name, only) {
			continue // debugging aid: explore the named scenario(s) only
		}
		if s.ThoroughOnly && !r.Thorough() {
			continue
		}
		bound := s.QuickBound
		budget := s.QuickBudget
		if r.Thorough() {
			bound = s.ThoroughBound
			budget = s.ThoroughBudget
		}
		if budget == 0 {
			// default wall-clock budget per scenario; when it is exceeded the run reports the last completed
			// bound with exhaustive=false (never a failure)
			budget = 90 * time.Second
			if r.Thorough() {
				budget = 4 * time.Minute
			}
		}
		deadline := time.Now().Add(budget)
		var final *result
		completed := -1
		t0 := time.Now()
		if s.Quiet {
			// explored as one whole-scenario job (determinism double-run included) by exploreBatch
			final = pre[s.Name]
			if final == nil {
				vcommon.Harness("no result for scenario %s", s.Name)
			}
			if final.Err != "" {
				vcommon.Harness("%s", strings.TrimPrefix(final.Err, "HARNESS: "))
			}
			completed = bound
		} else if msg := detCheck(s); msg != "" {
			// determinism: the default schedule run twice must give identical observations and points
			vcommon.Harness("%s", msg)
		}
		for b := 0; b <= bound && !s.Quiet; b++ {
			res, complete, err := exploreSharded(s, b, deadline)
			if err != nil {
				vcommon.Harness("%v", err)
			}
			if res.Err != "" {
				vcommon.Harness("%s", strings.TrimPrefix(res.Err, "HARNESS: "))
			}
			if final == nil || complete {
				final = res
			} else {
				// partial results of an interrupted bound still count as explored executions and may hold failures
				final.merge(res)
			}
			if !complete {
				allComplete = false
				break
			}
			completed = b
			if len(res.Fails) > 0 {
				break // the first counterexample found has the fewest deviations
			}
		}
		if len(final.Outcomes) < s.MinOutcomes && len(final.Fails) == 0 && completed >= 1 {
			vcommon.Harness("vacuous: scenario %s produced %d distinct outcome(s) in %d executions, fewer than the %d the scenario is known to reach (nothing collided)", s.Name, len(final.Outcomes), final.Execs, s.MinOutcomes)
		}
		totalExecs += final.Execs
		totalSteps += final.Steps
		totalPoints += final.Points
		r.Eval(int(final.Execs))
		for h, sample := range final.Outcomes {
			r.Distinct(fmt.Sprintf("%s/%x", s.Name, h))
			if sample != "" {
				r.Sample(map[string]any{"scenario": s.Name, "outcome_trace": sample})
			}
		}
		if d := os.Getenv("VEXPLORE_DUMP"); d != "" {
			var all []string
			for _, t := range final.Outcomes {
				all = append(all, t)
			}
			sort.Strings(all)
			os.WriteFile(d+"."+s.Name, []byte(strings.Join(all, "\n")+"\n"), 0o644)
		}
		hist := map[string]int64{}
		for k, v := range final.Hist {
			hist[fmt.Sprint(k)] = v
		}
		if s.Quiet {
			fam := s.Name
			if i := strings.LastIndex(fam, "::"); i > 0 {
				fam = fam[:i]
			}
			m, _ := perScn[fam+"/*"].(map[string]any)
			if m == nil {
				m = map[string]any{"desc": s.Desc, "scenarios": 0, "bound_requested": bound, "bound_completed": completed, "executions": int64(0),
					"scheduler_steps": int64(0), "choice_points": int64(0), "max_points_per_execution": 0, "distinct_outcomes": 0, "wall_s": 0.0}
				perScn[fam+"/*"] = m
			}
			m["scenarios"] = m["scenarios"].(int) + 1
			if completed < m["bound_completed"].(int) {
				m["bound_completed"] = completed
			}
			m["executions"] = m["executions"].(int64) + final.Execs
			m["scheduler_steps"] = m["scheduler_steps"].(int64) + final.Steps
			m["choice_points"] = m["choice_points"].(int64) + final.Points
			if final.MaxPoints > m["max_points_per_execution"].(int) {
				m["max_points_per_execution"] = final.MaxPoints
			}
			m["distinct_outcomes"] = m["distinct_outcomes"].(int) + len(final.Outcomes)
			m["wall_s"] = m["wall_s"].(float64) + time.Since(t0).Seconds()
			quietN++
			quietExecs += final.Execs
		} else {
			perScn[s.Name] = map[string]any{
				"desc": s.Desc, "bound_requested": bound, "bound_completed": completed, "executions": final.Execs,
				"scheduler_steps": final.Steps, "choice_points": final.Points, "max_points_per_execution": final.MaxPoints,
				"distinct_outcomes": len(final.Outcomes), "deviations_histogram": hist, "wall_s": time.Since(t0).Seconds(),
			}
		}
		if !s.Quiet || len(final.Fails) > 0 {
			fmt.Printf("  scenario %-28s bound %d/%d execs=%d points<=%d outcomes=%d fails=%d %.1fs\n", s.Name, completed, bound,
				final.Execs, final.MaxPoints, len(final.Outcomes), len(final.Fails), time.Since(t0).Seconds())
		}
		keys := make([]string, 0, len(final.Fails))
		for k := range final.Fails {
			keys = append(keys, k)
		}
		sort.Strings(keys)
		for _, k := range keys {
			f := final.Fails[k]
			if f.Confirmed < 5 {
				vcommon.Harness("nondeterministic: violation %s of scenario %s reproduced only %d/5 times on the same schedule %v", k, s.Name, f.Confirmed, f.Choices)
			}
			r.Violation(k, fmt.Sprintf("[%s, %d deviations] %s", s.Name, f.Deviations, f.What), f)
		}
		if !s.Quiet {
			rules = append(rules, fmt.Sprintf("%s: all schedules with <=%d deviations", s.Name, completed))
		} else {
			if quietMin < 0 || completed < quietMin {
				quietMin = completed
			}
		}
	}
	if quietN > 0 {
		fmt.Printf("  %d further scenarios: execs=%d, all schedules with <=%d deviations\n", quietN, quietExecs, quietMin)
		rules = append(rules, fmt.Sprintf("%d generated scenarios (families in coverage.scenarios): all schedules with <=%d deviations", quietN, quietMin))
	}
	extraRule := ""
	if extra != nil {
		st, tr, ex, rule := extra(r)
		totalPoints += st
		totalSteps += tr
		totalExecs += ex
		r.Eval(int(ex))
		extraRule = "; " + rule
	}
	r.Set("states", totalPoints)
	r.Set("transitions", totalSteps)
	r.Set("traces_validated_against_impl", totalExecs)
	r.Set("scenarios", perScn)
	r.Rule = "stateless DFS over scheduler choice points (task to run, ready select case, timer firing) of the instrumented REAL code; " +
		"states = choice points visited (schedule prefixes), transitions = scheduler steps executed, every trace is an execution of the implementation; " +
		"distinct = distinct observation traces per scenario; " + strings.Join(rules, "; ") + extraRule
	r.Exhaustive = allComplete
	stopPool()
	r.Finish()
}
