// C33: MoQ reorderer delivers groups in order with bounded buffering.
//
// Engine X (explicit-state search over the REAL reorderer.Reorderer):
//
//   - operations: Push of a fresh *subgroup.SubGroup with (group id, object layout) taken from a
//     finite alphabet; configurations: MaxReordered x MaxPendingBytes from a finite set;
//   - merged search: breadth-first over canonical states. A state is reached by "fresh real
//     Reorderer, replay the representative (shortest) history, apply one more Push"; states are
//     merged by a key made of EVERY mutable field of the Reorderer (initialized, curGroupID,
//     pendingBytes, pending id -> (layout, already-delivered flag)) plus the reference model's
//     (hasLast, lastDelivered). Why merged states have the same futures: Push/flushUpTo read and
//     write only those fields (the harness refuses to run if the struct gains a field), object
//     identity matters only for "which pointer is handed on", and the key records for every held
//     pointer its id, its payload layout and whether the model has already seen it delivered;
//   - raw search (pruning cross-check): every sequence up to a smaller length is executed without
//     any merging, judged by the same oracle, and its final state must be in the merged set;
//   - oracle = the four clauses of the statement, evaluated after every push on the whole trace by
//     a reference model that knows nothing about the implementation (pushed registry, delivered
//     set, last delivered id). "Held back" is measured twice: white-box (the pending map, sizes
//     recomputed from the objects, never from the pendingBytes counter) and black-box
//     retrospectively (a subgroup pushed at step <= k and handed on at a step > k was held back
//     after push k).
package main

import (
	"fmt"
	"math"
	"reflect"
	"runtime"
	"runtime/debug"
	"slices"
	"sort"
	"strconv"
	"strings"
	"sync"
	"sync/atomic"

	"github.com/bluenviron/mediamtx/internal/logger"
	"github.com/bluenviron/mediamtx/internal/protocols/moq/reorderer"
	"github.com/bluenviron/mediamtx/internal/protocols/moq/subgroup"
	"github.com/bluenviron/mediamtx/internal/zzverif/vcommon"
)

type op struct {
	id  uint64
	lay int
}

type config struct{ mr, mb int }

// object layouts: payload size of every object of the pushed subgroup.
var allLayouts = [][]int{{}, {1}, {4, 6}, {10, 0, 50}}

func laySize(l int) int {
	n := 0
	for _, s := range allLayouts[l] {
		n += s
	}
	return n
}

// recLogger records which of the reorderer's log lines a push produced (coverage only, never the oracle).
type recLogger struct{ mask int }

const (
	logSkip = 1 << iota
	logCount
	logBytes
	logOther
)

func (l *recLogger) Log(_ logger.Level, format string, _ ...any) {
	switch {
	case strings.Contains(format, "skipping"):
		l.mask |= logSkip
	case strings.Contains(format, "too many reordered subgroups"):
		l.mask |= logCount
	case strings.Contains(format, "too many reordered bytes"):
		l.mask |= logBytes
	default:
		l.mask |= logOther
	}
}

var logNames = func() [16]string {
	var t [16]string
	for m := range t {
		var p []string
		if m&logSkip != 0 {
			p = append(p, "skipping out-of-order subgroup")
		}
		if m&logCount != 0 {
			p = append(p, "too many reordered subgroups, flushing")
		}
		if m&logBytes != 0 {
			p = append(p, "too many reordered bytes, flushing")
		}
		if m&logOther != 0 {
			p = append(p, "(other)")
		}
		t[m] = strings.Join(p, "+")
		if m == 0 {
			t[m] = "-"
		}
	}
	return t
}()

type pendEntry struct {
	id   uint64
	idx  int // push index of the held pointer, -1 if the pointer was never pushed
	size int // payload bytes, recomputed from the object
}

type snapshot struct {
	init   bool
	cur    uint64
	pbytes int
	pend   []pendEntry // sorted by id
}

type stepObs struct {
	out  []int // push indices handed on by this push, in order; -1 = a pointer that was never pushed
	err  bool
	snap snapshot
	logs int
}

func indexOf(sgs []*subgroup.SubGroup, x *subgroup.SubGroup) int {
	for i, p := range sgs {
		if p == x {
			return i
		}
	}
	return -1
}

func takeSnap(r *reorderer.Reorderer, sgs []*subgroup.SubGroup) snapshot {
	var buf [8]reorderer.VerifC33Held
	init, cur, pb, pend := reorderer.VerifC33State(r, buf[:0])
	s := snapshot{init: init, cur: cur, pbytes: pb}
	if len(pend) > 0 {
		s.pend = make([]pendEntry, 0, len(pend))
		for _, h := range pend {
			e := pendEntry{id: h.ID, idx: -1}
			if h.SG != nil {
				e.idx = indexOf(sgs, h.SG)
				for _, o := range h.SG.Objects {
					e.size += len(o.Payload)
				}
			}
			// insertion sort by id
			s.pend = append(s.pend, e)
			for k := len(s.pend) - 1; k > 0 && s.pend[k-1].id > s.pend[k].id; k-- {
				s.pend[k-1], s.pend[k] = s.pend[k], s.pend[k-1]
			}
		}
	}
	return s
}

func makeSG(o op) *subgroup.SubGroup {
	sg := &subgroup.SubGroup{Header: subgroup.Header{GroupID: o.id}}
	if lay := allLayouts[o.lay]; len(lay) > 0 {
		sg.Objects = make([]subgroup.Object, len(lay))
		for k, n := range lay {
			sg.Objects[k].Payload = make([]byte, n)
		}
	}
	return sg
}

// execute runs hist on a fresh real Reorderer. panicked >= 0 is the step at which Push panicked.
func execute(c config, hist []op) (init snapshot, obs []stepObs, panicked int, pv any) {
	lg := &recLogger{}
	r := &reorderer.Reorderer{MaxReordered: c.mr, MaxPendingBytes: c.mb, Parent: lg}
	r.Initialize()
	sgs := make([]*subgroup.SubGroup, 0, len(hist))
	init = takeSnap(r, sgs)
	obs = make([]stepObs, 0, len(hist))
	panicked = -1
	for i, o := range hist {
		sg := makeSG(o)
		sgs = append(sgs, sg)
		lg.mask = 0
		var out []*subgroup.SubGroup
		var err error
		p, _ := vcommon.Recover(func() { out, err = r.Push(sg) })
		if p != nil {
			return init, obs, i, p
		}
		so := stepObs{err: err != nil, logs: lg.mask}
		if len(out) > 0 {
			so.out = make([]int, len(out))
			for k, x := range out {
				so.out[k] = indexOf(sgs, x)
			}
		}
		so.snap = takeSnap(r, sgs)
		obs = append(obs, so)
	}
	return init, obs, -1, nil
}

// ---------------------------------------------------------------------------------------------
// reference model: the statement, literally.

type viol struct{ key, what string }

type refModel struct {
	c       config
	ops     []op
	delivAt []int // step at which push i was handed on, -1 = not (yet)
	hasLast bool
	last    uint64
	// retrospective held-back after push k: pushed at <= k, handed on at > k
	retroCnt   []int
	retroBytes []int
}

type stepClass struct {
	rel      string // first | stale | next | ahead
	dup      bool   // a subgroup with the same id was held before the push
	nOut     int
	self     bool // the pushed subgroup is among the handed-on ones
	gap      bool // handed-on ids skip at least one id (forced flush)
	pendB    int
	pendA    int
	log      int
	replaced bool
}

func (sc stepClass) String() string {
	return fmt.Sprintf("%s dup=%v out=%d self=%v gap=%v pend=%d->%d log=%s", sc.rel, sc.dup, sc.nOut, sc.self, sc.gap,
		sc.pendB, sc.pendA, logNames[sc.log&15])
}

func hasIdx(p []pendEntry, idx int) bool {
	for _, e := range p {
		if e.idx == idx {
			return true
		}
	}
	return false
}

// step judges push number len(m.ops) (op o) that handed on `so.out`; before/after are the white-box pending sets.
func (m *refModel) step(o op, before snapshot, so stepObs) (vs []viol, sc stepClass, hidden bool) {
	i := len(m.ops)
	m.ops = append(m.ops, o)
	m.delivAt = append(m.delivAt, -1)
	m.retroCnt = append(m.retroCnt, 0)
	m.retroBytes = append(m.retroBytes, 0)

	switch {
	case !m.hasLast:
		sc.rel = "first"
	case o.id <= m.last:
		sc.rel = "stale"
	case m.last != math.MaxUint64 && o.id == m.last+1:
		sc.rel = "next"
	default:
		sc.rel = "ahead"
	}
	for _, e := range before.pend {
		if e.id == o.id {
			sc.dup = true
		}
	}
	sc.pendB = len(before.pend)
	sc.pendA = len(so.snap.pend)
	sc.nOut = len(so.out)
	sc.log = so.logs
	mustDeliverNow := sc.rel == "next"

	prev := m.last
	for _, x := range so.out {
		// clause 2a: each handed-on subgroup was received
		if x < 0 || x > i {
			vs = append(vs, viol{"delivered-not-received/" + sc.rel, "a subgroup that was never pushed was handed on"})
			continue
		}
		// clause 2b: none is handed on twice
		if m.delivAt[x] != -1 {
			vs = append(vs, viol{"delivered-twice/" + sc.rel, fmt.Sprintf("push #%d (id %d) handed on at step %d and again at step %d",
				x, m.ops[x].id, m.delivAt[x], i)})
			continue
		}
		id := m.ops[x].id
		// clause 1: strictly increasing group ids across the whole history
		if m.hasLast && id <= m.last {
			vs = append(vs, viol{"order-not-increasing/" + sc.rel, fmt.Sprintf("id %d handed on after id %d", id, m.last)})
		}
		if m.hasLast && m.last != math.MaxUint64 && id > m.last+1 {
			sc.gap = true // only a classification: the handed-on run skips an id
		}
		m.hasLast, m.last = true, id
		m.delivAt[x] = i
		if x == i {
			sc.self = true
		} else {
			// a subgroup handed on later than its push was held back after every push in between
			for k := x; k < i; k++ {
				m.retroCnt[k]++
				m.retroBytes[k] += laySize(m.ops[x].lay)
				if m.retroCnt[k] > m.c.mr {
					vs = append(vs, viol{"held-count-exceeds-retro/" + sc.rel, fmt.Sprintf(
						"after push #%d, %d subgroups that were handed on later were held back; MaxReordered=%d", k, m.retroCnt[k], m.c.mr)})
				}
				if m.retroBytes[k] > m.c.mb {
					vs = append(vs, viol{"held-bytes-exceeds-retro/" + sc.rel, fmt.Sprintf(
						"after push #%d, %d payload bytes that were handed on later were held back; MaxPendingBytes=%d", k, m.retroBytes[k], m.c.mb)})
				}
			}
			if !hasIdx(before.pend, x) {
				hidden = true
			}
		}
	}
	// clause 3: the direct successor of the last handed-on subgroup is handed on by this very push
	if mustDeliverNow && m.delivAt[i] != i {
		vs = append(vs, viol{"next-not-immediate/dup=" + strconv.FormatBool(sc.dup) + ",pend=" + minStr(sc.pendB, 1),
			fmt.Sprintf("id %d directly follows the last handed-on id %d but was not handed on by its push", o.id, prev)})
	}
	// clause 4: after the push, what is held back respects both limits (white-box measurement)
	if len(so.snap.pend) > m.c.mr {
		vs = append(vs, viol{"held-count-exceeds/" + sc.rel, fmt.Sprintf("%d subgroups held back after the push; MaxReordered=%d",
			len(so.snap.pend), m.c.mr)})
	}
	b := 0
	for _, e := range so.snap.pend {
		b += e.size
	}
	if b > m.c.mb {
		vs = append(vs, viol{"held-bytes-exceeds/" + sc.rel, fmt.Sprintf("%d payload bytes held back after the push; MaxPendingBytes=%d",
			b, m.c.mb)})
	}
	if sc.dup && !sc.self {
		for _, e := range so.snap.pend {
			if e.id == o.id && e.idx == i {
				sc.replaced = true
			}
		}
	}
	return vs, sc, hidden
}

func minStr(a, b int) string {
	if a > b {
		a = b
	}
	return strconv.Itoa(a)
}

// stateKey: every mutable field of the real object + the model's order state.
func stateKey(m *refModel, s snapshot) string {
	b := make([]byte, 0, 64)
	if s.init {
		b = append(b, 'I')
	} else {
		b = append(b, 'U')
	}
	b = strconv.AppendUint(b, s.cur, 10)
	b = append(b, '|')
	b = strconv.AppendInt(b, int64(s.pbytes), 10)
	b = append(b, '|')
	if m.hasLast {
		b = strconv.AppendUint(b, m.last, 10)
	} else {
		b = append(b, '-')
	}
	for _, e := range s.pend {
		b = append(b, ' ')
		b = strconv.AppendUint(b, e.id, 10)
		b = append(b, ':')
		if e.idx >= 0 {
			b = strconv.AppendInt(b, int64(m.ops[e.idx].lay), 10)
			if m.delivAt[e.idx] != -1 {
				b = append(b, 'D') // a pointer that was already handed on is still held
			}
			if m.ops[e.idx].id != e.id {
				b = append(b, '@')
				b = strconv.AppendUint(b, m.ops[e.idx].id, 10)
			}
		} else {
			b = append(b, '?')
			b = strconv.AppendInt(b, int64(e.size), 10)
		}
	}
	return string(b)
}

// ---------------------------------------------------------------------------------------------

type stats struct {
	classes    map[stepClass]int
	collisions map[string]int
	execs      int64
	pushes     int64
}

func newStats() *stats { return &stats{classes: map[stepClass]int{}, collisions: map[string]int{}} }

func (s *stats) merge(o *stats) {
	for k, v := range o.classes {
		s.classes[k] += v
	}
	for k, v := range o.collisions {
		s.collisions[k] += v
	}
	s.execs += o.execs
	s.pushes += o.pushes
}

func (s *stats) note(sc stepClass, o op, retroHeld bool) {
	s.classes[sc]++
	if sc.log&logCount != 0 {
		s.collisions["flush forced by MaxReordered"]++
	}
	if sc.log&logBytes != 0 {
		s.collisions["flush forced by MaxPendingBytes"]++
	}
	if sc.log&logSkip != 0 {
		s.collisions["stale or repeated id dropped"]++
	}
	if sc.replaced {
		s.collisions["held subgroup replaced by a duplicate id"]++
	}
	if sc.nOut >= 2 && !sc.gap && sc.self {
		s.collisions["gap filled, held run drained"]++
	}
	if sc.gap {
		s.collisions["ids skipped by a forced flush"]++
	}
	if sc.rel == "next" && sc.pendB > 0 {
		s.collisions["direct successor pushed while others are held"]++
	}
	if o.id == math.MaxUint64 {
		s.collisions["id 2^64-1 pushed"]++
	}
	if sc.rel == "ahead" && sc.nOut == 0 {
		s.collisions["held back"]++
	}
	if retroHeld {
		s.collisions["handed on later than pushed"]++
	}
}

type runner struct {
	r         *vcommon.Run
	execCount atomic.Int64
	mu        sync.Mutex
	samples   map[string]bool

	samplesFull atomic.Bool
}

func replayOf(c config, hist []op, obs []stepObs) map[string]any {
	pushes := make([]map[string]any, len(hist))
	for i, o := range hist {
		p := map[string]any{"groupID": strconv.FormatUint(o.id, 10), "objectPayloadSizes": allLayouts[o.lay]}
		if i < len(obs) {
			out := obs[i].out
			if out == nil {
				out = []int{}
			}
			p["handedOnPushIndexes"] = out
			held := []string{}
			for _, e := range obs[i].snap.pend {
				held = append(held, fmt.Sprintf("%d(push#%d,%dB)", e.id, e.idx, e.size))
			}
			p["heldAfter"] = held
		}
		pushes[i] = p
	}
	return map[string]any{"MaxReordered": c.mr, "MaxPendingBytes": c.mb, "pushes": pushes}
}

// judge executes hist on the real reorderer and checks the whole trace. It returns the final key.
// pviol is a violation found by one execution; it is reported by the caller in a deterministic order.
type pviol struct {
	key, what string
	replay    any
}

func (ru *runner) report(vs []pviol) {
	for _, v := range vs {
		ru.r.Violation(v.key, v.what, v.replay)
	}
}

func (ru *runner) judge(c config, hist []op, st *stats) (key string, lastClass stepClass, ok bool, found []pviol) {
	init, obs, panicked, pv := execute(c, hist)
	ru.execCount.Add(1)
	st.execs++
	st.pushes += int64(len(hist))
	n := len(hist)
	m := &refModel{c: c, ops: make([]op, 0, n), delivAt: make([]int, 0, n), retroCnt: make([]int, 0, n), retroBytes: make([]int, 0, n)}
	before := init
	var all []viol
	for i, so := range obs {
		retroBefore := 0
		vs, sc, hidden := m.step(hist[i], before, so)
		for _, x := range so.out {
			if x >= 0 && x < i {
				retroBefore++
			}
		}
		if hidden {
			vcommon.Harness("C33: a subgroup was handed on that the shim did not see in the pending map before the push "+
				"(the white-box view of what is held back is incomplete): %v", replayOf(c, hist, obs))
		}
		if i == len(obs)-1 {
			st.note(sc, hist[i], retroBefore > 0)
			lastClass = sc
		}
		all = append(all, vs...)
		before = so.snap
	}
	if panicked >= 0 {
		all = append(all, viol{"push-panics", fmt.Sprintf("Push #%d panicked: %v", panicked, pv)})
	}
	if len(all) > 0 {
		// determinism discipline: the same history must give the same observation 4 more times
		for k := 0; k < 4; k++ {
			_, obs2, p2, _ := execute(c, hist)
			ru.execCount.Add(1)
			if p2 != panicked || !reflect.DeepEqual(obs, obs2) {
				vcommon.Harness("C33: nondeterministic execution of %v", replayOf(c, hist, obs))
			}
		}
		seen := map[string]bool{}
		for _, v := range all {
			if seen[v.key] {
				continue
			}
			seen[v.key] = true
			found = append(found, pviol{v.key, fmt.Sprintf("MaxReordered=%d MaxPendingBytes=%d, %d pushes: %s", c.mr, c.mb, len(hist), v.what),
				replayOf(c, hist, obs)})
		}
		return "", lastClass, false, found
	}
	last := init
	if len(obs) > 0 {
		last = obs[len(obs)-1].snap
	}
	return stateKey(m, last), lastClass, true, nil
}

type bfsResult struct {
	visited    map[string]struct{}
	states     int
	trans      int
	maxDepth   int
	fixpoint   bool
	maxPending int
}

// parallelW runs f(worker, i) for i in [0,n) on W workers and returns W.
func parallelW(n int, f func(w, i int)) {
	W := runtime.GOMAXPROCS(0)
	var next atomic.Int64
	var wg sync.WaitGroup
	for w := 0; w < W; w++ {
		wg.Add(1)
		go func(w int) {
			defer wg.Done()
			for {
				i := int(next.Add(1)) - 1
				if i >= n {
					return
				}
				f(w, i)
			}
		}(w)
	}
	wg.Wait()
}

type succ struct {
	key string
	sc  stepClass
	ok  bool
	vs  []pviol
}

// bfs: merged breadth-first search. The successors of a chunk of frontier states are computed in
// parallel (each one is an independent execution on a fresh real object); merging is done
// sequentially in (frontier index, operation index) order, so the representative histories and
// the result are the same on every run.
func (ru *runner) bfs(c config, ops []op, depthCap int, ws []*stats) *bfsResult {
	res := &bfsResult{visited: map[string]struct{}{}}
	k0, _, _, _ := ru.judge(c, nil, ws[0])
	res.visited[k0] = struct{}{}
	frontier := [][]op{nil}
	const chunk = 2048
	for depth := 0; len(frontier) > 0; depth++ {
		if depth == depthCap {
			res.states = len(res.visited)
			return res
		}
		var next [][]op
		for lo := 0; lo < len(frontier); lo += chunk {
			part := frontier[lo:min(lo+chunk, len(frontier))]
			out := make([][]succ, len(part))
			parallelW(len(part), func(w, j int) {
				h := part[j]
				hh := make([]op, len(h)+1)
				copy(hh, h)
				ss := make([]succ, len(ops))
				for k, o := range ops {
					hh[len(h)] = o
					key, sc, ok, vs := ru.judge(c, hh, ws[w])
					ss[k] = succ{key, sc, ok, vs}
				}
				out[j] = ss
			})
			for j, ss := range out {
				for k, su := range ss {
					res.trans++
					if !su.ok {
						ru.report(su.vs) // in (frontier, operation) order: the same replay on every run
						continue         // a violating state is reported and not expanded
					}
					if su.sc.pendA > res.maxPending {
						res.maxPending = su.sc.pendA
					}
					if (su.sc.nOut >= 2 || su.sc.replaced) && !ru.samplesFull.Load() {
						hs := append(append([]op(nil), part[j]...), ops[k])
						ru.sample(c, hs, su.sc)
					}
					if _, seen := res.visited[su.key]; !seen {
						res.visited[su.key] = struct{}{}
						hh := make([]op, len(part[j])+1)
						copy(hh, part[j])
						hh[len(part[j])] = ops[k]
						next = append(next, hh)
						res.maxDepth = depth + 1
					}
				}
			}
		}
		frontier = next
	}
	res.fixpoint = true
	res.states = len(res.visited)
	return res
}

func (ru *runner) sample(c config, h []op, sc stepClass) {
	if ru.samplesFull.Load() {
		return
	}
	ru.mu.Lock()
	defer ru.mu.Unlock()
	cl := sc.String()
	if ru.samples[cl] || len(ru.samples) >= 8 {
		ru.samplesFull.Store(len(ru.samples) >= 8)
		return
	}
	ru.samples[cl] = true
	_, obs, _, _ := execute(c, h)
	rp := replayOf(c, h, obs)
	rp["lastPushClass"] = cl
	ru.r.Sample(rp)
}

// raw enumerates every sequence of length 1..maxLen starting with `first`, without merging.
func (ru *runner) raw(c config, ops []op, first []op, maxLen int, visited map[string]struct{}, st *stats, found *[]pviol) (unsound []op) {
	h := make([]op, len(first), max(maxLen, len(first)))
	copy(h, first)
	var rec func()
	rec = func() {
		key, _, ok, vs := ru.judge(c, h, st)
		*found = append(*found, vs...)
		if ok {
			if _, in := visited[key]; !in && unsound == nil {
				unsound = append([]op(nil), h...)
			}
		}
		if len(h) == maxLen || !ok {
			return
		}
		for _, o := range ops {
			h = append(h, o)
			rec()
			h = h[:len(h)-1]
		}
	}
	rec()
	return unsound
}

func mkOps(ids []uint64, nLay int) []op {
	var ops []op
	for _, id := range ids {
		for l := 0; l < nLay; l++ {
			ops = append(ops, op{id, l})
		}
	}
	return ops
}

func main() {
	r := vcommon.Start("C33", "model_checking")
	debug.SetGCPercent(400) // millions of tiny short-lived executions: the live heap is a few MB

	want := []string{"MaxReordered", "MaxPendingBytes", "Parent", "initialized", "mu", "curGroupID", "pending", "pendingBytes"}
	if got := reorderer.VerifC33Fields(); !reflect.DeepEqual(got, want) {
		vcommon.Harness("C33: reorderer.Reorderer has fields %v, the state key was written for %v: extend the shim and the key", got, want)
	}

	const M = math.MaxUint64
	type rawPlan struct {
		ids   []uint64
		nLay  int
		len   int
		maxMR int   // only configurations with MaxReordered <= maxMR
		mbs   []int // only configurations with MaxPendingBytes in this set (nil: all)
	}
	ids := []uint64{0, 1, 2, 3, 4, 5, M - 1, M}
	nLay := 3
	mrs := []int{0, 1, 2, 3}
	mbs := []int{0, 5, 15, 100}
	depthCap := 14
	rawPlans := []rawPlan{{ids, nLay, 3, 99, nil}, {ids, nLay, 4, 99, []int{5, 15}}}
	if r.Thorough() {
		rawPlans = []rawPlan{{ids, nLay, 4, 3, nil}, {ids, nLay, 5, 3, []int{5, 15, 100}}}
		ids = []uint64{0, 1, 2, 3, 4, 5, 6, 7, M - 1, M}
		nLay = 4
		mrs = []int{0, 1, 2, 3, 4, 5}
		mbs = []int{0, 5, 15, 59, 100, 1000}
		depthCap = 16
		rawPlans = append(rawPlans, rawPlan{ids, nLay, 3, 99, nil})
	}
	ops := mkOps(ids, nLay)
	var cfgs []config
	for _, mr := range mrs {
		for _, mb := range mbs {
			cfgs = append(cfgs, config{mr, mb})
		}
	}
	planStr := ""
	for _, pl := range rawPlans {
		which := fmt.Sprintf("configurations with MaxReordered <= %d", pl.maxMR)
		if pl.maxMR >= 99 {
			which = "all configurations"
		}
		if pl.mbs != nil {
			which += fmt.Sprintf(" with MaxPendingBytes in %v", pl.mbs)
		}
		planStr += fmt.Sprintf("[ids %v x layouts %v, every sequence of length <= %d, %s] ", idStrings(pl.ids), allLayouts[:pl.nLay], pl.len, which)
	}
	r.Rule = fmt.Sprintf("configurations MaxReordered in %v x MaxPendingBytes in %v; push alphabet = group ids %v x object layouts %v "+
		"(payload sizes per object); merged breadth-first search to the fixpoint of the canonical-state set (depth cap %d) + raw "+
		"enumeration without merging: %s; distinct = (configuration, class of the last push: relation of its id to the last handed-on id, "+
		"duplicate of a held id, number handed on, pushed one included, ids skipped, held count before->after, log line of the reorderer)",
		mrs, mbs, idStrings(ids), allLayouts[:nLay], depthCap, planStr)

	ru := &runner{r: r, samples: map[string]bool{}}

	// determinism: the same history twice gives the same observation
	{
		h := []op{{0, 1}, {3, 2}, {2, 1}, {3, 1}, {1, 0}, {M, 2}, {5, 1}}
		_, o1, _, _ := execute(config{2, 15}, h)
		_, o2, _, _ := execute(config{2, 15}, h)
		if !reflect.DeepEqual(o1, o2) {
			vcommon.Harness("C33: nondeterministic replay")
		}
	}

	W := runtime.GOMAXPROCS(0)
	type cfgClass struct {
		c  config
		sc stepClass
	}
	total := newStats()
	perCfgClasses := map[cfgClass]struct{}{}
	results := make([]*bfsResult, len(cfgs))
	states, trans, maxDepth, maxPend := 0, 0, 0, 0
	fix := true
	perCfg := []string{}
	for i, c := range cfgs {
		ws := make([]*stats, W)
		for w := range ws {
			ws[w] = newStats()
		}
		res := ru.bfs(c, ops, depthCap, ws)
		results[i] = res
		states += res.states
		trans += res.trans
		maxDepth = max(maxDepth, res.maxDepth)
		maxPend = max(maxPend, res.maxPending)
		fix = fix && res.fixpoint
		perCfg = append(perCfg, fmt.Sprintf("mr=%d mb=%d: states=%d transitions=%d depth=%d fixpoint=%v", c.mr, c.mb,
			res.states, res.trans, res.maxDepth, res.fixpoint))
		for _, st := range ws {
			for k := range st.classes {
				perCfgClasses[cfgClass{c, k}] = struct{}{}
			}
			total.merge(st)
		}
	}
	bfsExecs := total.execs

	// raw (unmerged) enumeration, judged by the same oracle; final states must be in the merged set
	type task struct {
		ci    int
		plan  rawPlan
		first []op
	}
	var tasks []task
	for ci, c := range cfgs {
		for _, pl := range rawPlans {
			if c.mr > pl.maxMR || (pl.mbs != nil && !slices.Contains(pl.mbs, c.mb)) {
				continue
			}
			po := mkOps(pl.ids, pl.nLay)
			for _, o1 := range po {
				if pl.len < 2 {
					tasks = append(tasks, task{ci, pl, []op{o1}})
					continue
				}
				for _, o2 := range po {
					tasks = append(tasks, task{ci, pl, []op{o1, o2}})
				}
			}
		}
	}
	wstats := make([]*stats, W)
	wclasses := make([]map[cfgClass]struct{}, W)
	for w := range wstats {
		wstats[w] = newStats()
		wclasses[w] = map[cfgClass]struct{}{}
	}
	var unsound atomic.Value
	tviols := make([][]pviol, len(tasks))
	parallelW(len(tasks), func(w, i int) {
		t := tasks[i]
		st := newStats()
		maxLen := t.plan.len
		if !results[t.ci].fixpoint && maxLen > depthCap {
			maxLen = depthCap
		}
		po := mkOps(t.plan.ids, t.plan.nLay)
		if len(t.first) == 2 && t.first[1] == po[0] {
			// the length-1 prefix is judged once, by the task of its first extension
			ru.raw(cfgs[t.ci], po, t.first[:1], 1, results[t.ci].visited, st, &tviols[i])
		}
		if u := ru.raw(cfgs[t.ci], po, t.first, maxLen, results[t.ci].visited, st, &tviols[i]); u != nil {
			unsound.Store(replayOf(cfgs[t.ci], u, nil))
		}
		for k := range st.classes {
			wclasses[w][cfgClass{cfgs[t.ci], k}] = struct{}{}
		}
		wstats[w].merge(st)
	})
	for _, vs := range tviols {
		ru.report(vs)
	}
	rawStats := newStats()
	for w := range wstats {
		rawStats.merge(wstats[w])
		for k := range wclasses[w] {
			perCfgClasses[k] = struct{}{}
		}
	}
	total.merge(rawStats)
	if u := unsound.Load(); u != nil && r.ViolationCount() == 0 {
		vcommon.Harness("C33: state merging is unsound: a raw sequence reaches a state that the merged search did not find: %v", u)
	}

	for k := range perCfgClasses {
		r.Distinct(fmt.Sprintf("mr=%d mb=%d %s", k.c.mr, k.c.mb, k.sc))
	}
	r.Eval(int(ru.execCount.Load()))
	r.Set("states", states)
	r.Set("transitions", trans)
	r.Set("traces_validated_against_impl", ru.execCount.Load())
	r.Set("merged_search_executions", bfsExecs)
	r.Set("raw_sequences_executed", rawStats.execs)
	r.Set("pushes_executed", total.pushes)
	r.Set("max_depth_with_new_state", maxDepth)
	r.Set("max_held_back_seen", maxPend)
	r.Set("fixpoint_reached_in_every_configuration", fix)
	r.Set("bound_completed", fmt.Sprintf("merged: fixpoint=%v (new states up to depth %d, cap %d); raw: %s", fix, maxDepth, depthCap, planStr))
	r.Set("per_configuration", perCfg)
	r.Set("distinct_outcomes", len(total.classes))
	r.Set("collisions", total.collisions)
	classList := make([]string, 0, len(total.classes))
	for k, v := range total.classes {
		classList = append(classList, fmt.Sprintf("%s x%d", k.String(), v))
	}
	sort.Strings(classList)
	r.Set("push_classes", classList)
	for _, need := range []string{"flush forced by MaxReordered", "flush forced by MaxPendingBytes", "stale or repeated id dropped",
		"held subgroup replaced by a duplicate id", "gap filled, held run drained", "ids skipped by a forced flush",
		"direct successor pushed while others are held", "id 2^64-1 pushed", "held back", "handed on later than pushed"} {
		if total.collisions[need] == 0 && r.ViolationCount() == 0 {
			vcommon.Harness("C33: vacuous: the alphabet never produced the situation %q", need)
		}
	}
	r.Exhaustive = true // no deadline is used: both searches always run to completion (see bound_completed)
	r.Assumptions = []string{
		"alphabet of group ids, object layouts and limits as listed in rule; limits are non-negative",
		"a pushed subgroup is not modified by the caller after Push (the reorderer keeps the pointer and re-reads payload sizes)",
		"single caller at a time (Push takes its own mutex; concurrent pushes are serialised by it and are not enumerated)",
		"state merging relies on the key covering every mutable field of Reorderer (checked by field list) and is cross-checked by the raw enumeration",
		"the statement does not require that a received subgroup is ever handed on; loss by a forced flush or by a duplicate id is not judged",
	}
	fmt.Printf("C33: configs=%d states=%d transitions=%d maxDepth=%d fixpoint=%v rawSequences=%d executions=%d pushes=%d classes=%d cfgClasses=%d\n",
		len(cfgs), states, trans, maxDepth, fix, rawStats.execs, ru.execCount.Load(), total.pushes, len(total.classes), len(perCfgClasses))
	keys := make([]string, 0, len(total.collisions))
	for k := range total.collisions {
		keys = append(keys, k)
	}
	sort.Strings(keys)
	for _, k := range keys {
		fmt.Printf("  %-50s %d\n", k, total.collisions[k])
	}
	r.Finish()
}

func idStrings(ids []uint64) []string {
	out := make([]string, len(ids))
	for i, id := range ids {
		switch {
		case id == math.MaxUint64:
			out[i] = "2^64-1"
		case id > math.MaxUint64-10:
			out[i] = fmt.Sprintf("2^64-%d", math.MaxUint64-id+1)
		default:
			out[i] = strconv.FormatUint(id, 10)
		}
	}
	return out
}
