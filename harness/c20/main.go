// C20 (path-level hooks): runOnReady/NotReady (= runOnAvailable/Unavailable), runOnOnline/Offline,
// runOnDemand/UnDemand and runOnInit fire in well-formed start/stop pairs on every schedule.
// Engine S over the real pathManager + path + hooks + externalcmd (fake processes).
// Reader and connection hooks (runOnRead/Unread, runOnConnect/Disconnect) live in the protocol servers and are
// not driven by this harness (see DESIGN.md C20b).
package main

import (
	"github.com/bluenviron/mediamtx/internal/zzverif/pmlib"
	"github.com/bluenviron/mediamtx/internal/zzverif/vexplore"
)

const hooks = "    runOnInit: vcmd init\n    runOnReady: vcmd ready\n    runOnNotReady: vexit0 notready\n" +
	"    runOnOnline: vcmd online\n    runOnOffline: vexit0 offline\n"

func main() {
	pubConf := pmlib.LoadConf("paths:\n  p:\n    overridePublisher: yes\n" + hooks)
	demConf := pmlib.LoadConf("paths:\n  p:\n" + hooks + "    runOnDemand: vcmd demand\n    runOnUnDemand: vexit0 undemand\n" +
		"    runOnDemandStartTimeout: 10s\n    runOnDemandCloseAfter: 10s\n")
	reConf := pmlib.LoadConf("paths:\n  \"~^p\":\n" + hooks[len("    runOnInit: vcmd init\n"):] + "    runOnDemand: vcmd demand\n    runOnUnDemand: vexit0 undemand\n" +
		"    runOnDemandStartTimeout: 10s\n    runOnDemandCloseAfter: 10s\n")
	bg := []string{"dumper.go"}
	mk := func(name, desc string, body func(), qb, tb int) *vexplore.Scenario {
		return &vexplore.Scenario{Name: name, Desc: desc, Body: body, Check: pmlib.CheckHooksOnly,
			QuickBound: qb, ThoroughBound: tb, Horizon: 20000, Bg: bg}
	}
	scn := []*vexplore.Scenario{
		mk("override-with-hooks", "A attached with reader R1; concurrently A writes, B overrides, R2 attaches; shutdown closes the rest",
			pmlib.PubReadBody(pubConf, []pmlib.PubSpec{{ID: "A", Writes: 1, Stay: true, Pre: true}, {ID: "B", Writes: 1, Linger: true}},
				[]pmlib.RdrSpec{{ID: "R1", Pre: true}, {ID: "R2"}}, true), 1, 2),
		mk("demand-served-then-late", "on-demand publisher: held requests, publisher arrives and leaves, late demand, shutdown",
			pmlib.DemandBody(demConf, pmlib.DemandSpec{Source: true, SourceGoes: true, Describe: true, Late: true}), 1, 2),
		mk("demand-timeout-then-late", "on-demand publisher never comes: timeout, later demand restarts the command, shutdown",
			pmlib.DemandBody(demConf, pmlib.DemandSpec{Describe: true, Late: true}), 2, 3),
		mk("demand-close-while-held", "shutdown while requests are on hold and the publisher arrives",
			pmlib.DemandBody(demConf, pmlib.DemandSpec{Source: true, Describe: true, Close: true}), 2, 3),
		mk("regexp-path-demand", "same as served-then-late on a regular-expression path (the path is destroyed when idle)",
			pmlib.DemandBody(reConf, pmlib.DemandSpec{Source: true, SourceGoes: true, Describe: true, Late: true}), 1, 2),
	}
	// paths that go away (configuration removed / recreated) while their source is attached, always-available or not
	aa := "    alwaysAvailable: yes\n    alwaysAvailableTracks:\n    - codec: G711\n      sampleRate: 8000\n      channelCount: 1\n      muLaw: false\n"
	aaConf := pmlib.LoadConf("paths:\n  p:\n    overridePublisher: yes\n" + aa + hooks)
	aaCold := pmlib.LoadConf("paths:\n  p:\n    overridePublisher: yes\n    maxReaders: 7\n" + aa + hooks)
	pubCold := pmlib.LoadConf("paths:\n  p:\n    overridePublisher: yes\n    maxReaders: 7\n" + hooks)
	none := pmlib.LoadConf("paths: {}\n")
	scn = append(scn,
		mk("always-available-conf-removed", "always-available path with publisher A and reader R0 attached; its configuration is removed while B publishes and R1 reads; shutdown",
			pmlib.ConcBody(pmlib.ConcSpec{Base: aaConf, Reload: none, Name: "p", PrePublish: true, Publisher: true, Reader: true, Hooks: true, Audio: true}), 1, 2),
		mk("always-available-recreated", "same, the path is recreated by a non hot-reloadable change",
			pmlib.ConcBody(pmlib.ConcSpec{Base: aaConf, Reload: aaCold, Name: "p", PrePublish: true, Publisher: true, Reader: true, Hooks: true, Audio: true}), 1, 2),
		mk("always-available-kick", "always-available path: publisher A and reader R0 are kicked while B publishes; shutdown",
			pmlib.ConcBody(pmlib.ConcSpec{Base: aaConf, Name: "p", PrePublish: true, Publisher: true, Kick: true, Hooks: true, Audio: true}), 1, 2),
		mk("conf-removed-with-source", "ordinary path with publisher A and reader R0 attached; its configuration is removed while B publishes; shutdown",
			pmlib.ConcBody(pmlib.ConcSpec{Base: pubConf, Reload: none, Name: "p", PrePublish: true, Publisher: true, Reader: true, Hooks: true}), 1, 2),
		mk("recreated-with-source", "same, the path is recreated",
			pmlib.ConcBody(pmlib.ConcSpec{Base: pubConf, Reload: pubCold, Name: "p", PrePublish: true, Publisher: true, Reader: true, Hooks: true}), 1, 2),
	)
	vexplore.Main("C20", scn, []string{
		"observation point: the moment the server invokes a hook (the synchronous 'command started/stopped/launched' log line of hooks.On*), not the life of the spawned process",
		"commands are fake processes (exec rewrite in internal/externalcmd)",
		"NOT covered: runOnRead/runOnUnread per reader and runOnConnect/runOnDisconnect per connection (they are fired by the protocol servers, not by path)",
	})
}
