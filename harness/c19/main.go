// C19: every held request is answered exactly once; on-demand sources start/stop/restart.
// Engine S over the real pathManager + path + staticsources.Handler + stream with virtual time.
package main

import (
	"github.com/bluenviron/mediamtx/internal/zzverif/pmlib"
	"github.com/bluenviron/mediamtx/internal/zzverif/vexplore"
)

func main() {
	pubConf := pmlib.LoadConf("paths:\n  p:\n    runOnDemand: vcmd demand\n    runOnUnDemand: vexit0 undemand\n    runOnDemandStartTimeout: 10s\n    runOnDemandCloseAfter: 10s\n")
	stConf := pmlib.LoadConf("paths:\n  p:\n    source: rpiCamera\n    sourceOnDemand: yes\n    sourceOnDemandStartTimeout: 10s\n    sourceOnDemandCloseAfter: 10s\n")
	bg := []string{"dumper.go"}
	bgt := []string{"staticsources/handler.go"} // the handler's retry timer (the rpiCamera source fails at once on this platform)
	mk := func(name, desc string, c any, sp pmlib.DemandSpec, qb, tb int) *vexplore.Scenario {
		cf := pubConf
		if sp.Static {
			cf = stConf
		}
		return &vexplore.Scenario{Name: name, Desc: desc, Body: pmlib.DemandBody(cf, sp), Check: pmlib.CheckDemand,
			QuickBound: qb, ThoroughBound: tb, Horizon: 20000, Bg: bg, BgTimers: bgt}
	}
	scn := []*vexplore.Scenario{
		mk("odpub-served-then-late", "on-demand publisher: R1+D1 on hold, publisher arrives, serves, leaves; late reader R2", nil,
			pmlib.DemandSpec{Source: true, SourceGoes: true, Describe: true, Late: true}, 1, 2),
		mk("odpub-served-stays", "on-demand publisher arrives, serves R1+D1 and stays: the close-after timer must not stop the command while R1 is attached", nil,
			pmlib.DemandSpec{Source: true, Describe: true}, 2, 3),
		mk("odpub-timeout-then-late", "on-demand publisher never comes: start timeout; late reader R2 restarts the command", nil,
			pmlib.DemandSpec{Describe: true, Late: true}, 2, 3),
		mk("odpub-close-while-held", "manager shut down while R1+D1 are on hold and the publisher arrives", nil,
			pmlib.DemandSpec{Source: true, Describe: true, Close: true}, 2, 3),
		mk("odstatic-served-then-late", "on-demand static source: R1+D1 on hold, source ready, then not ready; late reader R2", nil,
			pmlib.DemandSpec{Static: true, Source: true, SourceGoes: true, Describe: true, Late: true}, 1, 2),
		mk("odstatic-timeout-then-late", "on-demand static source never ready: start timeout; late reader R2 restarts it", nil,
			pmlib.DemandSpec{Static: true, Describe: true, Late: true}, 2, 3),
		mk("odstatic-close-while-held", "manager shut down while R1+D1 are on hold and the source becomes ready", nil,
			pmlib.DemandSpec{Static: true, Source: true, Describe: true, Close: true}, 2, 3),
		mk("odstatic-blocking-served-then-late", "on-demand static source whose protocol client keeps running (returns only when its context is cancelled): R1+D1 on hold, source ready, then not ready; late reader R2", nil,
			pmlib.DemandSpec{Static: true, Blocking: true, Source: true, SourceGoes: true, Describe: true, Late: true}, 1, 2),
		mk("odstatic-blocking-ready-vs-timeout", "same source, stays ready: its readiness races with the start timeout and the close-after timer", nil,
			pmlib.DemandSpec{Static: true, Blocking: true, Source: true, Describe: true}, 2, 3),
		mk("odstatic-blocking-close-while-held", "same source: manager shut down while R1+D1 are on hold and the source becomes ready", nil,
			pmlib.DemandSpec{Static: true, Blocking: true, Source: true, Describe: true, Close: true}, 2, 3),
		mk("odstatic-failing-served-then-late", "on-demand static source whose protocol client FAILS after serving (reports not-ready from its own Run, returns an error; the handler retries after its pause): late reader R2", nil,
			pmlib.DemandSpec{Static: true, Blocking: true, Fails: true, Source: true, SourceGoes: true, Describe: true, Late: true}, 1, 2),
		mk("odpub-served-then-late-early", "on-demand publisher serves and leaves; the late reader R2 requests while the kicked reader is still detaching", nil,
			pmlib.DemandSpec{Source: true, SourceGoes: true, Describe: true, Late: true, LateEarly: true}, 2, 3),
		mk("odstatic-served-then-late-early", "the same with an on-demand static source", nil,
			pmlib.DemandSpec{Static: true, Blocking: true, Source: true, SourceGoes: true, Describe: true, Late: true, LateEarly: true}, 2, 3),
	}
	// the handler's retry pause is part of this scenario: its timer is NOT background here
	scn = append(scn, &vexplore.Scenario{Name: "odstatic-first-attempt-fails", Desc: "on-demand static source whose first connection attempt fails at once; the handler retries after its pause and that attempt keeps running; nobody becomes ready: start timeout, then a late reader",
		Body: pmlib.DemandBody(stConf, pmlib.DemandSpec{Static: true, Blocking: true, FailFirst: true, Describe: true, Late: true}), Check: pmlib.CheckDemand,
		QuickBound: 2, ThoroughBound: 3, Horizon: 20000, Bg: bg})
	vexplore.Main("C19", scn, []string{
		"timers (start timeout, close-after) are scheduler transitions on a virtual clock; the static source handler's retry timer is background",
		"runOnDemand runs as a fake process (exec rewrite in internal/externalcmd): start/kill are observed, nothing is spawned",
		"the static source is played by the harness through the exported Handler.SetReady/SetNotReady (rpiCamera's Run fails at once on amd64)",
	})
}
