package main

import (
	"github.com/bluenviron/mediamtx/internal/zzverif/e2elib"
)

// connectWebRTC runs WHIP (publish) or WHEP (read). A WHIP publisher is attached by the server once RTP packets
// of its track have arrived, so the caller keeps sending packets while it waits for the attachment.
func (w *worker) connectWebRTC(c Case) (*e2elib.Client, func()) {
	cl, track := e2elib.WHIP(w.ports.Addr(e2elib.PWebRTC), c.Path, c.Action == "publish", c.Cred, e2elib.WHIPOpts{Placement: c.Place})
	if track == nil {
		return cl, nil
	}
	n := 0
	return cl, func() {
		n++
		track.WriteRTP(e2elib.IDRPacket(n)) //nolint:errcheck
	}
}
