package main

import (
	"encoding/json"
	"fmt"
	"net/http"
	"os"
	"path/filepath"
	"sync"
	"time"

	"github.com/bluenviron/mediamtx/internal/core"
	"github.com/bluenviron/mediamtx/internal/zzverif/e2elib"
)

// Obs is what the worker observed for one case.
type Obs struct {
	ID      int      `json:"id"`
	Outcome string   `json:"outcome"` // protocol-level: ok | denied
	Err     string   `json:"err,omitempty"`
	Steps   []string `json:"steps"`
	// Attached: the attachments (path, publish|read) of the sessions whose remote address is one of the client's,
	// read from the API after the client's protocol exchange and before the client disconnects.
	Attached []e2elib.Attach `json:"attached"`
	// SourceAfter (publish cases, run one at a time per path): the source of the path after the exchange.
	SourceAfter *e2elib.Ref `json:"sourceAfter,omitempty"`
	// Auth: per attached session id, the authentications the protocol server requested for that id.
	Auth  map[string][]core.VerifC03EAuthRec `json:"auth,omitempty"`
	Tries int                                `json:"tries"`
	// wall-clock seconds of connect / observe / teardown (diagnostics only)
	ConnS, ObsS, TearS float64
	HarnessError       string `json:"harness_error,omitempty"`
	TeardownNote       string `json:"teardown_note,omitempty"`
}

// WorkerResult is the answer of a worker.
type WorkerResult struct {
	Obs          []Obs  `json:"obs"`
	HarnessError string `json:"harness_error,omitempty"`
	// FeederDenied: the server refused the publisher that supplies the readers' paths (the read cases were not run)
	FeederDenied string `json:"feeder_denied,omitempty"`
	// wall-clock seconds of the phases (diagnostics only)
	StartS, ReadS, PubS float64
}

const (
	portBase    = 26100
	waitTimeout = 60 * time.Second
)

type worker struct {
	idx     int
	ports   e2elib.Ports
	api     *e2elib.API
	authLog func() []core.VerifC03EAuthRec
	pubLock map[string]*sync.Mutex
}

func workerMain(idx int, tmp string) {
	e2elib.WorkerLoop(func(raw json.RawMessage) any {
		var job Job
		if err := json.Unmarshal(raw, &job); err != nil {
			return WorkerResult{HarnessError: "bad job: " + err.Error()}
		}
		return runJob(idx, tmp, job)
	})
}

func runJob(idx int, tmp string, job Job) (res WorkerResult) {
	if len(job.Cases) == 0 {
		return res
	}
	dir := filepath.Join(tmp, fmt.Sprintf("w%d", idx))
	if err := os.MkdirAll(dir, 0o755); err != nil {
		return WorkerResult{HarnessError: err.Error()}
	}
	var p *core.Core
	var ports e2elib.Ports
	t0 := time.Now()
	for try := 0; ; try++ {
		var err error
		ports, err = e2elib.PickBlock(portBase, idx, job.Workers, try)
		if err != nil {
			return WorkerResult{HarnessError: err.Error()}
		}
		cfg, err := e2elib.BaseConf(ports, dir, job.TLS)
		if err != nil {
			return WorkerResult{HarnessError: err.Error()}
		}
		cfg["authInternalUsers"] = users
		if job.Variant == "b" {
			cfg["rtspAuthMethods"] = []any{"basic"}
		} else {
			cfg["rtspAuthMethods"] = []any{"basic", "digest"}
		}
		if job.World == "p" {
			cfg["hlsTrustedProxies"] = []any{"127.0.0.1/32"}
			cfg["webrtcTrustedProxies"] = []any{"127.0.0.1/32"}
		}
		cfg["paths"] = map[string]any{"a": map[string]any{}, "~^b(\\d+)$": map[string]any{}, "all_others": map[string]any{}}
		fn, err := e2elib.WriteConf(dir, "mediamtx.yml", cfg)
		if err != nil {
			return WorkerResult{HarnessError: err.Error()}
		}
		var ok bool
		p, ok = e2elib.StartCore(fn, 12)
		if ok {
			break
		}
		if try >= 5 {
			return WorkerResult{HarnessError: "the Core does not start (see the worker log)"}
		}
	}
	res.StartS = time.Since(t0).Seconds()
	t0 = time.Now()
	w := &worker{idx: idx, ports: ports, api: e2elib.NewAPI(ports.Addr(e2elib.PAPI)),
		pubLock: map[string]*sync.Mutex{}}
	w.authLog = core.VerifC03ERecordAuth(p)
	defer func() {
		w.api.Close()
		p.Close()
	}()
	for _, pa := range append([]string{"b2"}, paths...) {
		w.pubLock[pa] = &sync.Mutex{}
	}

	var readCases, pubCases []Case
	for _, c := range job.Cases {
		if c.Action == "read" {
			readCases = append(readCases, c)
		} else {
			pubCases = append(pubCases, c)
		}
	}
	out := make(map[int]Obs)
	var mu sync.Mutex
	put := func(o Obs) {
		mu.Lock()
		out[o.ID] = o
		mu.Unlock()
	}

	// Phase R: every path has a publisher (user v3 may publish anywhere); all readers run concurrently.
	var feeders []*e2elib.Feeder
	stopFeeders := func() {
		for _, f := range feeders {
			f.Stop()
		}
	}
	if len(readCases) > 0 {
		feedCred := e2elib.Creds{User: "v3", Pass: "p3"}
		feeders = nil
		for _, pa := range []string{"a", "b1", "b2", "c"} {
			f, outcome, err := e2elib.StartFeeder(ports.Addr(e2elib.PRTSP), pa, feedCred, 40*time.Millisecond)
			if err != nil {
				stopFeeders()
				if outcome == e2elib.OutDenied {
					// the feeder is itself a client that the reference predicate admits (v3 may publish anywhere)
					res.FeederDenied = err.Error()
					readCases = nil
					break
				}
				return WorkerResult{HarnessError: err.Error()}
			}
			feeders = append(feeders, f)
		}
	}
	if len(readCases) > 0 {
		ok, err := e2elib.WaitFor(waitTimeout, func() (bool, error) {
			ps, err := w.api.Paths()
			if err != nil {
				return false, err
			}
			n := 0
			for _, pi := range ps {
				if pi.Ready {
					n++
				}
			}
			return n == 4, nil
		})
		if !ok {
			stopFeeders()
			return WorkerResult{HarnessError: fmt.Sprintf("the fed paths do not become ready: %v", err)}
		}
		var wg sync.WaitGroup
		for _, c := range readCases {
			wg.Add(1)
			go func(c Case) {
				defer wg.Done()
				put(w.runCase(c))
			}(c)
		}
		wg.Wait()
		stopFeeders()
		ok, err = e2elib.WaitFor(waitTimeout, func() (bool, error) {
			ps, err := w.api.Paths()
			if err != nil {
				return false, err
			}
			for _, pi := range ps {
				if pi.Source != nil {
					return false, nil
				}
			}
			return true, nil
		})
		if !ok {
			return WorkerResult{HarnessError: fmt.Sprintf("the feeders do not leave: %v", err)}
		}
	}

	res.ReadS = time.Since(t0).Seconds()
	t0 = time.Now()
	// Phase P: publishers; one at a time per path.
	{
		var wg sync.WaitGroup
		for _, c := range pubCases {
			wg.Add(1)
			go func(c Case) {
				defer wg.Done()
				l := w.pubLock[c.Path]
				l.Lock()
				defer l.Unlock()
				put(w.runCase(c))
			}(c)
		}
		wg.Wait()
	}

	res.PubS = time.Since(t0).Seconds()
	for _, c := range job.Cases {
		if o, ok := out[c.ID]; ok {
			res.Obs = append(res.Obs, o)
		}
	}
	return res
}

// connect runs the protocol exchange of a case.
func (w *worker) connect(c Case) (cl *e2elib.Client, keepAlive func()) {
	publish := c.Action == "publish"
	switch c.Proto {
	case "rtsp", "rtsps":
		o := e2elib.RTSPOpts{TLS: c.Proto == "rtsps", Placement: c.Place, Flow: c.Flow, DescribePath: c.Desc}
		addr := w.ports.Addr(e2elib.PRTSP)
		if o.TLS {
			addr = w.ports.Addr(e2elib.PRTSPS)
		}
		if publish {
			cl, _, _ = e2elib.RTSPPublish(addr, c.Path, c.Cred, o)
		} else {
			cl, _ = e2elib.RTSPRead(addr, c.Path, c.Cred, o)
		}
	case "rtmp", "rtmps":
		addr := w.ports.Addr(e2elib.PRTMP)
		if c.Proto == "rtmps" {
			addr = w.ports.Addr(e2elib.PRTMPS)
		}
		if publish {
			cl = e2elib.RTMPPublish(addr, c.Path, c.Cred, c.Proto == "rtmps")
		} else {
			cl = e2elib.RTMPRead(addr, c.Path, c.Cred, c.Proto == "rtmps")
		}
	case "srt":
		cl, _ = e2elib.SRTDial(w.ports.Addr(e2elib.PSRT), e2elib.SRTStreamID(c.Place, publish, c.Path, c.Cred), publish, c.Cred)
	case "hls":
		cl = e2elib.HLSGet(w.ports.Addr(e2elib.PHLS), c.Path, c.Cred, c.Place)
	case "webrtc":
		cl, keepAlive = w.connectWebRTC(c)
	}
	return cl, keepAlive
}

func (w *worker) observe(cl *e2elib.Client, c Case, o *Obs) error {
	addrs := cl.Locals()
	snap := func() ([]e2elib.Attach, error) {
		s, err := w.api.Snapshot(e2elib.SessKinds)
		if err != nil {
			return nil, err
		}
		mine, _ := s.AttachedOf(addrs)
		return mine, nil
	}
	var mine []e2elib.Attach
	if cl.Outcome == e2elib.OutOK {
		// a successful exchange: the attachment becomes visible (an RTMP / SRT / WebRTC publisher is attached once
		// the server has read the tracks)
		_, err := e2elib.WaitFor(waitTimeout, func() (bool, error) {
			var err error
			mine, err = snap()
			return err == nil && len(mine) > 0, err
		})
		if err != nil {
			return err
		}
	} else {
		var err error
		mine, err = snap()
		if err != nil {
			return err
		}
	}
	o.Attached = mine
	if c.Action == "publish" {
		pi, err := w.api.PathGet(c.Path)
		if err != nil {
			return err
		}
		if pi != nil && pi.Source != nil {
			o.SourceAfter = pi.Source
		}
	}
	if len(mine) > 0 {
		o.Auth = map[string][]core.VerifC03EAuthRec{}
		recs := w.authLog()
		for _, at := range mine {
			o.Auth[at.ID] = []core.VerifC03EAuthRec{}
			for _, rec := range recs {
				if rec.ID == at.ID {
					o.Auth[at.ID] = append(o.Auth[at.ID], rec)
				}
			}
		}
	}
	return nil
}

// teardown disconnects the client and waits until the server has forgotten it.
func (w *worker) teardown(cl *e2elib.Client, c Case, o *Obs) error {
	addrs := cl.Locals()
	if c.Proto == "hls" {
		// a HLS session has no connection to close: it is kicked
		for _, at := range o.Attached {
			if at.Type == "hlsSession" {
				w.api.Do(http.MethodPost, "/v3/hlssessions/kick/"+at.ID, nil) //nolint:errcheck
			}
		}
	}
	cl.Close()
	left := ""
	ok, err := e2elib.WaitFor(waitTimeout, func() (bool, error) {
		for _, k := range e2elib.SessKinds {
			l, err := w.api.List(k)
			if err != nil {
				return false, err
			}
			for _, it := range l {
				if addrs[it.RemoteAddr] {
					left = fmt.Sprintf("%s %s %s state=%s path=%s", k, it.ID, it.RemoteAddr, it.State, it.Path)
					return false, nil
				}
			}
		}
		if c.Action == "publish" {
			pi, err := w.api.PathGet(c.Path)
			if err != nil {
				return false, err
			}
			if pi != nil && pi.Source != nil {
				return false, nil
			}
		}
		return true, nil
	})
	if !ok {
		return fmt.Errorf("the server does not forget the client (%s): %v", left, err)
	}
	return nil
}

func (w *worker) runCase(c Case) Obs {
	o := Obs{ID: c.ID}
	for try := 1; ; try++ {
		o.Tries = try
		if c.Action == "publish" {
			// the path must be free before a publisher is tried
			ok, err := e2elib.WaitFor(waitTimeout, func() (bool, error) {
				pi, err := w.api.PathGet(c.Path)
				return err == nil && (pi == nil || pi.Source == nil), err
			})
			if !ok {
				o.HarnessError = fmt.Sprintf("path %s is not free: %v", c.Path, err)
				return o
			}
		}
		t0 := time.Now()
		cl, keepAlive := w.connect(c)
		o.ConnS = time.Since(t0).Seconds()
		t0 = time.Now()
		if cl.Outcome == e2elib.OutError {
			cl.Close()
			if try >= 3 {
				o.HarnessError = "client error (not an authentication answer): " + cl.Err
				return o
			}
			time.Sleep(200 * time.Millisecond)
			continue
		}
		o.Outcome, o.Err, o.Steps = cl.Outcome, cl.Err, cl.Steps
		stop := make(chan struct{})
		var kwg sync.WaitGroup
		if keepAlive != nil {
			kwg.Add(1)
			go func() {
				defer kwg.Done()
				for {
					keepAlive()
					select {
					case <-stop:
						return
					case <-time.After(50 * time.Millisecond):
					}
				}
			}()
		}
		err := w.observe(cl, c, &o)
		close(stop)
		kwg.Wait()
		if err != nil {
			cl.Close()
			o.HarnessError = "API: " + err.Error()
			return o
		}
		o.ObsS = time.Since(t0).Seconds()
		t0 = time.Now()
		if err = w.teardown(cl, c, &o); err != nil {
			// the observation is complete; a later publisher of the path checks by itself that the path is free
			o.TeardownNote = err.Error()
		}
		o.TearS = time.Since(t0).Seconds()
		return o
	}
}
