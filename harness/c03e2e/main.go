// Harness c03e2e: the END-TO-END PROTOCOL LAYER of property C03 ("every media publish or read is authorized for
// that path and action"): real protocol clients against a real core.Core, one Core per worker subprocess.
//
// Enumerated: protocol x action x path {a, b1, c} x identity (the configured users with their password, with a
// wrong password, with another user's password, anonymous, from another source address) x credential placement
// the protocol supports x (RTSP) request flow x (RTSP) server authentication methods.
//
// Oracle (reference predicate written from the statement of internal authentication): the client becomes the
// publisher / a reader of the path -- as the Control API shows it (/v3/paths/list source and readers, resolved
// to the client by the remote address the server saw) and as the protocol tells the client -- if and only if some
// configured user admits (user, password, source IP, action, path); it is never attached to another path or
// with the other action; and every attachment is backed by an admitted authentication that the protocol server
// requested for the same session id with exactly that path, the matching action, the client's IP and user.
package main

import (
	"encoding/json"
	"flag"
	"fmt"
	"os"
	"regexp"
	"runtime"
	"sort"
	"strings"

	"github.com/bluenviron/mediamtx/internal/zzverif/e2elib"
	"github.com/bluenviron/mediamtx/internal/zzverif/vcommon"
)

var (
	flagWorker = flag.Int("worker", -1, "internal: run as worker i")
	flagWTmp   = flag.String("wtmp", "", "internal: worker temp dir")
	flagProcs  = flag.Int("procs", 0, "worker processes (0 = two per core, 8..32)")
	flagOnly   = flag.String("only", "", "debug: run only the cases whose key contains this string")
	flagKeep   = flag.Bool("keep", false, "debug: keep the temp dir")
)

// ---------------------------------------------------------------------------------------------------------------
// The configured users (the permission shapes of the design) and the reference predicate.

type perm struct {
	Action string `json:"action"`
	Path   string `json:"path,omitempty"`
}

type user struct {
	User  string   `json:"user"`
	Pass  string   `json:"pass,omitempty"`
	IPs   []string `json:"ips,omitempty"`
	Perms []perm   `json:"permissions"`
}

const altIP = "127.0.0.7"

var users = []user{
	{User: "v1", Pass: "p1", Perms: []perm{{"publish", "a"}}},
	{User: "v2", Pass: "p2", Perms: []perm{{"read", "a"}}},
	{User: "v3", Pass: "p3", Perms: []perm{{"publish", ""}}},
	{User: "v4", Pass: "p4", Perms: []perm{{"read", "~^b.*$"}}},
	{User: "v5", Pass: "p5", IPs: []string{"10.0.0.0/8"}, Perms: []perm{{"publish", "a"}, {"read", "a"}}},
	{User: "v6", Pass: "p6", Perms: []perm{}},
	{User: "v7", Pass: "p7", IPs: []string{altIP + "/32"}, Perms: []perm{{"publish", "c"}, {"read", "c"}}},
	// the harness reaches the Control API with this entry; it grants no publish / read
	{User: "any", IPs: []string{"127.0.0.1/32"}, Perms: []perm{{"api", ""}}},
}

func ipIn(ip string, cidrs []string) bool {
	if len(cidrs) == 0 {
		return true
	}
	for _, c := range cidrs {
		// the alphabet only has /8 and /32 IPv4 networks
		parts := strings.Split(c, "/")
		switch parts[1] {
		case "32":
			if parts[0] == ip {
				return true
			}
		case "8":
			if strings.Split(parts[0], ".")[0] == strings.Split(ip, ".")[0] {
				return true
			}
		}
	}
	return false
}

// admits is the reference predicate of internal authentication, from the statement: some configured user entry
// has an empty IP list or one containing the client IP, grants the action (empty path, equal path, or a '~' regular
// expression found in the path), and is 'any' or matches the supplied user name and password.
func admits(us []user, cr e2elib.Creds, ip, action, path string) bool {
	for _, u := range us {
		if !ipIn(ip, u.IPs) {
			continue
		}
		granted := false
		for _, p := range u.Perms {
			if p.Action != action {
				continue
			}
			switch {
			case p.Path == "":
				granted = true
			case strings.HasPrefix(p.Path, "~"):
				if re, err := regexp.Compile(p.Path[1:]); err == nil && re.FindStringIndex(path) != nil {
					granted = true
				}
			case p.Path == path:
				granted = true
			}
		}
		if !granted {
			continue
		}
		if u.User == "any" {
			return true
		}
		if !cr.Anon && u.User == cr.User && (u.Pass == "" || u.Pass == cr.Pass) {
			return true
		}
	}
	return false
}

// trustedProxy is the proxy that the "p" configuration world trusts (hlsTrustedProxies, webrtcTrustedProxies).
const trustedProxy = "127.0.0.1"

// clientIP is the reference model of the address a request is judged by: the TCP peer address, unless the peer is
// a configured trusted proxy; only then the address the proxy forwards counts (X-Forwarded-For read from the right,
// skipping trusted proxies; else X-Real-Ip). With the default, empty, list of trusted proxies no header is believed.
// The non-HTTP protocols have no such headers.
func clientIP(c Case) string {
	peer := c.Cred.SrcIP
	if peer == "" {
		peer = "127.0.0.1"
	}
	if c.World != "p" || peer != trustedProxy || (c.Proto != "hls" && c.Proto != "webrtc") {
		return peer
	}
	if xff, ok := c.Cred.Headers["X-Forwarded-For"]; ok {
		parts := strings.Split(xff, ",")
		for i := len(parts) - 1; i >= 0; i-- {
			ip := strings.TrimSpace(parts[i])
			if ip != trustedProxy || i == 0 {
				return ip
			}
		}
	}
	if xr, ok := c.Cred.Headers["X-Real-Ip"]; ok {
		return strings.TrimSpace(xr)
	}
	return peer
}

// ---------------------------------------------------------------------------------------------------------------
// Cases

type ident struct {
	Name string
	Cred e2elib.Creds
}

func identities() []ident {
	ids := []ident{}
	for _, u := range users[:7] {
		ids = append(ids, ident{u.User, e2elib.Creds{User: u.User, Pass: u.Pass}})
	}
	ids = append(ids,
		ident{"anon", e2elib.Creds{Anon: true}},
		ident{"v1-badpass", e2elib.Creds{User: "v1", Pass: "nope"}},
		ident{"v2-badpass", e2elib.Creds{User: "v2", Pass: "nope"}},
		ident{"v3-badpass", e2elib.Creds{User: "v3", Pass: "nope"}},
		ident{"v4-badpass", e2elib.Creds{User: "v4", Pass: "nope"}},
		ident{"v1-passof-v3", e2elib.Creds{User: "v1", Pass: "p3"}},
		ident{"v3-passof-v1", e2elib.Creds{User: "v3", Pass: "p1"}},
		ident{"v7@alt", e2elib.Creds{User: "v7", Pass: "p7", SrcIP: altIP}},
		ident{"v2@alt", e2elib.Creds{User: "v2", Pass: "p2", SrcIP: altIP}},
		ident{"anon@alt", e2elib.Creds{Anon: true, SrcIP: altIP}},
	)
	return ids
}

const claimed = "10.1.2.3" // inside the 10.0.0.0/8 network of user v5

func forge(h map[string]string, claimedIPs ...string) e2elib.Creds {
	return e2elib.Creds{User: "v5", Pass: "p5", Headers: h, ClaimedIPs: claimedIPs}
}

// forgedIdentities are clients of the HTTP-based protocols that present the right credentials of the IP-restricted
// user v5 from an address v5 is not allowed from, and claim an allowed one in proxy headers.
func forgedIdentities() []ident {
	return []ident{
		{"v5+xff", forge(map[string]string{"X-Forwarded-For": claimed}, claimed)},
		{"v5+xrealip", forge(map[string]string{"X-Real-Ip": claimed}, claimed)},
		{"v5+xff+xrealip", forge(map[string]string{"X-Forwarded-For": claimed, "X-Real-Ip": claimed}, claimed)},
		{"v5+xff-chain", forge(map[string]string{"X-Forwarded-For": claimed + ", 127.0.0.1"}, claimed)},
	}
}

// proxyWorldIdentities run against the configuration in which 127.0.0.1 is a trusted proxy: there the forwarded
// address is the one that counts, but only when the TCP peer is the trusted proxy.
func proxyWorldIdentities() []ident {
	ids := forgedIdentities()
	fromAlt := forge(map[string]string{"X-Forwarded-For": claimed}, claimed)
	fromAlt.SrcIP = altIP
	ids = append(ids,
		ident{"v5", e2elib.Creds{User: "v5", Pass: "p5"}},
		ident{"v5@alt+xff", fromAlt}, // the peer 127.0.0.7 is not a trusted proxy: its header is not believed
		ident{"v7+xff-alt", e2elib.Creds{User: "v7", Pass: "p7", Headers: map[string]string{"X-Forwarded-For": altIP}, ClaimedIPs: []string{altIP}}},
		ident{"v7@alt+xff-lo", e2elib.Creds{User: "v7", Pass: "p7", SrcIP: altIP, Headers: map[string]string{"X-Forwarded-For": "127.0.0.1"}}},
		ident{"v2+xff", e2elib.Creds{User: "v2", Pass: "p2", Headers: map[string]string{"X-Forwarded-For": claimed}, ClaimedIPs: []string{claimed}}},
	)
	return ids
}

// Case is one client.
type Case struct {
	ID      int          `json:"id"`
	Proto   string       `json:"proto"`  // rtsp rtsps rtmp rtmps srt hls webrtc
	Action  string       `json:"action"` // publish read
	Path    string       `json:"path"`
	Ident   string       `json:"ident"`
	Cred    e2elib.Creds `json:"cred"`
	Place   string       `json:"place"`             // credential placement
	Flow    string       `json:"flow,omitempty"`    // RTSP readers
	Desc    string       `json:"desc,omitempty"`    // RTSP xsp: the path that is DESCRIBEd
	Variant string       `json:"variant,omitempty"` // RTSP: server offers "d" = basic+digest, "b" = basic only
	// World (HTTP protocols): "n" = no trusted proxies (the default), "p" = 127.0.0.1 is a trusted proxy of HLS and WebRTC
	World string `json:"world,omitempty"`
}

func (c Case) key() string {
	s := fmt.Sprintf("%s/%s/%s/%s/%s", c.Proto, c.Action, c.Path, c.Ident, c.Place)
	if c.Flow != "" && c.Flow != "dsp" {
		s += "/" + c.Flow
		if c.Desc != "" {
			s += "-" + c.Desc
		}
	}
	if c.Variant != "" {
		s += "/" + c.Variant
	}
	if c.World == "p" {
		s += "/proxy-trusted"
	}
	return s
}

var paths = []string{"a", "b1", "c"}

func buildCases(thorough bool) []Case {
	var out []Case
	add := func(c Case) {
		if c.Cred.Anon {
			if c.Place != firstPlace[c.Proto] {
				return // an anonymous client has nothing to place
			}
			c.Place = "none"
		}
		out = append(out, c)
	}
	ids := identities()
	rtspProtos := []string{"rtsp"}
	rtmpProtos := []string{"rtmp"}
	if thorough {
		rtspProtos = append(rtspProtos, "rtsps")
		rtmpProtos = append(rtmpProtos, "rtmps")
	}
	for _, id := range ids {
		for _, pa := range paths {
			for _, action := range []string{"publish", "read"} {
				for _, pr := range rtspProtos {
					for _, variant := range []string{"d", "b"} {
						if pr == "rtsps" && variant == "b" {
							continue
						}
						for _, place := range []string{"hdr", "url"} {
							flows := []string{""}
							if action == "read" {
								flows = []string{"dsp"}
								if pr == "rtsp" && place == "hdr" {
									flows = append(flows, "sp")
								}
							}
							for _, fl := range flows {
								add(Case{Proto: pr, Action: action, Path: pa, Ident: id.Name, Cred: id.Cred, Place: place, Flow: fl, Variant: variant})
							}
						}
					}
				}
				for _, pr := range rtmpProtos {
					add(Case{Proto: pr, Action: action, Path: pa, Ident: id.Name, Cred: id.Cred, Place: "query"})
				}
				for _, place := range []string{"custom", "std"} {
					add(Case{Proto: "srt", Action: action, Path: pa, Ident: id.Name, Cred: id.Cred, Place: place})
				}
				if action == "read" {
					for _, place := range []string{"basic", "bearer"} {
						add(Case{Proto: "hls", Action: action, Path: pa, Ident: id.Name, Cred: id.Cred, Place: place, World: "n"})
					}
				}
				if thorough {
					for _, place := range []string{"url", "bearer"} {
						add(Case{Proto: "webrtc", Action: action, Path: pa, Ident: id.Name, Cred: id.Cred, Place: place, World: "n"})
					}
				}
			}
		}
	}
	// HTTP-based protocols: forged proxy headers, with the default (empty) trusted proxies and with 127.0.0.1 trusted
	for _, world := range []string{"n", "p"} {
		fids := forgedIdentities()
		if world == "p" {
			fids = proxyWorldIdentities()
		}
		for _, id := range fids {
			for _, pa := range paths {
				for _, action := range []string{"publish", "read"} {
					if action == "read" {
						for _, place := range []string{"basic", "bearer"} {
							add(Case{Proto: "hls", Action: action, Path: pa, Ident: id.Name, Cred: id.Cred, Place: place, World: world})
						}
					}
					if thorough {
						for _, place := range []string{"url", "bearer"} {
							add(Case{Proto: "webrtc", Action: action, Path: pa, Ident: id.Name, Cred: id.Cred, Place: place, World: world})
						}
					}
				}
			}
		}
	}
	// RTSP readers that DESCRIBE one path and SETUP another one: the identities that may read something
	type xsp struct{ ident, desc, path string }
	for _, x := range []xsp{
		{"v2", "a", "b1"}, {"v2", "a", "c"}, {"v4", "b1", "a"}, {"v4", "b1", "c"},
		{"v4", "b2", "b1"}, // both readable: attached to b1, not to b2
		{"v2@alt", "a", "c"}, {"v7@alt", "c", "a"},
	} {
		for _, id := range ids {
			if id.Name != x.ident {
				continue
			}
			for _, variant := range []string{"d", "b"} {
				for _, place := range []string{"hdr", "url"} {
					add(Case{Proto: "rtsp", Action: "read", Path: x.path, Ident: id.Name, Cred: id.Cred, Place: place,
						Flow: "xsp", Desc: x.desc, Variant: variant})
				}
			}
		}
	}
	for i := range out {
		out[i].ID = i
	}
	return out
}

const tlsWorkers = 8

var firstPlace = map[string]string{"rtsp": "hdr", "rtsps": "hdr", "rtmp": "query", "rtmps": "query", "srt": "custom", "hls": "basic", "webrtc": "url"}

// ---------------------------------------------------------------------------------------------------------------

// Job is what one worker runs on one Core.
type Job struct {
	Variant string `json:"variant"`
	World   string `json:"world"`
	Cases   []Case `json:"cases"`
	TLS     bool   `json:"tls"`
	Workers int    `json:"workers"`
}

func main() {
	flag.CommandLine.SetOutput(os.Stderr)
	// vcommon.Start parses the flags; the worker flags must be known before
	if len(os.Args) > 1 && os.Args[1] == "-worker" {
		flag.Parse()
		workerMain(*flagWorker, *flagWTmp)
		return
	}
	r := vcommon.Start("C03", "exploration")
	thorough := r.Thorough()
	cases := buildCases(thorough)
	if *flagOnly != "" {
		var sel []Case
		for _, c := range cases {
			if strings.Contains(c.key(), *flagOnly) {
				sel = append(sel, c)
			}
		}
		cases = sel
	}

	n := *flagProcs
	if n <= 0 {
		// the workers mostly wait (a rejected authentication sleeps up to 4 s): two per core
		n = 2 * runtime.GOMAXPROCS(0)
		if n > 32 {
			n = 32
		}
		if n < 8 {
			n = 8
		}
	}
	if n%2 == 1 {
		n++
	}
	tmp, err := os.MkdirTemp("", "verif-c03e-")
	if err != nil {
		vcommon.Harness("tmp: %v", err)
	}
	cleanup := func() {
		if !*flagKeep {
			os.RemoveAll(tmp)
		}
	}

	// Fixed assignment of the cases to the workers. Worker w runs a Core whose RTSP server offers basic+digest (even w)
	// or basic only (odd w), without trusted proxies (w/2 even) or with 127.0.0.1 as trusted proxy of HLS and WebRTC
	// (w/2 odd), with RTSPS / RTMPS only on the first workers. A case goes to the next worker in turn that has what it needs.
	jobs := make([]Job, n)
	for w := range jobs {
		jobs[w].Variant = []string{"d", "b"}[w%2]
		jobs[w].World = []string{"n", "p"}[(w/2)%2]
		// every TLS listener costs two inotify instances (128 per user, shared with everything else on the machine):
		// only the first workers have RTSPS / RTMPS, and the TLS cases go there
		jobs[w].TLS = thorough && w < tlsWorkers
		jobs[w].Workers = n
	}
	next := map[string]int{}
	for _, c := range cases {
		needTLS := c.Proto == "rtsps" || c.Proto == "rtmps"
		k := fmt.Sprintf("%s/%s/%v", c.Variant, c.World, needTLS)
		w := next[k]
		for tries := 0; ; tries++ {
			w %= n
			j := jobs[w]
			if (c.Variant == "" || c.Variant == j.Variant) && (c.World == "" || c.World == j.World) && (!needTLS || j.TLS) {
				break
			}
			if tries > n {
				cleanup()
				vcommon.Harness("no worker for case %s", c.key())
			}
			w++
		}
		next[k] = w + 1
		jobs[w].Cases = append(jobs[w].Cases, c)
	}
	var jl []any
	for _, j := range jobs {
		jl = append(jl, j)
	}
	pool := e2elib.NewPool(n, tmp)
	results := pool.Run(jl)
	pool.Close()

	obs := map[int]*Obs{}
	skipped := map[int]bool{}
	feederDenied := false
	for w, res := range results {
		if res.Crash != "" {
			cleanup()
			vcommon.Harness("worker %d: %s", w, res.Crash)
		}
		var wr WorkerResult
		if err = json.Unmarshal(res.Raw, &wr); err != nil {
			cleanup()
			vcommon.Harness("worker %d: bad answer: %v", w, err)
		}
		if wr.HarnessError != "" {
			tail := ""
			if buf, e := os.ReadFile(pool.LogPath(w)); e == nil {
				if len(buf) > 2500 {
					buf = buf[len(buf)-2500:]
				}
				tail = string(buf)
			}
			cleanup()
			vcommon.Harness("worker %d: %s\n%s", w, wr.HarnessError, tail)
		}
		for i := range wr.Obs {
			obs[wr.Obs[i].ID] = &wr.Obs[i]
		}
		if wr.FeederDenied != "" {
			feederDenied = true
			r.Violation("authorized-denied:rtsp:publish:hdr",
				"the publisher that supplies the readers' paths (user v3, who may publish anywhere) was denied: "+wr.FeederDenied,
				map[string]any{"worker": w, "error": wr.FeederDenied})
			for _, c := range jobs[w].Cases {
				if c.Action == "read" {
					skipped[c.ID] = true
				}
			}
		}
		if os.Getenv("VERIF_E2E_TIMING") != "" {
			fmt.Fprintf(os.Stderr, "worker %d: cases=%d start=%.1fs read=%.1fs publish=%.1fs\n", w, len(jobs[w].Cases), wr.StartS, wr.ReadS, wr.PubS)
		}
	}
	cleanup()

	judge(r, cases, obs, skipped)
	if feederDenied {
		r.Note("read cases were not run on the workers whose feeder was denied")
	}

	r.Rule = "protocol x action x path {a,b1,c} x identity (7 users with their password, 4 with a wrong one, 2 with another user's, " +
		"anonymous; 3 from a second source address; HTTP protocols: 4 that present an IP-restricted user's credentials with forged " +
		"X-Forwarded-For / X-Real-Ip, and 9 against a second configuration in which 127.0.0.1 is a trusted proxy) x credential placement (RTSP: unasked Basic header / URL after challenge; " +
		"RTMP: query; SRT: both stream-id syntaxes; HTTP: Basic / Bearer user:pass) x RTSP flow (DESCRIBE+SETUP+PLAY, SETUP+PLAY, " +
		"DESCRIBE of another path) x RTSP server methods (basic+digest / basic); a class = protocol/action/placement/flow/variant x " +
		"predicted verdict x observed protocol steps"
	r.Exhaustive = *flagOnly == "" && !feederDenied
	r.Assumptions = []string{
		"the address a request is judged by is the TCP peer address unless the peer is a configured trusted proxy (hlsTrustedProxies / " +
			"webrtcTrustedProxies), in which case it is the forwarded address; with the default empty list no header is believed",
		"one configuration of users and paths (the permission shapes of the design: exact path, any path, regular expression, IP-restricted, none)",
		"all clients come from loopback addresses (127.0.0.1 and 127.0.0.7); an address outside 127/8 cannot be produced in the sandbox",
		"the client libraries are the ones the repository depends on; a client is identified in the API by the remote address the server saw",
		"publishers of one path are run one at a time per Core (a second publisher would replace the first); readers run concurrently",
		"MoQ is not driven; WebRTC, RTSPS and RTMPS only in the thorough tier",
		"authorization -> reload -> attachment interleavings are layer b (harness c03)",
	}
	r.Finish()
}

func judge(r *vcommon.Run, cases []Case, obs map[int]*Obs, skipped map[int]bool) {
	counts := map[string]int{}
	var harnessErrs []string
	for _, c := range cases {
		o := obs[c.ID]
		if skipped[c.ID] {
			continue
		}
		if o == nil {
			harnessErrs = append(harnessErrs, fmt.Sprintf("case %s: no observation", c.key()))
			continue
		}
		if o.HarnessError != "" {
			harnessErrs = append(harnessErrs, fmt.Sprintf("case %s: %s", c.key(), o.HarnessError))
			continue
		}
		if os.Getenv("VERIF_E2E_TIMING") != "" && o.ConnS+o.ObsS+o.TearS > 6 {
			fmt.Fprintf(os.Stderr, "slow %s: connect=%.1fs observe=%.1fs teardown=%.1fs tries=%d outcome=%s\n", c.key(), o.ConnS, o.ObsS, o.TearS, o.Tries, o.Outcome)
		}
		if o.TeardownNote != "" {
			r.Note("case %s: %s", c.key(), o.TeardownNote)
		}
		r.Eval(1)
		ip := clientIP(c)
		want := admits(users, c.Cred, ip, c.Action, c.Path)
		verdict := "reject"
		if want {
			verdict = "admit"
		}
		counts[c.Proto+"/"+c.Action+"/"+verdict]++
		counts["total/"+verdict]++
		forged := ""
		if len(c.Cred.Headers) > 0 {
			var hs []string
			for h := range c.Cred.Headers {
				hs = append(hs, h)
			}
			sort.Strings(hs)
			forged = " world=" + c.World + " forged=" + strings.Join(hs, "+")
		}
		class := fmt.Sprintf("%s/%s/%s/%s/%s%s pred=%s steps=%s", c.Proto, c.Action, c.Place, c.Flow, c.Variant, forged, verdict, strings.Join(o.Steps, ","))
		r.Distinct(class)
		if c.ID%97 == 0 {
			var ats []string
			for _, at := range o.Attached {
				ats = append(ats, at.String())
			}
			r.Sample(map[string]any{"case": c.key(), "predicted": verdict, "outcome": o.Outcome, "steps": o.Steps, "attached": ats})
		}
		kc := c.Proto + ":" + c.Action + ":" + c.Place
		if len(c.Cred.Headers) > 0 {
			kc += ":forged-proxy-header"
		}
		if c.World == "p" {
			kc += ":proxy-trusted"
		}
		if c.Flow != "" && c.Flow != "dsp" {
			kc += ":" + c.Flow
		}
		replay := map[string]any{"case": c, "predicted": verdict, "observation": o}
		expect := e2elib.Attach{Path: c.Path, Role: c.Action}
		okAttach := false
		for _, at := range o.Attached {
			if at.Path == expect.Path && at.Role == expect.Role {
				okAttach = true
				continue
			}
			r.Violation("attached-elsewhere:"+kc,
				fmt.Sprintf("%s: the client asked to %s %q and is attached as %s of %q", c.key(), c.Action, c.Path, at.Role, at.Path), replay)
		}
		if !want {
			if okAttach {
				r.Violation("attached-unauthorized:"+kc,
					fmt.Sprintf("%s: no configured user admits this client for %s on %q, yet it is attached (protocol outcome %s)",
						c.key(), c.Action, c.Path, o.Outcome), replay)
			} else if o.Outcome == e2elib.OutOK {
				r.Violation("served-unauthorized:"+kc,
					fmt.Sprintf("%s: no configured user admits this client, yet the protocol exchange succeeded (%v)", c.key(), o.Steps), replay)
			}
			if o.SourceAfter != nil && !okAttach {
				r.Violation("foreign-source:"+kc,
					fmt.Sprintf("%s: after a rejected publisher the path has source %v", c.key(), *o.SourceAfter), replay)
			}
		} else {
			if o.Outcome == e2elib.OutDenied {
				r.Violation("authorized-denied:"+kc,
					fmt.Sprintf("%s: a configured user admits this client, the server denied it (%s)", c.key(), o.Err), replay)
			} else if !okAttach {
				// protocol success that never became visible in the API: cannot be judged
				harnessErrs = append(harnessErrs, fmt.Sprintf("case %s: protocol exchange succeeded but the attachment was not seen (%v)", c.key(), o.Steps))
			}
		}
		// every attachment is backed by an admitted authentication for exactly that session, path and action
		for _, at := range o.Attached {
			backed := false
			for _, rec := range o.Auth[at.ID] {
				if rec.Admitted && rec.Path == at.Path && rec.Action == at.Role {
					backed = true
					wantIP := ip
					if rec.IP != wantIP || (!c.Cred.Anon && rec.User != c.Cred.User) || (c.Cred.Anon && rec.User != "") {
						r.Violation("auth-request-mismatch:"+kc,
							fmt.Sprintf("%s: the admitted authentication was requested for user %q ip %s", c.key(), rec.User, rec.IP), replay)
					}
				}
			}
			if !backed {
				r.Violation("attached-without-matching-auth:"+kc,
					fmt.Sprintf("%s: attached as %s of %q, but no admitted authentication of session %s names that path and action (%v)",
						c.key(), at.Role, at.Path, at.ID, o.Auth[at.ID]), replay)
			}
		}
	}
	if len(harnessErrs) > 0 {
		sort.Strings(harnessErrs)
		if len(harnessErrs) > 6 {
			harnessErrs = append(harnessErrs[:6], fmt.Sprintf("... and %d more", len(harnessErrs)-6))
		}
		vcommon.Harness("%d cases could not be observed:\n  %s", len(harnessErrs), strings.Join(harnessErrs, "\n  "))
	}
	keys := make([]string, 0, len(counts))
	for k := range counts {
		keys = append(keys, k)
	}
	sort.Strings(keys)
	cm := map[string]int{}
	for _, k := range keys {
		cm[k] = counts[k]
	}
	r.Set("cases_by_protocol_action_verdict", cm)
	r.Set("cases", len(cases))
	r.Set("predicted_admit", counts["total/admit"])
	r.Set("predicted_reject", counts["total/reject"])
	fmt.Printf("cases=%d admit=%d reject=%d classes=%d\n", len(cases), counts["total/admit"], counts["total/reject"], r.DistinctCount())
}
