// C39: forward destinations reconcile with configuration.
//
// Engine X: explicit-state breadth-first search over operation histories on the REAL
// forward.Manager. A state is the shortest history that reaches it; a successor is "fresh Manager,
// replay that history, apply one more operation". Destinations point at closed loopback TCP ports,
// so every started handler performs a real connection attempt, fails and sits in its retry pause;
// after every operation the harness waits (on the handler's own error log event, never on a sleep)
// until every freshly started handler has reached that pause, then observes through the shim which
// handler goroutines exist (done channel created and not closed).
//
// The verdict is taken on BEHAVIOUR only: which handler objects the manager holds, which run
// goroutines are alive (every done channel ever observed is remembered, so a goroutine orphaned by a
// second start() of the same handler still counts as running) and which URL each forwarder dials
// (its own "forwarding to" log event). What "available", "configured", "unchanged", "changed",
// "removed", "added" mean comes from the reference model (the operations applied so far), never
// from the manager's private bookkeeping: the shim locates private fields by type through
// reflection, so renaming or dropping e.g. Manager.started does not break the check, and the
// optional private facts (bool flags, remembered stream) only refine the state key.
//
// Alphabet: Init(L) as first operation; then Toggle (Start(stream) when the stream is unavailable,
// Stop when it is available: the alternation internal/core/path.go guarantees) and ReloadConf(L),
// L over every list of <= maxLen destinations (repetitions allowed) from the destination alphabet.
//
// The destination alphabet contains URLs with $MTX_PATH, with $G1 and without variables (the manager
// is built like internal/core/path.go builds it for a regular-expression path: PathName "cam7",
// Matches ["cam7","7"]), and variants that differ only in fingerprint / bearer token.
//
// Canonical state key: (model: stream available, ever available; implementation: every private bool
// of the manager and the nil-ness of every private pointer, found by reflection; per list position:
// destination, phase) with phase in {never started, running, stopped}. Two states with the same key
// have the same futures because Manager/DestHandler control flow reads nothing else: ReloadConf
// reads destHandlers[i].Conf, m.started, m.stream; start() overwrites ctx/done; stop() reads
// ctxCancel/done (set by the last start); uuid, created, lastError, state and byte counters never
// influence control flow.
package main

import (
	"flag"
	"fmt"
	"net"
	"os"
	"sort"
	"strings"
	"sync"
	"time"

	"github.com/bluenviron/gortsplib/v5/pkg/description"
	"github.com/bluenviron/gortsplib/v5/pkg/format"

	"github.com/bluenviron/mediamtx/internal/conf"
	"github.com/bluenviron/mediamtx/internal/forward"
	"github.com/bluenviron/mediamtx/internal/logger"
	"github.com/bluenviron/mediamtx/internal/stream"
	"github.com/bluenviron/mediamtx/internal/zzverif/vcommon"
)

// ---------------------------------------------------------------------------------------------
// alphabet

var (
	dests     []conf.ForwardDest // as configured (raw, with variables)
	destsRes  []conf.ForwardDest // the same with the variables of Dest resolved
	destNames []string
	lists     [][]int
)

// the path the manager belongs to, as internal/core/path.go would describe a path matched by the
// regular expression ~^cam(\d+)$
const pathName = "cam7"

var pathMatches = []string{"cam7", "7"}

// resolveModel is the reference resolution of the documented variables of a forward URL.
func resolveModel(u string) string {
	u = strings.ReplaceAll(u, "$G1", pathMatches[1])
	return strings.ReplaceAll(u, "$MTX_PATH", pathName)
}

const (
	opInit = iota
	opToggle
	opReload
)

type op struct {
	Kind int
	List int // index into lists (opInit, opReload)
}

func (o op) String() string {
	switch o.Kind {
	case opInit:
		return "Init" + listString(lists[o.List])
	case opToggle:
		return "Toggle"
	default:
		return "Reload" + listString(lists[o.List])
	}
}

func listString(l []int) string {
	s := make([]string, len(l))
	for i, d := range l {
		s[i] = destNames[d]
	}
	return "[" + strings.Join(s, ",") + "]"
}

func histString(h []op) []string {
	out := make([]string, len(h))
	for i, o := range h {
		out[i] = o.String()
	}
	return out
}

// closedPort finds a loopback TCP port on which a connection is refused.
func closedPorts(n int) []int {
	var out []int
	for _, p := range []int{1, 7, 9, 11, 13, 15, 17, 19, 20, 21, 23, 25, 37, 42, 43} {
		c, err := net.DialTimeout("tcp", fmt.Sprintf("127.0.0.1:%d", p), time.Second)
		if err == nil {
			c.Close()
			continue
		}
		if strings.Contains(err.Error(), "refused") {
			out = append(out, p)
			if len(out) == n {
				return out
			}
		}
	}
	vcommon.Harness("could not find %d closed loopback ports", n)
	return nil
}

func buildAlphabet(nDests, maxLen int) {
	ports := closedPorts(3)
	all := []struct {
		name string
		d    conf.ForwardDest
	}{
		// URL with $MTX_PATH
		{"d1", conf.ForwardDest{Dest: fmt.Sprintf("rtmp://127.0.0.1:%d/app/$MTX_PATH", ports[0])}},
		// URL with a regular-expression group
		{"d2", conf.ForwardDest{Dest: fmt.Sprintf("rtsp://127.0.0.1:%d/$G1/main", ports[1])}},
		// URL without variables
		{"d3", conf.ForwardDest{Dest: fmt.Sprintf("whip://127.0.0.1:%d/fixed/whip", ports[2]), WHIPBearerToken: "tok"}},
		// same URL as d1, other fingerprint: a CHANGED destination
		{"d1f", conf.ForwardDest{Dest: fmt.Sprintf("rtmp://127.0.0.1:%d/app/$MTX_PATH", ports[0]), DestFingerprint: "aa"}},
		// same URL as d3, other bearer token
		{"d3t", conf.ForwardDest{Dest: fmt.Sprintf("whip://127.0.0.1:%d/fixed/whip", ports[2]), WHIPBearerToken: "other"}},
		{"d2f", conf.ForwardDest{Dest: fmt.Sprintf("rtsp://127.0.0.1:%d/$G1/main", ports[1]), DestFingerprint: "bb"}},
	}
	for i := 0; i < nDests; i++ {
		dests = append(dests, all[i].d)
		r := all[i].d
		r.Dest = resolveModel(r.Dest)
		destsRes = append(destsRes, r)
		destNames = append(destNames, all[i].name)
	}
	hasPath, hasGroup, hasPlain := false, false, false
	for _, d := range dests {
		switch {
		case strings.Contains(d.Dest, "$MTX_PATH"):
			hasPath = true
		case strings.Contains(d.Dest, "$G1"):
			hasGroup = true
		default:
			hasPlain = true
		}
	}
	if !hasPath || !hasGroup || !hasPlain {
		vcommon.Harness("destination alphabet %v lacks a URL with $MTX_PATH, with $G1 or without variables (use -dests >= 3)", destNames)
	}
	lists = [][]int{{}}
	prev := [][]int{{}}
	for l := 1; l <= maxLen; l++ {
		var cur [][]int
		for _, p := range prev {
			for d := range dests {
				cur = append(cur, append(append([]int(nil), p...), d))
			}
		}
		lists = append(lists, cur...)
		prev = cur
	}
}

func toForward(l []int) conf.Forward {
	f := make(conf.Forward, len(l))
	for i, d := range l {
		f[i] = dests[d]
	}
	return f
}

// confIs tells whether a handler's public Conf describes destination d of the alphabet. Whether the
// handler keeps the URL as configured or with its variables resolved is not part of the statement
// (don't-care); everything else must be equal.
func confIs(c conf.ForwardDest, d int) bool {
	return c == dests[d] || c == destsRes[d]
}

// destLabel names the destination a handler's Conf describes ("~" appended when it holds the
// resolved form of a URL with variables, "?" when it is none of the alphabet).
func destLabel(c conf.ForwardDest) string {
	for i := range dests {
		if c == dests[i] {
			return destNames[i]
		}
	}
	for i := range dests {
		if c == destsRes[i] {
			return destNames[i] + "~"
		}
	}
	return "?"
}

// ---------------------------------------------------------------------------------------------
// event log (Parent of the Manager)

type evlog struct {
	mu     sync.Mutex
	cond   *sync.Cond
	errors map[string]int    // handler id (hex of first 4 uuid bytes) -> error lines logged
	lines  map[string]int    // handler id -> any line
	fwd    map[string]string // handler id -> URL of its latest "forwarding to" event
}

func newEvlog() *evlog {
	l := &evlog{errors: map[string]int{}, lines: map[string]int{}, fwd: map[string]string{}}
	l.cond = sync.NewCond(&l.mu)
	return l
}

const (
	handlerPrefix = "[%s dest %d %s] "
	fwdSuffix     = "forwarding to '%s'"
)

func (l *evlog) Log(level logger.Level, format string, args ...any) {
	if !strings.HasPrefix(format, handlerPrefix) || len(args) < 3 {
		return
	}
	id, ok := args[2].(string)
	if !ok {
		return
	}
	l.mu.Lock()
	l.lines[id]++
	if level == logger.Error {
		l.errors[id]++
	}
	if strings.HasSuffix(format, fwdSuffix) && len(args) == 4 {
		if u, ok2 := args[3].(string); ok2 {
			l.fwd[id] = u
		}
	}
	l.mu.Unlock()
	l.cond.Broadcast()
}

func (l *evlog) errorCount(id string) int {
	l.mu.Lock()
	defer l.mu.Unlock()
	return l.errors[id]
}

// waitErrors blocks until handler id has logged more than n errors; false on watchdog expiry.
func (l *evlog) waitErrors(id string, n int, deadline time.Time) bool {
	stop := time.AfterFunc(time.Until(deadline), func() { l.cond.Broadcast() })
	defer stop.Stop()
	l.mu.Lock()
	defer l.mu.Unlock()
	for l.errors[id] <= n {
		if time.Now().After(deadline) {
			return false
		}
		l.cond.Wait()
	}
	return true
}

// forwardingTo returns the URL handler id last announced to dial ("" if it never did).
func (l *evlog) forwardingTo(id string) string {
	l.mu.Lock()
	defer l.mu.Unlock()
	return l.fwd[id]
}

func (l *evlog) ids() []string {
	l.mu.Lock()
	defer l.mu.Unlock()
	out := make([]string, 0, len(l.lines))
	for id := range l.lines {
		out = append(out, id)
	}
	sort.Strings(out)
	return out
}

// ---------------------------------------------------------------------------------------------
// one execution on a fresh real Manager

const (
	phNever   = 'n'
	phRunning = 'r'
	phStopped = 's'
)

type hobs struct {
	h     *forward.DestHandler
	done  <-chan struct{}
	phase byte
}

func probe(h *forward.DestHandler) hobs {
	p, _ := forward.VerifC39ProbeHandler(h) // presence of the channel is checked once in main
	o := hobs{h: h, done: p.Done}
	switch {
	case p.Done == nil:
		o.phase = phNever
	default:
		select {
		case <-p.Done:
			o.phase = phStopped
		default:
			o.phase = phRunning
		}
	}
	return o
}

type viol struct {
	key, what string
}

type exec struct {
	m       *forward.Manager
	log     *evlog
	strms   [2]*stream.Stream
	nStarts int

	// reference model, from the statement
	conf      []int
	available bool
	everAvail bool
	curStream *stream.Stream

	seen map[*forward.DestHandler]bool
	all  []*forward.DestHandler
	// every run-goroutine generation (done channel) ever observed, per handler: a goroutine whose
	// channel was overwritten by a second start() is still a running forwarder
	gens      map[*forward.DestHandler][]<-chan struct{}
	cur       []hobs // observation after the previous operation
	viols     []viol
	tclass    string   // class of the last transition
	mclass    []string // model classification of the positions of the last reload ("K:d1", ...) while available
	urlChecks int
	harnessE  string
}

func hid(h *forward.DestHandler) string {
	id := h.ID()
	return fmt.Sprintf("%x", id[:4])
}

func newStream() *stream.Stream {
	s := &stream.Stream{
		OrigDesc: &description.Session{Medias: []*description.Media{{
			Type: description.MediaTypeVideo,
			Formats: []format.Format{&format.H264{
				PayloadTyp:        96,
				PacketizationMode: 1,
				SPS:               []byte{0x67, 0x42, 0xc0, 0x28, 0xd9, 0x00, 0x78, 0x02, 0x27, 0xe5, 0x84, 0x00, 0x00, 0x03, 0x00, 0x04, 0x00, 0x00, 0x03, 0x00, 0xf0, 0x3c, 0x60, 0xc9, 0x20},
				PPS:               []byte{0x08, 0x06, 0x07, 0x08},
			}},
		}}},
		WriteQueueSize:    512,
		RTPMaxPayloadSize: 1450,
		Parent:            nilLogger{},
	}
	if err := s.Initialize(); err != nil {
		vcommon.Harness("stream initialize: %v", err)
	}
	return s
}

type nilLogger struct{}

func (nilLogger) Log(logger.Level, string, ...any) {}

func (e *exec) fail(key, format string, a ...any) {
	e.viols = append(e.viols, viol{key, fmt.Sprintf(format, a...)})
}

// liveGoroutines counts the run goroutines of h that are alive (over every generation observed).
func (e *exec) liveGoroutines(h *forward.DestHandler) int {
	n := 0
	for _, c := range e.gens[h] {
		select {
		case <-c:
		default:
			n++
		}
	}
	return n
}

// Model classification of one list position of a reload, from the configured lists only.
const (
	clKept    = 'K' // same index, equal configuration
	clChanged = 'C' // same index, other configuration, old destination gone from the list
	clShifted = 'S' // same index, other configuration, old destination still somewhere in the new list
	clRemoved = 'R' // index beyond the new list
	clAdded   = 'A' // index beyond the old list
)

// classify is the reference model of ReloadConf: what the statement says about every position,
// computed from the list configured before and the list configured after. Nothing of the
// implementation enters here.
func classify(before, after []int) []byte {
	n := max(len(before), len(after))
	pat := make([]byte, n)
	for i := 0; i < n; i++ {
		switch {
		case i < len(before) && i < len(after) && before[i] == after[i]:
			pat[i] = clKept
		case i < len(before) && i < len(after):
			pat[i] = clChanged
			for _, d := range after {
				if d == before[i] {
					pat[i] = clShifted
				}
			}
		case i < len(before):
			pat[i] = clRemoved
		default:
			pat[i] = clAdded
		}
	}
	return pat
}

func inListModel(l []int, d int) bool {
	for _, x := range l {
		if x == d {
			return true
		}
	}
	return false
}

// apply runs one operation on the real object and on the reference model, waits for quiescence and
// evaluates the transition oracle and the state invariant.
func (e *exec) apply(o op) {
	before := map[string]int{}
	for _, h := range e.all {
		before[hid(h)] = e.log.errorCount(hid(h))
	}
	prev := e.cur
	prevConf := e.conf
	prevAvail := e.available

	switch o.Kind {
	case opInit:
		e.log = newEvlog()
		e.m = &forward.Manager{
			ReadTimeout:       conf.Duration(10 * time.Second),
			WriteTimeout:      conf.Duration(10 * time.Second),
			UDPMaxPayloadSize: 1472,
			PathName:          pathName,
			Matches:           append([]string(nil), pathMatches...),
			Forward:           toForward(lists[o.List]),
			Parent:            e.log,
		}
		e.m.Initialize()
		e.conf = lists[o.List]
	case opToggle:
		if !e.available {
			s := e.strms[e.nStarts%2]
			e.nStarts++
			e.m.Start(s)
			e.available = true
			e.everAvail = true
			e.curStream = s
		} else {
			e.m.Stop()
			e.available = false
		}
	case opReload:
		e.m.ReloadConf(toForward(lists[o.List]))
		e.conf = lists[o.List]
	}

	// observe
	hs, _ := forward.VerifC39Handlers(e.m) // presence of the list is checked once in main
	for _, h := range hs {
		if !e.seen[h] {
			e.seen[h] = true
			e.all = append(e.all, h)
		}
	}
	// quiescence: every handler whose goroutine was (re)started by this operation must reach its
	// retry pause (it logs its connection error right before arming the timer)
	prevDone := map[*forward.DestHandler]<-chan struct{}{}
	for _, p := range prev {
		prevDone[p.h] = p.done
	}
	deadline := time.Now().Add(30 * time.Second)
	for _, h := range e.all {
		p := probe(h)
		if p.done != nil {
			known := false
			for _, c := range e.gens[h] {
				if c == p.done {
					known = true
				}
			}
			if !known {
				e.gens[h] = append(e.gens[h], p.done)
			}
		}
		if p.phase == phRunning && prevDone[h] != p.done {
			if !e.log.waitErrors(hid(h), before[hid(h)], deadline) {
				e.harnessE = fmt.Sprintf("handler %s (%s) did not report a connection error within 30 s "+
					"(destination port not closed, or log format changed)", hid(h), h.Conf.Dest)
				return
			}
		}
	}

	cur := make([]hobs, len(hs))
	for i, h := range hs {
		cur[i] = probe(h)
	}
	e.cur = cur

	// ---- state invariant ----
	// (a) one handler per configured destination, in configuration order
	if len(cur) != len(e.conf) {
		e.fail("list-length", "%d handlers for %d configured destinations", len(cur), len(e.conf))
	} else {
		for i, c := range cur {
			if !confIs(c.h.Conf, e.conf[i]) {
				e.fail("list-order", "handler %d has destination %+v, configuration says %s", i, c.h.Conf, destNames[e.conf[i]])
			}
			if c.h.Pos != i+1 {
				e.fail("list-pos", "handler at index %d reports position %d", i, c.h.Pos)
			}
			// the forwarder of position i dials the URL configured at position i (variables resolved);
			// skipped when the implementation does not announce what it dials
			if c.phase == phRunning {
				if u := e.log.forwardingTo(hid(c.h)); u != "" {
					e.urlChecks++
					if want := destsRes[e.conf[i]].Dest; u != want {
						e.fail("wrong-destination", "forwarder %d dials %q, configured destination %s resolves to %q", i, u, destNames[e.conf[i]], want)
					}
				}
			}
		}
	}
	api := e.m.APIList()
	if len(api.Items) != len(cur) {
		e.fail("api-list", "APIList has %d items, manager holds %d handlers", len(api.Items), len(cur))
	} else {
		for i, it := range api.Items {
			if it.ID != cur[i].h.ID() || it.Conf != cur[i].h.Conf {
				e.fail("api-list", "APIList item %d is not handler %d", i, i)
			}
		}
	}
	dup := map[*forward.DestHandler]bool{}
	dupDone := map[<-chan struct{}]bool{}
	for i, c := range cur {
		if dup[c.h] {
			e.fail("handler-shared", "the same handler serves two list positions (index %d)", i)
		}
		dup[c.h] = true
		if c.phase == phRunning {
			if dupDone[c.done] {
				e.fail("handler-shared", "two handlers share a run goroutine (index %d)", i)
			}
			dupDone[c.done] = true
		}
	}
	// (b) stream available: every configured destination has its forwarder running
	if e.available {
		for i, c := range cur {
			if c.phase != phRunning {
				e.fail("not-running-while-available", "stream available but forwarder %d (%s) is not running (phase %c)",
					i, c.h.Conf.Dest, c.phase)
			}
		}
		// optional (only if the manager remembers a stream at all): it must be the available one,
		// forwarders started by a later reload are handed that pointer
		if ms, ok := forward.VerifC39ManagerStream(e.m); ok && ms != e.curStream {
			e.fail("stale-stream", "manager remembers a stream that is not the available one: forwarders started by a reload would read a dead stream")
		}
	}
	// (c) nothing else runs: handlers not in the list never run; nothing runs while unavailable;
	// never two run goroutines for one handler
	inList := map[*forward.DestHandler]bool{}
	for _, c := range cur {
		inList[c.h] = true
	}
	for _, h := range e.all {
		n := e.liveGoroutines(h)
		if n == 0 {
			continue
		}
		if !e.available {
			e.fail("running-while-unavailable", "stream unavailable but forwarder %s (%s) is running", hid(h), h.Conf.Dest)
		} else if !inList[h] {
			e.fail("orphan-running", "forwarder %s (%s) is no longer configured but still runs", hid(h), h.Conf.Dest)
		}
		if n > 1 {
			e.fail("duplicate-forwarder", "forwarder %s (%s) has %d run goroutines alive (started again without being stopped)", hid(h), h.Conf.Dest, n)
		}
	}
	known := map[string]bool{}
	for _, h := range e.all {
		known[hid(h)] = true
	}
	for _, id := range e.log.ids() {
		if !known[id] {
			e.fail("phantom-forwarder", "a forwarder %s that was never part of the list has been active", id)
		}
	}

	// ---- transition oracle ----
	e.mclass = nil
	switch o.Kind {
	case opInit:
		e.tclass = fmt.Sprintf("init len=%d", len(e.conf))
		for _, c := range cur {
			if c.phase != phNever {
				e.fail("running-while-unavailable", "forwarder started by Initialize")
			}
		}
	case opToggle:
		e.tclass = fmt.Sprintf("toggle avail=%v len=%d", e.available, len(e.conf))
		// the configuration did not change: the same handlers keep their positions
		if len(prev) == len(cur) {
			for i := range cur {
				if prev[i].h != cur[i].h {
					e.fail("toggle-replaced-handler", "Start/Stop replaced the handler at index %d", i)
				}
			}
		}
	case opReload:
		pat := classify(prevConf, e.conf)
		for i, cl := range pat {
			if prevAvail {
				if i < len(prevConf) {
					e.mclass = append(e.mclass, fmt.Sprintf("%c:%s", cl, destNames[prevConf[i]]))
				} else {
					e.mclass = append(e.mclass, fmt.Sprintf("%c:%s", cl, destNames[e.conf[i]]))
				}
			}
			switch cl {
			case clKept:
				// unchanged destination: must keep running untouched
				if i < len(prev) && i < len(cur) {
					if prev[i].h != cur[i].h && prevAvail {
						e.fail("unchanged-replaced", "reload replaced the running forwarder of unchanged destination %d (%s) by a new one", i, destNames[e.conf[i]])
					} else if prev[i].h != cur[i].h {
						e.fail("unchanged-replaced-while-unavailable", "reload replaced the (idle) handler of unchanged destination %d (%s): new identity in the API", i, destNames[e.conf[i]])
					} else if prev[i].done != cur[i].done {
						e.fail("unchanged-restarted", "reload restarted the forwarder of unchanged destination %d (%s)", i, destNames[e.conf[i]])
					} else if prev[i].phase != cur[i].phase {
						e.fail("unchanged-touched", "reload moved unchanged destination %d from phase %c to %c", i, prev[i].phase, cur[i].phase)
					}
				}
			case clChanged, clShifted:
				// changed: the old handler must have been replaced by a new one; whether a destination that
				// merely moved to another index keeps its handler is left open by the statement (don't-care),
				// so the only demand on the old handler is (c) above
				if i < len(prev) && i < len(cur) && prev[i].h == cur[i].h {
					e.fail("changed-kept", "reload kept the handler of changed destination %d", i)
				}
				if i < len(prev) && cl == clChanged && e.liveGoroutines(prev[i].h) > 0 {
					e.fail("changed-still-running", "forwarder of changed destination %d still runs after the reload returned", i)
				}
			case clRemoved:
				if i < len(prev) && !inListModel(e.conf, prevConf[i]) && e.liveGoroutines(prev[i].h) > 0 {
					e.fail("removed-still-running", "forwarder of removed destination %d still runs after the reload returned", i)
				}
			case clAdded:
				if i < len(cur) {
					for _, p := range prev {
						if p.h == cur[i].h {
							e.fail("added-reused", "added destination %d reuses an old handler", i)
						}
					}
				}
			}
		}
		e.tclass = fmt.Sprintf("reload avail=%v %s", prevAvail, pat)
	}
}

func (e *exec) key() string {
	var b strings.Builder
	fmt.Fprintf(&b, "avail=%v ever=%v | %s |", e.available, e.everAvail, forward.VerifC39ManagerFingerprint(e.m))
	for _, c := range e.cur {
		fmt.Fprintf(&b, " %s:%c", destLabel(c.h.Conf), c.phase)
	}
	return b.String()
}

// teardown ends whatever still runs, through the public API only.
func (e *exec) teardown() {
	if e.m != nil {
		running := e.available
		for _, h := range e.all {
			if e.liveGoroutines(h) > 0 {
				running = true
			}
		}
		if running {
			vcommon.Recover(func() { e.m.Stop() })
		}
	}
	for _, s := range e.strms {
		s.Close()
	}
}

type result struct {
	key       string
	viols     []viol
	tclass    string
	mclass    []string
	urlChecks int
	harness   string
	panicV    string
}

// run executes a history on a fresh manager; the oracle is evaluated after every operation but only
// the findings of the LAST operation are reported (earlier ones belong to the predecessor state).
func run(h []op, strict bool) (res result) {
	done := make(chan result, 1)
	go func() {
		var r result
		e := &exec{seen: map[*forward.DestHandler]bool{}, gens: map[*forward.DestHandler][]<-chan struct{}{}}
		e.strms = [2]*stream.Stream{newStream(), newStream()}
		p, stack := vcommon.Recover(func() {
			for i, o := range h {
				e.viols = nil
				e.apply(o)
				if e.harnessE != "" {
					r.harness = e.harnessE
					return
				}
				if i < len(h)-1 && len(e.viols) > 0 {
					if strict {
						r.harness = fmt.Sprintf("violation %s inside the replayed prefix (state should not have been expanded)", e.viols[0].key)
					}
					return
				}
			}
			r.key = e.key()
		})
		if p != nil {
			r.panicV = fmt.Sprintf("%v\n%s", p, stack)
		}
		r.viols = e.viols
		r.tclass = e.tclass
		r.mclass = e.mclass
		r.urlChecks = e.urlChecks
		done <- r
		// after the verdict of this execution has been handed over: a teardown that blocks in a broken
		// implementation must not turn a violation into a watchdog expiry
		if p == nil {
			e.teardown()
		}
	}()
	select {
	case r := <-done:
		return r
	case <-time.After(90 * time.Second):
		return result{harness: "execution did not finish within 90 s (an operation blocks)"}
	}
}

// ---------------------------------------------------------------------------------------------

func main() {
	nDests := flag.Int("dests", 4, "size of the destination alphabet")
	maxLen := flag.Int("maxlen", 3, "maximum list length")
	maxDepth := flag.Int("depth", 12, "maximum history length (BFS normally stops earlier at the fixpoint)")
	budget := flag.Duration("budget", 10*time.Minute, "internal deadline")
	r := vcommon.Start("C39", "model_checking")
	buildAlphabet(*nDests, *maxLen)
	t0 := time.Now()

	r.Rule = fmt.Sprintf("BFS over histories Init(L)·{Toggle stream, ReloadConf(L)}* on a fresh real forward.Manager per transition, "+
		"L over all %d lists of <=%d destinations from %v (URLs with $MTX_PATH, with $G1, without variables; fingerprint/token variants); "+
		"states deduplicated by (model: available, ever available; implementation: private flags found by reflection; per position destination+phase); "+
		"distinct = reachable state keys plus transition classes (per-position Kept/Changed/Shifted/Removed/Added pattern of the REFERENCE MODEL x availability)",
		len(lists), *maxLen, destNames)

	// pre-flight: the two indispensable observations must be possible on this tree
	{
		pm := &forward.Manager{PathName: pathName, Matches: pathMatches, Forward: toForward([]int{0}), Parent: newEvlog()}
		pm.Initialize()
		hs, ok := forward.VerifC39Handlers(pm)
		if !ok || len(hs) != 1 {
			vcommon.Harness("cannot observe the handler list of forward.Manager (no unambiguous field of type []*DestHandler holding %d handler after Initialize)", 1)
		}
		if _, ok = forward.VerifC39ProbeHandler(hs[0]); !ok {
			vcommon.Harness("cannot observe the run goroutine of forward.DestHandler (neither a chan struct{} nor a context.Context field)")
		}
	}

	// determinism discipline: the first non-trivial history twice
	probeH := []op{{opInit, len(lists) - 1}, {opToggle, 0}, {opReload, 1}, {opToggle, 0}}
	a, b := run(probeH, false), run(probeH, false)
	if a.harness != "" {
		vcommon.Harness("%s", a.harness)
	}
	if a.key != b.key || a.tclass != b.tclass || len(a.viols) != len(b.viols) {
		vcommon.Harness("nondeterministic replay of %v: %q vs %q", histString(probeH), a.key, b.key)
	}

	type state struct {
		hist []op
		key  string
	}
	seen := map[string]bool{}
	var frontier []state
	states, transitions, execs := 0, 0, 2
	maxDepthReached := 0
	fix := false
	tclasses := map[string]int{}
	mclasses := map[string]int{} // model classification x destination, reloads while the stream is available
	violations, urlChecks := 0, 0

	type job struct {
		hist []op
	}
	expand := func(jobs []job, depth int) []state {
		results := make([]result, len(jobs))
		vcommon.Parallel(len(jobs), func(i int) {
			if time.Since(t0) > *budget {
				results[i] = result{harness: "budget"}
				return
			}
			results[i] = run(jobs[i].hist, true)
		})
		var next []state
		for i, res := range results {
			h := jobs[i].hist
			if res.harness == "budget" {
				continue
			}
			if res.harness != "" {
				vcommon.Harness("%s; history %v", res.harness, histString(h))
			}
			execs++
			transitions++
			r.Eval(1)
			last := h[len(h)-1]
			replay := map[string]any{"history": histString(h), "destinations": dests}
			if res.panicV != "" {
				kind := []string{"init", "toggle", "reload"}[last.Kind]
				violations++
				r.Violation("panic-"+kind, fmt.Sprintf("history %v panics: %s", histString(h), vcommon.Short(res.panicV, 600)), replay)
				continue
			}
			for _, v := range res.viols {
				violations++
				r.Violation(v.key, fmt.Sprintf("after %v: %s", histString(h), v.what), replay)
			}
			urlChecks += res.urlChecks
			for _, mc := range res.mclass {
				mclasses[mc]++
			}
			tclasses[res.tclass]++
			r.Distinct("T " + res.tclass)
			if len(res.viols) > 0 {
				continue // do not expand a violating state
			}
			if !seen[res.key] {
				seen[res.key] = true
				states++
				r.Distinct("S " + res.key)
				next = append(next, state{hist: h, key: res.key})
				if len(h) > maxDepthReached {
					maxDepthReached = len(h)
				}
				if len(h) >= 4 && strings.Contains(res.key, ":n") && strings.Contains(res.key, ":s") {
					r.Sample(map[string]any{"history": histString(h), "state": res.key, "last_transition": res.tclass})
				}
			}
		}
		return next
	}

	// depth 1: every Init(L)
	var jobs []job
	for li := range lists {
		jobs = append(jobs, job{hist: []op{{opInit, li}}})
	}
	frontier = expand(jobs, 1)
	completed := 1
	for depth := 2; depth <= *maxDepth; depth++ {
		if len(frontier) == 0 {
			fix = true
			break
		}
		if time.Since(t0) > *budget {
			break
		}
		jobs = jobs[:0]
		for _, s := range frontier {
			jobs = append(jobs, job{hist: append(append([]op(nil), s.hist...), op{opToggle, 0})})
			for li := range lists {
				jobs = append(jobs, job{hist: append(append([]op(nil), s.hist...), op{opReload, li})})
			}
		}
		fmt.Fprintf(os.Stderr, "[c39] depth %d: frontier %d states, %d transitions to run (%.1fs)\n", depth, len(frontier), len(jobs), time.Since(t0).Seconds())
		frontier = expand(jobs, depth)
		if time.Since(t0) > *budget {
			break
		}
		completed = depth
	}
	if len(frontier) == 0 {
		fix = true
	}

	// non-vacuity: the collisions the statement talks about must have occurred. Counted on the
	// classifications of the reference model (never on what the implementation did). A violating
	// state is not expanded, so an implementation that violates early legitimately truncates the
	// search: the assertion only applies to a search without violations (otherwise the violations
	// are the verdict).
	if violations == 0 && time.Since(t0) <= *budget {
		for _, cl := range []byte{clKept, clChanged, clShifted, clRemoved, clAdded} {
			n := 0
			for mc, c := range mclasses {
				if mc[0] == cl {
					n += c
				}
			}
			if n == 0 {
				vcommon.Harness("vacuous: no reload with a %c position (reference model) while the stream was available", cl)
			}
		}
		// an unchanged destination of every kind (with $MTX_PATH, with $G1, without variables, ...)
		for _, dn := range destNames {
			if mclasses[fmt.Sprintf("%c:%s", clKept, dn)] == 0 {
				vcommon.Harness("vacuous: destination %s was never an unchanged position of a reload while the stream was available", dn)
			}
		}
	}

	r.Set("states", states)
	r.Set("transitions", transitions)
	r.Set("traces_validated_against_impl", execs)
	r.Set("bound_completed", completed)
	r.Set("max_history_length_of_a_new_state", maxDepthReached)
	r.Set("fixpoint_reached", fix)
	r.Set("lists", len(lists))
	r.Set("transition_classes", len(tclasses))
	r.Set("model_position_classes_while_available", len(mclasses))
	r.Set("dialled_url_checks", urlChecks)
	r.Exhaustive = fix
	if !fix {
		r.Note("internal deadline or depth bound hit: histories up to length %d completed", completed)
	}
	r.Assumptions = []string{
		"Start and Stop alternate (as internal/core/path.go calls them); Stop before the first Start is outside the alphabet",
		"operations are sequential (one goroutine drives the manager, as the path's run loop does); ReloadConf racing APIList is not explored here",
		"'running' = a run goroutine of the handler exists (a done channel ever observed on it that is not closed), observed through the shim by field TYPE (no private field name is relied on); every started handler is additionally required to have performed a real connection attempt (its error log event) before the state is observed",
		"stream availability, configured list and the Kept/Changed/Shifted/Removed/Added class of every reload position come from the reference model (operations applied), never from Manager.started or other private bookkeeping; private flags only refine the state key",
		"a handler may publish its destination URL as configured or with $MTX_PATH/$G<n> resolved (don't-care); the URL it dials (its 'forwarding to' event, when emitted) must be the resolved configured URL",
		"a destination that only moves to another list index may keep or restart its forwarder (statement leaves it open); same index + equal configuration = unchanged",
		"which stream a running handler reads is only checked through the *stream.Stream the manager remembers (if it has such a field), not by receiving media (destinations are closed ports)",
		"state key soundness: control flow of Manager/DestHandler depends only on (private flags / stream set, per handler Conf and ctx/done generation)",
	}
	r.Finish()
}
