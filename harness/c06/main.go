// C06: path names cannot escape the recording tree.
// Engine B. Part A (in process): every name over the alphabet against conf.IsValidPathName,
// conf.FindPathConf over several loaded configurations, and as a static configuration name against
// conf.Load/Validate. Parts B-D (worker subprocesses, one per record path format x name shard, each
// with its own directory tree full of decoys and an inotify watch on every directory of it):
// recordstore.FindSegments / Path.Encode, the real playback server (list, get) and API server
// (recordings/get, recordings/deletesegment, recordings/list) over unix sockets, and the record
// cleaner. Oracle: accepted => the name satisfies the rule of the statement; every file or
// directory opened, listed, created or removed lies under the fixed directory prefix of that
// path's record path.
package main

import (
	"bytes"
	"encoding/hex"
	"encoding/json"
	"flag"
	"fmt"
	"os"
	"os/exec"
	"path/filepath"
	"sort"
	"strconv"
	"strings"
	"sync"

	"github.com/bluenviron/mediamtx/internal/conf"
	"github.com/bluenviron/mediamtx/internal/zzverif/vcommon"
)

var (
	flagWorker  = flag.Int("worker", -1, "internal: worker index")
	flagWorkers = flag.Int("nworkers", 0, "internal: number of workers")
	flagOut     = flag.String("out", "", "internal: worker result file")
	flagTmp     = flag.String("tmp", "", "internal: directory for the worker's trees")
	flagProg    = flag.String("progress", "", "internal: file naming the HTTP case in flight")
	flagSkip    = flag.String("skipnames", "", "internal: hex names to skip at the HTTP entry points")
)

// result is what a worker (and part A) hands back.
type violation struct {
	Key    string `json:"key"`
	What   string `json:"what"`
	Replay any    `json:"replay"`
	Count  int    `json:"count"`
}

type result struct {
	Evals    int64            `json:"evals"`
	Distinct []string         `json:"distinct"`
	Viols    []violation      `json:"viols"`
	Counters map[string]int64 `json:"counters"`
	Samples  []any            `json:"samples"`
	Notes    []string         `json:"notes"`
	// Incomplete: the worker hit its internal deadline before finishing its shard of HTTP names
	Incomplete bool `json:"incomplete"`

	distinct map[string]struct{}
}

func newResult() *result {
	return &result{Counters: map[string]int64{}, distinct: map[string]struct{}{}}
}

func (r *result) violate(key, what string, replay any) {
	for i := range r.Viols {
		if r.Viols[i].Key == key {
			r.Viols[i].Count++
			return
		}
	}
	r.Viols = append(r.Viols, violation{key, what, replay, 1})
}

func (r *result) dist(k string)           { r.distinct[k] = struct{}{} }
func (r *result) count(k string, n int64) { r.Counters[k] += n }
func (r *result) finish() {
	for k := range r.distinct {
		r.Distinct = append(r.Distinct, k)
	}
	sort.Strings(r.Distinct)
}

type tierParams struct {
	directLen int // names up to this many symbols for in-process parts and FindSegments
	httpLen   int // names up to this many symbols through the HTTP entry points
	confLen   int // static configuration names up to this many symbols
	shards    int
}

func params(thorough bool) tierParams {
	if thorough {
		return tierParams{directLen: 5, httpLen: 4, confLen: 3, shards: 3}
	}
	return tierParams{directLen: 4, httpLen: 3, confLen: 2, shards: 3}
}

func main() {
	flag.Parse()
	if *flagWorker >= 0 {
		workerMain()
		return
	}
	r := vcommon.Start("C06", "exploration")
	for _, e := range os.Environ() {
		if strings.HasPrefix(e, "MTX_") || strings.HasPrefix(e, "RTSP_") {
			vcommon.Harness("environment variable %s would alter the loaded configuration", strings.SplitN(e, "=", 2)[0])
		}
	}
	tp := params(r.Thorough())

	nf := len(formats)
	nworkers := nf * tp.shards
	r.Rule = fmt.Sprintf("names = all strings of <=%d symbols (in process, FindSegments) / <=%d symbols (HTTP entry points) over %d symbols %q plus %d traversal/encoding/edge names; "+
		"x {IsValidPathName, FindPathConf over 8 loaded configurations, static configuration name through conf.Load (<=%d symbols)}; "+
		"x %d record path formats x {FindSegments, Path.Encode, playback list, playback get, api recordings/get, api recordings/deletesegment} x 2 percent-encodings, "+
		"plus recordings/list and 2 cleaner configurations per format; every directory of the tree is watched with inotify; "+
		"distinct classes: validators = (function, configuration, accepted/rejected, resolved configuration, shape of the name or rejection reason); "+
		"file-system stages = (stage/entry point, format, name class {rejection reason, valid-fixture, valid-other}, status or segment count, touched {none, inside, outside}); "+
		"recorder/encode = (format, record format, shape of the name); cleaner = (format, configuration, files removed)",
		tp.directLen, tp.httpLen, len(symbols), symbols, len(extraNames), tp.confLen, nf)

	// workers first (they run as separate processes while part A runs here)
	outDir, err := os.MkdirTemp("", "verif-c06p-")
	if err != nil {
		vcommon.Harness("tmp: %v", err)
	}
	defer os.RemoveAll(outDir)
	results := make([]*result, nworkers+1)
	var wg sync.WaitGroup
	var mu sync.Mutex
	var workerErr string
	for w := 0; w < nworkers; w++ {
		wg.Add(1)
		go func() {
			defer wg.Done()
			outFile := filepath.Join(outDir, "w"+strconv.Itoa(w)+".json")
			progFile := filepath.Join(outDir, "w"+strconv.Itoa(w)+".progress")
			crashes := newResult()
			var skip []string
			var res *result
			for attempt := 0; ; attempt++ {
				os.Remove(progFile)
				cmd := exec.Command(os.Args[0], "-tier", r.Tier, "-worker", strconv.Itoa(w), "-nworkers", strconv.Itoa(nworkers),
					"-out", outFile, "-tmp", outDir, "-progress", progFile, "-skipnames", strings.Join(skip, ","))
				var out, errb bytes.Buffer
				cmd.Stdout = &out
				cmd.Stderr = &errb
				err := cmd.Run()
				res = newResult()
				if err == nil {
					var buf []byte
					buf, err = os.ReadFile(outFile)
					if err == nil {
						err = json.Unmarshal(buf, res)
					}
				}
				if err == nil {
					break
				}
				// the server process died (httpp exits the process when a handler panics): attribute it to the
				// request in flight. An INVALID name that gets far enough to crash the server was accepted.
				tail := errb.String()
				head := tail
				if len(head) > 400 {
					head = head[:400]
				}
				if len(tail) > 1500 {
					tail = tail[len(tail)-1500:]
				}
				if pb, perr := os.ReadFile(progFile); perr == nil && attempt < 8 {
					var pr struct{ Entry, Target, Name, NameHex, RecordPath string }
					if json.Unmarshal(pb, &pr) == nil {
						if nb, herr := hex.DecodeString(pr.NameHex); herr == nil {
							pr.Name = string(nb)
						}
						if reason := invalidReason(pr.Name); reason != "" {
							crashes.violate(pr.Entry+":invalid-name-crashes-server:"+reason,
								fmt.Sprintf("%s %s (name %s, %s), record path %s: the name was not rejected and the server process died: %s", pr.Entry, pr.Target, short(pr.Name), reason, pr.RecordPath, head),
								map[string]any{"entry": pr.Entry, "target": pr.Target, "name": pr.Name, "nameHex": pr.NameHex, "recordPath": pr.RecordPath})
							skip = append(skip, hex.EncodeToString([]byte(pr.Name)))
							continue
						}
					}
				}
				mu.Lock()
				workerErr = fmt.Sprintf("worker %d (format %s): %v; stdout %q; stderr tail: %s", w, formats[w%nf].id, err, vcommon.Short(out.String(), 300), tail)
				mu.Unlock()
				return
			}
			res.Viols = append(res.Viols, crashes.Viols...)
			results[w] = res
		}()
	}

	results[nworkers] = partA(tp)
	wg.Wait()
	if workerErr != "" {
		os.RemoveAll(outDir)
		vcommon.Harness("%s", workerErr)
	}

	totals := map[string]int64{}
	incomplete := false
	for _, res := range results {
		if res.Incomplete {
			incomplete = true
		}
		r.Eval(int(res.Evals))
		for _, d := range res.Distinct {
			r.Distinct(d)
		}
		for _, v := range res.Viols {
			for range v.Count {
				r.Violation(v.Key, v.What, v.Replay)
			}
		}
		for k, n := range res.Counters {
			totals[k] += n
		}
		for _, n := range res.Notes {
			r.Note("%s", n)
		}
	}
	// samples: deterministic order (worker order)
	for _, res := range results {
		for i, s := range res.Samples {
			if i < 1 {
				r.Sample(s)
			}
		}
	}
	keys := make([]string, 0, len(totals))
	for k := range totals {
		keys = append(keys, k)
	}
	sort.Strings(keys)
	for _, k := range keys {
		r.Set(k, totals[k])
	}
	// non-vacuity: the valid fixture paths must really be served / deleted, invalid names must really reach the handlers
	for _, k := range []string{
		"playback-list_valid_200", "playback-get_valid_200", "api-recordings-get_valid_200_with_segments", "api-deletesegment_valid_deleted",
		"http_invalid_rejected", "findsegments_valid_with_segments", "cleaner_files_removed", "isvalid_accepted", "findpathconf_accepted", "recorder_segments_created",
	} {
		if totals[k] == 0 {
			os.RemoveAll(outDir)
			vcommon.Harness("vacuous: counter %s is 0", k)
		}
	}
	r.Exhaustive = !incomplete
	if incomplete {
		r.Note("internal deadline hit: %d names were not sent to the HTTP entry points (machine overloaded); everything else was completed", totals["http_names_not_reached_deadline"])
	}
	r.Assumptions = []string{
		"DON'T-CARE (DESIGN §9 item 15): a request equal to the literal name of a regexp configuration ('~^a.*$', '~/../../rec2') is accepted by the exact lookup of FindPathConf; " +
			"C14 demands that exact hit, C06 forbids accepting such a name; the statements conflict, so these cases are counted (dontcare_literal_regexp_name*) and not judged",
		"only accepted => valid is judged (the statement does not demand that every valid name be accepted); valid names being served is measured for non-vacuity only",
		"'accepted' at an HTTP entry point = any status other than 400, or any file-system activity in the watched tree",
		"file-system activity is observed with inotify (open, create, delete, modify, move, attrib on every directory of the tree and its children) and a full comparison of the tree with its manifest at the end of each worker; stat() calls are not observable and not judged",
		"recorder: the real recorder is run on a real stream for 14 valid names x {fmp4, mpegts} x 5 record path formats; for all other valid names only the file name computation is exercised as the recorder does it (PathAddExtension(ReplaceAll(recordPath,%path,name)) then recordstore.Path{Start}.Encode)",
		"pathManager / RTSP / RTMP / SRT / WebRTC / HLS entry points all go through conf.FindPathConf (checked in part A); they are not driven over the network here; " +
			"the API config/paths/add|replace routes end in the same Conf.Validate that part A drives through conf.Load",
		"authentication is stubbed out (always succeeds); time zone is forced to UTC",
	}
	os.RemoveAll(outDir)
	r.Finish()
}

// ---------------------------------------------------------------------------------------------
// Part A

type confCase struct {
	id      string
	entries []string
}

var confCases = []confCase{
	{"K1-all_others", []string{"all_others"}},
	{"K2-static+anchored", []string{"a", "~^a.*$"}},
	{"K3-static-nested+catchall", []string{"a/b", "~^(.*)$"}},
	{"K4-regexps-matching-dots", []string{`~^\.\./(.*)$`, `~\.\.`, `~^.*/\.\./.*$`}},
	{"K5-unanchored-any", []string{"~."}},
	{"K6-all", []string{"all"}},
	{"K7-static-only", []string{"a", "a.b", "a/b"}},
	{"K8-literal-traversal-regexp", []string{"~/../../rec2", "all_others"}},
}

func partA(tp tierParams) *result {
	res := newResult()
	dir, err := os.MkdirTemp("", "verif-c06a-")
	if err != nil {
		vcommon.Harness("tmp: %v", err)
	}
	defer os.RemoveAll(dir)
	harness := func(format string, a ...any) {
		os.RemoveAll(dir)
		vcommon.Harness(format, a...)
	}

	names := genNames(tp.directLen)

	// A1: IsValidPathName
	for _, n := range names {
		res.Evals++
		reason := invalidReason(n)
		err := conf.IsValidPathName(n)
		if err == nil {
			res.count("isvalid_accepted", 1)
			if reason != "" {
				res.violate("isvalidpathname-accepts:"+reason, fmt.Sprintf("conf.IsValidPathName(%s) == nil although the name is invalid (%s)", short(n), reason),
					map[string]any{"function": "conf.IsValidPathName", "name": n})
			}
			res.dist("isvalid|accepted|" + nameShape(n))
		} else {
			res.count("isvalid_rejected", 1)
			if reason == "" {
				res.count("isvalid_rejected_although_valid_not_judged", 1)
			}
			res.dist("isvalid|rejected|" + reason)
		}
	}

	// A2: FindPathConf over loaded configurations
	for _, cc := range confCases {
		c, err := loadConfYAML(dir, cc.id, "", names2entries(cc.entries...))
		if err != nil {
			harness("configuration %s refused: %v", cc.id, err)
		}
		for _, n := range names {
			res.Evals++
			reason := invalidReason(n)
			pc, _, err := conf.FindPathConf(c.Paths, n)
			if err != nil {
				res.dist("findpathconf|" + cc.id + "|rejected|" + reason)
				continue
			}
			res.count("findpathconf_accepted", 1)
			if reason != "" {
				if strings.HasPrefix(n, "~") && pc.Name == n {
					res.count("dontcare_literal_regexp_name_findpathconf", 1)
					continue
				}
				res.violate("findpathconf-accepts:"+reason, fmt.Sprintf("conf.FindPathConf(%s, %s) resolved to %q although the name is invalid (%s)", cc.id, short(n), pc.Name, reason),
					map[string]any{"function": "conf.FindPathConf", "configuration": cc.entries, "name": n})
			}
			res.dist("findpathconf|" + cc.id + "|accepted|" + pc.Name + "|" + nameShape(n))
		}
	}

	// A3: static configuration names through conf.Load / Validate
	cnames := genNames(tp.confLen)
	type out struct {
		name     string
		accepted bool
	}
	outs := make([]out, len(cnames))
	vcommon.Parallel(len(cnames), func(i int) {
		n := cnames[i]
		if strings.HasPrefix(n, "~") || n == "all" || n == "all_others" {
			return
		}
		c, err := loadConfYAML(dir, "s"+strconv.Itoa(i), "", names2entries(n))
		if err == nil {
			// judge the name as the configuration holds it (the YAML layer may have altered
			// bytes that are not valid UTF-8)
			if len(c.Paths) != 1 {
				harness("configuration with path %q loaded with %d paths", n, len(c.Paths))
			}
			for k := range c.Paths {
				n = k
			}
		}
		outs[i] = out{n, err == nil}
	})
	for _, o := range outs {
		if o.name == "" && !o.accepted {
			// includes skipped entries and the empty name
		}
		if !o.accepted {
			if o.name != "" {
				res.count("static_conf_name_refused", 1)
			}
			continue
		}
		res.Evals++
		res.count("static_conf_name_accepted", 1)
		reason := invalidReason(o.name)
		if reason != "" {
			res.violate("static-conf-name-accepted:"+reason, fmt.Sprintf("a configuration with static path name %s is accepted although the name is invalid (%s)", short(o.name), reason),
				map[string]any{"function": "conf.Load", "pathName": o.name})
		}
		res.dist("static-conf|accepted|" + nameShape(o.name))
	}
	res.finish()
	return res
}

// nameShape abstracts a valid-looking name for the distinct-class rule.
func nameShape(n string) string {
	var sb strings.Builder
	for _, c := range n {
		switch {
		case c == '/' || c == '.' || c == '_' || c == '-' || c == '~' || c == '%':
			sb.WriteRune(c)
		case c >= 'a' && c <= 'z' || c >= 'A' && c <= 'Z' || c >= '0' && c <= '9':
			sb.WriteByte('x')
		default:
			sb.WriteByte('?')
		}
	}
	return sb.String()
}
